(* C05, family min/max -> clip (_min_max_to_clip.py): statements only. *)
From Coq Require Import ZArith List Bool.
Require Import OV.Rules.BShape OV.Rules.MinMax OV.Rules.MinMaxProofs.
Import ListNotations.
Open Scope Z_scope.

(* every one of the four rules: whenever it fires the replacement equals the pattern for all x and all constants
   (any number of constant operands per node, lb <= ub side condition of Max(Min(x,ub),lb) included) *)
Theorem C05_minmax_value_sound : forall k cs ds x,
  fired (rule k cs ds) = true -> rhs (rule k cs ds) x = Some (lhs k cs ds x).
Proof. exact minmax_sound. Qed.
Print Assumptions C05_minmax_value_sound.

(* the same for the variant that first reshapes every bound to 0-d (what the proposed fix does instead of raising) *)
Theorem C05_minmax_value_sound_gen : forall stack k cs ds x,
  fired (rule_gen stack k cs ds) = true -> rhs (rule_gen stack k cs ds) x = Some (lhs k cs ds x).
Proof. exact minmax_sound_gen. Qed.
Print Assumptions C05_minmax_value_sound_gen.

Theorem C05_minmax_bound_order_needed_refuted : exists cs ds x,
  rhs (rule_minmax_unchecked cs ds) x <> Some (lhs MinMaxClip cs ds x).
Proof. exact minmax_unchecked_refuted. Qed.
Print Assumptions C05_minmax_bound_order_needed_refuted.

Theorem C05_minmax_bound_order_iff : forall ub lb,
  (forall x, rhs (rule_minmax_unchecked [([], ub)] [([], lb)]) x = Some (lhs MinMaxClip [([], ub)] [([], lb)] x)) <-> lb <= ub.
Proof. exact minmax_unchecked_iff. Qed.
Print Assumptions C05_minmax_bound_order_iff.

(* result shape: sound if every bound is all-ones of rank <= rank x (the side condition of the proposed fix) *)
Theorem C05_minmax_clip_shape_sound : forall xs cs ds,
  scalars_fit xs (cs ++ ds) = true -> lhs_shape xs cs ds = clip_shape xs.
Proof. exact clip_shape_sound. Qed.
Print Assumptions C05_minmax_clip_shape_sound.

(* the shipped check (np.size == 1 only) lets the output rank change: finding C05:minmax:clip-bound-rank-exceeds-input-rank *)
Theorem C05_minmax_clip_shape_refuted : exists xs cs ds,
  scalars (cs ++ ds) = true /\ fired (rule MaxMinClip cs ds) = true /\ lhs_shape xs cs ds <> clip_shape xs.
Proof. exact clip_shape_refuted. Qed.
Print Assumptions C05_minmax_clip_shape_refuted.

(* a node without constant operand makes numpy raise inside the rule: finding C05:minmax:raises:no-constant-operand *)
Theorem C05_minmax_no_constants_raises : forall k, rule k [] [] = Raises.
Proof. exact no_constants_raises. Qed.
Print Assumptions C05_minmax_no_constants_raises.

(* bounds of different shapes on one node make np.max([...]) raise: finding C05:minmax:raises:mixed-shape-bounds *)
Theorem C05_minmax_mixed_shape_bounds_raise : rule MaxMinClip [([], 1); ([1], 2)] [([], 5)] = Raises.
Proof. exact mixed_shape_bounds_raise. Qed.
Print Assumptions C05_minmax_mixed_shape_bounds_raise.
