(* C05: the regenerated table of matched constants (Gen/C05Consts.v) against the theory of Rules/XNoOpProofs.v. *)
From Coq Require Import ZArith QArith Qabs List Bool String Lia Lqa.
Require Import OV.Rules.XNoOp OV.Rules.XNoOpProofs OV.Gen.C05Consts.
Import ListNotations.
Local Open Scope Q_scope.

(* every constant a shipped rule matches is matched with tolerance 0, or is an integer operand with a tolerance that
   cannot confuse two integers, or is one of the two listed numpy.isclose tests of HardSwishFusionFromHardSigmoid *)
Lemma table_checked : forallb (fun e => ce_ok e || ce_listed e) table = true.
Proof. vm_compute. reflexivity. Qed.

Theorem table_sound : forall e, In e table -> ce_listed e = false ->
  (ce_exact e = true /\ forall c, ce_matches e c = true -> exists q, c = QFin q /\ q == ce_value e) \/
  (ce_int_ok e = true /\ forall z, ce_matches e (QFin (inject_Z z)) = true -> inject_Z z == ce_value e).
Proof.
  intros e Hin Hl. pose proof (proj1 (forallb_forall _ _) table_checked e Hin) as H. cbv beta in H.
  rewrite Hl, orb_false_r in H. unfold ce_ok in H. apply orb_true_iff in H as [H|H].
  - left. split; [exact H|]. intros c Hc. eapply exact_entry_matches_only_its_value; eassumption.
  - right. split; [exact H|]. intros z Hz. eapply int_entry_matches_only_its_value; eassumption.
Qed.

(* non-vacuity: the table contains the six no-op constants, both Pow exponents and the four HardSwish constants *)
Lemma table_has_the_float_constants :
  (6 <=? List.length (filter (fun e => match ce_kind e with KPattern => ce_exact e | _ => false end) table))%nat = true /\
  (4 <=? List.length (filter (fun e => match ce_kind e with KSingleton => ce_exact e | _ => false end) table))%nat = true.
Proof. vm_compute. split; reflexivity. Qed.

(* numpy.isclose with its default tolerances accepts values that are not the target (1/6 + 1e-6) *)
Lemma numpy_default_tolerance_refuted : exists c,
  np_isclose c (1 # 6) (1 # 100000) (1 # 100000000) = true /\ ~ c == 1 # 6.
Proof. exists ((1 # 6) + (1 # 1000000)). split; [vm_compute; reflexivity|]. intro H. vm_compute in H. discriminate H. Qed.
