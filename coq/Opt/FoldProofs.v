(* Soundness of the constant folder model (Opt/Fold.v) for arbitrary kernel semantics (C03, C04).
   Part 1: invariants and the per-decision step lemmas. *)
From Coq Require Import List String ZArith Bool Lia.
Require Import OV.Graph.Syntax OV.Graph.Sem OV.Graph.Names OV.Graph.SemProofs OV.Gen.FoldTables OV.Opt.Fold OV.Opt.SemLemmas.
Import ListNotations.
Local Open Scope list_scope.

(* ---- the order of tests found in the source is the order the model implements (re-proved on every run) *)
Definition modelled_order : list string :=
  (app ("subst-inputs" :: (if skips_reference_attributes then ["reference-attribute"] else []))
   ["constant-value"; "shape-inference"; "opset-import"; "partial-evaluators"; "constant-keep";
    "control-flow"; "non-deterministic"; "graph-input"; "all-inputs-constant"; "should-fold"; "black-list";
    "input-size"; "always-fold"; "reference-evaluator"; "function-constant"; "initializer"; "register-initializer"])%string.
Lemma process_node_order_is_modelled : process_node_order = modelled_order.
Proof. reflexivity. Qed.
Definition modelled_returns : nat := if skips_reference_attributes then 20 else 19.
Lemma process_node_exits_are_modelled : process_node_returns = modelled_returns /\ process_node_raises = 1.
Proof. split; reflexivity. Qed.
(* every registered evaluator lives in the default domain and is one the model knows *)
Definition modelled_evaluators : list string :=
  ["Add"; "Abs"; "Gather"; "Reshape"; "Squeeze"; "Cast"; "CastLike"; "Shape"; "Size"; "If"; "Identity";
   "SequenceConstruct"; "Concat"; "Dropout"; "Expand"; "ConcatFromSequence"; "SplitToSequence"; "SequenceAt"]%string.
Lemma registry_is_modelled :
  forallb (fun e => let '(d, o, _, _) := e in String.eqb d "" && mem o modelled_evaluators) registry = true.
Proof. reflexivity. Qed.

(* ---- generic list / assoc facts *)
Lemma mem_In x l : mem x l = true <-> In x l.
Proof.
  unfold mem. rewrite existsb_exists. split.
  - intros [y [Hy E]]. apply String.eqb_eq in E. subst. exact Hy.
  - intro H. exists x. split; [exact H|apply String.eqb_refl].
Qed.
Lemma mem_false x l : mem x l = false <-> ~ In x l.
Proof. rewrite <- mem_In. destruct (mem x l); split; intro H; try discriminate; try reflexivity; exfalso; apply H; reflexivity. Qed.

Lemma disjointb_spec a b : disjointb a b = true -> forall x, In x a -> ~ In x b.
Proof.
  unfold disjointb. rewrite forallb_forall. intros H x Hx Hb. specialize (H x Hx).
  apply mem_In in Hb. rewrite Hb in H. discriminate.
Qed.

Lemma assoc_upd_eq {A} k (v : A) l : assoc k (upd k v l) = Some v.
Proof. unfold upd. cbn. rewrite String.eqb_refl. reflexivity. Qed.
Lemma assoc_upd_neq {A} k k' (v : A) l : k <> k' -> assoc k (upd k' v l) = assoc k l.
Proof. intro H. unfold upd. cbn. destruct (String.eqb k k') eqn:E; [apply String.eqb_eq in E; contradiction|reflexivity]. Qed.
Lemma assoc_In {A} k (v : A) l : assoc k l = Some v -> In k (map fst l).
Proof.
  induction l as [|[x w] t IH]; cbn; [discriminate|].
  destruct (String.eqb k x) eqn:E; [apply String.eqb_eq in E; subst; auto|auto].
Qed.
Lemma assoc_In_pair {A} k (v : A) l : assoc k l = Some v -> In (k, v) l.
Proof.
  induction l as [|[x w] t IH]; cbn; [discriminate|].
  destruct (String.eqb k x) eqn:E.
  - apply String.eqb_eq in E. subst. intro H; inversion H; subst. left; reflexivity.
  - intro H. right. exact (IH H).
Qed.

Section P.
  Variable V : Type.
  Variable sem : string -> string -> list (string * attrv) -> list (option V) -> option (list V).
  Variable truth : V -> option bool.
  Variable trip : V -> option nat.
  Variable of_nat : nat -> V.
  Variable of_bool : bool -> V.
  Variable limit : nat.

  Variable ref_eval : string -> string -> list (string * attrv) -> list (option V) -> option (list V).
  Variable const_val : list (string * attrv) -> option V.
  Variable attr_of_val : V -> attrv.
  Variable v_dtype : V -> Z.
  Variable v_dims : V -> list Z.
  Variable v_ints : V -> option (list Z).
  Variable v_tensor : V -> bool.

  (* the oracles: the reference evaluator used for folding agrees with the runtime kernels; Constant and Identity
     kernels; the truth value of a boolean scalar as the folder reads it *)
  Hypothesis ref_agrees : forall dom op attrs xs ys, ref_eval dom op attrs xs = Some ys -> sem dom op attrs xs = Some ys.
  Hypothesis const_agrees : forall attrs c vs, const_val attrs = Some c -> sem "" "Constant" attrs vs = Some [c].
  Hypothesis attr_agrees : forall v, const_val [("value"%string, attr_of_val v)] = Some v.
  Hypothesis sem_identity : forall attrs v, sem "" "Identity" attrs [Some v] = Some [v].
  Hypothesis truth_agrees : forall v b, v_ints v = Some [b] -> v_dtype v = DT_BOOL -> truth v = Some (negb (Z.eqb b 0)).

  Notation env := (list (vname * V)).
  Notation eval_node := (eval_node V sem truth trip of_nat of_bool limit).
  Notation run := (run V sem truth trip of_nat of_bool limit).
  Notation eval_body := (eval_body V sem truth trip of_nat of_bool limit).
  Notation eval_graph := (eval_graph V sem truth trip of_nat of_bool limit).
  Notation sub_env := (sub_env V).
  Notation state := (Fold.state V).

  (* ---- invariants *)
  (* a recorded constant is trusted only for values whose const_value the folder may read (not in s_guard: with the
     guard of _get_numpy_value in the source these are exactly the values that are not graph inputs) *)
  Definition inv (st : state) (e : env) : Prop :=
    (forall x c v, assoc x (s_const V st) = Some c -> mem x (s_guard V st) = false -> lookup e x = Some v -> v = c) /\
    (forall y x v, sym_val V st y = Some x -> lookup e y = Some v -> lookup e x = Some v).
  Definition dom_ok (e : env) (bound : list vname) : Prop := forall x v, lookup e x = Some v -> In x bound.
  (* same recorded facts (what `inv` reads) *)
  Definition facts_eq (st st' : state) : Prop :=
    (forall x, assoc x (s_const V st') = assoc x (s_const V st)) /\ (forall x, sym_val V st' x = sym_val V st x) /\
    s_guard V st' = s_guard V st.
  (* facts unchanged outside X *)
  Definition ext (st st' : state) (X : list vname) : Prop :=
    s_guard V st' = s_guard V st /\
    forall x, ~ In x X -> assoc x (s_const V st') = assoc x (s_const V st) /\ sym_val V st' x = sym_val V st x.

  Lemma facts_eq_refl st : facts_eq st st.
  Proof. repeat split; auto. Qed.
  Lemma facts_eq_trans a b c : facts_eq a b -> facts_eq b c -> facts_eq a c.
  Proof.
    intros (A1 & A2 & A3) (B1 & B2 & B3). split; [|split]; [intro x; rewrite B1; apply A1|intro x; rewrite B2; apply A2|congruence].
  Qed.
  Lemma facts_eq_inv st st' e : facts_eq st st' -> inv st e -> inv st' e.
  Proof.
    intros (C & S & G) [I1 I2]. split.
    - intros x c v H. rewrite C in H. rewrite G. eauto.
    - intros y x v H. rewrite S in H. eauto.
  Qed.
  Lemma facts_eq_ext st st' X : facts_eq st st' -> ext st st' X.
  Proof. intros (C & S & G). split; [exact G|]. intros x _. auto. Qed.
  Lemma ext_trans a b c X Y : ext a b X -> ext b c Y -> ext a c (X ++ Y).
  Proof.
    intros [GA A] [GB B]. split; [congruence|]. intros x Hx. destruct (A x) as [A1 A2]; [intro H; apply Hx, in_or_app; auto|].
    destruct (B x) as [B1 B2]; [intro H; apply Hx, in_or_app; auto|]. split; congruence.
  Qed.
  Lemma ext_weaken a b X Y : ext a b X -> incl X Y -> ext a b Y.
  Proof. intros [G A] I. split; [exact G|]. intros x Hx. apply A. intro H. apply Hx, I, H. Qed.

  Lemma dom_ok_weaken e b b' : dom_ok e b -> incl b b' -> dom_ok e b'.
  Proof. intros D I x v H. apply I. eapply D; eauto. Qed.

  (* facts mention names of fnames *)
  Lemma const_fname st x c : assoc x (s_const V st) = Some c -> In x (fnames V st).
  Proof. intro H. unfold fnames. apply in_or_app. left. eapply assoc_In; eauto. Qed.
  Lemma sym_fname st y x : sym_val V st y = Some x -> In y (fnames V st) /\ In x (fnames V st).
  Proof.
    unfold sym_val. destruct (assoc y (s_sym V st)) as [[t| |]|] eqn:A; try discriminate.
    intro H; inversion H; subst. apply assoc_In_pair in A.
    assert (In y (flat_map (fun kv : vname * symv => match snd kv with SVal x0 => [fst kv; x0] | _ => [] end) (s_sym V st))
            /\ In x (flat_map (fun kv : vname * symv => match snd kv with SVal x0 => [fst kv; x0] | _ => [] end) (s_sym V st))) as [H1 H2].
    { split; apply in_flat_map; exists (y, SVal x); split; auto; cbn; auto. }
    unfold fnames. split; apply in_or_app; right; assumption.
  Qed.

  (* binding names the facts do not mention keeps the invariant *)
  Lemma lookup_bind_notin (outs : list vname) vs (e a : env) x : bind outs vs e = Some a -> ~ In x outs -> lookup a x = lookup e x.
  Proof.
    revert vs a. induction outs as [|o t IH]; intros [|v vt] a; cbn; try discriminate.
    - intros H _; inversion H; reflexivity.
    - destruct (bind t vt e) as [r|] eqn:B; cbn; [|discriminate]. intros H N; inversion H; subst. cbn.
      destruct (String.eqb x o) eqn:E; [apply String.eqb_eq in E; subst; exfalso; apply N; left; reflexivity|].
      apply (IH vt r B). intro Hin. apply N. right. exact Hin.
  Qed.
  Lemma lookup_bind_in (outs : list vname) vs (e a : env) x v : bind outs vs e = Some a -> lookup a x = Some v -> In x outs \/ lookup e x = Some v.
  Proof.
    intros B L. destruct (in_dec string_dec x outs) as [i|n]; [left; exact i|right].
    rewrite <- (lookup_bind_notin outs vs e a x B n). exact L.
  Qed.

  Lemma inv_bind st e outs vs a : inv st e -> disjointb outs (fnames V st) = true -> bind outs vs e = Some a -> inv st a.
  Proof.
    intros [I1 I2] D B. pose proof (disjointb_spec _ _ D) as Dj. split.
    - intros x c v H G L. rewrite (lookup_bind_notin outs vs e a x B) in L; [eauto|].
      intro Hin. exact (Dj x Hin (const_fname st x c H)).
    - intros y x v H L. destruct (sym_fname st y x H) as [Fy Fx].
      rewrite (lookup_bind_notin outs vs e a y B) in L by (intro Hin; exact (Dj y Hin Fy)).
      rewrite (lookup_bind_notin outs vs e a x B) by (intro Hin; exact (Dj x Hin Fx)). eauto.
  Qed.

  Lemma dom_ok_bind e bound outs vs a : dom_ok e bound -> bind outs vs e = Some a -> dom_ok a (outs ++ bound).
  Proof.
    intros D B x v L. apply in_or_app. destruct (lookup_bind_in outs vs e a x v B L) as [H|H]; [left; exact H|right; eapply D; eauto].
  Qed.

  (* ---- state updates that do not touch the facts *)
  Lemma fold_left_facts {A} (f : state -> A -> state) l : (forall s a, facts_eq s (f s a)) -> forall st, facts_eq st (fold_left f l st).
  Proof.
    intros H. induction l as [|a t IH]; intro st; cbn; [apply facts_eq_refl|].
    eapply facts_eq_trans; [apply H|apply IH].
  Qed.
  Lemma facts_set_uses st u : facts_eq st (set_uses V st u).
  Proof. repeat split; reflexivity. Qed.
  Lemma facts_add_use st x c : facts_eq st (add_use V st x c).
  Proof. apply facts_set_uses. Qed.
  Lemma facts_del_use st x c : facts_eq st (del_use V st x c).
  Proof. apply facts_set_uses. Qed.
  Lemma facts_subst_uses st n : facts_eq st (subst_uses V st n).
  Proof.
    unfold subst_uses.
    apply (fold_left_facts (fun s x => match sym_val V st x with
                                       | Some y => add_use V (del_use V s x (node_id n)) y (node_id n)
                                       | None => s end)).
    intros s x. destruct (sym_val V st x); [|apply facts_eq_refl].
    eapply facts_eq_trans; [apply facts_del_use|apply facts_add_use].
  Qed.
  Lemma facts_del_node_uses st n : facts_eq st (del_node_uses V st n).
  Proof. unfold del_node_uses. apply fold_left_facts. intros; apply facts_del_use. Qed.
  Lemma facts_add_node_uses st n : facts_eq st (add_node_uses V st n).
  Proof. unfold add_node_uses. apply fold_left_facts. intros; apply facts_add_use. Qed.
  Lemma facts_add_nodes_uses news st : facts_eq st (fold_left (add_node_uses V) news st).
  Proof. apply fold_left_facts. intros; apply facts_add_node_uses. Qed.
  Lemma facts_set_inits st l : facts_eq st (set_inits V st l).
  Proof. repeat split; reflexivity. Qed.
  Lemma facts_clear cfg st c : facts_eq st (clear_unused_initializers V cfg st c).
  Proof. apply facts_set_inits. Qed.
  Lemma facts_register st l : facts_eq st (register_inits V st l).
  Proof. apply facts_set_inits. Qed.
  Lemma facts_set_dtype st x d : facts_eq st (set_dtype V st x d).
  Proof. repeat split; reflexivity. Qed.
  Lemma facts_set_shape st x d : facts_eq st (set_shape V st x d).
  Proof. repeat split; reflexivity. Qed.
  Lemma facts_set_dtype_if st x d : facts_eq st (set_dtype_if_absent V st x d).
  Proof. unfold set_dtype_if_absent. destruct (assoc x (s_dtype V st)); [apply facts_eq_refl|apply facts_set_dtype]. Qed.
  Lemma facts_set_shape_if st x d : facts_eq st (set_shape_if_absent V st x d).
  Proof. unfold set_shape_if_absent. destruct (assoc x (s_shape V st)); [apply facts_eq_refl|apply facts_set_shape]. Qed.

  (* ---- the decision procedure *)
  Variable pe : state -> node -> pe_out V.
  Variable cfg : config.

  Notation generic_fold := (Fold.generic_fold V ref_eval v_dims v_tensor cfg).
  Notation decide := (Fold.decide V ref_eval v_dtype v_dims v_ints v_tensor pe cfg).
  Notation note_constant := (Fold.note_constant V const_val v_dtype v_dims).
  Notation constant_value := (Fold.constant_value V const_val).
  Notation pe_if := (Fold.pe_if V v_dtype v_dims v_ints).
  Notation bool_value := (Fold.bool_value V v_dtype v_dims v_ints).

  (* what is assumed of the op-specific partial evaluators: they do not touch the recorded constants / value
     equalities, and a replacement refines the node wherever the recorded facts hold *)
  Definition pe_ok : Prop := forall st n,
    match pe st n with
    | PNone _ st' => facts_eq st st'
    | PRepl _ st' R => facts_eq st st' /\
        forall F e a, inv st e -> eval_node (eval_graph F) e n = Some a ->
                      exists b, run (eval_graph F) e R = Some b /\ sub_env a b
    | _ => True
    end.

  Definition all_const (st : state) (n : node) : Prop :=
    forall x, In x (present (n_ins n)) -> exists c, assoc x (s_const V st) = Some c.

  Lemma generic_fold_cases isf st n :
    (exists r, generic_fold isf st n = DKeep V r st) \/
    (exists y v, (generic_fold isf st n = DFoldInit V st y v \/ generic_fold isf st n = DFoldConst V st y v) /\
        is_onnx n "Constant" = false /\ is_control_flow n = false /\ all_const st n /\
        (forall x, In x (present (n_ins n)) -> ~ In x (c_graph_inputs cfg)) /\
        n_outs n = [y] /\ ref_eval (n_dom n) (n_op n) (n_attrs n) (map (get_const V st) (n_ins n)) = Some [v]).
  Proof.
    unfold Fold.generic_fold.
    destruct (is_onnx n "Constant") eqn:E1; [left; eexists; reflexivity|].
    destruct (is_control_flow n) eqn:E2; [left; eexists; reflexivity|].
    destruct (is_non_det n); [left; eexists; reflexivity|].
    destruct (existsb (fun x => mem x (c_graph_inputs cfg)) (present (n_ins n))) eqn:E4; [left; eexists; reflexivity|].
    match goal with |- context [if existsb ?f (present (n_ins n)) then DKeep V RNonConst st else _] =>
      destruct (existsb f (present (n_ins n))) eqn:E5 end; [left; eexists; reflexivity|].
    cbv zeta.
    match goal with |- context [match ?g with Some r => DKeep V r st | None => _ end] => destruct g end;
      [left; eexists; reflexivity|].
    destruct (ref_eval (n_dom n) (n_op n) (n_attrs n) (map (get_const V st) (n_ins n))) as [outs|] eqn:ER;
      [|left; eexists; reflexivity].
    destruct (n_outs n) as [|y [|? ?]] eqn:EO; try (left; eexists; reflexivity).
    destruct outs as [|v [|? ?]]; try (left; eexists; reflexivity).
    destruct (negb (v_tensor v)); [left; eexists; reflexivity|].
    match goal with |- context [if ?c then DKeep V RLargeOutput st else _] => destruct c end; [left; eexists; reflexivity|].
    assert (AC : all_const st n).
    { intros x Hx. destruct (assoc x (s_const V st)) as [c|] eqn:A; [eauto|].
      assert (existsb (fun x0 => match assoc x0 (s_const V st) with Some _ => false | None => true end) (present (n_ins n)) = true)
        by (apply existsb_exists; exists x; rewrite A; auto). congruence. }
    assert (NG : forall x, In x (present (n_ins n)) -> ~ In x (c_graph_inputs cfg)).
    { intros x Hx Hg. assert (existsb (fun x0 => mem x0 (c_graph_inputs cfg)) (present (n_ins n)) = true)
        by (apply existsb_exists; exists x; split; [exact Hx|apply mem_In; exact Hg]). congruence. }
    right. exists y, v. destruct isf; repeat split; auto.
  Qed.

  Lemma registered_dom d o v : registered d o v = true -> d = ""%string.
  Proof.
    unfold registered. rewrite existsb_exists. intros [[[[d' o'] lo] hi] [Hin H]].
    pose proof registry_is_modelled as R. rewrite forallb_forall in R. specialize (R _ Hin). cbn in R.
    apply andb_prop in R. destruct R as [R _]. apply String.eqb_eq in R. subst d'.
    repeat (apply andb_prop in H; destruct H as [H ?]). apply String.eqb_eq in H. auto.
  Qed.
  Lemma constant_not_registered v : registered "" "Constant" v = false.
  Proof. reflexivity. Qed.

  Lemma is_onnx_spec n op : is_onnx n op = true -> n_dom n = ""%string /\ n_op n = op.
  Proof. unfold is_onnx. intro H. apply andb_prop in H. destruct H as [A B]. apply String.eqb_eq in A, B. auto. Qed.

  (* the Identity evaluator records  output = input  and nothing else that `inv` reads *)
  Lemma pe_identity_facts st n :
    facts_eq st (pe_identity V st n) \/
    (exists x y, in_at n 0 = Some x /\ out0 n = Some y /\ s_guard V (pe_identity V st n) = s_guard V st /\
                 (forall z, assoc z (s_const V (pe_identity V st n)) = assoc z (s_const V st)) /\
                 sym_val V (pe_identity V st n) y = Some x /\
                 forall y', y' <> y -> sym_val V (pe_identity V st n) y' = sym_val V st y').
  Proof.
    destruct (in_at n 0) as [x|] eqn:Ix; [|left; unfold pe_identity; rewrite Ix; apply facts_eq_refl].
    destruct (out0 n) as [y|] eqn:Oy; [|left; unfold pe_identity; rewrite Ix, Oy; apply facts_eq_refl].
    right. exists x, y.
    assert (Fr : exists t, pe_identity V st n = set_sym V t y (SVal x) /\
                          s_const V t = s_const V st /\ s_sym V t = s_sym V st /\ s_guard V t = s_guard V st).
    { unfold pe_identity. rewrite Ix, Oy. eexists. split; [reflexivity|].
      repeat match goal with
             | |- context [match ?c with _ => _ end] => destruct c
             | |- context [if ?c then _ else _] => destruct c
             end; cbn; auto. }
    destruct Fr as (t & Ep & Fc & Fs & Fg). rewrite Ep.
    split; [reflexivity|]. split; [reflexivity|]. split; [cbn; exact Fg|]. split; [intro z; cbn; rewrite Fc; reflexivity|].
    split.
    - unfold sym_val, set_sym. cbn. rewrite String.eqb_refl. reflexivity.
    - intros y' Hy. unfold sym_val, set_sym. cbn.
      destruct (String.eqb y' y) eqn:E; [apply String.eqb_eq in E; contradiction|]. rewrite Fs. reflexivity.
  Qed.

  Inductive keep_state (st : state) (n : node) (st2 : state) : Prop :=
  | KSame : facts_eq st st2 -> keep_state st n st2
  | KIdentity : n_op n = "Identity"%string -> n_dom n = ""%string -> st2 = pe_identity V st n -> keep_state st n st2.

  Lemma decide_keep (Hpe : pe_ok) isf st n r st2 : decide isf st n = DKeep V r st2 -> keep_state st n st2.
  Proof.
    unfold Fold.decide, Fold.decide_variant.
    destruct (skips_reference_attributes && has_ref_attr n); [intro H; inversion H; subst; apply KSame, facts_eq_refl|].
    destruct (assoc (n_dom n) (c_opsets cfg)) as [ver|]; [|intro H; inversion H; subst; apply KSame, facts_eq_refl].
    destruct (registered (n_dom n) (n_op n) ver) eqn:R.
    - pose proof (registered_dom _ _ _ R) as D.
      destruct (String.eqb (n_op n) "Identity") eqn:EI.
      + apply String.eqb_eq in EI. intro H.
        destruct (generic_fold_cases isf (pe_identity V st n) n) as [[r' G]|[y [v [[G|G] _]]]]; rewrite G in H; inversion H; subst.
        apply KIdentity; auto.
      + destruct (String.eqb (n_op n) "If").
        * destruct (pe_if st n); try discriminate;
            intro H; destruct (generic_fold_cases isf st n) as [[r' G]|[y [v [[G|G] _]]]]; rewrite G in H; inversion H; subst;
            apply KSame, facts_eq_refl.
        * pose proof (Hpe st n) as P. destruct (pe st n) as [st1|st1 R'|? ? ?| |]; try discriminate.
          -- intro H. destruct (generic_fold_cases isf st1 n) as [[r' G]|[y [v [[G|G] _]]]]; rewrite G in H; inversion H; subst.
             apply KSame. exact P.
          -- intro H; inversion H; subst; apply KSame, facts_eq_refl.
          -- intro H; inversion H; subst; apply KSame, facts_eq_refl.
    - intro H. destruct (generic_fold_cases isf st n) as [[r' G]|[y [v [[G|G] _]]]]; rewrite G in H; inversion H; subst.
      apply KSame, facts_eq_refl.
  Qed.

  Definition fold_conditions (st : state) (n : node) (y : vname) (v : V) : Prop :=
    is_onnx n "Constant" = false /\ is_control_flow n = false /\ all_const st n /\
    (forall x, In x (present (n_ins n)) -> ~ In x (c_graph_inputs cfg)) /\
    n_outs n = [y] /\ ref_eval (n_dom n) (n_op n) (n_attrs n) (map (get_const V st) (n_ins n)) = Some [v].

  Lemma fold_conditions_facts st st' n y v :
    (forall x, assoc x (s_const V st') = assoc x (s_const V st)) -> fold_conditions st' n y v -> fold_conditions st n y v.
  Proof.
    intros C (A & B & D & NG & E & F). unfold fold_conditions, all_const in *. repeat split; auto.
    - intros x Hx. rewrite <- C. auto.
    - rewrite <- F. f_equal. apply map_ext. intros [x|]; cbn; [symmetry; apply C|reflexivity].
  Qed.

  Lemma decide_fold (Hpe : pe_ok) isf st n ste y v :
    decide isf st n = DFoldInit V ste y v \/ decide isf st n = DFoldConst V ste y v -> fold_conditions st n y v /\ keep_state st n ste.
  Proof.
    unfold Fold.decide, Fold.decide_variant.
    destruct (skips_reference_attributes && has_ref_attr n); [intros [H|H]; discriminate|].
    destruct (assoc (n_dom n) (c_opsets cfg)) as [ver|]; [|intros [H|H]; discriminate].
    assert (G : forall st', (forall x, assoc x (s_const V st') = assoc x (s_const V st)) ->
                generic_fold isf st' n = DFoldInit V ste y v \/ generic_fold isf st' n = DFoldConst V ste y v ->
                fold_conditions st n y v /\ ste = st').
    { intros st' C H.
      destruct (generic_fold_cases isf st' n) as [[r' G]|[y' [v' [G Cnd]]]].
      - rewrite G in H. destruct H; discriminate.
      - assert (y' = y /\ v' = v /\ ste = st') as (-> & -> & ->) by (destruct G as [G|G], H as [H|H]; rewrite G in H; inversion H; auto).
        split; [|reflexivity]. apply (fold_conditions_facts st st'); [exact C|exact Cnd]. }
    destruct (registered (n_dom n) (n_op n) ver) eqn:Rg.
    - pose proof (registered_dom _ _ _ Rg) as D.
      destruct (String.eqb (n_op n) "Identity") eqn:EI.
      + apply String.eqb_eq in EI. intro H. destruct (G (pe_identity V st n)) as [FC ->]; [|exact H|].
        * destruct (pe_identity_facts st n) as [[C _]|(x & y0 & _ & _ & _ & C & _)]; exact C.
        * split; [exact FC|]. apply KIdentity; auto.
      + destruct (String.eqb (n_op n) "If").
        * destruct (pe_if st n); try (intro H; destruct (G st (fun _ => eq_refl) H) as [FC ->]; split; [exact FC|apply KSame, facts_eq_refl]).
          intros [H|H]; discriminate.
        * pose proof (Hpe st n) as P. destruct (pe st n) as [st1|st1 R'|? ? ?| |]; try (intros [H|H]; discriminate).
          intro H. destruct (G st1 (proj1 P) H) as [FC ->]. split; [exact FC|apply KSame; exact P].
    - intro H. destruct (G st (fun _ => eq_refl) H) as [FC ->]. split; [exact FC|apply KSame, facts_eq_refl].
  Qed.

  (* after a fold the fresh value named y has no symbolic value: with the recorded facts silent about y before, the
     state handed on by the evaluators carries the same facts as the state before them *)
  Lemma sym_val_drop_same st y : sym_val V (drop_sym V st y) y = None.
  Proof.
    unfold sym_val, drop_sym. cbn [s_sym]. induction (s_sym V st) as [|[k w] t IH]; cbn; [reflexivity|].
    destruct (String.eqb y k) eqn:E; [exact IH|]. cbn. rewrite E. exact IH.
  Qed.
  Lemma sym_val_drop_other st y z : z <> y -> sym_val V (drop_sym V st y) z = sym_val V st z.
  Proof.
    intro N. unfold sym_val, drop_sym. cbn [s_sym]. induction (s_sym V st) as [|[k w] t IH]; cbn; [reflexivity|].
    destruct (String.eqb y k) eqn:E.
    - apply String.eqb_eq in E. subst k. destruct (String.eqb z y) eqn:E2; [apply String.eqb_eq in E2; contradiction|exact IH].
    - cbn. destruct (String.eqb z k); [reflexivity|exact IH].
  Qed.
  Lemma keep_state_drop st n ste y : keep_state st n ste -> n_outs n = [y] -> sym_val V st y = None ->
    facts_eq st (drop_sym V ste y).
  Proof.
    intros KS O Sy.
    assert (K : s_guard V ste = s_guard V st /\ (forall z, assoc z (s_const V ste) = assoc z (s_const V st)) /\
                forall z, z <> y -> sym_val V ste z = sym_val V st z).
    { destruct KS as [(C & S & G)|Op Dm ->]; [repeat split; auto|].
      destruct (pe_identity_facts st n) as [(C & S & G)|(x & y' & Ix & Oy & Gd & C & S1 & S2)]; [repeat split; auto|].
      unfold out0 in Oy. rewrite O in Oy. inversion Oy; subst y'. repeat split; auto. }
    destruct K as (G & C & S). split; [|split].
    - intro x. cbn. apply C.
    - intro x. destruct (string_dec x y) as [->|N]; [rewrite sym_val_drop_same; symmetry; exact Sy|].
      rewrite sym_val_drop_other by exact N. apply S. exact N.
    - cbn. exact G.
  Qed.
  Lemma not_fname_sym st y : ~ In y (fnames V st) -> sym_val V st y = None.
  Proof. intro N. destruct (sym_val V st y) as [x|] eqn:S; [|reflexivity]. exfalso. apply N. exact (proj1 (sym_fname st y x S)). Qed.

  Lemma decide_nodes isf st n st2 R : decide isf st n = DNodes V st2 R -> pe st n = PRepl V st2 R.
  Proof.
    unfold Fold.decide, Fold.decide_variant. destruct (skips_reference_attributes && has_ref_attr n); [discriminate|].
    destruct (assoc (n_dom n) (c_opsets cfg)) as [ver|]; [|discriminate].
    assert (G : forall st', generic_fold isf st' n <> DNodes V st2 R).
    { intros st' H. destruct (generic_fold_cases isf st' n) as [[r' G]|[y' [v' [[G|G] _]]]]; rewrite G in H; discriminate. }
    destruct (registered (n_dom n) (n_op n) ver); [|intro H; exfalso; exact (G _ H)].
    destruct (String.eqb (n_op n) "Identity"); [intro H; exfalso; exact (G _ H)|].
    destruct (String.eqb (n_op n) "If").
    - destruct (pe_if st n); try (intro H; exfalso; exact (G _ H)). discriminate.
    - destruct (pe st n); try discriminate; try (intro H; exfalso; exact (G _ H)).
      intro H; inversion H; reflexivity.
  Qed.

  Lemma decide_inline isf st n st2 R moved : decide isf st n = DInline V st2 R moved ->
    pe_if st n = PInline V st2 R moved /\ n_op n = "If"%string /\ n_dom n = ""%string.
  Proof.
    unfold Fold.decide, Fold.decide_variant. destruct (skips_reference_attributes && has_ref_attr n); [discriminate|].
    destruct (assoc (n_dom n) (c_opsets cfg)) as [ver|]; [|discriminate].
    assert (G : forall st', generic_fold isf st' n <> DInline V st2 R moved).
    { intros st' H. destruct (generic_fold_cases isf st' n) as [[r' G]|[y' [v' [[G|G] _]]]]; rewrite G in H; discriminate. }
    destruct (registered (n_dom n) (n_op n) ver) eqn:Rg; [|intro H; exfalso; exact (G _ H)].
    destruct (String.eqb (n_op n) "Identity"); [intro H; exfalso; exact (G _ H)|].
    destruct (String.eqb (n_op n) "If") eqn:EI.
    - apply String.eqb_eq in EI. destruct (pe_if st n); try (intro H; exfalso; exact (G _ H)).
      intro H; inversion H; subst. repeat split; auto. eapply registered_dom; eauto.
    - destruct (pe st n); try discriminate; intro H; exfalso; exact (G _ H).
  Qed.

  (* a Constant node is always kept *)
  Lemma decide_constant isf st n : is_onnx n "Constant" = true -> exists r, decide isf st n = DKeep V r st.
  Proof.
    intro C. destruct (is_onnx_spec _ _ C) as [D O]. unfold Fold.decide, Fold.decide_variant.
    destruct (skips_reference_attributes && has_ref_attr n); [eexists; reflexivity|]. rewrite D, O.
    destruct (assoc ""%string (c_opsets cfg)); [|eexists; reflexivity].
    rewrite constant_not_registered. unfold Fold.generic_fold. rewrite C. eexists; reflexivity.
  Qed.

  (* ---------------------------------------------------------------- step lemmas *)
  Notation evaluator := (env -> graph -> list V -> option (list V)).

  (* step 1 of process_node: inputs redirected to their symbolic value *)
  Lemma subst_node_sound (ev : evaluator) st e n a : inv st e -> eval_node ev e n = Some a -> eval_node ev e (subst_node V st n) = Some a.
  Proof.
    intros [_ I2] H. destruct n as [dom op ins outs attrs subs].
    set (g := fun x => match sym_val V st x with Some y => y | None => x end).
    destruct (eval_node_refines V sem truth trip of_nat of_bool limit ev ev e e g dom op ins outs attrs subs subs a) as [vals [B [a' [E' B']]]].
    - intros x v L. unfold g. destruct (sym_val V st x) as [y|] eqn:S; [eapply I2; eauto|exact L].
    - intros name sg F. exists sg. auto.
    - exact H.
    - rewrite B in B'. inversion B'; subst a'. cbn [subst_node].
      replace (map (subst_input V st) ins) with (map (option_map g) ins); [exact E'|].
      apply map_ext. intros [x|]; cbn; [|reflexivity]. unfold g. destruct (sym_val V st x); reflexivity.
  Qed.

  Lemma subst_node_fields st n :
    n_dom (subst_node V st n) = n_dom n /\ n_op (subst_node V st n) = n_op n /\ n_outs (subst_node V st n) = n_outs n /\
    n_attrs (subst_node V st n) = n_attrs n /\ n_subs (subst_node V st n) = n_subs n.
  Proof. destruct n; cbn; auto. Qed.

  (* a node without graph attributes is an ordinary kernel application (or fails) *)
  Lemma eval_nosubs (ev : evaluator) e n a : n_subs n = [] -> eval_node ev e n = Some a ->
    exists vs rs, lookup_opts e (n_ins n) = Some vs /\ sem (n_dom n) (n_op n) (n_attrs n) vs = Some rs /\ bind (n_outs n) rs e = Some a.
  Proof.
    destruct n as [dom op ins outs attrs subs]. cbn [n_subs n_ins n_dom n_op n_attrs n_outs]. intros -> H.
    unfold Sem.eval_node in H. destruct (is_if dom op).
    - destruct (lookup_opts e ins) as [[|[c|] [|? ?]]|]; try discriminate.
      destruct (truth c) as [b|]; try discriminate.
    - destruct (is_loop dom op).
      + destruct ins as [|m [|c carried]]; discriminate.
      + destruct (lookup_opts e ins) as [vs|]; [|discriminate].
        destruct (sem dom op attrs vs) as [rs|] eqn:S; [|discriminate]. eauto.
  Qed.

  Lemma consts_lookup st e ins vs : inv st e -> (forall x, In x (present ins) -> exists c, assoc x (s_const V st) = Some c) ->
    (forall x, In x (present ins) -> mem x (s_guard V st) = false) ->
    lookup_opts e ins = Some vs -> vs = map (get_const V st) ins.
  Proof.
    intros [I1 _]. revert vs. induction ins as [|[x|] t IH]; intros vs AC NG; cbn.
    - intro H; inversion H; reflexivity.
    - destruct (lookup e x) as [v|] eqn:L; [|discriminate].
      destruct (lookup_opts e t) as [r|] eqn:R; [|discriminate]. intro H; inversion H; subst.
      destruct (AC x (or_introl eq_refl)) as [c A]. rewrite A. rewrite (I1 x c v A (NG x (or_introl eq_refl)) L).
      f_equal. apply IH; [| |reflexivity]; intros y Hy; [apply AC|apply NG]; right; exact Hy.
    - destruct (lookup_opts e t) as [r|] eqn:R; cbn; [|discriminate]. intro H; inversion H; subst.
      f_equal. apply IH; [exact AC|exact NG|reflexivity].
  Qed.

  Definition const_node (y : vname) (v : V) : node := mk "Constant" [] [y] [("value"%string, attr_of_val v)].

  Lemma eval_const_node (ev : evaluator) e y v : eval_node ev e (const_node y v) = Some ((y, v) :: e).
  Proof.
    unfold const_node, mk, Sem.eval_node. cbn.
    rewrite (const_agrees _ v [] (attr_agrees v)). reflexivity.
  Qed.

  (* replacing a node whose inputs are all known constants by the constant the reference evaluator computed *)
  Lemma fold_step (ev : evaluator) st e n y v a : inv st e -> incl (s_guard V st) (c_graph_inputs cfg) ->
    fold_conditions st n y v -> eval_node ev e n = Some a -> a = (y, v) :: e.
  Proof.
    intros I GI (C1 & C2 & AC & NG & O & R) H.
    assert (NG' : forall x, In x (present (n_ins n)) -> mem x (s_guard V st) = false).
    { intros x Hx. apply mem_false. intro Hg. exact (NG x Hx (GI x Hg)). }
    assert (NS : n_subs n = []) by (unfold is_control_flow in C2; destruct (n_subs n); [reflexivity|discriminate]).
    destruct (eval_nosubs ev e n a NS H) as [vs [rs [L [S B]]]].
    rewrite (consts_lookup st e _ _ I AC NG' L) in S. rewrite (ref_agrees _ _ _ _ _ R) in S. inversion S; subst rs.
    rewrite O in B. cbn in B. inversion B. reflexivity.
  Qed.

  (* facts recorded for a kept Constant / Identity node hold once the node has run *)
  Lemma constant_value_spec n y c : constant_value n = Some (y, c) ->
    n_dom n = ""%string /\ n_op n = "Constant"%string /\ n_outs n = [y] /\ n_subs n = [] /\ const_val (n_attrs n) = Some c.
  Proof.
    unfold Fold.constant_value. destruct (is_onnx n "Constant") eqn:E; [|discriminate].
    destruct (is_onnx_spec _ _ E) as [D O].
    destruct (n_attrs n) as [|[k a] [|? ?]] eqn:A; try discriminate.
    destruct (n_subs n); [|discriminate]. destruct (n_outs n) as [|y' [|? ?]]; try discriminate.
    destruct a; try discriminate;
      (destruct (mem k const_attr_names); [|discriminate]; destruct (const_val [(k, _)]) eqn:CV; [|discriminate];
       cbn; intro H; inversion H; subst; auto).
  Qed.

  Lemma constant_step (ev : evaluator) e n y c a : constant_value n = Some (y, c) -> eval_node ev e n = Some a -> a = (y, c) :: e.
  Proof.
    intros CV H. destruct (constant_value_spec n y c CV) as (D & O & Ou & NS & C).
    destruct (eval_nosubs ev e n a NS H) as [vs [rs [L [S B]]]].
    rewrite D, O, (const_agrees _ c vs C) in S. inversion S; subst rs. rewrite Ou in B. cbn in B. inversion B. reflexivity.
  Qed.

  Lemma identity_step (ev : evaluator) e n x y a : n_dom n = ""%string -> n_op n = "Identity"%string ->
    n_ins n = [Some x] -> n_outs n = [y] -> n_subs n = [] -> eval_node ev e n = Some a ->
    exists v, lookup e x = Some v /\ a = (y, v) :: e.
  Proof.
    intros D O I Ou NS H. destruct (eval_nosubs ev e n a NS H) as [vs [rs [L [S B]]]].
    rewrite I in L. cbn in L. destruct (lookup e x) as [v|] eqn:Lx; [|discriminate]. inversion L; subst vs.
    rewrite D, O, sem_identity in S. inversion S; subst rs. rewrite Ou in B. cbn in B. inversion B. eauto.
  Qed.

  Lemma inv_note_constant (ev : evaluator) st e n a : inv st a -> eval_node ev e n = Some a -> inv (note_constant st n) a.
  Proof.
    intros I H. unfold Fold.note_constant. destruct (constant_value n) as [[y c]|] eqn:CV; [|exact I].
    rewrite (constant_step ev e n y c a CV H) in *.
    eapply facts_eq_inv; [eapply facts_eq_trans; [apply facts_set_shape|apply facts_set_dtype]|].
    destruct I as [I1 I2]. split.
    - intros x c' v A G L. unfold set_const in A. cbn in A. cbn in L.
      destruct (String.eqb x y) eqn:E.
      + inversion A; inversion L; subst; reflexivity.
      + eapply I1; eauto. cbn. rewrite E. exact L.
    - exact I2.
  Qed.

  Lemma note_constant_ext st n : ext st (note_constant st n) (n_outs n).
  Proof.
    unfold Fold.note_constant. destruct (constant_value n) as [[y c]|] eqn:CV; [|apply facts_eq_ext, facts_eq_refl].
    destruct (constant_value_spec n y c CV) as (_ & _ & Ou & _). rewrite Ou.
    split; [reflexivity|]. intros x Hx. split; [|reflexivity]. cbn. destruct (String.eqb x y) eqn:E; [|reflexivity].
    apply String.eqb_eq in E. subst. exfalso. apply Hx. left. reflexivity.
  Qed.

  Lemma note_constant_noconst st n : is_onnx n "Constant" = false -> note_constant st n = st.
  Proof. intro H. unfold Fold.note_constant, Fold.constant_value. rewrite H. reflexivity. Qed.

  (* ---------------------------------------------------------------- more fuel never hurts *)
  Lemma run_ev_mono (ev ev' : evaluator) : (forall e g args r, ev e g args = Some r -> ev' e g args = Some r) ->
    forall ns e a, run ev e ns = Some a -> run ev' e ns = Some a.
  Proof.
    intros M. induction ns as [|n t IH]; intros e a; cbn; [auto|].
    destruct (eval_node ev e n) as [e1|] eqn:E; [|discriminate].
    destruct n as [dom op ins outs attrs subs].
    destruct (eval_node_refines V sem truth trip of_nat of_bool limit ev ev' e e (fun x => x) dom op ins outs attrs subs subs e1)
      as [vals [B [a' [E' B']]]]; auto.
    - intros name sg F. exists sg. split; auto.
    - rewrite B in B'. inversion B'; subst a'. rewrite map_option_id in E'. rewrite E'. apply IH.
  Qed.
  Lemma eval_body_ev_mono (ev ev' : evaluator) : (forall e g args r, ev e g args = Some r -> ev' e g args = Some r) ->
    forall e g args r, eval_body ev e g args = Some r -> eval_body ev' e g args = Some r.
  Proof.
    intros M e g args r. unfold Sem.eval_body. destruct (bind (g_ins g) args e) as [e0|]; [|discriminate].
    destruct (run ev e0 (g_nodes g)) as [e1|] eqn:R; [|discriminate]. rewrite (run_ev_mono ev ev' M _ _ _ R). auto.
  Qed.
  Lemma eval_graph_fuel F : forall e g args r, eval_graph F e g args = Some r -> eval_graph (S F) e g args = Some r.
  Proof.
    induction F as [|f IH]; [discriminate|]. intros e g args r H.
    change (eval_body (eval_graph (S f)) e g args = Some r). change (eval_body (eval_graph f) e g args = Some r) in H.
    eapply eval_body_ev_mono; eauto.
  Qed.

  (* ---------------------------------------------------------------- renaming by an association list *)
  Lemma rename_name_notin r x : ~ In x (map fst r) -> rename_name r x = x.
  Proof.
    induction r as [|[a b] t IH]; cbn; [reflexivity|]. intro H.
    destruct (String.eqb x a) eqn:E; [apply String.eqb_eq in E; subst; exfalso; apply H; left; reflexivity|].
    apply IH. intro Hin. apply H. right. exact Hin.
  Qed.
  Lemma rename_name_in r x : In x (map fst r) -> In (rename_name r x) (map snd r).
  Proof.
    induction r as [|[a b] t IH]; cbn; [intros []|]. intro H.
    destruct (String.eqb x a) eqn:E; [left; reflexivity|]. right. apply IH.
    destruct H as [H|H]; [subst; rewrite String.eqb_refl in E; discriminate|exact H].
  Qed.
  Lemma nodupb_NoDup l : nodupb l = true -> NoDup l.
  Proof.
    induction l as [|x t IH]; cbn; [constructor|]. intro H. apply andb_prop in H. destruct H as [H1 H2].
    constructor; [|auto]. apply mem_false. destruct (mem x t); [discriminate|reflexivity].
  Qed.
  Lemma combine_fst (a b : list vname) : List.length a = List.length b -> map fst (combine a b) = a.
  Proof. revert b. induction a as [|x t IH]; intros [|y u]; cbn; try discriminate; auto. intro H. f_equal. apply IH. lia. Qed.
  Lemma combine_snd (a b : list vname) : List.length a = List.length b -> map snd (combine a b) = b.
  Proof. revert b. induction a as [|x t IH]; intros [|y u]; cbn; try discriminate; auto. intro H. f_equal. apply IH. lia. Qed.

  Lemma rename_combine_map fs os : NoDup fs -> List.length fs = List.length os -> map (rename_name (combine fs os)) fs = os.
  Proof.
    revert os. induction fs as [|f t IH]; intros [|o u] ND L; cbn in *; try discriminate; [reflexivity|].
    rewrite String.eqb_refl. f_equal. inversion ND; subst.
    transitivity (map (rename_name (combine t u)) t); [|apply IH; [assumption|lia]].
    apply map_ext_in. intros x Hx.
    destruct (String.eqb x f) eqn:E; [apply String.eqb_eq in E; subst; contradiction|reflexivity].
  Qed.

  Lemma rename_combine_inj fs os x y : NoDup fs -> NoDup os -> List.length fs = List.length os ->
    In x fs -> In y fs -> rename_name (combine fs os) x = rename_name (combine fs os) y -> x = y.
  Proof.
    revert os. induction fs as [|f t IH]; intros [|o u] NF NO L Hx Hy; cbn in *; try discriminate; try contradiction.
    inversion NF; inversion NO; subst.
    assert (Lt : List.length t = List.length u) by lia.
    destruct (String.eqb x f) eqn:Ex, (String.eqb y f) eqn:Ey.
    - apply String.eqb_eq in Ex, Ey. congruence.
    - intro H. exfalso. apply H5. rewrite H.
      assert (Hin : In (rename_name (combine t u) y) (map snd (combine t u))).
      { apply rename_name_in. rewrite combine_fst by exact Lt.
        destruct Hy as [Hy|Hy]; [subst; rewrite String.eqb_refl in Ey; discriminate|exact Hy]. }
      rewrite combine_snd in Hin by exact Lt. exact Hin.
    - intro H. exfalso. apply H5. rewrite <- H.
      assert (Hin : In (rename_name (combine t u) x) (map snd (combine t u))).
      { apply rename_name_in. rewrite combine_fst by exact Lt.
        destruct Hx as [Hx|Hx]; [subst; rewrite String.eqb_refl in Ex; discriminate|exact Hx]. }
      rewrite combine_snd in Hin by exact Lt. exact Hin.
    - apply IH; auto.
      + destruct Hx as [Hx|Hx]; [subst; rewrite String.eqb_refl in Ex; discriminate|exact Hx].
      + destruct Hy as [Hy|Hy]; [subst; rewrite String.eqb_refl in Ey; discriminate|exact Hy].
  Qed.

  Lemma n_outs_map_node rho n : n_outs (map_node rho n) = map rho (n_outs n).
  Proof. destruct n. reflexivity. Qed.
  Lemma defs_map_nodes rho ns : defs_nodes (map_nodes rho ns) = map rho (defs_nodes ns).
  Proof.
    unfold defs_nodes. induction ns as [|n t IH]; [reflexivity|].
    rewrite map_nodes_cons. cbn [flat_map]. rewrite map_app, IH, n_outs_map_node. reflexivity.
  Qed.
  Lemma defs_in_names ns x : In x (defs_nodes ns) -> In x (names_nodes ns).
  Proof.
    unfold defs_nodes. induction ns as [|n t IH]; cbn; [auto|]. intro H. apply in_app_or in H. apply in_or_app.
    destruct H as [H|H]; [left|right; auto]. destruct n as [d o i u a s]. rewrite names_node_eq. cbn in H.
    apply in_or_app. right. apply in_or_app. left. exact H.
  Qed.

  Lemma bind_lookups_same (xs : list vname) vs (e a e2 : env) : NoDup xs -> bind xs vs e = Some a -> lookups e2 xs = Some vs ->
    forall x, In x xs -> lookup a x = lookup e2 x.
  Proof.
    revert vs a. induction xs as [|y t IH]; intros vs a ND; [intros _ _ x []|].
    destruct vs as [|v vt]; cbn; [discriminate|].
    destruct (bind t vt e) as [r|] eqn:B; cbn; [|discriminate]. intro H; inversion H; subst.
    destruct (lookup e2 y) as [w|] eqn:L; [|discriminate]. destruct (lookups e2 t) as [ws|] eqn:LS; [|discriminate].
    intro H2; inversion H2; subst. inversion ND; subst. intros x [Hx|Hx].
    - subst. cbn. rewrite String.eqb_refl. auto.
    - cbn. destruct (String.eqb x y) eqn:E; [apply String.eqb_eq in E; subst; contradiction|]. eapply IH; eauto.
  Qed.

  (* state after the renaming of the branch outputs: nothing `inv` reads changes when the facts avoid the renamed names *)
  Lemma rename_key_id {A} r (l : list (vname * A)) : (forall k, In k (map fst l) -> ~ In k (map fst r)) -> rename_key r l = l.
  Proof.
    intro H. unfold rename_key. rewrite <- (map_id l) at 2. apply map_ext_in. intros [k v] Hin. cbn.
    rewrite rename_name_notin; [reflexivity|]. apply H. apply in_map_iff. exists (k, v). auto.
  Qed.
  Lemma assoc_app_idem {A} x (l : list (vname * A)) : assoc x (l ++ l) = assoc x l.
  Proof.
    assert (G : forall l2, assoc x (l ++ l2) = match assoc x l with Some v => Some v | None => assoc x l2 end).
    { induction l as [|[k v] t IH]; intro l2; cbn; [reflexivity|]. destruct (String.eqb x k); [reflexivity|apply IH]. }
    rewrite G. destruct (assoc x l); reflexivity.
  Qed.
  Lemma assoc_map_snd {A B} (f : A -> B) x (l : list (vname * A)) :
    assoc x (map (fun kv => (fst kv, f (snd kv))) l) = option_map f (assoc x l).
  Proof. induction l as [|[k v] t IH]; cbn; [reflexivity|]. destruct (String.eqb x k); [reflexivity|exact IH]. Qed.

  Lemma facts_rename_merge r st :
    (forall k, In k (map fst (s_const V st)) -> ~ In k (map fst r)) ->
    (forall k, In k (map fst (s_sym V st)) -> ~ In k (map fst r)) ->
    (forall k, In k (fnames V st) -> ~ In k (map fst r)) ->
    facts_eq st (rename_state_merge V r st).
  Proof.
    intros HC HS HF. split; [|split; [|reflexivity]].
    - intro x. cbn. rewrite (rename_key_id r _ HC). apply assoc_app_idem.
    - intro x. unfold sym_val. cbn. rewrite (rename_key_id r _ HS).
      rewrite (assoc_map_snd (rename_symv r)). destruct (assoc x (s_sym V st)) as [[t| |]|] eqn:A; cbn; try reflexivity.
      rewrite rename_name_notin; [reflexivity|]. apply HF.
      assert (S : sym_val V st x = Some t) by (unfold sym_val; rewrite A; reflexivity).
      exact (proj2 (sym_fname st x t S)).
  Qed.

  (* ---------------------------------------------------------------- If with a known condition = its branch spliced in *)
  Notation inline_ok := (Fold.inline_ok V v_dtype v_dims v_ints).

  Lemma bool_value_truth st e x c cv : inv st e -> bool_value st (Some x) = Some c -> lookup e x = Some cv -> truth cv = Some c.
  Proof.
    intros [I1 _]. unfold Fold.bool_value, Fold.numpy_value, get_const.
    destruct (mem x (s_guard V st)) eqn:Gx; [discriminate|].
    destruct (assoc x (s_const V st)) as [v|] eqn:A; [|discriminate]. cbn.
    destruct (Z.eqb (v_size V v_dims v) 1 && Z.eqb (v_dtype v) DT_BOOL) eqn:C; [|discriminate].
    destruct (v_ints v) as [[|b [|? ?]]|] eqn:VI; try discriminate. intro H; inversion H; subst. intro L.
    rewrite (I1 x v cv A Gx L). apply andb_prop in C. destruct C as [_ C]. apply Z.eqb_eq in C.
    apply truth_agrees; assumption.
  Qed.

  Lemma inline_step F st bound n st2 R moved e a :
    pe_if st n = PInline V st2 R moved -> n_op n = "If"%string -> n_dom n = ""%string ->
    inline_ok st bound n = true -> inv st e -> dom_ok e bound ->
    eval_node (eval_graph F) e n = Some a ->
    facts_eq st st2 /\ exists b, run (eval_graph F) e R = Some b /\ sub_env a b.
  Proof.
    intros PI Op Dom OK I D H.
    unfold Fold.pe_if in PI. unfold Fold.inline_ok in OK.
    destruct (bool_value st (in_at n 0)) as [c|] eqn:BV; [|discriminate].
    destruct (find_sub (if c then "then_branch"%string else "else_branch"%string) (n_subs n)) as [[gi inits nodes fouts]|] eqn:FS; [|discriminate].
    inversion PI; subst st2 R moved. clear PI.
    destruct n as [dom op ins outs attrs subs]. cbn [n_op n_dom n_outs n_ins n_subs] in *. subst dom op.
    apply andb_prop in OK. destruct OK as [OK C9].
    apply andb_prop in OK. destruct OK as [OK C8].
    apply andb_prop in OK. destruct OK as [OK C7].
    apply andb_prop in OK. destruct OK as [OK C6].
    apply andb_prop in OK. destruct OK as [OK C5].
    apply andb_prop in OK. destruct OK as [OK C4].
    apply andb_prop in OK. destruct OK as [OK C3].
    apply andb_prop in OK. destruct OK as [OK C2].
    apply andb_prop in OK. destruct OK as [C0 C1].
    apply Nat.eqb_eq in C0. apply nodupb_NoDup in C1, C2.
    pose proof (disjointb_spec _ _ C3) as D3. pose proof (disjointb_spec _ _ C4) as D4.
    pose proof (disjointb_spec _ _ C5) as D5. pose proof (disjointb_spec _ _ C7) as D7.
    pose proof (disjointb_spec _ _ C8) as D8.
    assert (Sub : forall x, In x fouts -> In x (defs_nodes nodes)).
    { intros x Hx. unfold subset in C6. rewrite forallb_forall in C6. apply mem_In. apply C6. exact Hx. }
    destruct ins as [|[x|] [|? ?]]; try discriminate. destruct gi; [|discriminate]. clear C9.
    set (r := combine fouts outs). set (rho := rename_name r).
    assert (Rf : map fst r = fouts) by (apply combine_fst; exact C0).
    assert (Rs : map snd r = outs) by (apply combine_snd; exact C0).
    split.
    - (* the recorded facts do not mention the renamed names *)
      eapply facts_eq_trans; [apply facts_del_node_uses|].
      set (st' := del_node_uses V st (Node "" "If" [Some x] outs attrs subs)).
      assert (FE : facts_eq st st') by apply facts_del_node_uses.
      assert (SC : s_const V st' = s_const V st /\ s_sym V st' = s_sym V st).
      { unfold st', del_node_uses. generalize (present (n_ins (Node "" "If" [Some x] outs attrs subs))). intro l.
        generalize st. induction l as [|y t IHl]; intro s0; cbn; [auto|]. destruct (IHl (del_use V s0 y (node_id (Node "" "If" [Some x] outs attrs subs)))) as [A B].
        rewrite A, B. auto. }
      destruct SC as [SC1 SC2].
      apply facts_rename_merge; rewrite Rf.
      + rewrite SC1. intros k Hk Hf. apply (D8 k); [apply in_or_app; left; exact Hf|apply in_or_app; right; exact Hk].
      + rewrite SC2. intros k Hk Hf. apply (D8 k); [apply in_or_app; left; exact Hf|apply in_or_app; left; exact Hk].
      + unfold fnames. rewrite SC1, SC2. intros k Hk Hf. exact (D7 k Hf Hk).
    - (* semantics *)
      unfold Sem.eval_node in H. change (is_if "" "If") with true in H. cbn [lookup_opts] in H.
      destruct (lookup e x) as [cv|] eqn:Lx; [|discriminate]. cbn in H.
      change (in_at (Node "" "If" [Some x] outs attrs subs) 0) with (Some x) in BV.
      rewrite (bool_value_truth st e x c cv I BV Lx) in H. rewrite FS in H.
      destruct F as [|F']; [discriminate|].
      destruct (eval_graph (S F') e (Graph [] inits nodes fouts) []) as [vs|] eqn:EG; [|discriminate].
      cbn [Sem.eval_graph] in EG. unfold Sem.eval_body in EG. cbn [g_ins g_nodes g_outs bind] in EG.
      destruct (run (eval_graph F') e nodes) as [eb|] eqn:RB; [|discriminate].
      pose proof (run_ev_mono _ _ (eval_graph_fuel F') _ _ _ RB) as RB'.
      set (N := names_nodes nodes).
      assert (Unb : forall z, In z (fouts ++ outs ++ defs_nodes nodes) -> lookup e z = None).
      { intros z Hz. destruct (lookup e z) as [w|] eqn:L; [|reflexivity]. exfalso. exact (D5 z Hz (D z w L)). }
      assert (Inj : forall p q, In p N -> In q N -> rho p = rho q -> p = q).
      { intros p q Hp Hq E. unfold rho in E.
        destruct (in_dec string_dec p fouts) as [Pf|Pn], (in_dec string_dec q fouts) as [Qf|Qn].
        - exact (rename_combine_inj fouts outs p q C1 C2 C0 Pf Qf E).
        - exfalso. rewrite (rename_name_notin r q) in E by (rewrite Rf; exact Qn).
          apply (D3 q); [|exact Hq]. rewrite <- E, <- Rs. apply rename_name_in. rewrite Rf. exact Pf.
        - exfalso. rewrite (rename_name_notin r p) in E by (rewrite Rf; exact Pn).
          apply (D3 p); [|exact Hp]. rewrite E, <- Rs. apply rename_name_in. rewrite Rf. exact Qf.
        - rewrite (rename_name_notin r p), (rename_name_notin r q) in E by (rewrite Rf; assumption). exact E. }
      assert (Start : ren_rel V rho N e e).
      { intros z Hz. destruct (in_dec string_dec z fouts) as [Zf|Zn].
        - rewrite (Unb z) by (apply in_or_app; left; exact Zf).
          apply Unb. apply in_or_app. right. apply in_or_app. left. rewrite <- Rs. apply rename_name_in. rewrite Rf. exact Zf.
        - unfold rho. rewrite rename_name_notin by (rewrite Rf; exact Zn). reflexivity. }
      pose proof (run_ren V sem truth trip of_nat of_bool limit rho N Inj (eval_graph (S F')) (eval_graph (S F')) nodes
                   (eval_graph_ren V sem truth trip of_nat of_bool limit rho N Inj (S F')) e e Start (fun z Hz => Hz)) as RR.
      rewrite RB' in RR.
      destruct (run (eval_graph (S F')) e (map_nodes rho nodes)) as [eb'|] eqn:RB2; [|contradiction].
      exists eb'. split; [exact RB2|].
      assert (Lo : lookups eb' outs = Some vs).
      { rewrite <- (rename_combine_map fouts outs C1 C0). fold r. fold rho.
        rewrite (ren_lookups V rho N eb eb' fouts RR); [exact EG|].
        intros z Hz. apply defs_in_names. apply Sub. exact Hz. }
      destruct (run_shape V sem truth trip of_nat of_bool limit _ _ _ _ RB2) as [b' [Eb Hb]]. subst eb'.
      intros z w Lz.
      destruct (in_dec string_dec z outs) as [Zo|Zn].
      + rewrite <- (bind_lookups_same outs vs e a (b' ++ e) C2 H Lo z Zo). exact Lz.
      + rewrite (lookup_bind_notin outs vs e a z H Zn) in Lz.
        rewrite (lookup_app_notin V sem truth trip of_nat limit b' e z); [exact Lz|].
        intro Hin. apply Hb in Hin. rewrite defs_map_nodes in Hin. apply in_map_iff in Hin. destruct Hin as [d [Ed Hd]].
        destruct (in_dec string_dec d fouts) as [Df|Dn].
        * apply Zn. rewrite <- Ed, <- Rs. apply rename_name_in. rewrite Rf. exact Df.
        * unfold rho in Ed. rewrite rename_name_notin in Ed by (rewrite Rf; exact Dn). subst d.
          apply (D5 z); [apply in_or_app; right; apply in_or_app; right; exact Hd|exact (D z w Lz)].
  Qed.

  Lemma del_node_uses_fields st n : s_const V (del_node_uses V st n) = s_const V st /\ s_sym V (del_node_uses V st n) = s_sym V st.
  Proof.
    unfold del_node_uses. generalize (present (n_ins n)). intro l. generalize st.
    induction l as [|z t IHl]; intro s0; cbn; [auto|]. destruct (IHl (del_use V s0 z (node_id n))) as [A B]. rewrite A, B. auto.
  Qed.

  Lemma inline_facts st bound n st2 R moved :
    pe_if st n = PInline V st2 R moved -> inline_ok st bound n = true -> facts_eq st st2.
  Proof.
    intros PI IO. unfold Fold.pe_if in PI. unfold Fold.inline_ok in IO.
    destruct (bool_value st (in_at n 0)) as [c|]; [|discriminate].
    destruct (find_sub (if c then "then_branch"%string else "else_branch"%string) (n_subs n)) as [[gi inits0 nodes fouts]|]; [|discriminate].
    inversion PI; subst st2.
    apply andb_prop in IO. destruct IO as [IO _].
    apply andb_prop in IO. destruct IO as [IO C8].
    apply andb_prop in IO. destruct IO as [IO C7].
    repeat (apply andb_prop in IO; destruct IO as [IO _]).
    pose proof (disjointb_spec _ _ C8) as D8. pose proof (disjointb_spec _ _ C7) as D7.
    apply Nat.eqb_eq in IO.
    eapply facts_eq_trans; [apply facts_del_node_uses|].
    destruct (del_node_uses_fields st n) as [SC1 SC2].
    apply facts_rename_merge; rewrite combine_fst by exact IO.
    - rewrite SC1. intros k Hk Hf. apply (D8 k); [apply in_or_app; left; exact Hf|apply in_or_app; right; exact Hk].
    - rewrite SC2. intros k Hk Hf. apply (D8 k); [apply in_or_app; left; exact Hf|apply in_or_app; left; exact Hk].
    - unfold fnames. rewrite SC1, SC2. intros k Hk Hf. exact (D7 k Hf Hk).
  Qed.

  (* ---------------------------------------------------------------- the traversal *)
  Lemma lookup_app_cases (b e : env) x v : lookup (b ++ e) x = Some v -> In x (map fst b) \/ lookup e x = Some v.
  Proof.
    intro L. destruct (in_dec string_dec x (map fst b)) as [i|n]; [left; exact i|right].
    rewrite <- (lookup_app_notin V sem truth trip of_nat limit b e x n). exact L.
  Qed.
  Lemma inv_app st e (b : env) : inv st e -> disjointb (map fst b) (fnames V st) = true -> inv st (b ++ e).
  Proof.
    intros [I1 I2] D. pose proof (disjointb_spec _ _ D) as Dj. split.
    - intros x c v H G L. rewrite (lookup_app_notin V sem truth trip of_nat limit b e x) in L; [eauto|].
      intro Hin. exact (Dj x Hin (const_fname st x c H)).
    - intros y x v H L. destruct (sym_fname st y x H) as [Fy Fx].
      rewrite (lookup_app_notin V sem truth trip of_nat limit b e y) in L by (intro Hin; exact (Dj y Hin Fy)).
      rewrite (lookup_app_notin V sem truth trip of_nat limit b e x) by (intro Hin; exact (Dj x Hin Fx)). eauto.
  Qed.
  Lemma dom_ok_app e bound (b : env) : dom_ok e bound -> dom_ok (b ++ e) (map fst b ++ bound).
  Proof. intros D x v L. apply in_or_app. destruct (lookup_app_cases b e x v L) as [H|H]; [left; exact H|right; eapply D; eauto]. Qed.

  Lemma inv_unbound_ext st st' X e : inv st e -> ext st st' X -> (forall x, In x X -> lookup e x = None) -> inv st' e.
  Proof.
    intros [I1 I2] [G E] U. split.
    - intros x c v A Gx L. destruct (in_dec string_dec x X) as [i|n]; [rewrite (U x i) in L; discriminate|].
      rewrite (proj1 (E x n)) in A. rewrite G in Gx. eauto.
    - intros y x v S L. destruct (in_dec string_dec y X) as [i|n]; [rewrite (U y i) in L; discriminate|].
      rewrite (proj2 (E y n)) in S. eauto.
  Qed.

  Lemma inv_set_const st e y v : inv st ((y, v) :: e) -> inv (set_const V st y v) ((y, v) :: e).
  Proof.
    intros [I1 I2]. split; [|exact I2]. intros x c w A G L. cbn in A. cbn in L.
    destruct (String.eqb x y) eqn:E.
    - inversion A; inversion L; subst; reflexivity.
    - eapply I1; [exact A|exact G|]. cbn. rewrite E. exact L.
  Qed.
  Lemma ext_set_const st y v : ext st (set_const V st y v) [y].
  Proof.
    split; [reflexivity|]. intros x Hx. split; [|reflexivity]. cbn. destruct (String.eqb x y) eqn:E; [|reflexivity].
    apply String.eqb_eq in E. subst. exfalso. apply Hx. left. reflexivity.
  Qed.

  Lemma find_sub_nil name : find_sub name [] = None.
  Proof. reflexivity. Qed.

  Lemma constant_value_subs n : n_subs n <> [] -> constant_value n = None.
  Proof.
    intro H. destruct (constant_value n) as [[y c]|] eqn:CV; [|reflexivity].
    destruct (constant_value_spec n y c CV) as (_ & _ & _ & NS & _). contradiction.
  Qed.

  (* specification of the visitor of graph attributes *)
  Definition subs_spec (visit_subs : list vname -> state -> list (string * graph) -> result (subs_result V)) : Prop :=
    forall bound st subs st' subs' news defd tr,
      visit_subs bound st subs = OK (st', subs', news, defd, tr) ->
      ext st st' defd /\
      forall F e, inv st e -> dom_ok e bound -> incl (s_guard V st) (c_graph_inputs cfg) -> (forall x, In x defd -> ~ In x bound) ->
        forall name sg, find_sub name subs = Some sg ->
          exists sg', find_sub name subs' = Some sg' /\
            forall args r, eval_graph F e sg args = Some r -> eval_graph F e sg' args = Some r.

  Section Visit.
    Hypothesis Hpe : pe_ok.
    Variable visit_subs : list vname -> state -> list (string * graph) -> result (subs_result V).
    Hypothesis Hs : subs_spec visit_subs.

    Notation visit_nodes := (Fold.visit_nodes V ref_eval const_val attr_of_val v_dtype v_dims v_ints v_tensor pe true cfg visit_subs).

    Ltac incl_solve := let z := fresh "z" in let Hz := fresh "Hz" in
      intros z Hz;
      repeat (first [rewrite in_app_iff in Hz | rewrite in_app_iff | progress cbn [In] in Hz | progress cbn [In]]);
      tauto.

    Lemma keep_ok_outs st n : keep_ok V st n = true -> disjointb (n_outs n) (fnames V st) = true.
    Proof. unfold keep_ok. intro H. apply andb_prop in H. tauto. Qed.
    Lemma keep_ok_identity st n : keep_ok V st n = true -> n_op n = "Identity"%string ->
      exists x y, n_ins n = [Some x] /\ n_outs n = [y] /\ n_subs n = [] /\ x <> y.
    Proof.
      unfold keep_ok. intros H O. apply andb_prop in H. destruct H as [_ H]. rewrite O in H. cbn in H.
      destruct (n_ins n) as [|[x|] [|? ?]]; try discriminate. destruct (n_outs n) as [|y [|? ?]]; try discriminate.
      destruct (n_subs n); [|discriminate]. exists x, y. repeat split; auto.
      intro E. subst. rewrite String.eqb_refl in H. discriminate.
    Qed.

    Theorem visit_nodes_sound : forall fuel isf bound st inits work st' ns' inits' news defd tr,
      visit_nodes fuel isf bound st inits work = OK (st', ns', inits', news, defd, tr) ->
      ext st st' defd /\
      forall F e e1, inv st e -> dom_ok e bound -> incl (s_guard V st) (c_graph_inputs cfg) -> run (eval_graph F) e work = Some e1 ->
        exists e1', run (eval_graph F) e ns' = Some e1' /\ sub_env e1 e1' /\ inv st' e1' /\ dom_ok e1' (defd ++ bound).
    Proof.
      induction fuel as [|f IH]; intros isf bound st inits work st' ns' inits' news defd tr H; [discriminate|].
      destruct work as [|n0 rest]; cbn [Fold.visit_nodes] in H.
      { inversion H; subst. split; [apply facts_eq_ext, facts_eq_refl|].
        intros F e e1 I D _ R. cbn in R. inversion R; subst. exists e1. cbn.
        split; [reflexivity|]. split; [apply sub_refl|]. split; [exact I|exact D]. }
      cbv zeta in H.
      set (st0 := subst_uses V st n0) in *. set (n := subst_node V st n0) in *. set (st1 := note_constant st0 n) in *.
      assert (F0 : facts_eq st st0) by apply facts_subst_uses.
      assert (G1 : s_guard V st1 = s_guard V st).
      { unfold st1. rewrite (proj1 (note_constant_ext st0 n)). exact (proj2 (proj2 F0)). }
      destruct (subst_node_fields st n0) as (Fd & Fo & Fu & Fa & Fs). fold n in Fd, Fo, Fu, Fa, Fs.
      destruct (decide isf st1 n) as [r st2|ste y v|ste y v|st2 R|st2 R moved|] eqn:DE; [| | | | |discriminate].
      - (* keep *)
        cbn [andb] in H. destruct (keep_ok V st0 n) eqn:KO; cbn [negb] in H; [|discriminate].
        destruct (visit_subs (n_outs n ++ bound) st2 (n_subs n)) as [[[[[st3 subs'] news_s] defd_s] trs]| | |] eqn:VS; try discriminate.
        destruct (disjointb defd_s (n_outs n ++ bound)) eqn:DJ; cbn [negb] in H; [|discriminate].
        destruct (visit_nodes f isf (defd_s ++ n_outs n ++ bound) st3 inits rest) as [[[[[[st4 ns] inits2] news2] defd2] tr2]| | |] eqn:VR; try discriminate.
        inversion H; subst st' ns' inits' news defd tr. clear H.
        destruct (IH _ _ _ _ _ _ _ _ _ _ _ VR) as [EX4 SEM4].
        destruct (Hs _ _ _ _ _ _ _ _ VS) as [EX3 REF].
        pose proof (decide_keep Hpe _ _ _ _ _ DE) as KS.
        pose proof (keep_ok_outs _ _ KO) as KO1.
        assert (EX2 : ext st1 st2 (n_outs n)).
        { destruct KS as [FE|O Dm ->]; [apply facts_eq_ext; exact FE|].
          destruct (pe_identity_facts st1 n) as [FE|(x & y & Ix & Oy & Gd & C & S1 & S2)]; [apply facts_eq_ext; exact FE|].
          split; [exact Gd|]. intros z Hz. split; [apply C|]. apply S2. intro E. subst z. apply Hz.
          unfold out0 in Oy. destruct (n_outs n); [discriminate|]. inversion Oy; subst. left; reflexivity. }
        split.
        { eapply ext_weaken.
          - eapply ext_trans; [apply (facts_eq_ext _ _ [] F0)|].
            eapply ext_trans; [apply note_constant_ext|]. eapply ext_trans; [exact EX2|]. eapply ext_trans; [exact EX3|exact EX4].
          - incl_solve. }
        intros F e e1 I D GI Run. cbn [Sem.run] in Run.
        destruct (eval_node (eval_graph F) e n0) as [en|] eqn:E0; [|discriminate].
        pose proof (subst_node_sound (eval_graph F) st e n0 en I E0) as En. fold n in En.
        destruct (eval_node_shape V sem truth trip of_nat of_bool limit _ _ _ _ En) as [b [Eb Hb]].
        assert (I0 : inv st0 e) by (eapply facts_eq_inv; eauto).
        assert (I0n : inv st0 en) by (subst en; apply inv_app; [exact I0|rewrite Hb; exact KO1]).
        assert (I1n : inv st1 en) by (eapply inv_note_constant; eauto).
        assert (Dn : dom_ok en (n_outs n ++ bound)) by (subst en; rewrite <- Hb; apply dom_ok_app; exact D).
        assert (I2n : inv st2 en).
        { destruct KS as [FE|O Dm ->]; [eapply facts_eq_inv; eauto|].
          destruct (pe_identity_facts st1 n) as [FE|(x & y & Ix & Oy & Gd & C & S1 & S2)]; [eapply facts_eq_inv; eauto|].
          destruct (keep_ok_identity _ _ KO O) as (x' & y' & In' & On' & Sn' & Nxy).
          unfold in_at in Ix. rewrite In' in Ix. cbn in Ix. inversion Ix; subst x'.
          unfold out0 in Oy. rewrite On' in Oy. inversion Oy; subst y'.
          destruct (identity_step (eval_graph F) e n x y en Dm O In' On' Sn' En) as [w [Lw Een]].
          destruct I1n as [J1 J2]. split.
          - intros z c u A Gz L. rewrite C in A. rewrite Gd in Gz. eauto.
          - intros z t u S L. destruct (string_dec z y) as [->|Nz].
            + rewrite S1 in S. inversion S; subst t. rewrite Een in *. cbn in L. rewrite String.eqb_refl in L. inversion L; subst u.
              cbn. destruct (String.eqb x y) eqn:E; [apply String.eqb_eq in E; contradiction|exact Lw].
            + rewrite (S2 z Nz) in S. eauto. }
        assert (I3n : inv st3 en).
        { eapply inv_unbound_ext; [exact I2n|exact EX3|]. intros z Hz.
          destruct (lookup en z) as [w|] eqn:L; [|reflexivity]. exfalso.
          exact (disjointb_spec _ _ DJ z Hz (Dn z w L)). }
        (* the kept node with its visited graph attributes evaluates alike *)
        assert (En' : eval_node (eval_graph F) e (Node (n_dom n) (n_op n) (n_ins n) (n_outs n) (n_attrs n) subs') = Some en).
        { destruct n as [dom op ins outs attrs subs] eqn:Nn. cbn [n_dom n_op n_ins n_outs n_attrs n_subs] in *.
          destruct (eval_node_refines V sem truth trip of_nat of_bool limit (eval_graph F) (eval_graph F) e e (fun z => z)
                      dom op ins outs attrs subs subs' en) as [vals [B [a' [E' B']]]]; auto.
          - destruct subs as [|s0 st_] eqn:Sb; [intros name sg Fn; discriminate|].
            assert (NE : n_subs n <> []) by (rewrite Nn; cbn; discriminate).
            assert (I2e : inv st2 e).
            { assert (st1 = st0) as E1.
              { unfold st1, Fold.note_constant. rewrite constant_value_subs; [reflexivity|]. rewrite <- Nn. exact NE. }
              destruct KS as [FE|O Dm ->].
              - eapply facts_eq_inv; [exact FE|]. rewrite E1. exact I0.
              - exfalso. destruct (keep_ok_identity _ _ KO O) as (_ & _ & _ & _ & Sn' & _). cbn in Sn'. discriminate. }
            apply (REF F e I2e).
            + eapply dom_ok_weaken; [exact D|]. incl_solve.
            + rewrite (proj1 EX2), G1. exact GI.
            + intros z Hz. exact (disjointb_spec _ _ DJ z Hz).
          - rewrite B in B'. inversion B'; subst a'. rewrite map_option_id in E'. exact E'. }
        destruct (SEM4 F en e1 I3n) as [e1' (R' & S' & I' & D')].
        { eapply dom_ok_weaken; [exact Dn|]. incl_solve. }
        { rewrite (proj1 EX3), (proj1 EX2), G1. exact GI. }
        { exact Run. }
        exists e1'. cbn [app Sem.run]. rewrite En'.
        split; [exact R'|]. split; [exact S'|]. split; [exact I'|].
        eapply dom_ok_weaken; [exact D'|]. incl_solve.
      - (* fold into an initializer (kept as a Constant node in the semantic form) *)
        cbn [andb] in H. destruct (disjointb [y] (fnames V st0)) eqn:KO; cbn [negb] in H; [|discriminate].
        match type of H with context [visit_nodes f isf ?b ?s ?i rest] =>
          destruct (visit_nodes f isf b s i rest) as [[[[[[st4 ns] inits2] news2] defd2] tr2]| | |] eqn:VR; try discriminate;
          set (st3 := s) in * end.
        inversion H; subst st' ns' inits' news defd tr. clear H.
        destruct (IH _ _ _ _ _ _ _ _ _ _ _ VR) as [EX4 SEM4].
        destruct (decide_fold Hpe isf st1 n ste y v (or_introl DE)) as [FC KS].
        assert (E1 : st1 = st0) by (apply note_constant_noconst; exact (proj1 FC)).
        assert (FD : facts_eq st0 (drop_sym V ste y)).
        { rewrite <- E1. apply (keep_state_drop st1 n ste y KS); [exact (proj1 (proj2 (proj2 (proj2 (proj2 FC)))))|].
          rewrite E1. apply not_fname_sym. apply (disjointb_spec _ _ KO). left; reflexivity. }
        assert (EX3 : ext st0 st3 [y]).
        { unfold st3.
          eapply ext_weaken with (X := [] ++ [y] ++ []); [|incl_solve].
          eapply ext_trans; [apply facts_eq_ext; eapply facts_eq_trans; [exact FD|apply facts_del_node_uses]|].
          eapply ext_trans; [apply ext_set_const|]. apply facts_eq_ext.
          eapply facts_eq_trans; [apply facts_set_shape_if|]. eapply facts_eq_trans; [apply facts_set_dtype_if|].
          eapply facts_eq_trans; [apply facts_register|apply facts_clear]. }
        split.
        { eapply ext_weaken.
          - eapply ext_trans; [apply (facts_eq_ext _ _ [] F0)|]. eapply ext_trans; [exact EX3|exact EX4].
          - incl_solve. }
        intros F e e1 I D GI Run. cbn [Sem.run] in Run.
        destruct (eval_node (eval_graph F) e n0) as [en|] eqn:E0; [|discriminate].
        pose proof (subst_node_sound (eval_graph F) st e n0 en I E0) as En. fold n in En.
        assert (I0 : inv st0 e) by (eapply facts_eq_inv; eauto).
        assert (G0 : incl (s_guard V st0) (c_graph_inputs cfg)) by (rewrite (proj2 (proj2 F0)); exact GI).
        assert (Een : en = (y, v) :: e) by (eapply fold_step; [| |exact FC|exact En]; rewrite E1; [exact I0|exact G0]).
        assert (I3n : inv st3 en).
        { unfold st3. rewrite Een.
          eapply facts_eq_inv.
          - eapply facts_eq_trans; [apply facts_set_shape_if|]. eapply facts_eq_trans; [apply facts_set_dtype_if|].
            eapply facts_eq_trans; [apply facts_register|apply facts_clear].
          - apply inv_set_const. eapply facts_eq_inv; [eapply facts_eq_trans; [exact FD|apply facts_del_node_uses]|].
            change ((y, v) :: e) with ([(y, v)] ++ e). apply inv_app; [exact I0|exact KO]. }
        destruct (SEM4 F en e1 I3n) as [e1' (R' & S' & I' & D')].
        { rewrite Een. change ((y, v) :: e) with ([(y, v)] ++ e). apply (dom_ok_app e bound [(y, v)] D). }
        { rewrite (proj1 EX3). exact G0. }
        { exact Run. }
        exists e1'. cbn [app Sem.run]. fold (const_node y v). rewrite eval_const_node, <- Een.
        split; [exact R'|]. split; [exact S'|]. split; [exact I'|].
        eapply dom_ok_weaken; [exact D'|]. incl_solve.
      - (* fold into a Constant node (function bodies): the new node is visited next *)
        cbn [andb] in H. destruct (disjointb [y] (fnames V st0)) eqn:KO; cbn [negb] in H; [|discriminate].
        match type of H with context [visit_nodes f isf ?b ?s ?i ?w] =>
          destruct (visit_nodes f isf b s i w) as [[[[[[st4 ns] inits2] news2] defd2] tr2]| | |] eqn:VR; try discriminate end.
        inversion H; subst st' ns' inits' news defd tr. clear H.
        destruct (IH _ _ _ _ _ _ _ _ _ _ _ VR) as [EX4 SEM4].
        destruct (decide_fold Hpe isf st1 n ste y v (or_intror DE)) as [FC KS].
        assert (E1 : st1 = st0) by (apply note_constant_noconst; exact (proj1 FC)).
        assert (FD : facts_eq st0 (drop_sym V ste y)).
        { rewrite <- E1. apply (keep_state_drop st1 n ste y KS); [exact (proj1 (proj2 (proj2 (proj2 (proj2 FC)))))|].
          rewrite E1. apply not_fname_sym. apply (disjointb_spec _ _ KO). left; reflexivity. }
        assert (FE : facts_eq st (del_node_uses V (drop_sym V ste y) n)).
        { eapply facts_eq_trans; [exact F0|]. eapply facts_eq_trans; [exact FD|apply facts_del_node_uses]. }
        split.
        { cbn [app]. eapply ext_weaken with (X := [] ++ defd2); [|incl_solve].
          eapply ext_trans; [apply facts_eq_ext; exact FE|exact EX4]. }
        intros F e e1 I D GI Run. cbn [Sem.run] in Run.
        destruct (eval_node (eval_graph F) e n0) as [en|] eqn:E0; [|discriminate].
        pose proof (subst_node_sound (eval_graph F) st e n0 en I E0) as En. fold n in En.
        assert (I0 : inv st0 e) by (eapply facts_eq_inv; eauto).
        assert (G0 : incl (s_guard V st0) (c_graph_inputs cfg)) by (rewrite (proj2 (proj2 F0)); exact GI).
        assert (Een : en = (y, v) :: e) by (eapply fold_step; [| |exact FC|exact En]; rewrite E1; [exact I0|exact G0]).
        destruct (SEM4 F e e1) as [e1' (R' & S' & I' & D')].
        { eapply facts_eq_inv; eauto. }
        { exact D. }
        { rewrite (proj2 (proj2 FE)). exact GI. }
        { cbn [Sem.run]. fold (const_node y v). rewrite eval_const_node, <- Een. exact Run. }
        exists e1'. cbn [app]. split; [exact R'|]. split; [exact S'|]. split; [exact I'|exact D'].
      - (* replaced by the nodes of a partial evaluator *)
        match type of H with context [visit_nodes f isf ?b ?s ?i ?w] =>
          destruct (visit_nodes f isf b s i w) as [[[[[[st4 ns] inits2] news2] defd2] tr2]| | |] eqn:VR; try discriminate;
          set (st3 := s) in * end.
        inversion H; subst st' ns' inits' news defd tr. clear H.
        destruct (IH _ _ _ _ _ _ _ _ _ _ _ VR) as [EX4 SEM4].
        pose proof (decide_nodes _ _ _ _ _ DE) as PE. pose proof (Hpe st1 n) as P. rewrite PE in P. destruct P as [FE12 PS].
        assert (E1 : st1 = st0).
        { destruct (is_onnx n "Constant") eqn:C; [|apply note_constant_noconst; exact C].
          destruct (decide_constant isf st1 n C) as [r Dk]. rewrite Dk in DE. discriminate. }
        assert (FE : facts_eq st st3).
        { unfold st3. eapply facts_eq_trans; [exact F0|]. rewrite <- E1. eapply facts_eq_trans; [exact FE12|].
          eapply facts_eq_trans; [apply facts_del_node_uses|]. eapply facts_eq_trans; [apply facts_add_nodes_uses|].
          destruct isf; [apply facts_eq_refl|apply facts_clear]. }
        split.
        { cbn [app]. eapply ext_weaken with (X := [] ++ defd2); [|incl_solve].
          eapply ext_trans; [apply facts_eq_ext; exact FE|exact EX4]. }
        intros F e e1 I D GI Run. cbn [Sem.run] in Run.
        destruct (eval_node (eval_graph F) e n0) as [en|] eqn:E0; [|discriminate].
        pose proof (subst_node_sound (eval_graph F) st e n0 en I E0) as En. fold n in En.
        assert (I1 : inv st1 e) by (rewrite E1; eapply facts_eq_inv; eauto).
        destruct (PS F e en I1 En) as [b [Rb Sb]].
        destruct (run_mono V sem truth trip of_nat of_bool limit (eval_graph F) rest
                    (eval_graph_mono V sem truth trip of_nat of_bool limit F) en b e1 Sb Run) as [e1m [Rm Sm]].
        destruct (SEM4 F e e1m) as [e1' (R' & S' & I' & D')].
        { eapply facts_eq_inv; eauto. }
        { exact D. }
        { rewrite (proj2 (proj2 FE)). exact GI. }
        { rewrite (run_app V sem truth trip of_nat of_bool limit). rewrite Rb. exact Rm. }
        exists e1'. cbn [app]. split; [exact R'|]. split; [eapply sub_trans; eauto|]. split; [exact I'|exact D'].
      - (* If branch inlined *)
        cbn [andb] in H. destruct (inline_ok st1 bound n) eqn:IO; cbn [negb] in H; [|discriminate].
        match type of H with context [visit_nodes f isf ?b ?s ?i ?w] =>
          destruct (visit_nodes f isf b s i w) as [[[[[[st4 ns] inits2] news2] defd2] tr2]| | |] eqn:VR; try discriminate;
          set (st3 := s) in * end.
        inversion H; subst st' ns' inits' news defd tr. clear H.
        destruct (IH _ _ _ _ _ _ _ _ _ _ _ VR) as [EX4 SEM4].
        destruct (decide_inline _ _ _ _ _ _ DE) as (PI & Op & Dm).
        assert (E1 : st1 = st0).
        { apply note_constant_noconst. unfold is_onnx. rewrite Op. cbn. apply andb_false_r. }
        split.
        { cbn [app]. eapply ext_weaken with (X := [] ++ defd2); [|incl_solve].
          eapply ext_trans; [|exact EX4]. apply facts_eq_ext.
          unfold st3. eapply facts_eq_trans; [exact F0|]. rewrite <- E1.
          eapply facts_eq_trans; [exact (inline_facts _ _ _ _ _ _ PI IO)|].
          destruct isf; [apply facts_eq_refl|apply facts_clear]. }
        intros F e e1 I D GI Run. cbn [Sem.run] in Run.
        destruct (eval_node (eval_graph F) e n0) as [en|] eqn:E0; [|discriminate].
        pose proof (subst_node_sound (eval_graph F) st e n0 en I E0) as En. fold n in En.
        assert (I1 : inv st1 e) by (rewrite E1; eapply facts_eq_inv; eauto).
        destruct (inline_step F st1 bound n st2 R moved e en PI Op Dm IO I1 D En) as [FE12 [b [Rb Sb]]].
        destruct (run_mono V sem truth trip of_nat of_bool limit (eval_graph F) rest
                    (eval_graph_mono V sem truth trip of_nat of_bool limit F) en b e1 Sb Run) as [e1m [Rm Sm]].
        assert (FE13 : facts_eq st1 st3).
        { unfold st3. eapply facts_eq_trans; [exact FE12|]. destruct isf; [apply facts_eq_refl|apply facts_clear]. }
        destruct (SEM4 F e e1m) as [e1' (R' & S' & I' & D')].
        { eapply facts_eq_inv; [exact FE13|exact I1]. }
        { exact D. }
        { rewrite (proj2 (proj2 FE13)), G1. exact GI. }
        { rewrite (run_app V sem truth trip of_nat of_bool limit). rewrite Rb. exact Rm. }
        exists e1'. cbn [app]. split; [exact R'|]. split; [eapply sub_trans; eauto|]. split; [exact I'|exact D'].
    Qed.
  End Visit.

  (* ---------------------------------------------------------------- graph-level statements *)
  Notation visit_nodes_p := (Fold.visit_nodes V ref_eval const_val attr_of_val v_dtype v_dims v_ints v_tensor pe true cfg).

  (* The pass over the node list of a graph, as far as proved: for every partial-evaluator table satisfying `pe_ok`
     and every visitor of graph attributes satisfying `subs_spec`, the nodes produced by the traversal (a folded node
     still present as a Constant node: see fold_node_sound / constants_as_initializers for its removal) compute the
     same outputs whenever the original graph evaluates. *)
  Theorem fold_pass_sound : pe_ok -> forall visit_subs, subs_spec visit_subs ->
    forall fuel bound st gi inits nodes outs st' ns' inits' news defd tr,
      visit_nodes_p visit_subs fuel false (gi ++ bound) st inits nodes = OK (st', ns', inits', news, defd, tr) ->
      incl (s_guard V st) (c_graph_inputs cfg) ->
      forall F outer args r,
        (forall e0, bind gi args outer = Some e0 -> inv st e0 /\ dom_ok e0 (gi ++ bound)) ->
        eval_graph (S F) outer (Graph gi inits nodes outs) args = Some r ->
        eval_graph (S F) outer (Graph gi inits' ns' outs) args = Some r.
  Proof.
    intros Hpe visit_subs Hs fuel bound st gi inits nodes outs st' ns' inits' news defd tr H GI F outer args r H0.
    cbn [Sem.eval_graph]. unfold Sem.eval_body. cbn [g_ins g_nodes g_outs].
    destruct (bind gi args outer) as [e0|] eqn:B; [|discriminate]. destruct (H0 e0 eq_refl) as [I D].
    destruct (run (eval_graph F) e0 nodes) as [e1|] eqn:R; [|discriminate].
    destruct (visit_nodes_sound Hpe visit_subs Hs _ _ _ _ _ _ _ _ _ _ _ _ H) as [_ SEM].
    destruct (SEM F e0 e1 I D GI R) as [e1' (R' & S' & _ & _)]. rewrite R'.
    apply (sub_lookups V e1 e1' outs r S').
  Qed.

  (* the two trivial instances showing that the hypotheses are satisfiable *)
  Definition pe_none : state -> node -> pe_out V := fun st _ => PNone V st.
  Definition subs_id : list vname -> state -> list (string * graph) -> result (subs_result V) :=
    fun _ st subs => OK (st, subs, [], [], []).
  Lemma subs_id_spec : subs_spec subs_id.
  Proof.
    intros bound st subs st' subs' news defd tr H. unfold subs_id in H. inversion H; subst.
    split; [apply facts_eq_ext, facts_eq_refl|]. intros F e _ _ _ _ name sg Fs. exists sg. auto.
  Qed.

  (* identity substitution, If inlining and dead node removal, named as in the design *)
  Definition identity_subst_sound := subst_node_sound.
  Definition if_inline_sound := inline_step.

  Theorem dce_sound : forall fuel outer gi gn pre M suf outs args v,
    disjoint (defs_nodes M) (names_nodes suf) -> disjoint (defs_nodes M) outs ->
    eval_graph (S fuel) outer (Graph gi gn (pre ++ M ++ suf) outs) args = Some v ->
    eval_graph (S fuel) outer (Graph gi gn (pre ++ suf) outs) args = Some v.
  Proof. intros. eapply (dead_nodes_removable V sem truth trip of_nat of_bool limit); eauto. Qed.

  (* A node all of whose inputs are known (in every environment reached after the prefix) and that the reference
     evaluator evaluates to [v] may be removed, its output becoming an initializer bound in the outer environment. *)
  Theorem fold_node_sound : forall F outer gi gn pre n suf outs args y v xs r,
    n_outs n = [y] -> n_subs n = [] ->
    ref_eval (n_dom n) (n_op n) (n_attrs n) xs = Some [v] ->
    (forall e0 e1, bind gi args outer = Some e0 -> run (eval_graph F) e0 pre = Some e1 -> lookup_opts e1 (n_ins n) = Some xs) ->
    ~ In y gi -> ~ In y (names_nodes pre) ->
    eval_graph (S F) outer (Graph gi gn (pre ++ n :: suf) outs) args = Some r ->
    eval_graph (S F) ((y, v) :: outer) (Graph gi (y :: gn) (pre ++ suf) outs) args = Some r.
  Proof.
    intros F outer gi gn pre n suf outs args y v xs r Ou NS RE HX Ngi Npre.
    cbn [Sem.eval_graph]. unfold Sem.eval_body. cbn [g_ins g_nodes g_outs].
    destruct (bind gi args outer) as [e0|] eqn:B; [|discriminate].
    rewrite (run_app V sem truth trip of_nat of_bool limit).
    destruct (run (eval_graph F) e0 pre) as [e1|] eqn:R1; [|discriminate]. cbn [Sem.run].
    destruct (eval_node (eval_graph F) e1 n) as [en|] eqn:En; [|discriminate].
    destruct (eval_nosubs (eval_graph F) e1 n en NS En) as [vs [rs [L [S Bn]]]].
    rewrite (HX e0 e1 eq_refl R1) in L. inversion L; subst vs. rewrite (ref_agrees _ _ _ _ _ RE) in S. inversion S; subst rs.
    rewrite Ou in Bn. cbn in Bn. inversion Bn; subst en. clear Bn S L.
    destruct (run (eval_graph F) ((y, v) :: e1) suf) as [e2|] eqn:R2; [|discriminate]. intro LO.
    (* the new graph *)
    assert (A0 : agree_except V [y] outer ((y, v) :: outer)).
    { intros x Hx. cbn. destruct (String.eqb x y) eqn:E; [|reflexivity]. apply String.eqb_eq in E. subst. exfalso. apply Hx. left; reflexivity. }
    pose proof (agree_bind V [y] outer ((y, v) :: outer) gi args A0) as AB. rewrite B in AB.
    destruct (bind gi args ((y, v) :: outer)) as [e0'|] eqn:B'; [|contradiction].
    rewrite (run_app V sem truth trip of_nat of_bool limit).
    assert (Dpre : disjoint [y] (names_nodes pre)) by (intros x [<-|[]]; exact Npre).
    pose proof (run_agree V sem truth trip of_nat of_bool limit [y] (eval_graph F) pre
                  (eval_graph_agree V sem truth trip of_nat of_bool limit [y] F) e0 e0' AB Dpre) as RA.
    rewrite R1 in RA. destruct (run (eval_graph F) e0' pre) as [e1'|] eqn:R1'; [|contradiction].
    assert (Ly : lookup e1' y = Some v).
    { destruct (run_shape V sem truth trip of_nat of_bool limit _ _ _ _ R1') as [b [-> Hb]].
      rewrite (lookup_app_notin V sem truth trip of_nat limit b e0' y).
      - rewrite (lookup_bind_notin gi args ((y, v) :: outer) e0' y B' Ngi). cbn. rewrite String.eqb_refl. reflexivity.
      - intro Hin. apply Npre. apply defs_in_names. apply Hb. exact Hin. }
    assert (A1 : agree_except V [] ((y, v) :: e1) e1').
    { intros x _. cbn. destruct (String.eqb x y) eqn:E.
      - apply String.eqb_eq in E. subst. symmetry. exact Ly.
      - apply RA. intros [<-|[]]. rewrite String.eqb_refl in E. discriminate. }
    pose proof (run_agree V sem truth trip of_nat of_bool limit [] (eval_graph F) suf
                  (eval_graph_agree V sem truth trip of_nat of_bool limit [] F) _ _ A1 (fun x (H : In x []) => match H with end)) as RS.
    rewrite R2 in RS. destruct (run (eval_graph F) e1' suf) as [e2'|]; [|contradiction].
    rewrite <- (agree_lookups V [] e2 e2' outs RS (fun x (H : In x []) => match H with end)). exact LO.
  Qed.
End P.
