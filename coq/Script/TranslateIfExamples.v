(* A concrete instance of the S2 theorem's hypotheses (non-vacuity): a program with an if/else whose then branch
   re-assigns a variable defined before (`a`: the else branch copies the outer value with Identity), whose two
   branches both define `b`, whose else branch contains a nested if/else (one branch of which does not assign `b`)
   and a variable `d` that is assigned but not live afterwards; evaluated with the toy kernel semantics of
   TranslateExamples.v on inputs taking each path. *)
From Coq Require Import List String ZArith Bool.
Require Import OV.Graph.Syntax OV.Graph.Sem OV.Script.Syntax OV.Script.Sets OV.Gen.Analysis OV.Gen.ScriptTables
               OV.Script.Translate OV.Script.PySem OV.Script.TranslateProofs OV.Script.TranslateExamples
               OV.Script.TranslateIfProofs.
Import ListNotations.
Local Open Scope string_scope.

Definition exif_f : func :=
  {| f_name := "g"; f_tparams := ["x"; "y"; "c"]; f_aparams := [];
     f_body := [SAssign "a" (EBin "Add" (EVar "x") (EVar "y"));
                SIf (EVar "c")
                    [SAssign "a" (EBin "Mult" (EVar "a") (EVar "x"));
                     SAssign "b" (EBin "Add" (EVar "x") (ELit (LInt 2)))]
                    [SAssign "b" (EBin "Mult" (EVar "y") (EVar "y"));
                     SIf (EVar "y")
                         [SAssign "b" (EBin "Add" (EVar "b") (ELit (LInt 1)))]
                         [SAssign "d" (EBin "Mult" (EVar "b") (ELit (LInt 2)))];
                     SAssign "d" (EUn "USub" (EVar "b"))];
                SAssign "r" (EBin "Add" (EVar "a") (EVar "b"));
                SReturn [EVar "r"; EVar "a"]] |}.

Definition exif_truth (z : Z) : option bool := Some (negb (Z.eqb z 0)).
Definition exif_trip (z : Z) : option nat := Some (Z.to_nat z).
Definition exif_script (xs : list Z) : option (list Z) :=
  eval_script Z toy_sem exif_truth exif_trip Z.of_nat 10 [] 4 exif_f xs.
Definition exif_graph (g : graph) (xs : list Z) : option (list Z) :=
  eval_graph Z toy_sem exif_truth exif_trip Z.of_nat (fun b : bool => if b then 1%Z else 0%Z) 10 13 [] g xs.

Definition count_if (ns : list node) : nat := List.length (filter (fun n => String.eqb (n_op n) "If") ns).

(* all hypotheses of the theorem hold of this instance; the source evaluates to values on the three paths, and (as
   the theorem says) so does the graph *)
Lemma exif_hyps :
  exists g pre es,
    f_body exif_f = (pre ++ [SReturn es])%list /\ forallb (s2_stmt [] (fun _ => None)) pre = true /\ forallb expr_ok es = true /\
    f_aparams exif_f = [] /\ NoDup (f_tparams exif_f) /\
    translate false [] (fun _ => None) 5 [] exif_f = Some g /\
    count_if (g_nodes g) = 1 /\
    exif_script [5%Z; 3%Z; 1%Z] = Some [47%Z; 40%Z] /\ exif_graph g [5%Z; 3%Z; 1%Z] = Some [47%Z; 40%Z] /\
    exif_script [5%Z; 3%Z; 0%Z] = Some [18%Z; 8%Z] /\ exif_graph g [5%Z; 3%Z; 0%Z] = Some [18%Z; 8%Z] /\
    exif_script [5%Z; 0%Z; 0%Z] = Some [5%Z; 5%Z] /\ exif_graph g [5%Z; 0%Z; 0%Z] = Some [5%Z; 5%Z].
Proof.
  eexists. exists (removelast (f_body exif_f)), [EVar "r"; EVar "a"].
  split; [reflexivity|]. split; [reflexivity|]. split; [reflexivity|]. split; [reflexivity|].
  split; [repeat constructor; cbn; intuition discriminate|].
  split; [vm_compute; reflexivity|].
  repeat split; vm_compute; reflexivity.
Qed.
