(* C05, rules exported by onnxscript/rewriter/rules/fusion (_layer_norm, _rms_normalization, _rotary_embedding, _gqa):
   statements only.  Scalars range over an arbitrary field (no real-number axioms); Sqrt, Pow with a constant exponent and
   the per-head attention function are abstract. *)
From Coq Require Import List ZArith Bool Arith.
Require Import OV.Fusion.Field OV.Fusion.Norm OV.Fusion.NormProofs OV.Fusion.Rotary OV.Fusion.Attn OV.Rules.FusionRules OV.Rules.FusionRulesProofs.
Import ListNotations.

(* LayerNormFusion: side condition (x FLOAT/DOUBLE and known; epsilon a one-element constant; both ReduceMean over the
   constant axes [-1] with keepdims = 1 written; squared deviation by Mul or by Pow with exponent EXACTLY 2) => on every
   row, for every epsilon and scale, the sub-graph is LayerNormalization(axis = -1, stash_type = type of x) *)
Theorem C05_fusion_layer_norm : forall (F : Type) (o : fops F), is_field o ->
  forall (sqrt : F -> F) (powr : F -> Z -> Z -> F),
  (forall v n d, (0 < d)%Z -> (n = 2 * d)%Z -> powr v n d = pow o v 2) ->
  forall h ax st (x scale : list F) (eps : F),
  ln_fires h = Some (ax, st) ->
  ln_host_sem F o sqrt powr h x scale eps = ln_spec F o sqrt x scale None eps /\
  ax = (-1)%Z /\ (st = 1 \/ st = 11)%Z /\ lh_eps_singleton h = true.
Proof. exact ln_rule_sound. Qed.
Print Assumptions C05_fusion_layer_norm.

Theorem C05_fusion_layer_norm_bias : forall (F : Type) (o : fops F) (sqrt : F -> F) x scale b eps,
  ln_bias_pattern F o sqrt x scale b eps = ln_spec F o sqrt x scale (Some b) eps.
Proof. exact layer_norm_bias_identity. Qed.
Print Assumptions C05_fusion_layer_norm_bias.

Theorem C05_fusion_layer_norm_near_misses :
  ln_fires ln_ok = Some ((-1)%Z, 1%Z) /\
  ln_fires {| lh_xdt := None; lh_eps_singleton := true; lh_axes1 := Some [-1]%Z; lh_axes2 := Some [-1]%Z; lh_keepdims1 := Some 1%Z; lh_keepdims2 := Some 1%Z; lh_sq := SqPowF 2 1; lh_norm := NormRecip |} = None /\
  ln_fires {| lh_xdt := Some FLOAT16; lh_eps_singleton := true; lh_axes1 := Some [-1]%Z; lh_axes2 := Some [-1]%Z; lh_keepdims1 := Some 1%Z; lh_keepdims2 := Some 1%Z; lh_sq := SqPowF 2 1; lh_norm := NormRecip |} = None /\
  ln_fires {| lh_xdt := Some FLOAT; lh_eps_singleton := false; lh_axes1 := Some [-1]%Z; lh_axes2 := Some [-1]%Z; lh_keepdims1 := Some 1%Z; lh_keepdims2 := Some 1%Z; lh_sq := SqPowF 2 1; lh_norm := NormRecip |} = None /\
  ln_fires {| lh_xdt := Some FLOAT; lh_eps_singleton := true; lh_axes1 := None; lh_axes2 := Some [-1]%Z; lh_keepdims1 := Some 1%Z; lh_keepdims2 := Some 1%Z; lh_sq := SqPowF 2 1; lh_norm := NormRecip |} = None /\
  ln_fires {| lh_xdt := Some FLOAT; lh_eps_singleton := true; lh_axes1 := Some [-1]%Z; lh_axes2 := Some [1]%Z; lh_keepdims1 := Some 1%Z; lh_keepdims2 := Some 1%Z; lh_sq := SqPowF 2 1; lh_norm := NormRecip |} = None /\
  ln_fires {| lh_xdt := Some FLOAT; lh_eps_singleton := true; lh_axes1 := Some [-1]%Z; lh_axes2 := Some [-1]%Z; lh_keepdims1 := Some 0%Z; lh_keepdims2 := Some 1%Z; lh_sq := SqPowF 2 1; lh_norm := NormRecip |} = None /\
  ln_fires {| lh_xdt := Some FLOAT; lh_eps_singleton := true; lh_axes1 := Some [-1]%Z; lh_axes2 := Some [-1]%Z; lh_keepdims1 := Some 1%Z; lh_keepdims2 := Some 1%Z; lh_sq := SqPowF 200001 100000; lh_norm := NormRecip |} = None.
Proof. exact ln_near_misses. Qed.
Print Assumptions C05_fusion_layer_norm_near_misses.

(* RmsNormFusion (both Mul orders): side condition (x, scale of a known float type; compute type FLOAT/DOUBLE; epsilon a
   one-element float constant; ReduceMean over constant axes [-1], keepdims = 1, noop_with_empty_axes = 0 written;
   Pow exponent EXACTLY 2) => RMSNormalization(axis = -1) on every row *)
Theorem C05_fusion_rms_norm : forall (F : Type) (o : fops F), is_field o ->
  forall (sqrt : F -> F) (powr : F -> Z -> Z -> F),
  (forall v n d, (0 < d)%Z -> (n = 2 * d)%Z -> powr v n d = pow o v 2) ->
  forall h ax st (x scale : list F) (eps : F),
  rms_fires h = Some (ax, st) ->
  rms_host_sem F o sqrt powr h x scale eps = rms_spec F o sqrt x scale eps /\
  ax = (-1)%Z /\ (st = 1 \/ st = 11)%Z /\ rh_eps_float_singleton h = true.
Proof. exact rms_rule_sound. Qed.
Print Assumptions C05_fusion_rms_norm.

(* RotaryEmbedding23Fusion: side condition (x of known rank 4 with static dims 1 and 3; the four Slice bounds and the two
   Unsqueeze axes one-element constants with start1 = 0, end1 = start2 = D/2, end2 >= D, axes = 1) => on every row
   x = x1 ++ x2 with |x1| = |x2| = |cos| = |sin| the sub-graph is RotaryEmbedding(interleaved = 0, num_heads = dim 1) *)
Theorem C05_fusion_rotary_embedding : forall (F : Type) (o : fops F), is_field o ->
  forall h nh s1 e1 s2 e2 (x1 x2 c s : list F),
  rot_fires h = Some nh ->
  ro_s1 h = Some s1 -> ro_e1 h = Some e1 -> ro_s2 h = Some s2 -> ro_e2 h = Some e2 ->
  ro_dim3 h = Some (Z.of_nat (length (x1 ++ x2))) ->
  length x1 = length c -> length x2 = length c -> length s = length c ->
  rope23_pattern F o (x1 ++ x2) c s (Z.to_nat s1) (Z.to_nat e1) (Z.to_nat s2) (Z.to_nat e2) = rope_spec F o (x1 ++ x2) c s
  /\ ro_dim1 h = Some nh /\ ro_rank h = Some 4.
Proof. exact rot_rule_sound. Qed.
Print Assumptions C05_fusion_rotary_embedding.

(* PartialRotaryEmbedding23Fusion: end1 = start2 constants, no rotary_embedding_dim yet, interleaved absent or 0 =>
   RotaryEmbedding(x, rotary_embedding_dim = end1) *)
Theorem C05_fusion_partial_rotary_embedding : forall (F : Type) (o : fops F) h r e1 s2 (x c s : list F),
  partial_fires h = Some r -> ph_end1 h = Some e1 -> ph_start2 h = Some s2 ->
  Z.of_nat (2 * length c) = e1 -> 2 * length c <= length x ->
  partial_pattern F o x c s (Z.to_nat e1) (Z.to_nat s2) = rope_spec F o x c s /\ r = e1 /\
  ph_has_dim_attr h = false /\ (ph_interleaved h = None \/ ph_interleaved h = Some 0%Z).
Proof. exact partial_rule_sound. Qed.
Print Assumptions C05_fusion_partial_rotary_embedding.

Theorem C05_fusion_rotary_near_misses :
  rot_fires {| ro_rank := Some 4; ro_dim1 := Some 4%Z; ro_dim3 := Some 8%Z; ro_s1 := Some 0%Z; ro_e1 := Some 4%Z; ro_s2 := Some 4%Z; ro_e2 := Some 8%Z; ro_one1 := Some 1%Z; ro_one2 := Some 1%Z |} = Some 4%Z /\
  rot_fires {| ro_rank := None; ro_dim1 := Some 4%Z; ro_dim3 := Some 8%Z; ro_s1 := Some 0%Z; ro_e1 := Some 4%Z; ro_s2 := Some 4%Z; ro_e2 := Some 8%Z; ro_one1 := Some 1%Z; ro_one2 := Some 1%Z |} = None /\
  rot_fires {| ro_rank := Some 4; ro_dim1 := None; ro_dim3 := Some 8%Z; ro_s1 := Some 0%Z; ro_e1 := Some 4%Z; ro_s2 := Some 4%Z; ro_e2 := Some 8%Z; ro_one1 := Some 1%Z; ro_one2 := Some 1%Z |} = None /\
  rot_fires {| ro_rank := Some 4; ro_dim1 := Some 4%Z; ro_dim3 := Some 8%Z; ro_s1 := Some 0%Z; ro_e1 := None; ro_s2 := Some 4%Z; ro_e2 := Some 8%Z; ro_one1 := Some 1%Z; ro_one2 := Some 1%Z |} = None /\
  rot_fires {| ro_rank := Some 4; ro_dim1 := Some 4%Z; ro_dim3 := Some 8%Z; ro_s1 := Some 0%Z; ro_e1 := Some 4%Z; ro_s2 := Some 4%Z; ro_e2 := Some 7%Z; ro_one1 := Some 1%Z; ro_one2 := Some 1%Z |} = None /\
  rot_fires {| ro_rank := Some 4; ro_dim1 := Some 4%Z; ro_dim3 := Some 8%Z; ro_s1 := Some 0%Z; ro_e1 := Some 4%Z; ro_s2 := Some 4%Z; ro_e2 := Some 8%Z; ro_one1 := Some 2%Z; ro_one2 := Some 1%Z |} = None /\
  partial_fires {| ph_end1 := Some 4%Z; ph_start2 := Some 4%Z; ph_has_dim_attr := false; ph_interleaved := None |} = Some 4%Z /\
  partial_fires {| ph_end1 := Some 4%Z; ph_start2 := Some 5%Z; ph_has_dim_attr := false; ph_interleaved := None |} = None /\
  partial_fires {| ph_end1 := None; ph_start2 := Some 4%Z; ph_has_dim_attr := false; ph_interleaved := None |} = None /\
  partial_fires {| ph_end1 := Some 4%Z; ph_start2 := Some 4%Z; ph_has_dim_attr := true; ph_interleaved := None |} = None /\
  partial_fires {| ph_end1 := Some 4%Z; ph_start2 := Some 4%Z; ph_has_dim_attr := false; ph_interleaved := Some 1%Z |} = None.
Proof. exact rot_partial_gqa_near_misses. Qed.
Print Assumptions C05_fusion_rotary_near_misses.

(* OnnxGroupQueryAttention, values: Attention over keys/values repeated by Unsqueeze(2) / Expand([B,Hkv,G,T,D]) /
   Reshape([B,Hkv*G,T,D]) = Attention(kv_num_heads = Hkv) on the present key/value.  PARTIAL: the Attention-23 operator
   is its documented head mapping over an abstract per-head function; its softmax/scale/softcap internals, the three
   outputs' plumbing and is_causal alignment are not modelled (is_causal must be 0: see gqa_fires) *)
Theorem C05_fusion_gqa_values_partial : forall (A : Type) (d0 : A)
  (attn : list (list A) -> list (list A) -> list (list A) -> option (list (list A)) -> list (list A))
  B S T Hkv G Dh q kseq vseq mask, 0 < Hkv -> 0 < G ->
  gqa23_host A d0 attn B S T Hkv G Dh q kseq vseq mask = gqa23_fused A d0 attn B S T Hkv G Dh q kseq vseq mask.
Proof. exact gqa23_rule_sound. Qed.
Print Assumptions C05_fusion_gqa_values_partial.

(* the same without positivity hypotheses (no head exists when Hkv = 0 or G = 0) *)
Theorem C05_fusion_gqa_values_total_partial : forall (A : Type) (d0 : A)
  (attn : list (list A) -> list (list A) -> list (list A) -> option (list (list A)) -> list (list A))
  B S T Hkv G Dh q kseq vseq mask,
  gqa23_host A d0 attn B S T Hkv G Dh q kseq vseq mask = gqa23_fused A d0 attn B S T Hkv G Dh q kseq vseq mask.
Proof. exact gqa23_rule_sound_total. Qed.
Print Assumptions C05_fusion_gqa_values_total_partial.

(* check-sufficiency: the SHIPPED check of _gqa.py (after commit aa8c462: is_causal absent or 0; the seven operand shapes; the
   Expand results [B,Hkv,G,T,D]; H, Hkv, G static with H = Hkv * G) establishes exactly the operand layouts that
   C05_fusion_gqa_values(_total)_partial is about *)
Theorem C05_fusion_gqa_check_sufficient : forall h, gqa_fires h = true ->
  exists B H S D Hkv P T G,
    gh_query h = Some [B; H; S; D] /\ gh_key h = Some [B; Hkv; S; D] /\ gh_value h = Some [B; Hkv; S; D] /\
    gh_past_key h = Some [B; Hkv; P; D] /\ gh_past_value h = Some [B; Hkv; P; D] /\
    gh_present_key h = Some [B; H; T; D] /\ gh_present_value h = Some [B; H; T; D] /\
    gh_expand_key h = Some [B; Hkv; G; T; D] /\ gh_expand_value h = Some [B; Hkv; G; T; D] /\
    (0 <= H /\ 0 <= Hkv /\ 0 <= G /\ H = Hkv * G)%Z /\
    (gh_is_causal h = None \/ gh_is_causal h = Some 0%Z).
Proof. exact gqa_shipped_check_sufficient. Qed.
Print Assumptions C05_fusion_gqa_check_sufficient.

Theorem C05_fusion_gqa_shipped_refines_legacy : forall h, gqa_fires h = true -> gqa_fires_impl h = true.
Proof. exact gqa_shipped_refines_legacy. Qed.
Print Assumptions C05_fusion_gqa_shipped_refines_legacy.

(* witness about the OLD check (legacy = true: the seven check_shape calls only, before aa8c462): it accepted an Expand that
   repeats the heads in the other order and an Attention with is_causal = 1; the shipped check (legacy = false) refuses both.
   Findings C05:fusion:gqa:expand-shape-not-checked, C05:fusion:gqa:is-causal-carried (fixed) *)
Theorem C05_fusion_gqa_impl_check_refuted :
  gqa_fires_v false (gqa_witness [1; 2; 2; 5; 8]%Z None) = true /\
  gqa_fires_v true (gqa_witness [2; 1; 2; 1; 5; 8]%Z None) = true /\ gqa_fires_v false (gqa_witness [2; 1; 2; 1; 5; 8]%Z None) = false /\
  gqa_fires_v true (gqa_witness [1; 2; 2; 5; 8]%Z (Some 1%Z)) = true /\ gqa_fires_v false (gqa_witness [1; 2; 2; 5; 8]%Z (Some 1%Z)) = false.
Proof. exact gqa_legacy_check_insufficient. Qed.
Print Assumptions C05_fusion_gqa_impl_check_refuted.

(* the exponent test before cf408b5 (legacy = true, math.isclose) accepted exponents other than 2; the shipped test
   (legacy = false) is the exact one of C05_fusion_layer_norm / C05_fusion_rms_norm and implies the legacy one *)
Theorem C05_fusion_pow_exponent_legacy_refuted :
  sq_ok true (SqPowF 200001 100000) = true /\ sq_ok false (SqPowF 200001 100000) = false /\
  sq_ok true (SqPowF 2001 1000) = false /\ sq_ok true (SqPowF 4 2) = true /\ sq_ok false (SqPowF 4 2) = true /\
  (forall s, sq_ok false s = true -> sq_ok true s = true).
Proof. exact pow_exponent_legacy_refuted. Qed.
Print Assumptions C05_fusion_pow_exponent_legacy_refuted.
