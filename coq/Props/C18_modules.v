(* C18, part 4: module trees with SHARED objects (model A: coq/Builder/Modules.v, proofs in
   ModulesProofs.v, section "sharing").  Statements only, each closed by `exact`.

   Property text: "every module parameter appears exactly once as an initializer whose name is the
   dotted module path, equal to the keys of state_dict()/named_parameters()".  Props/C18.v proves it
   under `program_okb`, which excludes sharing.  Here the no-sharing hypothesis is dropped
   (`program_sh_okb` / `tree_sh_hyps`) and the exact boundary is proved:

     * every Parameter OBJECT is realised exactly once (any tree, any names, Parameter objects or whole
       sub-modules shared)                                            C18_param_objects_realised_once
     * the initializer names are root + the state_dict keys of the FIRST registration of every object,
       one initializer per distinct object                            C18_param_names_first_registration,
                                                                      C18_param_objects_once
     * names = root + ALL state_dict keys  <->  no Parameter object is registered twice
                                                                      C18_names_eq_iff_no_sharing (+ _perm, _tree)
     * "=>" of that equivalence needs no hypothesis on names at all   C18_sharing_always_shows

   Not covered: a user forward() that calls children in another order than they were registered (the
   model calls every child once in registration order: "first registration" = first in state_dict
   order); construction programs that share a MODULE object (see the last section: object graphs with
   shared modules are covered at tree level, their construction only as `..._full`). *)
From Coq Require Import String List Bool Arith Permutation.
Require Import OV.Builder.Strings OV.Builder.Modules OV.Builder.ModulesProofs.
Import ListNotations.
Local Open Scope string_scope.

(* ------------------------------------------------------------------------------------------------
   Every tree in which no ModuleList carries parameters of its own: the Parameter objects that become
   initializers are the distinct registered objects, each exactly once, in first-registration order.
   No hypothesis on names, keys, sharing (objects or sub-modules).  Does not say under which NAME. *)
Theorem C18_param_objects_realised_once : forall cf t, lp_okb t = true ->
  realised_ids cf t = distinct_ids t /\ NoDup (realised_ids cf t) /\
  (forall i, In i (param_ids t) <-> In i (realised_ids cf t)).
Proof. exact realised_ids_distinct. Qed.
Print Assumptions C18_param_objects_realised_once.

(* Same generality: as soon as one object is registered twice there are fewer initializers than
   state_dict keys, so the names cannot be root + state_dict keys (in any order). *)
Theorem C18_sharing_always_shows : forall cf t, lp_okb t = true ->
  List.length (realised_names cf t) = List.length (sd_keys t) -> nodup_natb (param_ids t) = true.
Proof. exact names_eq_implies_no_sharing. Qed.
Print Assumptions C18_sharing_always_shows.

Example C18_sharing_always_shows_nonvacuous :
  (* hypothesis satisfiable (no sharing, depth 4) *)
  program_sh_okb cfg_pinned (ex_program (Some "model")) = true /\
  nodup_natb (param_ids (construct cfg_pinned (ex_program (Some "model")))) = true.
Proof. exact ex_unshared_ok. Qed.

(* ------------------------------------------------------------------------------------------------
   Construction programs, hypotheses of C18_param_names_eq_state_dict MINUS "no Parameter object is
   shared" (and "own name = key" required of the first registration of each object only). *)
Theorem C18_param_names_first_registration : forall cf s, program_sh_okb cf s = true ->
  realised_names cf (construct cf s) =
  map (prefix (root_name (construct cf s))) (first_keys (construct cf s)).
Proof. exact param_names_first_registration. Qed.
Print Assumptions C18_param_names_first_registration.

(* one initializer per distinct Parameter object: pairwise different names, as many as there are
   distinct objects, the dict values are exactly the distinct objects *)
Theorem C18_param_objects_once : forall cf s, program_sh_okb cf s = true ->
  let t := construct cf s in
  NoDup (realised_names cf t) /\
  List.length (realised_names cf t) = List.length (distinct_ids t) /\
  map snd (init_dict cf t) = distinct_ids t /\ NoDup (distinct_ids t) /\
  map fst (init_dict cf t) = realised_names cf t.
Proof. exact param_objects_once. Qed.
Print Assumptions C18_param_objects_once.

(* THE CHARACTERISATION *)
Theorem C18_names_eq_iff_no_sharing : forall cf s, program_sh_okb cf s = true ->
  (realised_names cf (construct cf s) =
   map (prefix (root_name (construct cf s))) (sd_keys (construct cf s))
   <-> nodup_natb (param_ids (construct cf s)) = true).
Proof. exact names_eq_iff_no_sharing. Qed.
Print Assumptions C18_names_eq_iff_no_sharing.

Theorem C18_names_perm_iff_no_sharing : forall cf s, program_sh_okb cf s = true ->
  (Permutation (realised_names cf (construct cf s))
     (map (prefix (root_name (construct cf s))) (sd_keys (construct cf s)))
   <-> nodup_natb (param_ids (construct cf s)) = true).
Proof. exact names_perm_iff_no_sharing. Qed.
Print Assumptions C18_names_perm_iff_no_sharing.

(* the hypotheses are those of Props/C18.v with the no-sharing conjunct removed *)
Theorem C18_program_okb_is_sh_and_no_sharing : forall cf s, program_okb cf s = true ->
  program_sh_okb cf s = true /\ nodup_natb (param_ids (construct cf s)) = true.
Proof. exact program_okb_sh. Qed.
Print Assumptions C18_program_okb_is_sh_and_no_sharing.

(* non-vacuity: a program sharing one Parameter in every position (same module under two keys,
   siblings in a Sequential, three registrations across containers incl. a late append, parent and
   child, unrelated modules) satisfies the hypotheses under either probed configuration, named or
   unnamed root; the right-hand side of the equivalence is false on it ... *)
Example C18_sharing_hypotheses_satisfiable :
  program_sh_okb cfg_pinned (ex_shared (Some "model")) = true /\
  program_sh_okb cfg_fixed (ex_shared (Some "model")) = true /\
  program_sh_okb cfg_fixed (ex_shared None) = true /\
  nodup_natb (param_ids (construct cfg_fixed (ex_shared (Some "model")))) = false /\
  program_okb cfg_fixed (ex_shared (Some "model")) = false.
Proof. exact ex_shared_ok. Qed.
(* ... 11 state_dict keys, 6 initializers *)
Example C18_sharing_example_names :
  realised_names cfg_fixed (construct cfg_fixed (ex_shared (Some "model"))) =
  ["model.scale"; "model.layers.0.w"; "model.layers.0.mlp.0.weight"; "model.layers.0.mlp.2.weight";
   "model.head.weight"; "model.tail.weight"] /\
  sd_keys (construct cfg_fixed (ex_shared (Some "model"))) =
  ["scale"; "gain"; "layers.0.w"; "layers.0.mlp.0.weight"; "layers.0.mlp.1.weight"; "layers.0.mlp.2.weight";
   "layers.1.weight"; "head.w"; "head.weight"; "head.inner.weight"; "tail.weight"] /\
  init_dict cfg_fixed (construct cfg_fixed (ex_shared (Some "model"))) =
  [("model.scale", 0); ("model.layers.0.w", 1); ("model.layers.0.mlp.0.weight", 2);
   ("model.layers.0.mlp.2.weight", 3); ("model.head.weight", 4); ("model.tail.weight", 5)].
Proof. exact ex_shared_names. Qed.

(* outside `first_named_okb`: the registration that is FIRST in call order was executed SECOND (late
   append), under another key; the object's own name is "v", the initializer root.l.0.0.v is not
   root + any state_dict key.  Replayed on the real code by the harness. *)
Theorem C18_shared_first_named_refuted :
  consistentb URoot w_shared_late_first = true /\ keys_shb (construct cfg_fixed w_shared_late_first) = true /\
  first_named_okb (construct cfg_fixed w_shared_late_first) = false /\
  realised_names cfg_fixed (construct cfg_fixed w_shared_late_first) = ["root.l.0.0.v"] /\
  sd_keys (construct cfg_fixed w_shared_late_first) = ["l.0.0.w"; "l.1.v"].
Proof. exact shared_first_named_refuted. Qed.
Print Assumptions C18_shared_first_named_refuted.

(* ------------------------------------------------------------------------------------------------
   Object graphs (any way of building them): the tree-level statements behind the above. *)
Theorem C18_realised_names_sharing_tree : forall cf t, tree_sh_hyps cf t ->
  realised_names cf t = map (prefix (root_name t)) (first_keys t).
Proof. exact realised_names_sharing. Qed.
Print Assumptions C18_realised_names_sharing_tree.

Theorem C18_names_eq_iff_no_sharing_tree : forall cf t, tree_sh_hyps cf t ->
  (realised_names cf t = map (prefix (root_name t)) (sd_keys t) <-> nodup_natb (param_ids t) = true).
Proof. exact names_eq_iff_no_sharing_tree. Qed.
Print Assumptions C18_names_eq_iff_no_sharing_tree.

Theorem C18_init_dict_sharing_tree : forall cf t, tree_sh_hyps cf t ->
  init_dict cf t = map (fun e => (prefix (root_name t) (fst e), snd e)) (first_entries t).
Proof. exact init_dict_sharing. Qed.
Print Assumptions C18_init_dict_sharing_tree.

(* ------------------------------------------------------------------------------------------------
   Shared SUB-MODULES.  A Module object has ONE `_name`, given by its first registration
   (Module.__setattr__ renames only unnamed children) or rewritten by the last container it is put in.
   In an object graph it shows as identical subtrees.  Proved for every object graph satisfying the
   decidable hypotheses `tree_sh_okb` (in particular: every registration of the shared module sits
   under the key that is its name): *)
Theorem C18_shared_submodule_names_partial : forall cf t, tree_sh_okb cf t = true ->
  realised_names cf t = map (prefix (root_name t)) (first_keys t) /\
  (realised_names cf t = map (prefix (root_name t)) (sd_keys t) <-> nodup_natb (param_ids t) = true) /\
  map snd (init_dict cf t) = distinct_ids t /\ NoDup (distinct_ids t).
Proof. exact shared_submodule_names_partial. Qed.
Print Assumptions C18_shared_submodule_names_partial.

(* hypotheses satisfiable with a module shared between two parents under the same key (and sharing
   makes the right-hand side false); the same object graph obtained by an aliasing program *)
Example C18_shared_submodule_satisfiable :
  tree_sh_okb cfg_fixed w_submod_same_key = true /\ tree_sh_okb cfg_pinned w_submod_same_key = true /\
  nodup_natb (param_ids w_submod_same_key) = false /\
  realised_names cfg_fixed w_submod_same_key = ["root.x.a.w"] /\
  sd_keys w_submod_same_key = ["x.a.w"; "y.a.w"].
Proof. exact ex_submod_same_key. Qed.
Example C18_alias_same_key :
  match aliases (construct cfg_fixed ex_alias_base) [(["enc"; "proj"], ["dec"], "proj")] with
  | Some t => tree_sh_okb cfg_fixed t = true /\ nodup_natb (param_ids t) = false /\
              alias_keys_match (construct cfg_fixed ex_alias_base) [(["enc"; "proj"], ["dec"], "proj")] = true /\
              realised_names cfg_fixed t = ["model.enc.proj.weight"; "model.dec.w"] /\
              sd_keys t = ["enc.proj.weight"; "dec.w"; "dec.proj.weight"]
  | None => False
  end.
Proof. exact ex_alias_same_key. Qed.

(* NOT proved (kept visible): aliasing programs (`parent.<key> = <module registered elsewhere>` after
   construction, parent a plain Module) whose keys equal the shared module's name always yield object
   graphs with propagated names.  Missing: preservation of `shape_ok` by `graft_at`.  Registering an
   existing module in a ModuleList / Sequential is not expressible as a program (the container renames
   the shared object, see the refutation below); such object graphs are only covered at tree level. *)
Definition C18_shared_submodule_names_full : Prop := shared_submodule_names_full.

(* Without the name hypothesis the description is false of the faithful model; all three object graphs
   are reproduced on the real code by the harness:
     - registered (named) as x.a but called first through y.b: initializer root.y.a.w, which is not
       root + any state_dict key;
     - self.b = m; self.l = ModuleList([m, ..]): the list renames m, initializer root.l.0.w although
       the first registration is b.w;
     - two keys of one parent: hypotheses fail, conclusion still holds (sufficient, not necessary). *)
Theorem C18_shared_submodule_refuted :
  sharing_okb cfg_fixed w_submod_misnamed = true /\ shape_okb w_submod_misnamed = false /\
  realised_names cfg_fixed w_submod_misnamed = ["root.y.a.w"] /\
  map (prefix (root_name w_submod_misnamed)) (first_keys w_submod_misnamed) = ["root.y.b.w"] /\
  sd_keys w_submod_misnamed = ["y.b.w"; "x.a.w"] /\
  sharing_okb cfg_fixed w_submod_list_renames = true /\ shape_okb w_submod_list_renames = false /\
  realised_names cfg_fixed w_submod_list_renames = ["root.l.0.w"; "root.l.1.w"] /\
  sd_keys w_submod_list_renames = ["b.w"; "l.0.w"; "l.1.w"] /\
  shape_okb w_submod_two_keys = false /\
  realised_names cfg_fixed w_submod_two_keys = map (prefix "root") (first_keys w_submod_two_keys).
Proof. exact shared_submodule_refuted. Qed.
Print Assumptions C18_shared_submodule_refuted.

(* ------------------------------------------------------------------------------------------------
   Name collisions.  Two DIFFERENT Parameter objects can be realised under one qualified initializer
   name (a shared Parameter / Module object keeps the name of its first registration; explicit names
   that coincide after qualification).  As read, `root.graph.initializers[name] = self` silently replaces
   the earlier one: a weight is lost.  With the repair (proposed_fixes/ready/C18_05_*: Parameter._realize
   raises ValueError) the call fails instead.  `call_result raises_on_collision cf t` models both variants;
   the harness probes which one the code is in (the flag is not a field of `cfg`). *)

(* both variants in terms of `collision_free` (names of the effective realisations pairwise different) *)
Theorem C18_call_result_spec : forall cf t,
  call_result false cf t = Returned (init_dict cf t) /\
  returns (call_result true cf t) = collision_free cf t /\
  (collision_free cf t = true -> call_result true cf t = Returned (init_dict cf t)) /\
  (collision_free cf t = false -> exists n, call_result true cf t = Raised n /\ In n (realised_names cf t)).
Proof. exact call_result_spec. Qed.
Print Assumptions C18_call_result_spec.

(* REPAIRED behaviour: whenever the call returns, every Parameter object of the tree is an initializer
   exactly once, under pairwise different names -- for EVERY object graph (any names, Parameter objects
   and sub-modules shared; only "a ModuleList carries no parameters of its own" is assumed).
   Not covered: that the names are the state_dict keys (false under sharing, see above). *)
Theorem C18_collision_check_fixed : forall cf t d, lp_okb t = true ->
  call_result true cf t = Returned d ->
  d = init_dict cf t /\ NoDup (map fst d) /\ map snd d = distinct_ids t /\ NoDup (distinct_ids t) /\
  List.length d = List.length (distinct_ids t) /\
  (forall i, In i (param_ids t) <-> In i (map snd d)) /\
  map fst d = realised_names cf t.
Proof. exact collision_check_fixed. Qed.
Print Assumptions C18_collision_check_fixed.

(* hypotheses satisfiable: legal weight tying (11 registrations of 6 objects) returns with the check on;
   so does a tree outside the hypotheses of the sharing theorems *)
Example C18_collision_check_fixed_satisfiable :
  call_result true cfg_fixed (construct cfg_fixed (ex_shared (Some "model"))) =
  Returned [("model.scale", 0); ("model.layers.0.w", 1); ("model.layers.0.mlp.0.weight", 2);
            ("model.layers.0.mlp.2.weight", 3); ("model.head.weight", 4); ("model.tail.weight", 5)] /\
  lp_okb (construct cfg_fixed (ex_shared (Some "model"))) = true /\
  List.length (sd_keys (construct cfg_fixed (ex_shared (Some "model")))) = 11.
Proof. exact ex_shared_returns_checked. Qed.
Example C18_collision_check_fixed_outside_hypotheses :
  tree_sh_okb cfg_fixed w_submod_misnamed = false /\
  call_result true cfg_fixed w_submod_misnamed = Returned [("root.y.a.w", 0)] /\
  distinct_ids w_submod_misnamed = [0].
Proof. exact ex_misnamed_returns_checked. Qed.

(* AS READ the statement is false: the call returns with fewer initializers than Parameter objects.
   Witnesses (replayed on the real code by the harness): a shared Parameter realised under the name of a
   sibling (C18:naming:shared-parameter-name-collision), a shared sub-module called first under another key
   next to a module of that name (C18:naming:shared-submodule), two explicit names that coincide. *)
Theorem C18_silent_loss_refuted :
  lp_okb w_collide_shared = true /\ distinct_ids w_collide_shared = [2; 1] /\
  call_result false cfg_fixed w_collide_shared = Returned [("root.b.bias", 1)] /\
  call_result true cfg_fixed w_collide_shared = Raised "root.b.bias" /\
  lp_okb w_collide_submod = true /\ distinct_ids w_collide_submod = [1; 0] /\
  call_result false cfg_fixed w_collide_submod = Returned [("root.y.a.w", 0)] /\
  call_result true cfg_fixed w_collide_submod = Raised "root.y.a.w" /\
  distinct_ids w_collide_explicit = [0; 1] /\
  call_result false cfg_pinned w_collide_explicit = Returned [("root.w", 1)] /\
  call_result true cfg_pinned w_collide_explicit = Raised "root.w".
Proof. exact silent_loss_refuted. Qed.
Print Assumptions C18_silent_loss_refuted.

(* the repair does not touch the positive theorems: under their hypotheses (with or without sharing) no
   two objects get one name, the check never fires, both variants return `init_dict` *)
Theorem C18_check_never_fires_tree : forall cf t, tree_sh_hyps cf t ->
  forall chk, call_result chk cf t = Returned (init_dict cf t).
Proof. exact check_never_fires_tree. Qed.
Print Assumptions C18_check_never_fires_tree.

Theorem C18_check_never_fires : forall cf s, program_sh_okb cf s = true ->
  forall chk, call_result chk cf (construct cf s) = Returned (init_dict cf (construct cf s)).
Proof. exact check_never_fires. Qed.
Print Assumptions C18_check_never_fires.

Theorem C18_check_never_fires_okb : forall cf s, program_okb cf s = true ->
  forall chk, call_result chk cf (construct cf s) = Returned (init_dict cf (construct cf s)).
Proof. exact check_never_fires_okb. Qed.
Print Assumptions C18_check_never_fires_okb.
