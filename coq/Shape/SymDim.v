(* C09 -- symbolic dimensions and the three dimension/shape equalities used by the code.
   Model file: definitions only (no proofs).

   A dimension of an ir.Shape is a Python int, an ir.SymbolicDim("name") or ir.SymbolicDim(None)
   (unknown; a TensorShapeProto dimension with neither dim_value nor dim_param).
   Concrete (runtime) dimensions are integers (Z); a tensor shape has non-negative ones. *)
From Coq Require Import ZArith List Bool String.
Import ListNotations.
Open Scope Z_scope.

Inductive dim := DInt (n : Z) | DSym (s : string) | DUnk.

Definition valuation := string -> nat.

(* what a dimension annotation says about the runtime dimension n under a binding of the symbols *)
Definition denotes (rho : valuation) (d : dim) (n : Z) : Prop :=
  match d with
  | DInt z => n = z
  | DSym s => n = Z.of_nat (rho s)
  | DUnk => 0 <= n                (* an unknown dim says nothing (a dimension is never negative) *)
  end.

Definition shape_denotes (rho : valuation) (s : list dim) (c : list Z) : Prop := Forall2 (denotes rho) s c.

(* --- equality 1: Python `==` on dims.  int == int; onnx_ir SymbolicDim.__eq__ compares `_value`,
       so SymbolicDim(None) == SymbolicDim(None) is True; int == SymbolicDim is False.
       Used by `==` in _remove_expand_before_binary_op.py, ir.Shape.__eq__, tuple compare of .dims. *)
Definition dim_ir_eqb (a b : dim) : bool :=
  match a, b with
  | DInt x, DInt y => Z.eqb x y
  | DSym s, DSym t => String.eqb s t
  | DUnk, DUnk => true
  | _, _ => false
  end.

Fixpoint shape_ir_eqb (a b : list dim) : bool :=
  match a, b with
  | [], [] => true
  | x :: a', y :: b' => dim_ir_eqb x y && shape_ir_eqb a' b'
  | _, _ => false
  end.

(* --- equality 2: onnxscript.rewriter._ir_utils.same_dim / same_shape *)
Definition same_dim (a b : dim) : bool :=
  match a, b with
  | DInt x, DInt y => Z.eqb x y
  | DSym s, DSym t => String.eqb s t
  | _, _ => false
  end.

Definition is_unk (d : dim) : bool := match d with DUnk => true | _ => false end.
Definition has_unknown_dim (s : list dim) : bool := existsb is_unk s.

(* same_shape(shape1, shape2): None shapes (unknown rank) are handled by the caller: option *)
Definition iu_same_shape (s1 s2 : option (list dim)) : bool :=
  match s1, s2 with
  | Some a, Some b => negb (has_unknown_dim a) && negb (has_unknown_dim b) && shape_ir_eqb a b
  | _, _ => false
  end.

(* --- equality 3: onnxscript.optimizer._constant_folding._same_shape(shape1, shape2):
       only shape1 is scanned for unknown dims, then shape1.dims == shape2.dims *)
Definition cf_same_shape (s1 s2 : list dim) : bool :=
  negb (has_unknown_dim s1) && shape_ir_eqb s1 s2.

(* element-wise comparison of two dim lists of equal length with a given dim equality *)
Fixpoint forallb2 {A B} (f : A -> B -> bool) (a : list A) (b : list B) : bool :=
  match a, b with
  | [], [] => true
  | x :: a', y :: b' => f x y && forallb2 f a' b'
  | _, _ => false
  end.

(* correspondence helpers: observed results of the three equalities on a pair of dims / shapes *)
Definition dim_case := (dim * dim * (bool * bool))%type.          (* a, b, (a == b, same_dim a b) *)
Definition dim_agrees (c : dim_case) : bool :=
  let '(a, b, (o1, o2)) := c in Bool.eqb (dim_ir_eqb a b) o1 && Bool.eqb (same_dim a b) o2.
Definition shape_case := (list dim * list dim * (bool * bool * bool))%type.  (* ==, ir_utils.same_shape, cf._same_shape *)
Definition shape_agrees (c : shape_case) : bool :=
  let '(a, b, (o1, o2, o3)) := c in
  Bool.eqb (shape_ir_eqb a b) o1 && Bool.eqb (iu_same_shape (Some a) (Some b)) o2 && Bool.eqb (cf_same_shape a b) o3.
Fixpoint disagreeing {A} (f : A -> bool) (i : nat) (cs : list A) : list nat :=
  match cs with [] => [] | c :: t => (if f c then [] else [i]) ++ disagreeing f (S i) t end.
