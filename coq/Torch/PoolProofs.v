(* C08 -- max_pool{1,2,3}d / avg_pool{1,2,3}d: the attributes computed by _adjust_attributes_of_{max,avg}_pool
   (kernel_shape, strides = kernel when omitted, pads = [begin..., end...], dilations) make MaxPool / AveragePool produce
   PyTorch's output shape, including ceil_mode (the last window must start inside the input or the left padding) and the
   Unsqueeze / Squeeze of an unbatched input. *)
From Coq Require Import ZArith List Bool Lia ZifyBool.
Require Import OV.Torch.Onnx OV.Torch.Onnx2 OV.Torch.Spec OV.Torch.Spec2 OV.Torch.Aten OV.Torch.Aten2
               OV.Torch.Lemmas OV.Torch.ShapeProofs OV.Torch.StackProofs.
Import ListNotations.
Local Open Scope Z_scope.

(* ------------------------------------------------------------------ one spatial axis *)
Lemma pool_out_correct : forall ceil_mode n k s p d o,
  torch_pool_out ceil_mode n k s p d = Some o -> pool_out ceil_mode n k s p p d = Some o /\ 0 < o.
Proof.
  intros cm n k s p d o. unfold torch_pool_out, pool_out, pool_out_doc18, pool_ok.
  destruct ((0 <? k) && (0 <? s) && (0 <? d) && (0 <=? p) && (p <=? k / 2) && (1 <=? n)) eqn:Hdom; [|discriminate].
  cbn [negb].
  assert (Hk : 0 < k /\ 0 < s /\ 0 < d /\ 0 <= p /\ p <= k / 2 /\ 1 <= n) by lia.
  destruct Hk as (Hk & Hs & Hd & Hp & Hpk & Hn).
  replace ((0 <? k) && (0 <? s) && (0 <? d) && (0 <=? p) && (0 <=? p) && (0 <=? n)) with true by lia. cbn [negb option_map].
  assert (H2p : 2 * p <= k) by (pose proof (Z.mul_div_le k 2 ltac:(lia)); lia).
  replace (n + (p + p) - d * (k - 1) - 1) with (n + p + p - d * (k - 1) - 1) by lia.
  set (num := n + p + p - d * (k - 1) - 1).
  assert (Hnum : num <= n + p) by (unfold num; nia).
  destruct cm; cbn [andb].
  - rewrite !ceil_div_pos by lia.
    replace (num + (s - 1)) with (num + s - 1) by lia.
    pose proof (Z.mul_div_le (num + s - 1) s Hs) as Hq1. pose proof (Z.mul_succ_div_gt (num + s - 1) s Hs) as Hq2.
    pose proof (Z.mul_div_le (n + p + s - 1) s Hs) as Hc1. pose proof (Z.mul_succ_div_gt (n + p + s - 1) s Hs) as Hc2.
    revert Hq1 Hq2 Hc1 Hc2. generalize ((num + s - 1) / s) as q. generalize ((n + p + s - 1) / s) as c. intros c q Hq1 Hq2 Hc1 Hc2.
    replace (q + 1 - 1) with q by lia.
    destruct (n + p <=? q * s) eqn:E.
    + assert (c < q + 1) by nia. assert (q - 1 < c) by nia.
      destruct (1 <=? q) eqn:E1; [|discriminate]. intro Ho; inversion Ho; subst o.
      split; [f_equal|]; lia.
    + assert (q + 1 <= c) by nia.
      destruct (1 <=? q + 1) eqn:E1; [|discriminate]. intro Ho; inversion Ho; subst o.
      split; [f_equal|]; lia.
  - replace (num + 0) with num by lia.
    destruct (1 <=? num / s + 1) eqn:E1; [|discriminate]. intro Ho; inversion Ho; subst o. split; [reflexivity | lia].
Qed.

(* the text of the opset-18 document alone (no "windows starting in the right padding are ignored") gives one window more *)
Lemma pool_ceil_doc18_differs : exists n k s p d o,
  torch_pool_out true n k s p d = Some o /\ pool_out true n k s p p d = Some o /\ pool_out_doc18 true n k s p p d = Some (o + 1).
Proof. exists 3, 2, 2, 1, 1, 2. repeat split; reflexivity. Qed.

Lemma pool_dims_correct : forall ceil_mode ns ks ss ps ds out,
  torch_pool_dims ceil_mode ns ks ss ps ds = Some out -> pool_dims ceil_mode ns ks ss ps ps ds = Some out.
Proof.
  induction ns as [|n ns IH]; intros ks ss ps ds out H;
  destruct ks as [|k ks]; destruct ss as [|s ss]; destruct ps as [|p ps]; destruct ds as [|d ds]; cbn in H; try discriminate.
  - exact H.
  - destruct (torch_pool_out ceil_mode n k s p d) as [o|] eqn:Eo; [|discriminate].
    destruct (torch_pool_dims ceil_mode ns ks ss ps ds) as [r|] eqn:Er; [|discriminate].
    inversion H; subst out. cbn [pool_dims].
    destruct (pool_out_correct _ _ _ _ _ _ _ Eo) as [-> Hpos]. rewrite (IH _ _ _ _ _ Er).
    replace (0 <? o) with true by lia. reflexivity.
Qed.

Lemma torch_pool_dims_length : forall ceil_mode ns ks ss ps ds out,
  torch_pool_dims ceil_mode ns ks ss ps ds = Some out ->
  length ks = length ns /\ length ss = length ns /\ length ps = length ns /\ length ds = length ns.
Proof.
  induction ns as [|n ns IH]; intros ks ss ps ds out H;
  destruct ks as [|k ks]; destruct ss as [|s ss]; destruct ps as [|p ps]; destruct ds as [|d ds]; cbn in H; try discriminate.
  - repeat split; reflexivity.
  - destruct (torch_pool_out ceil_mode n k s p d); [|discriminate].
    destruct (torch_pool_dims ceil_mode ns ks ss ps ds) as [r|] eqn:Er; [|discriminate].
    destruct (IH _ _ _ _ _ Er) as (H1 & H2 & H3 & H4). cbn [length]. repeat split; congruence.
Qed.

(* ------------------------------------------------------------------ the attribute adjustment *)
(* kernel_size / dilation: a python int or a list with one entry per spatial axis; stride additionally []; padding
   additionally a one-entry list.  (One-entry lists for kernel_size / stride / dilation with e > 1: see the refuted lemma.) *)
Definition full_ints (e : Z) (x : ints) : Prop := match x with IInt _ => True | IList l => zlen l = e end.
Definition stride_ints (e : Z) (x : ints) : Prop := match x with IInt _ => True | IList l => l = [] \/ zlen l = e end.
Definition padding_ints (e : Z) (x : ints) : Prop := match x with IInt _ => True | IList l => zlen l = 1 \/ zlen l = e end.

Lemma py_rep_2 : forall l, py_rep l 2 = l ++ l.
Proof. intro l. unfold py_rep. change (Z.to_nat 2) with 2%nat. cbn [repeat concat]. rewrite app_nil_r. reflexivity. Qed.
Lemma py_rep_single : forall v k, py_rep [v] k = repeat v (Z.to_nat k).
Proof. intros v k. unfold py_rep. induction (Z.to_nat k); cbn; [reflexivity|]. rewrite IHn. reflexivity. Qed.
Lemma repeat_app' : forall (v : Z) a b, repeat v (a + b) = repeat v a ++ repeat v b.
Proof. intros. apply repeat_app. Qed.

Lemma expand_full : forall e x l, 1 <= e -> full_ints e x -> expand_ints e x = Some l ->
  l = match x with IInt v => repeat v (Z.to_nat e) | IList l' => l' end.
Proof.
  intros e x l He Hx H. destruct x as [v|l']; cbn in *; [inversion H; reflexivity|].
  destruct l' as [|a [|b t]]; cbn [expand_ints] in H.
  - rewrite zlen_nil in Hx. lia.
  - assert (e = 1) by (rewrite zlen_cons, zlen_nil in Hx; lia). subst e. inversion H; reflexivity.
  - destruct (zlen (a :: b :: t) =? e); [inversion H; reflexivity | discriminate].
Qed.

Lemma expand_padding : forall e x ps, 1 <= e <= 3 -> padding_ints e x -> expand_ints e x = Some ps ->
  (let '(_, _, pads, _) := adjust_max_pool e (IInt 1) (IInt 1) x (IInt 1) in pads) = ps ++ ps
  /\ (let '(_, _, pads) := adjust_avg_pool e (IInt 1) (IInt 1) x in pads) = ps ++ ps.
Proof.
  intros e x ps He Hx H. destruct x as [v|l]; cbn [adjust_max_pool adjust_avg_pool].
  - cbn [expand_ints] in H. inversion H; subst ps. replace (Z.to_nat (e * 2)) with (Z.to_nat e + Z.to_nat e)%nat by lia.
    rewrite repeat_app'. split; reflexivity.
  - cbn [padding_ints] in Hx. destruct l as [|a [|b t]].
    + rewrite zlen_nil in Hx. lia.
    + cbn [expand_ints] in H. inversion H; subst ps. change (zlen [a] =? 1) with true. cbn iota.
      rewrite py_rep_single. replace (Z.to_nat (e * 2)) with (Z.to_nat e + Z.to_nat e)%nat by lia.
      rewrite repeat_app'. split; reflexivity.
    + cbn [expand_ints] in H. assert (Hl : zlen (a :: b :: t) = e).
      { destruct Hx as [Hx|Hx]; [|assumption]. rewrite !zlen_cons in Hx. pose proof (zlen_nonneg _ t). lia. }
      rewrite Hl in *. rewrite Z.eqb_refl in H. inversion H; subst ps.
      assert (e = 2 \/ e = 3) as [-> | ->] by (rewrite !zlen_cons in Hl; pose proof (zlen_nonneg _ t); lia);
      cbn [Z.eqb Pos.eqb]; rewrite ?py_rep_2; split; reflexivity.
Qed.

Lemma unsqueeze0 : forall s, unsqueeze_axes s [0] = Some (1 :: s).
Proof.
  intro s. pose proof (unsqueeze_correct s 0) as H. unfold aten_unsqueeze in H. rewrite H.
  unfold torch_unsqueeze, wrap_dim. pose proof (zlen_nonneg _ s).
  replace (Z.max (zlen s + 1) 1) with (zlen s + 1) by lia.
  replace ((- (zlen s + 1) <=? 0) && (0 <? zlen s + 1)) with true by lia. reflexivity.
Qed.
Lemma squeeze0 : forall s, squeeze_axes (1 :: s) [0] = Some s.
Proof.
  intro s. unfold squeeze_axes. cbn [omap_all]. unfold norm_axis. rewrite zlen_cons. pose proof (zlen_nonneg _ s).
  replace ((- (1 + zlen s) <=? 0) && (0 <? 1 + zlen s)) with true by lia. cbn [Z.ltb Z.compare obind forallb nthZ nth_error Z.to_nat andb].
  rewrite remove_at_single by (rewrite zlen_cons; lia). reflexivity.
Qed.

Lemma zlen_length : forall A (a : list A) B (b : list B), length a = length b -> zlen a = zlen b.
Proof. intros. unfold zlen. congruence. Qed.

(* the shared core: whatever lists torch expands the arguments to, MaxPool / AveragePool with pads = ps ++ ps on the
   (possibly unsqueezed) input give torch's shape *)
Lemma pool_core : forall e s ks ss ps ds ceil_mode sp,
  1 <= e -> (zlen s = e + 1 \/ zlen s = e + 2) ->
  torch_pool_dims ceil_mode (drop (zlen s - e) s) ks ss ps ds = Some sp ->
  pool_wrap (zlen s =? e + 1) s (fun s1 => pool_shape ceil_mode s1 ks ss (ps ++ ps) ds) = Some (take (zlen s - e) s ++ sp).
Proof.
  intros e s ks ss ps ds cm sp He Hr Hd.
  destruct (torch_pool_dims_length _ _ _ _ _ _ _ Hd) as (L1 & L2 & L3 & L4).
  assert (Hdl : zlen (drop (zlen s - e) s) = e) by (rewrite zlen_drop by lia; lia).
  assert (Lk : zlen ks = e) by (rewrite <- Hdl; apply zlen_length; assumption).
  assert (Lp : zlen ps = e) by (rewrite <- Hdl; apply zlen_length; assumption).
  assert (Hcore : forall s1, zlen s1 = e + 2 -> drop 2 s1 = drop (zlen s - e) s ->
            pool_shape cm s1 ks ss (ps ++ ps) ds = Some (take 2 s1 ++ sp)).
  { intros s1 H1 H2. unfold pool_shape. rewrite Lk, H1, zlen_app, Lp, Z.eqb_refl.
    replace (e + e =? 2 * e) with true by lia. cbn [negb orb].
    rewrite <- Lp at 1. rewrite take_app_exact.
    assert (drop e (ps ++ ps) = ps) as ->.
    { rewrite <- Lp. unfold drop, zlen. rewrite Nat2Z.id. rewrite skipn_app, skipn_all, Nat.sub_diag. reflexivity. }
    rewrite H2. rewrite (pool_dims_correct _ _ _ _ _ _ _ Hd). reflexivity. }
  unfold pool_wrap. destruct Hr as [Hr|Hr].
  - replace (zlen s =? e + 1) with true by lia.
    rewrite unsqueeze0. cbn [obind].
    rewrite (Hcore (1 :: s)); [| rewrite zlen_cons; lia |].
    + cbn [obind]. destruct s as [|c s']; [rewrite zlen_nil in Hr; lia|].
      replace (zlen (c :: s') - e) with 1 by lia.
      change (take 2 (1 :: c :: s')) with [1; c]. change (take 1 (c :: s')) with [c].
      cbn [app]. rewrite squeeze0. reflexivity.
    + replace (zlen s - e) with 1 by lia. reflexivity.
  - replace (zlen s =? e + 1) with false by lia.
    replace (zlen s - e) with 2 in * by lia. apply Hcore; [assumption | reflexivity].
Qed.

Lemma max_pool_shape_correct : forall e s kernel stride padding dilation ceil_mode out,
  1 <= e <= 3 ->
  full_ints e kernel -> stride_ints e stride -> padding_ints e padding -> full_ints e dilation ->
  torch_pool_shape e s kernel stride padding dilation ceil_mode = Some out ->
  aten_max_pool_shape e s kernel stride padding dilation ceil_mode = Some out.
Proof.
  intros e s kernel stride padding dilation cm out He Hk Hs Hp Hd. unfold torch_pool_shape.
  destruct ((zlen s =? e + 1) || (zlen s =? e + 2)) eqn:Hr; [|discriminate]. cbn [negb].
  destruct (expand_ints e kernel) as [ks|] eqn:Ek; [|discriminate]. cbn [obind].
  destruct (match stride with IList [] => Some ks | _ => expand_ints e stride end) as [ss|] eqn:Es; [|discriminate]. cbn [obind].
  destruct (expand_ints e padding) as [ps|] eqn:Ep; [|discriminate]. cbn [obind].
  destruct (expand_ints e dilation) as [ds|] eqn:Ed; [|discriminate]. cbn [obind].
  destruct (torch_pool_dims cm (drop (zlen s - e) s) ks ss ps ds) as [sp|] eqn:Edims; [|discriminate]. cbn [obind].
  intro H; inversion H; subst out; clear H.
  pose proof (expand_full _ _ _ (proj1 He) Hk Ek) as Hks. pose proof (expand_full _ _ _ (proj1 He) Hd Ed) as Hds.
  destruct (expand_padding _ _ _ He Hp Ep) as [Hpads _].
  unfold aten_max_pool_shape.
  assert (Hadj : adjust_max_pool e kernel stride padding dilation = (ks, ss, ps ++ ps, ds)).
  { unfold adjust_max_pool in *. cbn iota in Hpads. rewrite Hpads. rewrite <- Hks, <- Hds. f_equal. f_equal. f_equal.
    destruct stride as [v|[|a l]].
    - cbn in Es. inversion Es; reflexivity.
    - inversion Es; reflexivity.
    - symmetry. eapply (expand_full e (IList (a :: l))); [lia| |exact Es].
      cbn in Hs. destruct Hs as [Hs|Hs]; [discriminate | exact Hs]. }
  rewrite Hadj. apply pool_core; [lia | lia | assumption].
Qed.

Lemma avg_pool_shape_correct : forall e s kernel stride padding ceil_mode out,
  1 <= e <= 3 ->
  full_ints e kernel -> stride_ints e stride -> padding_ints e padding ->
  torch_pool_shape e s kernel stride padding (IInt 1) ceil_mode = Some out ->
  aten_avg_pool_shape e s kernel stride padding ceil_mode = Some out.
Proof.
  intros e s kernel stride padding cm out He Hk Hs Hp. unfold torch_pool_shape.
  destruct ((zlen s =? e + 1) || (zlen s =? e + 2)) eqn:Hr; [|discriminate]. cbn [negb].
  destruct (expand_ints e kernel) as [ks|] eqn:Ek; [|discriminate]. cbn [obind].
  destruct (match stride with IList [] => Some ks | _ => expand_ints e stride end) as [ss|] eqn:Es; [|discriminate]. cbn [obind].
  destruct (expand_ints e padding) as [ps|] eqn:Ep; [|discriminate]. cbn [obind expand_ints].
  destruct (torch_pool_dims cm (drop (zlen s - e) s) ks ss ps (repeat 1 (Z.to_nat e))) as [sp|] eqn:Edims; [|discriminate]. cbn [obind].
  intro H; inversion H; subst out; clear H.
  pose proof (expand_full _ _ _ (proj1 He) Hk Ek) as Hks.
  destruct (expand_padding _ _ _ He Hp Ep) as [_ Hpads].
  destruct (torch_pool_dims_length _ _ _ _ _ _ _ Edims) as (L1 & _ & _ & L4).
  assert (Lk : zlen ks = e).
  { assert (zlen (drop (zlen s - e) s) = e) by (rewrite zlen_drop by lia; lia). rewrite <- H. apply zlen_length. assumption. }
  unfold aten_avg_pool_shape.
  assert (Hadj : adjust_avg_pool e kernel stride padding = (ks, ss, ps ++ ps)).
  { unfold adjust_avg_pool in *. cbn iota in Hpads. rewrite Hpads. rewrite <- Hks. f_equal. f_equal.
    destruct stride as [v|[|a l]].
    - cbn in Es. inversion Es; reflexivity.
    - inversion Es; reflexivity.
    - symmetry. eapply (expand_full e (IList (a :: l))); [lia| |exact Es].
      cbn in Hs. destruct Hs as [Hs|Hs]; [discriminate | exact Hs]. }
  rewrite Hadj. rewrite Lk.
  replace (repeat 1 (length ks)) with (repeat 1 (Z.to_nat e)) by (f_equal; unfold zlen in Lk; lia).
  apply pool_core; [lia | lia | assumption].
Qed.

(* genuine defect: a one-entry list for kernel_size (or stride / dilation) of a 2-D / 3-D pool is accepted by PyTorch
   (it stands for equal entries) but handed to MaxPool unexpanded *)
Lemma max_pool_one_entry_kernel_refuted : exists e s kernel stride padding dilation ceil_mode out,
  torch_pool_shape e s kernel stride padding dilation ceil_mode = Some out /\
  aten_max_pool_shape e s kernel stride padding dilation ceil_mode = None.
Proof. exists 2, [1; 4; 5], (IList [3]), (IList []), (IList [0; 0]), (IList [1; 1]), false, [1; 1; 1]. split; reflexivity. Qed.
Lemma avg_pool_one_entry_kernel_refuted : exists e s kernel stride padding ceil_mode out,
  torch_pool_shape e s kernel stride padding (IInt 1) ceil_mode = Some out /\
  aten_avg_pool_shape e s kernel stride padding ceil_mode = None.
Proof. exists 2, [1; 4; 5], (IList [3]), (IList []), (IList [0; 0]), false, [1; 1; 1]. split; reflexivity. Qed.

(* ------------------------------------------------------------------ the repaired variant: one-entry lists expanded *)
Lemma expand1_spec : forall e x l, expand_ints e x = Some l -> expand1 e x = l.
Proof.
  intros e x l H. destruct x as [v|[|a [|b t]]]; cbn [expand_ints expand1] in *.
  - inversion H; reflexivity.
  - destruct (zlen (@nil Z) =? e); inversion H; reflexivity.
  - inversion H; reflexivity.
  - destruct (zlen (a :: b :: t) =? e); inversion H; reflexivity.
Qed.
Lemma expand_padding_ints : forall e x l, expand_ints e x = Some l -> 1 <= e -> padding_ints e x.
Proof.
  intros e x l H He. destruct x as [v|[|a [|b t]]]; cbn [expand_ints padding_ints] in *; auto.
  - destruct (zlen (@nil Z) =? e) eqn:E; [|discriminate]. rewrite zlen_nil in E. lia.
  - destruct (zlen (a :: b :: t) =? e) eqn:E; [|discriminate]. right. lia.
Qed.

Lemma max_pool_shape_fixed_correct : forall e s kernel stride padding dilation ceil_mode out,
  1 <= e <= 3 ->
  torch_pool_shape e s kernel stride padding dilation ceil_mode = Some out ->
  aten_max_pool_shape_fixed e s kernel stride padding dilation ceil_mode = Some out.
Proof.
  intros e s kernel stride padding dilation cm out He. unfold torch_pool_shape.
  destruct ((zlen s =? e + 1) || (zlen s =? e + 2)) eqn:Hr; [|discriminate]. cbn [negb].
  destruct (expand_ints e kernel) as [ks|] eqn:Ek; [|discriminate]. cbn [obind].
  destruct (match stride with IList [] => Some ks | _ => expand_ints e stride end) as [ss|] eqn:Es; [|discriminate]. cbn [obind].
  destruct (expand_ints e padding) as [ps|] eqn:Ep; [|discriminate]. cbn [obind].
  destruct (expand_ints e dilation) as [ds|] eqn:Ed; [|discriminate]. cbn [obind].
  destruct (torch_pool_dims cm (drop (zlen s - e) s) ks ss ps ds) as [sp|] eqn:Edims; [|discriminate]. cbn [obind].
  intro H; inversion H; subst out; clear H.
  destruct (expand_padding _ _ _ He (expand_padding_ints _ _ _ Ep (proj1 He)) Ep) as [Hpads _].
  unfold aten_max_pool_shape_fixed.
  assert (Hadj : adjust_max_pool_fixed e kernel stride padding dilation = (ks, ss, ps ++ ps, ds)).
  { unfold adjust_max_pool_fixed. unfold adjust_max_pool in *. cbn iota in Hpads. rewrite Hpads.
    rewrite (expand1_spec _ _ _ Ek), (expand1_spec _ _ _ Ed). f_equal. f_equal. f_equal.
    destruct stride as [v|[|a l]]; [apply expand1_spec; exact Es | inversion Es; reflexivity | apply expand1_spec; exact Es]. }
  rewrite Hadj. apply pool_core; [lia | lia | assumption].
Qed.

Lemma avg_pool_shape_fixed_correct : forall e s kernel stride padding ceil_mode out,
  1 <= e <= 3 ->
  torch_pool_shape e s kernel stride padding (IInt 1) ceil_mode = Some out ->
  aten_avg_pool_shape_fixed e s kernel stride padding ceil_mode = Some out.
Proof.
  intros e s kernel stride padding cm out He. unfold torch_pool_shape.
  destruct ((zlen s =? e + 1) || (zlen s =? e + 2)) eqn:Hr; [|discriminate]. cbn [negb].
  destruct (expand_ints e kernel) as [ks|] eqn:Ek; [|discriminate]. cbn [obind].
  destruct (match stride with IList [] => Some ks | _ => expand_ints e stride end) as [ss|] eqn:Es; [|discriminate]. cbn [obind].
  destruct (expand_ints e padding) as [ps|] eqn:Ep; [|discriminate]. cbn [obind expand_ints].
  destruct (torch_pool_dims cm (drop (zlen s - e) s) ks ss ps (repeat 1 (Z.to_nat e))) as [sp|] eqn:Edims; [|discriminate]. cbn [obind].
  intro H; inversion H; subst out; clear H.
  destruct (expand_padding _ _ _ He (expand_padding_ints _ _ _ Ep (proj1 He)) Ep) as [_ Hpads].
  destruct (torch_pool_dims_length _ _ _ _ _ _ _ Edims) as (L1 & _ & _ & L4).
  assert (Lk : zlen ks = e).
  { assert (zlen (drop (zlen s - e) s) = e) by (rewrite zlen_drop by lia; lia). rewrite <- H. apply zlen_length. assumption. }
  unfold aten_avg_pool_shape_fixed.
  assert (Hadj : adjust_avg_pool_fixed e kernel stride padding = (ks, ss, ps ++ ps)).
  { unfold adjust_avg_pool_fixed. unfold adjust_avg_pool in *. cbn iota in Hpads. rewrite Hpads.
    rewrite (expand1_spec _ _ _ Ek). f_equal. f_equal.
    destruct stride as [v|[|a l]]; [apply expand1_spec; exact Es | inversion Es; reflexivity | apply expand1_spec; exact Es]. }
  rewrite Hadj. rewrite Lk.
  replace (repeat 1 (length ks)) with (repeat 1 (Z.to_nat e)) by (f_equal; unfold zlen in Lk; lia).
  apply pool_core; [lia | lia | assumption].
Qed.
