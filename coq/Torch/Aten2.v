(* C08 (second group of families) -- models of the trace-time Python of torch_lib's core.py / nn.py: aten_diagonal,
   _adjust_attributes_of_max_pool / _avg_pool + aten_{max,avg}_pool{1,2,3}d, aten_constant_pad_nd / aten_pad (constant),
   aten_unfold, aten_unbind, aten_gather / aten_scatter_* / aten_topk / aten_sort / aten_softmax dim handling.
   For each: the composition of ONNX operators it emits (`aten_f`, operator semantics of Onnx.v / Onnx2.v) and the
   skeleton of the emitted graph (`skel_f`).  Both follow what the code DOES (pinned commit).  No proofs in this file. *)
From Coq Require Import ZArith List Bool String.
Require Import OV.Torch.Onnx OV.Torch.Onnx2 OV.Torch.Spec2 OV.Torch.Aten.
Import ListNotations.
Local Open Scope string_scope.
Local Open Scope Z_scope.

(* ================================================================== aten_diagonal (core.py)
   dim1 / dim2: `if dim < 0: dim += rank` (no range check); perm = list(range(rank)); perm.remove(dim1); perm.remove(dim2)
   (ValueError when absent, i.e. out of range or dim1 == dim2); perm.append(dim1); perm.append(dim2).
   On the duplicate-free list range(rank), remove(d) is filter (<> d). *)
Definition diag_norm (r d : Z) : Z := if d <? 0 then d + r else d.
Definition diag_perm (r d1 d2 : Z) : option (list Z) :=
  if (0 <=? d1) && (d1 <? r) && (0 <=? d2) && (d2 <? r) && negb (d1 =? d2)
  then Some (filter (fun i => negb (i =? d1) && negb (i =? d2)) (iota r) ++ [d1; d2])%list
  else None.
(* length = Max(Min(offset < 0 ? n1 + offset : n2 - offset, Min(n1, n2)), 0); start = offset < 0 ? 0 : offset *)
Definition diag_len (offset n1 n2 : Z) : Z :=
  Z.max (Z.min (if offset <? 0 then n1 + offset else n2 - offset) (Z.min n1 n2)) 0.
Definition diag_start (offset : Z) : Z := if offset <? 0 then 0 else offset.

(* shapes: Gather(Shape(self), dim1 / dim2); mask [n1, n2]; Transpose(perm); Mul (broadcast); ReduceSum(axes = [rank - 2],
   keepdims = 0); Slice(start, start + length, axes = [rank - 2]) *)
Definition aten_diagonal_shape (s : list Z) (offset dim1 dim2 : Z) : option (list Z) :=
  let r := zlen s in
  let d1 := diag_norm r dim1 in
  let d2 := diag_norm r dim2 in
  obind (diag_perm r d1 d2) (fun perm =>
  obind (gather1 s d1) (fun n1 =>
  obind (gather1 s d2) (fun n2 =>
  obind (transpose_shape s (Some perm)) (fun st =>
  obind (bcast_shape st [n1; n2]) (fun sm =>
  obind (reduce_shape sm (Some [r - 2]) false) (fun sr =>
    slice_shape sr (r - 2) (diag_start offset) (diag_start offset + diag_len offset n1 n2))))))).
(* values, one [n1, n2] matrix of the transposed tensor (rows along dim1): Mul with EyeLike(k = offset), ReduceSum over the
   rows, Slice of the n2 column sums *)
Definition aten_diag_matrix (m : list (list Z)) (n2 offset : Z) : option (list Z) :=
  slice_axis (reduce_sum_rows n2 (mask_rows offset m)) (diag_start offset) (diag_start offset + diag_len offset (zlen m) n2) 1.
Definition skel_diagonal (is_bool : bool) (s : list Z) (offset dim1 dim2 : Z) : skel :=
  let r := zlen s in
  let d1 := diag_norm r dim1 in
  let d2 := diag_norm r dim2 in
  match diag_perm r d1 d2 with
  | None => []
  | Some perm =>
    ([("Shape", [[0]]); ("Gather", [[0]; [d1]]); ("Reshape", [[0]; [-1]]);
      ("Shape", [[0]]); ("Gather", [[0]; [d2]]); ("Reshape", [[0]; [-1]]);
      ("Concat", [[0]]); ("ConstantOfShape", []); ("EyeLike", [[offset]])]
     ++ (if is_bool then [("Cast", [[7]]); ("Cast", [[7]])] else [("CastLike", [])])
     ++ [("Transpose", [perm]); ("Mul", []); ("ReduceSum", [[0]; [0]; [r - 2]]); ("Min", []);
         (if offset <? 0 then ("Add", [[offset]]) else ("Sub", [[offset]]));
         ("Min", []); ("Max", [[0]]); ("Add", [[diag_start offset]]); ("Slice", [[diag_start offset]; [r - 2]])]
     ++ (if is_bool then [("Cast", [[9]])] else []))%list
  end.

(* ================================================================== pooling (nn.py)
   _adjust_attributes_of_max_pool(expand_size, kernel_size, stride, padding, dilation); python `list * int` repeats the list *)
Definition py_rep (l : list Z) (k : Z) : list Z := List.concat (repeat l (Z.to_nat k)).
Definition adjust_max_pool (e : Z) (kernel stride padding dilation : ints) : list Z * list Z * list Z * list Z :=
  let dil := match dilation with IInt d => repeat d (Z.to_nat e) | IList l => l end in
  let ker := match kernel with IInt k => repeat k (Z.to_nat e) | IList l => l end in
  let pads := match padding with
              | IInt p => repeat p (Z.to_nat (e * 2))
              | IList l => if zlen l =? 1 then py_rep l (e * 2)
                           else if zlen l =? 2 then py_rep l 2
                           else if zlen l =? 3 then py_rep l 2
                           else l
              end in
  let str := match stride with IInt v => repeat v (Z.to_nat e) | IList [] => ker | IList l => l end in
  (ker, str, pads, dil).
(* _adjust_attributes_of_avg_pool(expand_size, kernel_size, stride, padding) *)
Definition adjust_avg_pool (e : Z) (kernel stride padding : ints) : list Z * list Z * list Z :=
  let ker := match kernel with IInt k => repeat k (Z.to_nat e) | IList l => l end in
  let pads := match padding with
              | IInt p => repeat p (Z.to_nat (e * 2))
              | IList l => if zlen l =? 1 then py_rep l (e * 2)
                           else if zlen l =? 2 then py_rep l e
                           else py_rep l 2
              end in
  let str := match stride with IInt v => repeat v (Z.to_nat e) | IList [] => ker | IList l => l end in
  (ker, str, pads).
(* _aten_max_pool_onnx: an unbatched input (rank = unbatched_rank = e + 1) is unsqueezed at 0 and the result squeezed at 0.
   _aten_avg_pool_onnx tests rank = len(kernel_shape) + 1 instead. *)
Definition pool_wrap (unbatched : bool) (s : list Z) (f : list Z -> option (list Z)) : option (list Z) :=
  if unbatched then obind (unsqueeze_axes s [0]) (fun s1 => obind (f s1) (fun s2 => squeeze_axes s2 [0])) else f s.
Definition aten_max_pool_shape (e : Z) (s : list Z) (kernel stride padding dilation : ints) (ceil_mode : bool) : option (list Z) :=
  let '(ker, str, pads, dil) := adjust_max_pool e kernel stride padding dilation in
  pool_wrap (zlen s =? e + 1) s (fun s1 => pool_shape ceil_mode s1 ker str pads dil).
Definition aten_avg_pool_shape (e : Z) (s : list Z) (kernel stride padding : ints) (ceil_mode : bool) : option (list Z) :=
  let '(ker, str, pads) := adjust_avg_pool e kernel stride padding in
  pool_wrap (zlen s =? zlen ker + 1) s (fun s1 => pool_shape ceil_mode s1 ker str pads (repeat 1 (List.length ker))).
Definition b2z (b : bool) : Z := if b then 1 else 0.
Definition skel_wrap (unbatched : bool) (mid : skel) : skel :=
  if unbatched then ([("Unsqueeze", [[0]])] ++ mid ++ [("Squeeze", [[0]])])%list else mid.
(* MaxPool integer attributes in name order: ceil_mode, dilations, kernel_shape, pads, storage_order (default 0), strides *)
Definition skel_max_pool (e : Z) (s : list Z) (kernel stride padding dilation : ints) (ceil_mode : bool) : skel :=
  let '(ker, str, pads, dil) := adjust_max_pool e kernel stride padding dilation in
  skel_wrap (zlen s =? e + 1) [("MaxPool", [[b2z ceil_mode]; dil; ker; pads; [0]; str])].
(* AveragePool: ceil_mode, count_include_pad, kernel_shape, pads, strides *)
Definition skel_avg_pool (e : Z) (s : list Z) (kernel stride padding : ints) (ceil_mode count_include_pad : bool) : skel :=
  let '(ker, str, pads) := adjust_avg_pool e kernel stride padding in
  skel_wrap (zlen s =? zlen ker + 1) [("AveragePool", [[b2z ceil_mode]; [b2z count_include_pad]; ker; pads; str])].

(* ================================================================== aten_constant_pad_nd (core.py) / aten_pad + _process_padding (nn.py)
   paddings = list(pad) + [0] * (rank * 2 - len(pad)); paddings = paddings[-2::-2] + paddings[-1::-2].
   python l[start::-2] for a start inside the list: the entries at start, start - 2, ... >= 0 *)
Fixpoint py_down2 (l : list Z) (i : Z) (fuel : nat) : list Z :=
  match fuel with
  | O => []
  | S f => if i <? 0 then []
           else match nthZ l i with Some v => v :: py_down2 l (i - 2) f | None => py_down2 l (i - 2) f end
  end.
Definition pad_paddings (r : Z) (pad : list Z) : list Z :=
  let padded := (pad ++ repeat 0 (Z.to_nat (r * 2 - zlen pad)))%list in
  let L := zlen padded in
  (py_down2 padded (L - 2) (List.length padded) ++ py_down2 padded (L - 1) (List.length padded))%list.
Definition aten_pad_shape (s pad : list Z) : option (list Z) := pad_shape s (pad_paddings (zlen s) pad).
(* along axis a of a rank-r tensor: Pad adds / removes paddings[a] slabs in front and paddings[r + a] behind *)
Definition aten_pad_axis {A} (fill : A) (r a : Z) (xs : list A) (pad : list Z) : option (list A) :=
  let p := pad_paddings r pad in
  obind (nthZ p a) (fun pb => obind (nthZ p (r + a)) (fun pe => pad_axis fill xs pb pe)).
(* aten_constant_pad_nd: Pad(self, paddings, Constant(value)); aten_pad (mode = "constant"): Pad(self, Constant(paddings)[, Constant(value)]) *)
Definition skel_pad (s pad : list Z) (value : option Z) : skel :=
  [("Pad", (pad_paddings (zlen s) pad :: match value with Some v => [[v]] | None => [] end))].

(* ================================================================== aten_unfold (core.py)
   rank 0: Unsqueeze(self, [0]) (size and step are not looked at).  Otherwise: dimension += rank when negative;
   window_starts = Range(0, dim_size - (size - 1), step); all_indices = starts[:, None] + range(size)[None, :];
   Gather(self, all_indices, axis = dimension); perm = list(range(rank + 1)); perm.append(perm.pop(dimension + 1)); Transpose *)
Definition unfold_norm (r d : Z) : Z := if d <? 0 then d + r else d.
Definition unfold_indices (n size step : Z) : option (list (list Z)) :=
  option_map (map (fun st => map (fun t => st + t) (iota size))) (onnx_range 0 (n - (size - 1)) step).
Definition aten_unfold {A} (xs : list A) (size step : Z) : option (list (list A)) :=
  obind (unfold_indices (zlen xs) size step) (gather_windows xs).
Definition unfold_perm (r d : Z) : list Z := (filter (fun i => negb (i =? d + 1)) (iota (r + 1)) ++ [d + 1])%list.
Definition aten_unfold_shape (s : list Z) (dimension size step : Z) : option (list Z) :=
  let r := zlen s in
  if r =? 0 then unsqueeze_axes s [0]
  else let d := unfold_norm r dimension in
       obind (gather1 s d) (fun n =>
       obind (unfold_indices n size step) (fun idx =>
       obind (norm_axis r d) (fun a =>
         transpose_shape (take a s ++ [zlen idx; Z.max size 0] ++ drop (a + 1) s)%list (Some (unfold_perm r d))))).
Definition skel_unfold (s : list Z) (dimension size step : Z) : skel :=
  let r := zlen s in
  if r =? 0 then [("Unsqueeze", [[0]])]
  else let d := unfold_norm r dimension in
       [("Shape", [[0]]); ("Gather", [[0]; [d]]); ("Sub", [[size - 1]]); ("Range", [[0]; [step]]); ("Unsqueeze", [[1]]);
        ("Unsqueeze", [iota size; [0]]); ("Add", []); ("Gather", [[d]]); ("Transpose", [unfold_perm r d])].

(* ================================================================== aten_unbind (core.py), static extent
   self.shape[dim] (python indexing: IndexError outside [-rank, rank - 1]); for i in range(n): Squeeze(Slice(self, [i], [i + 1], [dim]), [dim]) *)
Definition aten_unbind {A} (r dim : Z) (xs : list A) : option (Z * list A) :=
  obind (norm_axis r dim) (fun a =>
  obind (omap_all (fun i => match slice_axis xs i (i + 1) 1 with Some [x] => Some x | _ => None end) (iota (zlen xs))) (fun ys =>
    Some (a, ys))).
Fixpoint skel_unbind_from (dim i : Z) (n : nat) : skel :=
  match n with
  | O => []
  | S n' => (("Slice", [[i]; [i + 1]; [dim]]) :: ("Squeeze", [[dim]]) :: skel_unbind_from dim (i + 1) n')%list
  end.
Definition skel_unbind (dim n : Z) : skel := skel_unbind_from dim 0 (Z.to_nat n).

(* ================================================================== dim handling only (kernels not modelled)
   aten_gather: rank-0 self: Identity (rank-0 index) or Expand(self, Shape(index)); a rank-0 index is unsqueezed at 0 and the
   result squeezed at 0; GatherElements(self, index, axis = dim): ranks must agree *)
Definition aten_gather_shape (s : list Z) (dim : Z) (idx : list Z) : option (list Z) :=
  if zlen s =? 0 then (if zlen idx =? 0 then Some s else expand_shape s idx)
  else let scalar := zlen idx =? 0 in
       obind (if scalar then unsqueeze_axes idx [0] else Some idx) (fun idx1 =>
       obind (axis_ok (zlen s) dim) (fun _ =>
         if zlen idx1 =? zlen s then (if scalar then squeeze_axes idx1 [0] else Some idx1) else None)).
Definition skel_gather (s idx : list Z) (dim : Z) : skel :=
  if zlen s =? 0 then (if zlen idx =? 0 then [("Identity", [])] else [("Shape", [[0]]); ("Expand", [])])
  else ((if zlen idx =? 0 then [("Unsqueeze", [[0]])] else []) ++ [("Cast", [[7]]); ("GatherElements", [[dim]])]
        ++ (if zlen idx =? 0 then [("Squeeze", [[0]])] else []))%list.
(* aten_softmax / aten__softmax / aten__log_softmax: a rank-0 input is unsqueezed at 0, (Log)Softmax(axis = dim), squeezed *)
Definition aten_softmax_shape (s : list Z) (dim : Z) : option (list Z) :=
  if zlen s =? 0 then obind (unsqueeze_axes s [0]) (fun s1 => obind (axis_ok (zlen s1) dim) (fun _ => Some (squeeze_all s1)))
  else obind (axis_ok (zlen s) dim) (fun _ => Some s).
Definition skel_softmax (log_ : bool) (squeeze_with_axes : bool) (s : list Z) (dim : Z) : skel :=
  let op := if log_ then "LogSoftmax" else "Softmax" in
  if zlen s =? 0 then [("Unsqueeze", [[0]]); (op, [[dim]]); ("Squeeze", if squeeze_with_axes then [[0]] else [])]
  else [(op, [[dim]])].
(* aten_sort: rank 0: (Identity(self), Constant 0); else dim_size = Reshape(Gather(Shape(self), dim), [1]); TopK(self, dim_size, axis = dim) *)
Definition aten_sort_shape (s : list Z) (dim : Z) : option (list Z) :=
  if zlen s =? 0 then Some s
  else obind (gather1 s dim) (fun _ => obind (axis_ok (zlen s) dim) (fun _ => Some s)).
Definition skel_sort (s : list Z) (dim : Z) (descending : bool) : skel :=
  if zlen s =? 0 then [("Identity", [])]
  else [("Shape", [[0]]); ("Gather", [[0]; [dim]]); ("Reshape", [[0]; [1]]); ("TopK", [[dim]; [b2z descending]; [1]])].

(* ================================================================== repaired variants (proposed_fixes/C08_*.diff); the harness picks
   them when the skeleton it observes shows the repaired code *)
(* C08_pool_expand_one_entry_lists.diff: a one-entry kernel_size / stride / dilation list is repeated expand_size times *)
Definition expand1 (e : Z) (x : ints) : list Z :=
  match x with IInt v => repeat v (Z.to_nat e) | IList [v] => repeat v (Z.to_nat e) | IList l => l end.
Definition adjust_max_pool_fixed (e : Z) (kernel stride padding dilation : ints) : list Z * list Z * list Z * list Z :=
  let '(_, _, pads, _) := adjust_max_pool e kernel stride padding dilation in
  (expand1 e kernel, match stride with IList [] => expand1 e kernel | _ => expand1 e stride end, pads, expand1 e dilation).
Definition adjust_avg_pool_fixed (e : Z) (kernel stride padding : ints) : list Z * list Z * list Z :=
  let '(_, _, pads) := adjust_avg_pool e kernel stride padding in
  (expand1 e kernel, match stride with IList [] => expand1 e kernel | _ => expand1 e stride end, pads).
Definition aten_max_pool_shape_fixed (e : Z) (s : list Z) (kernel stride padding dilation : ints) (ceil_mode : bool) : option (list Z) :=
  let '(ker, str, pads, dil) := adjust_max_pool_fixed e kernel stride padding dilation in
  pool_wrap (zlen s =? e + 1) s (fun s1 => pool_shape ceil_mode s1 ker str pads dil).
Definition aten_avg_pool_shape_fixed (e : Z) (s : list Z) (kernel stride padding : ints) (ceil_mode : bool) : option (list Z) :=
  let '(ker, str, pads) := adjust_avg_pool_fixed e kernel stride padding in
  pool_wrap (zlen s =? zlen ker + 1) s (fun s1 => pool_shape ceil_mode s1 ker str pads (repeat 1 (List.length ker))).
Definition skel_max_pool_fixed (e : Z) (s : list Z) (kernel stride padding dilation : ints) (ceil_mode : bool) : skel :=
  let '(ker, str, pads, dil) := adjust_max_pool_fixed e kernel stride padding dilation in
  skel_wrap (zlen s =? e + 1) [("MaxPool", [[b2z ceil_mode]; dil; ker; pads; [0]; str])].
Definition skel_avg_pool_fixed (e : Z) (s : list Z) (kernel stride padding : ints) (ceil_mode count_include_pad : bool) : skel :=
  let '(ker, str, pads) := adjust_avg_pool_fixed e kernel stride padding in
  skel_wrap (zlen s =? zlen ker + 1) [("AveragePool", [[b2z ceil_mode]; [b2z count_include_pad]; ker; pads; str])].

(* C08_diagonal_where_mask.diff: Where(Cast(mask, BOOL), x, 0) instead of Mul(x, mask): unselected elements never enter the sum *)
Definition where_rows (k : Z) (m : list (list Z)) : list (list Z) :=
  mapi (fun i row => mapi (fun j v => if j =? i + k then v else 0) 0 row) 0 m.
Definition aten_diag_matrix_fixed (m : list (list Z)) (n2 offset : Z) : option (list Z) :=
  slice_axis (reduce_sum_rows n2 (where_rows offset m)) (diag_start offset) (diag_start offset + diag_len offset (zlen m) n2) 1.
Definition skel_diagonal_fixed (is_bool : bool) (s : list Z) (offset dim1 dim2 : Z) : skel :=
  let r := zlen s in
  let d1 := diag_norm r dim1 in
  let d2 := diag_norm r dim2 in
  match diag_perm r d1 d2 with
  | None => []
  | Some perm =>
    ([("Shape", [[0]]); ("Gather", [[0]; [d1]]); ("Reshape", [[0]; [-1]]);
      ("Shape", [[0]]); ("Gather", [[0]; [d2]]); ("Reshape", [[0]; [-1]]);
      ("Concat", [[0]]); ("ConstantOfShape", []); ("EyeLike", [[offset]]); ("Cast", [[9]])]
     ++ (if is_bool then [("Cast", [[7]]); ("Transpose", [perm]); ("Where", [[0]])]
         else [("Transpose", [perm]); ("CastLike", [[0]]); ("Where", [])])
     ++ [("ReduceSum", [[0]; [0]; [r - 2]]); ("Min", []);
         (if offset <? 0 then ("Add", [[offset]]) else ("Sub", [[offset]]));
         ("Min", []); ("Max", [[0]]); ("Add", [[diag_start offset]]); ("Slice", [[diag_start offset]; [r - 2]])]
     ++ (if is_bool then [("Cast", [[9]])] else []))%list
  end.

(* proposed_fixes/ready/C08_16: a 0-d tensor with size 0: Slice(Unsqueeze(self, [0]), [0], [0]) *)
Definition aten_unfold_shape_v (zf : bool) (s : list Z) (dimension size step : Z) : option (list Z) :=
  if zf && (zlen s =? 0) && (size =? 0) then obind (unsqueeze_axes s [0]) (fun s1 => slice_shape s1 0 0 0)
  else aten_unfold_shape s dimension size step.
Definition skel_unfold_v (zf : bool) (s : list Z) (dimension size step : Z) : skel :=
  if zf && (zlen s =? 0) && (size =? 0) then [("Unsqueeze", [[0]]); ("Slice", [[0]; [0]])] else skel_unfold s dimension size step.
