(* C02 property theorems, session 6: the verified checkers are COMPLETE (a `false` verdict refutes the declarative
   rules), the converter model emits graphs the boolean checker accepts (the former Definition C02_translate_wf_full),
   and programs with a located syntactic defect are never accepted.  Statements only, each closed by `exact`. *)
From Coq Require Import List String Bool ZArith.
Require Import OV.Graph.Syntax OV.Graph.Wf OV.Graph.WfProofs OV.Graph.WfCompleteProofs.
Require Import OV.Script.Syntax OV.Script.Translate OV.Script.Refuse OV.Script.RefuseProofs.
Import ListNotations.

(* ---- checker completeness, graphs nested to any depth *)

(* the executable checker decides the declarative well-formedness (scoping with outer-scope visibility, subgraph outputs
   produced inside, distinct outputs, single assignment across the graph and all nested subgraphs) *)
Theorem C02_wf_checker_iff : forall g, wf_graphb g = true <-> wf_graph g.
Proof. exact wf_graphb_iff. Qed.
Print Assumptions C02_wf_checker_iff.

Theorem C02_wf_checker_complete : forall g, wf_graph g -> wf_graphb g = true.
Proof. exact wf_graphb_complete. Qed.
Print Assumptions C02_wf_checker_complete.

(* a `false` verdict on a proto is a proof that the proto violates the declarative rules *)
Theorem C02_wf_false_refutes : forall g, wf_graphb g = false -> ~ wf_graph g.
Proof. exact wf_graphb_false_refutes. Qed.
Print Assumptions C02_wf_false_refutes.

(* ... namely: the scoping rules fail somewhere, or a value name is defined twice (nested subgraphs included) *)
Theorem C02_wf_false_cases : forall g, wf_graphb g = false -> ~ scoped_graph false [] g \/ ~ NoDup (defs_graph g).
Proof. exact wf_graphb_false_cases. Qed.
Print Assumptions C02_wf_false_cases.

(* the verdict does not depend on the depth bound the traversal is started with *)
Theorem C02_wf_checker_fuel_irrelevant : forall g f, depth_graph g <= f ->
  (match check_graph f false [] [] g with Some _ => true | None => false end) = wf_graphb g.
Proof. exact check_graph_fuel_irrelevant. Qed.
Print Assumptions C02_wf_checker_fuel_irrelevant.

(* no_input_returned = false exhibits a graph input that is returned directly *)
Theorem C02_no_input_returned_false : forall g,
  no_input_returned g = false -> exists o, In o (g_outs g) /\ In o (g_ins g).
Proof. exact no_input_returned_false. Qed.
Print Assumptions C02_no_input_returned_false.

(* imports_ok against a declarative statement: graph_uses g d = some node of g, at any nesting depth, has domain d *)
Theorem C02_imports_declarative : forall imports g,
  imports_ok imports g = true <-> (NoDup imports /\ forall d, graph_uses g d -> In d imports).
Proof. exact imports_ok_declarative. Qed.
Print Assumptions C02_imports_declarative.

Theorem C02_imports_false : forall imports g,
  imports_ok imports g = false -> ~ NoDup imports \/ exists d, graph_uses g d /\ ~ In d imports.
Proof. exact imports_ok_false. Qed.
Print Assumptions C02_imports_false.

Theorem C02_domains_are_the_used_ones : forall g d, In d (domains_graph g) <-> graph_uses g d.
Proof. exact domains_graph_uses. Qed.
Print Assumptions C02_domains_are_the_used_ones.

(* ---- the converter model: boolean form (was the unproved Definition C02_translate_wf_full of Props/C02.v) *)
Theorem C02_translate_wf_full_proved : forall globals cic afuel orders f g,
  NoDup (f_tparams f) ->
  translate false globals cic afuel orders f = Some g ->
  wf_graphb g = true /\ no_input_returned g = true.
Proof. exact translate_wf_full. Qed.
Print Assumptions C02_translate_wf_full_proved.

(* ---- refusal: a program with a located syntactic defect is never accepted.
   refusal cic f = Some (class, path): walking f in the converter's translation order (statically decided ifs follow the
   taken branch only), the first statement with one of these defects is at `path`:
     return inside an if / loop (any depth), return without value, a break that is not `if <name>: break` directly in a
     loop body, `if <name>: break` not in last position, `if <expression>: break`, a loop whose body assigns nothing,
     an unpacking assignment whose right-hand side is not a call.
   Then the converter model refuses the program for every module environment, analysis fuel, set-listing oracle and state.
   Not covered: the converse (translate = None -> a declarative reason) and the remaining refusal classes (unbound name on a path,
   value missing on a branch, loop without live state, if without output, unsupported operator), which depend on scopes and
   liveness; for those the model is compared with the real decorator per program (accept / refuse), not by class. *)
Theorem C02_defective_never_accepted : forall globals cic afuel orders f e,
  refusal cic f = Some e -> translate false globals cic afuel orders f = None.
Proof. exact refusal_never_accepted. Qed.
Print Assumptions C02_defective_never_accepted.

Theorem C02_accepted_has_no_defect : forall globals cic afuel orders f g,
  translate false globals cic afuel orders f = Some g -> refusal cic f = None.
Proof. exact accepted_has_no_defect. Qed.
Print Assumptions C02_accepted_has_no_defect.

(* inside any block and for any translation state (the form the induction proves) *)
Theorem C02_defective_block_refused : forall globals cic afuel inputs n top ss e,
  detect cic n top ss = Some e ->
  forall fuel lo sc outs st, tr_stmts globals cic afuel false inputs fuel top ss lo sc outs st = None.
Proof. exact detect_refuses. Qed.
Print Assumptions C02_defective_block_refused.

(* Refuted for the faithful model (findings, confirmed on the real decorator; known_findings.json keys
   C02:near-miss-accepted:break-if-with-else-clause and C02:near-miss-accepted:return-not-last): "a program outside the
   subset is refused" fails for (1) `if b: break` with an else clause -- the else clause leaves no trace in the graph --
   and (2) a return that is not the last statement -- the outputs of every return are concatenated. *)
Theorem C02_break_else_refuted :
  exists g, translate false [] nocic 6 [] (mkf (brk_body [SAssign "x" (EBin "Mul" (EVar "x") (EVar "x"))])) = Some g /\
            translate false [] nocic 6 [] (mkf (brk_body [])) = Some g.
Proof. exact break_else_dropped. Qed.
Print Assumptions C02_break_else_refuted.

Theorem C02_return_not_last_refuted :
  exists g, translate false [] nocic 6 [] (mkf [SReturn [EUn "USub" (EVar "x")]; SAssign "x" xp1; SReturn [EUn "USub" (EVar "x")]]) = Some g /\
            List.length (g_outs g) = 2.
Proof. exact return_not_last_accepted. Qed.
Print Assumptions C02_return_not_last_refuted.

(* non-vacuity: each defect class is found at the expected path (return in an else branch; break not last; return inside
   if inside while inside for, depth 3; a loop that assigns nothing) *)
Theorem C02_refusal_examples :
  refusal nocic (mkf [SAssign "y" xp1; SIf cnd [SAssign "y" xp1] [SReturn [EVar "y"]]; SReturn [EVar "y"]])
    = Some (RReturnInside, [1; 1; 0]) /\
  refusal nocic (mkf [SFor "i" (ELit (LInt 3)) [SAssign "b" cnd; SIf (EVar "b") [SBreak] []; SAssign "x" xp1]; SReturn [EVar "x"]])
    = Some (RBreakNotLast, [0; 0; 1]) /\
  refusal nocic (mkf [SFor "i" (ELit (LInt 3)) [SAssign "x" xp1; SWhile "c" [SAssign "x" xp1; SIf cnd [SReturn [EVar "x"]] [SAssign "x" xp1]]];
                      SReturn [EVar "x"]])
    = Some (RReturnInside, [0; 0; 1; 0; 1; 0; 0]) /\
  refusal nocic (mkf [SAssign "y" xp1; SFor "i" (ELit (LInt 3)) []; SReturn [EVar "y"]]) = Some (RLoopNoAssign, [1]).
Proof. exact (conj ex_return_inside (conj ex_break_not_last (conj ex_nested_loop_return ex_loop_no_assign))). Qed.
Print Assumptions C02_refusal_examples.
