(* Model of the name handling of onnxscript/backend/onnx_export.py (C13):
     _cleanup_variable_name   (lines 80-102)   -> cleanup
     _make_short_name_mapper  (lines 105-119)  -> short_rename (state = dict keys in insertion order)
   Strings are Coq [string]s (bytes); the correspondence check is restricted to ASCII names, for
   which Python's str.isalpha / str.isalnum are exactly [is_alpha] / [is_alnum] below.  Every byte
   >= 128 is treated as "not alphanumeric" (Python would look at the code point; non-ASCII names are
   exercised only through the direct oracle).  The keyword list is a parameter: it is instantiated
   with the list regenerated from the source (Gen/ExportTables.v).  No proofs in this file. *)
From Coq Require Import List String Ascii Bool Arith DecimalString.
Import ListNotations.
Local Open Scope string_scope.

Definition code (c : ascii) : nat := nat_of_ascii c.
Definition is_upper (c : ascii) : bool := Nat.leb 65 (code c) && Nat.leb (code c) 90.
Definition is_lower (c : ascii) : bool := Nat.leb 97 (code c) && Nat.leb (code c) 122.
Definition is_digit (c : ascii) : bool := Nat.leb 48 (code c) && Nat.leb (code c) 57.
Definition is_alpha (c : ascii) : bool := is_upper c || is_lower c.
Definition is_alnum (c : ascii) : bool := is_alpha c || is_digit c.
Definition us : ascii := "_"%char.
Definition is_us (c : ascii) : bool := Ascii.eqb c us.

(* rename_char of the source: keep alphanumerics and '_', everything else becomes '_' *)
Definition rename_char (c : ascii) : ascii := if is_alnum c || is_us c then c else us.

Fixpoint smap (f : ascii -> ascii) (s : string) : string :=
  match s with EmptyString => EmptyString | String c r => String (f c) (smap f r) end.
Fixpoint sall (p : ascii -> bool) (s : string) : bool :=
  match s with EmptyString => true | String c r => p c && sall p r end.

Definition memb (s : string) (l : list string) : bool := existsb (String.eqb s) l.

(* _cleanup_variable_name.  The real function asserts name <> "" (callers map "" to "None" before);
   the model returns "" there and every theorem excludes it explicitly. *)
Definition cleanup (kw : list string) (s : string) : string :=
  if memb s kw then "r_" ++ s
  else match s with
       | EmptyString => EmptyString
       | String c _ =>
           smap rename_char (if is_alpha c || is_us c then s else "__" ++ s)
       end.

(* ASCII Python identifier -- a letter or '_' followed by letters, digits, '_' *)
Definition identb (s : string) : bool :=
  match s with
  | EmptyString => false
  | String c r => (is_alpha c || is_us c) && sall (fun c => is_alnum c || is_us c) r
  end.
(* usable as a Python variable: identifier and not a keyword *)
Definition pynameb (kw : list string) (s : string) : bool := identb s && negb (memb s kw).

(* side condition on the keyword table, checked by computation on the regenerated table:
   keywords are non-empty and purely alphabetic (in particular contain no '_') *)
Definition kw_wf (kw : list string) : bool :=
  forallb (fun k => negb (String.eqb k "") && sall is_alpha k) kw.

(* ---- injectivity on a given set of names ------------------------------------------------------ *)
Fixpoint nodupb (l : list string) : bool :=
  match l with [] => true | x :: t => negb (memb x t) && nodupb t end.
Fixpoint dedup (l : list string) : list string :=
  match l with [] => [] | x :: t => if memb x t then dedup t else x :: dedup t end.
Definition collision_freeb (kw : list string) (names : list string) : bool :=
  nodupb (map (cleanup kw) (dedup names)).
(* the colliding pairs, for reporting *)
Fixpoint collisions_of (kw : list string) (l : list string) : list (string * string) :=
  match l with
  | [] => []
  | x :: t => map (fun y => (x, y)) (filter (fun y => String.eqb (cleanup kw x) (cleanup kw y)) t)
              ++ collisions_of kw t
  end.
Definition collisions (kw : list string) (names : list string) := collisions_of kw (dedup names).

(* ---- _make_short_name_mapper ------------------------------------------------------------------- *)
(* the dict `variable_names` is represented by its keys in insertion order; the value stored under
   the k-th key (0-based) is "v<k+1>" *)
Fixpoint index_of (s : string) (l : list string) : option nat :=
  match l with
  | [] => None
  | x :: t => if String.eqb s x then Some 0 else option_map S (index_of s t)
  end.
Definition vname (k : nat) : string := "v" ++ NilEmpty.string_of_uint (Nat.to_uint k).
Definition short_rename (kw : list string) (st : list string) (name : string) : list string * string :=
  let c := cleanup kw name in
  match index_of c st with
  | Some i => (st, vname (S i))
  | None => ((st ++ [c])%list, vname (S (List.length st)))
  end.
(* the renamer applied to a sequence of names, threading the dict *)
Fixpoint short_rename_all (kw : list string) (st : list string) (names : list string)
  : list string * list string :=
  match names with
  | [] => (st, [])
  | n :: t => let '(st1, r) := short_rename kw st n in
              let '(st2, rs) := short_rename_all kw st1 t in (st2, r :: rs)
  end.

(* ---- correspondence helpers -------------------------------------------------------------------- *)
Fixpoint disagreeing (kw : list string) (i : nat) (cs : list (string * string)) : list nat :=
  match cs with
  | [] => []
  | (inp, obs) :: t => ((if String.eqb (cleanup kw inp) obs then [] else [i]) ++ disagreeing kw (S i) t)%list
  end.
Fixpoint list_eqb (a b : list string) : bool :=
  match a, b with
  | [], [] => true
  | x :: a', y :: b' => String.eqb x y && list_eqb a' b'
  | _, _ => false
  end.
(* a renamer case: the sequence of names fed to one fresh renamer, and the observed results *)
Fixpoint disagreeing_seq (kw : list string) (i : nat) (cs : list (list string * list string)) : list nat :=
  match cs with
  | [] => []
  | (inp, obs) :: t =>
      ((if list_eqb (snd (short_rename_all kw [] inp)) obs then [] else [i]) ++ disagreeing_seq kw (S i) t)%list
  end.
