"""C05 family: ScatterAllStatic, ScatterAllDynamic (_redundant_scatter_nd.py).

Model: coq/Rules/ScatterND.v; theorems: coq/Props/C05_cast_scatter.v.
Correspondence: fired? / raised? of ScatterAllStatic on hosts over (static / symbolic / unknown shapes, equal and different
data/updates shapes, indices [[0]..[n-1]] / permuted / short / two-column / non-constant, reduction attribute) == ScatterND.sa_check.
ScatterAllDynamic: hosts of the Shape-Gather-Range-Unsqueeze pattern over (rank, axis incl. negative, permutation, static / symbolic /
unknown dims, annotated or not, constant or non-constant axis): fired? is permitted by ScatterND.da_check (theorem C05_scatter_all_dynamic).
Direct oracle on both engines.
"""
from __future__ import annotations

import numpy as np

from harness import c05_basic_util as U
from harness import common
from harness.common import clist, cnat, copt, cz


def _dim(d):
    if isinstance(d, int):
        return f"(St {cz(d)})"
    if d is None:
        return "Un"
    return f"(Sy {cnat(sum(ord(c) for c in d) % 50)})"


def _root(e):
    while e.__cause__ is not None:
        e = e.__cause__
    return e


def family(ctx):
    from onnx import helper
    from onnxscript.rewriter.rules.common import _redundant_scatter_nd as mod

    insts = []
    # (data decl, updates decl, runtime shape, indices (list of rows | None = graph input), reduction)
    for n, rest in [(3, [2]), (1, [4]), (2, []), (4, [1, 2]), (0, [3])]:
        sh = [n] + rest
        good = [[i] for i in range(n)]
        for red in (None, "none", "add", "mul"):
            insts.append((sh, sh, sh, good, red))
        if n >= 2:
            insts.append((sh, sh, sh, good[::-1], None))
            insts.append((sh, sh, sh, good[:-1], None))
        insts.append((sh, sh, sh, None, None))
        insts.append((["N"] + rest, ["N"] + rest, sh, good, None))
        insts.append((["N"] + rest, ["M"] + rest, sh, good, None))
        insts.append(([None] + rest, [None] + rest, sh, good, None))
        insts.append((sh, "unknown", sh, good, None))
        if rest:
            insts.append((sh, sh[:1] + ["K"] + rest[1:], sh, good, None))
            insts.append((sh[:1] + ["K"] + rest[1:], sh[:1] + ["K"] + rest[1:], sh, good, None))
    cases, meta = [], []
    fired_n = raised = 0
    for i, (ddecl, udecl, sh, idx, red) in enumerate(insts):
        dtype = ("float32", "int64")[i % 2]
        if red in ("add", "mul") and dtype == "int64" and False:
            continue
        n = sh[0]
        nodes, inits, inputs = [], [], [("d", dtype, ddecl)]
        upd = "u"
        if udecl == "unknown":
            inputs.append(("u0", dtype, sh))
            nodes.append(helper.make_node("Identity", ["u0"], ["u"]))
        else:
            inputs.append(("u", dtype, udecl))
        rt_idx = np.array(idx if idx is not None else [[k] for k in range(n)], dtype=np.int64).reshape(-1, 1)
        if idx is None:
            inputs.append(("i", "int64", [n, 1]))
        else:
            inits.append(U.const_arr("i", rt_idx))
        kw = {} if red is None else {"reduction": red}
        nodes.append(helper.make_node("ScatterND", ["d", "i", upd], ["y"], **kw))
        # updates for fewer index rows must have as many rows
        urows = rt_idx.shape[0]
        ush = [urows] + sh[1:]
        if urows != n and udecl != "unknown":
            continue    # data/updates shapes then differ anyway: covered by the explicit shape-mismatch instances
        host = U.model(nodes, inputs, [("y", dtype, ddecl)], inits=inits, opset=18)
        replay = {"family": "scatter", "rule": "ScatterAllStatic", "data": ddecl, "updates": udecl, "indices": idx, "reduction": red}
        try:
            new = U.apply_rule(host, [mod.no_op_static_scatter_nd_rule])
            fired = "ScatterND" not in U.ops(new)
            obs = "Fire" if fired else "NoFire"
        except Exception as e:  # noqa: BLE001
            r = _root(e)
            raised += 1
            obs = "Raises"
            sym0 = not isinstance(ddecl[0], int)
            ctx.violation("C05:scatternd-static:raises:symbolic-first-dim" if sym0 else "C05:scatternd-static:raises:other",
                          f"ScatterND(data{ddecl}, .., updates{udecl}): rule raised {type(r).__name__}: {r}", dict(replay, error=str(r)))
            fired = False
        sd = copt(ddecl, lambda l: clist([_dim(d) for d in l]))
        su = "None" if udecl == "unknown" else copt(udecl, lambda l: clist([_dim(d) for d in l]))
        si = copt(idx, lambda rows: clist([clist([cz(v) for v in r]) for r in rows]))
        cases.append(f"({sd}, {su}, {si}, {obs})")
        meta.append((ddecl, udecl, idx, red, obs))
        ctx.case(("scatter-static", n, len(sh), red, obs, idx is None, str(ddecl) == str(udecl), any(isinstance(d, str) for d in ddecl), any(d is None for d in ddecl)))
        if fired:
            fired_n += 1
            feeds = []
            for k in range(3):
                f = {"d": U.int_data(sh, dtype, k) + 1, ("u0" if udecl == "unknown" else "u"): U.int_data(ush, dtype, (k + 1) % 3) * 2}
                if idx is None:
                    f["i"] = rt_idx
                feeds.append(f)
            key = "C05:scatternd-static:reduction-attribute-ignored" if red in ("add", "mul") else "C05:scatternd-static:differs"
            U.oracle(ctx, key, f"ScatterND(data{ddecl}, [[0]..[{n - 1}]], updates{udecl}, reduction={red})", host, new, feeds, replay)
    ok, vals_, raw = ctx.coq_eval(["OV.Rules.ScatterND"], f"Definition cases : list case := {clist(cases)}.\nEval vm_compute in (disagreeing 0 cases).", name="scatter")
    if not ok:
        ctx.tie_broken("correspondence", "scatter:model-evaluation", raw[-800:])
        return
    bad = common.parse_nat_list(vals_[0])
    for i in bad[:5]:
        ctx.tie_broken("correspondence", "scatter:ScatterAllStatic", f"(data, updates, indices, reduction, observed) = {meta[i]}: differs from ScatterND.sa_check")
    ctx.obligation("correspondence scatter: ScatterAllStatic fires / raises only where Rules/ScatterND.v `sa_check` says so", not bad)
    U.guard(ctx, "scatter:ScatterAllStatic", fired_n, 8)

    host = U.model([helper.make_node("ScatterND", ["d", "i", "u"], ["y"])], [("d", "float32", [3, 2]), ("u", "float32", [3, 2]), ("i", "int64", [3, 1])],
                   [("y", "float32", [3, 2])], inits=[U.const_arr("i", np.array([[0], [1], [2]], np.int64))])
    dd, uu = U.int_data([3, 2], "float32", 0), U.int_data([3, 2], "float32", 1) * 3
    U.overridable_probe(ctx, "scatternd-static", "ScatterND(data, i, updates) (i defaults to [[0],[1],[2]])", host, [mod.no_op_static_scatter_nd_rule],
                        [{"d": dd, "u": uu}, {"d": dd, "u": uu, "i": np.array([[0], [0], [0]], np.int64)}, {"d": dd, "u": uu, "i": np.array([[2], [2], [1]], np.int64)}])

    # ------------------------------------------------------------------ ScatterAllDynamic
    # (runtime data shape, declared data shape, axis, perm, declared shape of the transposed data | "none" (no value_info), axis operand kind)
    dyn = 0
    dinsts = []
    for dsh, axis, perm in [([3, 4], 1, [1, 0]), ([3, 4], 0, [0, 1]), ([2, 3, 4], 2, [2, 0, 1]), ([2, 3, 4], -1, [2, 0, 1]), ([2, 3, 4], -2, [1, 0, 2]),
                            ([3, 4], 1, [0, 1]), ([3, 3], 1, [0, 1]), ([2, 3, 4], 0, [1, 0, 2]), ([1, 5], 1, [1, 0]), ([4], 0, [0])]:
        tsh = [dsh[q] for q in perm]
        dinsts.append((dsh, list(dsh), axis, perm, tsh, "const"))
    rng = ctx.rng
    for _ in range(6 if ctx.tier == "quick" else 40):
        r = rng.randrange(1, 4)
        dsh = [rng.randrange(1, 4) for _ in range(r)]
        perm = list(range(r))
        rng.shuffle(perm)
        axis = rng.randrange(-r, r)
        dinsts.append((dsh, list(dsh), axis, perm, [dsh[q] for q in perm], "const"))
    dinsts += [
        ([3, 4], ["N", 4], 0, [0, 1], ["N", 4], "const"),            # same symbol on both sides
        ([3, 4], [3, "M"], 1, [1, 0], ["M", 3], "const"),
        ([3, 3], ["N", "M"], 0, [1, 0], ["M", "N"], "const"),        # different symbols (equal at run time here): must not fire
        ([3, 4], [None, 4], 0, [0, 1], [None, 4], "const"),          # unknown dims are not known to be equal
        ([3, 4], [3, 4], 1, [1, 0], "none", "const"),                # transposed data without annotation
        ([3, 4], [3, 4], 1, [1, 0], [4, 3], "input"),                # axis not a constant
        ([3, 4], [3, 4], 1, [1, 0], [4, 3], "vector2"),              # axis a two-element constant: Gather yields two dims (host invalid for Range) -> no fire
    ]
    dcases, dmeta = [], []
    dfired = 0
    for dsh, ddecl, axis, perm, tdecl, akind in dinsts:
        tsh = [dsh[q] for q in perm]
        n_upd = dsh[axis]
        ush = [n_upd] + tsh[1:]
        inits = [U.const_arr("zero", np.array(0, np.int64)), U.const_arr("one", np.array(1, np.int64)), U.const_arr("m1", np.array([-1], np.int64))]
        inputs = [("data", "float32", ddecl), ("upd", "float32", ush)]
        if akind == "const":
            inits.append(U.const_arr("ax", np.array(axis, np.int64)))
        elif akind == "vector2":
            inits.append(U.const_arr("ax", np.array([axis, axis], np.int64)))
        else:
            inputs.append(("ax", "int64", []))
        nodes = [helper.make_node("Transpose", ["data"], ["td"], perm=perm),
                 helper.make_node("Shape", ["data"], ["shape"], start=0),
                 helper.make_node("Gather", ["shape", "ax"], ["dim"], axis=0),
                 helper.make_node("Range", ["zero", "dim", "one"], ["rng"]),
                 helper.make_node("Unsqueeze", ["rng", "m1"], ["idx"]),
                 helper.make_node("ScatterND", ["td", "idx", "upd"], ["y"], reduction="none")]
        vinfo = [] if tdecl == "none" else [("td", "float32", tdecl)]
        try:
            host = U.model(nodes, inputs, [("y", "float32", None if tdecl == "none" else tdecl)], inits=inits, value_info=vinfo, opset=18)
        except Exception:  # noqa: BLE001
            continue
        replay = {"family": "scatter", "rule": "ScatterAllDynamic", "data": ddecl, "axis": axis, "perm": perm, "transposed_decl": tdecl, "axis_kind": akind}
        try:
            new = U.apply_rule(host, [mod.no_op_dynamic_scatter_nd_rule])
            ynode = [nd for nd in new.graph.node if "y" in nd.output][0]
            fired = ynode.op_type == "Identity"
            obs = "Fire" if fired else "NoFire"
        except Exception as e:  # noqa: BLE001
            ctx.violation("C05:scatternd-dynamic:raises", f"rule raised {_root(e)!r}", replay)
            fired, obs = False, "Raises"
        dyn += 1
        ctx.case(("scatter-dynamic", len(dsh), axis, tuple(perm), akind, tdecl == "none", tuple(type(d).__name__ for d in ddecl), obs))
        sd = clist([_dim(d) for d in ddecl])
        st = "None" if tdecl == "none" else f"(Some {clist([_dim(d) for d in tdecl])})"
        sa = f"(Some {cz(axis)})" if akind == "const" else "None"
        dcases.append(f"(Some {sd}, {st}, {sa}, {obs})")
        dmeta.append((ddecl, tdecl, axis, perm, akind, obs))
        if fired:
            dfired += 1
            feeds = [{"data": U.int_data(dsh, "float32", k), "upd": U.int_data(ush, "float32", (k + 1) % 3) * 3} for k in range(3)]
            if akind == "input":
                for f in feeds:
                    f["ax"] = np.array(axis, np.int64)
            U.oracle(ctx, "C05:scatternd-dynamic:differs", f"ScatterND(Transpose(data{ddecl},{perm}), range(shape[{axis}]), upd)", host, new, feeds, replay)
    ok, vals_, raw = ctx.coq_eval(["OV.Rules.ScatterND"], f"Definition dcases : list dcase := {clist(dcases)}.\nEval vm_compute in (ddisagreeing 0 dcases).", name="scatter_dyn")
    if not ok:
        ctx.tie_broken("correspondence", "scatter:dynamic-model-evaluation", raw[-800:])
        return
    dbad = common.parse_nat_list(vals_[0])
    for i in dbad[:5]:
        ctx.tie_broken("correspondence", "scatter:ScatterAllDynamic", f"(data decl, transposed decl, axis, perm, axis kind, observed) = {dmeta[i]}: not permitted by ScatterND.da_check")
    ctx.obligation("correspondence scatter: ScatterAllDynamic fires / raises only where Rules/ScatterND.v `da_check` says so", not dbad)
    U.guard(ctx, "scatter:ScatterAllDynamic", dfired, 6)
    ctx.cover(scatter_static_instances=len(cases), scatter_static_fired=fired_n, scatter_static_raised=raised, scatter_dynamic_hosts=dyn, scatter_dynamic_fired=dfired,
              scatter_model_disagreements=len(bad), scatter_dynamic_model_disagreements=len(dbad))
    ctx.sample({"family": "scatter", "case": [str(x) for x in meta[len(meta) // 2]]})
    ctx.assume("ScatterAllDynamic: Shape/Gather/Range/Unsqueeze are read as 'the extent of data along `axis`, as the index rows [[0],..,[n-1]]' (operator documents); "
               "annotations of the host are truthful; ScatterND's shape rule gives `updates` one row per index row")
