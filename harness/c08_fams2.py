"""C08 helper: the second group of modelled torch_lib functions (coq/Torch/Aten2.v, checked by coq/Torch/Check2.v):
aten_diagonal, max_pool / avg_pool attribute adjustment, ...  Same conventions as c08_fams."""
from __future__ import annotations

import numpy as np

from harness import c08_gen2 as G2
from harness.c08_fams import Fam, arr, b, flat_ints, llz, lz, numel, oz, slabs, z


def ints(v):
    """python int or list -> Coq `ints` literal"""
    return f"(IInt {z(v)})" if isinstance(v, int) else f"(IList {lz(v)})"


def r2shape(a):
    return f"(R2Shape {lz(np.asarray(a).shape)})"


def r2sd(a):
    a = np.asarray(a)
    return f"(R2ShapeData {lz(a.shape)} {lz(flat_ints(a))})"


def wrap(d, r):
    return d + r if d < 0 else d


def build(torch):
    A = torch.ops.aten
    F = []

    # ---- aten_diagonal
    def diag_call(a, k):
        x = arr(a[0])
        r = x.ndim
        d1, d2 = wrap(a[2], r), wrap(a[3], r)
        others = [i for i in range(r) if i not in (d1, d2)]
        xt = np.transpose(x, others + [d1, d2])
        n1, n2 = x.shape[d1], x.shape[d2]
        mats = xt.reshape((numel([x.shape[i] for i in others]), n1, n2))
        lit = "[" + "; ".join(llz([flat_ints(row) for row in m]) for m in mats) + "]"
        return f"(CDiagonal {{FIXED}} {b(a[0]['t'] == 'bool')} {lz(x.shape)} {z(a[1])} {z(a[2])} {z(a[3])} {n2} {lit})"

    def diag_cls(a, k):
        sh = a[0]["shape"]
        r = len(sh)
        n1, n2 = sh[wrap(a[2], r)], sh[wrap(a[3], r)]
        off = a[1]
        return (r, int(np.sign(off)), a[2] < 0, a[3] < 0, wrap(a[2], r) > wrap(a[3], r), int(np.sign(n1 - n2)),
                (off >= n2) or (-off >= n1), numel(sh) == 0, a[0]["t"] == "bool")

    def nsq(a, k):
        sh = a[0]["shape"]
        r = len(sh)
        return sh[wrap(a[2], r)] != sh[wrap(a[3], r)]

    F.append(Fam(
        "diagonal", "aten_diagonal", lambda x, o, d1, d2: torch.diagonal(x, o, d1, d2), G2.gen_diagonal,
        diag_call, lambda a, k, out: r2sd(out), diag_cls, chk=2, quick=110, thorough=1200,
        floors={"negative offset, non-square": (lambda a, k: a[1] < 0 and nsq(a, k), 12),
                "positive offset, non-square": (lambda a, k: a[1] > 0 and nsq(a, k), 12),
                "negative dim": (lambda a, k: a[2] < 0 or a[3] < 0, 15),
                "dim1 after dim2": (lambda a, k: wrap(a[2], len(a[0]["shape"])) > wrap(a[3], len(a[0]["shape"])), 15),
                "offset beyond the matrix": (lambda a, k: diag_cls(a, k)[6], 5),
                "rank >= 3": (lambda a, k: len(a[0]["shape"]) >= 3, 20)}))

    # ---- pooling
    def pool_cls(e):
        def f(a, k):
            sh = a[0]["shape"]
            pad = a[3]
            asym = isinstance(pad, list) and len(set(pad)) > 1
            return (e, len(sh) == e + 1, type(a[1]).__name__, "omitted" if a[2] == [] else type(a[2]).__name__,
                    "int" if isinstance(pad, int) else len(pad), asym, bool(a[-1]) if e else None)
        return f

    def asym_pad(a, k):
        return isinstance(a[3], list) and len(set(a[3])) > 1

    for e in (1, 2, 3):
        F.append(Fam(
            f"max_pool{e}d", f"aten_max_pool{e}d",
            (lambda e_: lambda x, ks, st, p, d, cm: getattr(A, f"max_pool{e_}d")(x, ks, st, p, d, cm))(e), G2.gen_max_pool(e),
            (lambda e_: lambda a, k: f"(CMaxPool {{FIXED}} {e_} {lz(a[0]['shape'])} {ints(a[1])} {ints(a[2])} {ints(a[3])} {ints(a[4])} {b(a[5])})")(e),
            lambda a, k, out: r2shape(out), pool_cls(e), chk=2, mod="nn", quick=70, thorough=700,
            floors=({"padding entries differ": (asym_pad, 8)} if e > 1 else {}) | {
                "ceil_mode": (lambda a, k: a[5], 10), "stride omitted": (lambda a, k: a[2] == [], 5),
                "unbatched": ((lambda e_: lambda a, k: len(a[0]["shape"]) == e_ + 1)(e), 8)}))
        F.append(Fam(
            f"avg_pool{e}d", f"aten_avg_pool{e}d",
            (lambda e_: lambda x, ks, st, p, cm, cip: getattr(A, f"avg_pool{e_}d")(x, ks, st, p, cm, cip))(e), G2.gen_avg_pool(e),
            (lambda e_: lambda a, k: f"(CAvgPool {{FIXED}} {e_} {lz(a[0]['shape'])} {ints(a[1])} {ints(a[2])} {ints(a[3])} {b(a[4])} {b(a[5])})")(e),
            lambda a, k, out: r2shape(out), pool_cls(e), chk=2, mod="nn", quick=50, thorough=500,
            floors=({"padding entries differ": (asym_pad, 5)} if e > 1 else {}) | {"ceil_mode": (lambda a, k: a[4], 6)}))

    # ---- constant_pad_nd / pad
    def pad_pairs(sh, pad):
        """{axis: (begin, end)} as PyTorch reads the pad list"""
        r = len(sh)
        out = {}
        for j in range(0, len(pad) - 1, 2):
            out[r - 1 - j // 2] = (pad[j], pad[j + 1])
        return out

    def one_axis(a):
        sh = a[0]["shape"]
        if len(a[1]) % 2 or len(a[1]) > 2 * len(sh):
            return None
        nz = [ax for ax, (pb, pe) in pad_pairs(sh, a[1]).items() if pb or pe]
        return nz[0] if len(nz) == 1 else None

    def pad_value(a, k):
        v = a[2] if len(a) > 2 else k.get("value")
        return None if v is None else int(v)

    def pad_call(a, k):
        sh = a[0]["shape"]
        ax = one_axis(a)
        v = pad_value(a, k)
        if ax is None or k.get("mode", "constant") != "constant":
            return f"(CPadShape {lz(sh)} {lz(a[1])} {oz(v)})"
        x = arr(a[0])
        sl = slabs(x, ax)
        width = numel(sh) // sh[ax] if sh[ax] else numel([d for i, d in enumerate(sh) if i != ax])
        return f"(CPadAxis {lz(sh)} {lz(a[1])} {oz(v)} {ax} {llz(sl)} {lz([0 if v is None else v] * width)})"

    def pad_res(a, k, out):
        ax = one_axis(a)
        if ax is None or k.get("mode", "constant") != "constant":
            return r2shape(out)
        return f"(R2List [{r2shape(out)}; (R2Slabs {ax} {llz(slabs(out, ax))})])"

    def pad_cls(a, k):
        sh = a[0]["shape"]
        return (len(sh), len(a[1]) // 2, any(p < 0 for p in a[1]), any(p > 0 for p in a[1]), one_axis(a) is not None,
                k.get("mode", "nd"), a[0]["t"], numel(sh) == 0)

    pad_floors = {"a negative pad": (lambda a, k: any(p < 0 for p in a[1]), 12),
                  "fewer pairs than dimensions": (lambda a, k: len(a[1]) < 2 * len(a[0]["shape"]), 12),
                  "values compared along one axis": (lambda a, k: one_axis(a) is not None and k.get("mode", "constant") == "constant", 12),
                  "begin and end differ": (lambda a, k: any(a[1][j] != a[1][j + 1] for j in range(0, len(a[1]) - 1, 2)), 15)}
    F.append(Fam("constant_pad_nd", "aten_constant_pad_nd", lambda x, p, v: A.constant_pad_nd(x, p, v), G2.gen_constant_pad_nd,
                 pad_call, pad_res, pad_cls, chk=2, quick=90, thorough=900, floors=pad_floors))
    F.append(Fam("pad", "aten_pad", lambda x, p, mode="constant", value=None: A.pad(x, p, mode, value), G2.gen_pad,
                 pad_call, pad_res, pad_cls, chk=2, mod="nn", quick=70, thorough=700,
                 floors={"a negative pad": (lambda a, k: any(p < 0 for p in a[1]), 6),
                         "value omitted": (lambda a, k: k.get("value") is None and k["mode"] == "constant", 6),
                         "reflect / replicate": (lambda a, k: k["mode"] != "constant", 5)}))

    # ---- unfold
    def unfold_call(a, k):
        sh = a[0]["shape"]
        x = arr(a[0])
        sl = slabs(x, wrap(a[1], len(sh))) if sh else [flat_ints(x)]
        return f"(CUnfold {{FIXED}} {lz(sh)} {z(a[1])} {z(a[2])} {z(a[3])} {llz(sl)})"

    def unfold_res(a, k, out):
        sh = a[0]["shape"]
        out = np.asarray(out)
        if not sh:
            return f"(R2List [{r2shape(out)}; (R2Windows [{llz([flat_ints(out)])}])])"
        d = wrap(a[1], len(sh))
        ws = [[flat_ints(np.take(np.take(out, w, axis=d), t, axis=-1)) for t in range(out.shape[-1])] for w in range(out.shape[d])]
        return f"(R2List [{r2shape(out)}; (R2Windows [" + "; ".join(llz(w) for w in ws) + "])])"

    def unfold_cls(a, k):
        sh = a[0]["shape"]
        n = sh[wrap(a[1], len(sh))] if sh else 1
        return (len(sh), a[1] < 0, a[2] == 0, a[2] == n, a[3] > a[2], (n - a[2]) % a[3] == 0 if a[3] > 0 else None, numel(sh) == 0)

    F.append(Fam("unfold", "aten_unfold", lambda x, d, sz, st: x.unfold(d, sz, st), G2.gen_unfold, unfold_call, unfold_res, unfold_cls,
                 chk=2, quick=90, thorough=900,
                 floors={"negative dimension": (lambda a, k: a[1] < 0, 15), "step > size": (lambda a, k: a[3] > a[2], 10),
                         "size = extent": (lambda a, k: bool(a[0]["shape"]) and a[2] == a[0]["shape"][wrap(a[1], len(a[0]["shape"]))], 4),
                         "rank 0": (lambda a, k: not a[0]["shape"], 2), "inner dimension": (lambda a, k: len(a[0]["shape"]) >= 2 and wrap(a[1], len(a[0]["shape"])) < len(a[0]["shape"]) - 1, 15)}))

    # ---- unbind
    def unbind_res(a, k, out):
        outs = out if isinstance(out, (list, tuple)) else [out]
        return f"(R2Slabs {wrap(a[1], len(a[0]['shape']))} {llz([flat_ints(o) for o in outs])})"

    F.append(Fam("unbind", "aten_unbind", lambda x, d: list(torch.unbind(x, d)), G2.gen_unbind,
                 lambda a, k: f"(CUnbind {len(a[0]['shape'])} {z(a[1])} {a[0]['shape'][a[1]]} {llz(slabs(arr(a[0]), wrap(a[1], len(a[0]['shape']))))})",
                 unbind_res, lambda a, k: (len(a[0]["shape"]), a[1] < 0, a[1] == -len(a[0]["shape"]), min(a[0]["shape"][a[1]], 3), numel(a[0]["shape"]) == 0),
                 chk=2, quick=50, thorough=500,
                 floors={"negative dim": (lambda a, k: a[1] < 0, 10), "extent 1": (lambda a, k: a[0]["shape"][a[1]] == 1, 3)}))

    # ---- dim handling only
    F.append(Fam("gather", "aten_gather", lambda x, d, i: torch.gather(x, d, i), G2.gen_gather,
                 lambda a, k: f"(CGather {lz(a[0]['shape'])} {z(a[1])} {lz(a[2]['shape'])})", lambda a, k, out: r2shape(out),
                 lambda a, k: (len(a[0]["shape"]), len(a[2]["shape"]), a[1] < 0, a[2]["t"]), chk=2, quick=50, thorough=500,
                 floors={"rank-0 self": (lambda a, k: not a[0]["shape"], 4), "rank-0 index": (lambda a, k: not a[2]["shape"], 4),
                         "negative dim": (lambda a, k: a[1] < 0, 10)}))
    for nm, fn_, log_, sq_, ref in (("softmax", "aten_softmax", False, False, lambda x, d: torch.softmax(x, d)),
                                    ("_softmax", "aten__softmax", False, False, lambda x, d, h: A._softmax(x, d, h)),
                                    ("_log_softmax", "aten__log_softmax", True, True, lambda x, d, h: A._log_softmax(x, d, h))):
        F.append(Fam(nm, fn_, ref, G2.gen_softmax(nm != "softmax"),
                     (lambda l_, s_: lambda a, k: f"(CSoftmax {b(l_)} {b(s_)} {lz(a[0]['shape'])} {z(a[1])})")(log_, sq_),
                     lambda a, k, out: r2shape(out), lambda a, k: (len(a[0]["shape"]), a[1] < 0, a[1] == -max(1, len(a[0]["shape"]))),
                     chk=2, quick=30, thorough=300,
                     floors={"rank 0": (lambda a, k: not a[0]["shape"], 2), "negative dim": (lambda a, k: a[1] < 0, 6)}))
    F.append(Fam("sort", "aten_sort", lambda x, d, desc: list(torch.sort(x, d, desc)), G2.gen_sort,
                 lambda a, k: f"(CSort {lz(a[0]['shape'])} {z(a[1])} {b(a[2])})",
                 lambda a, k, out: r2shape(out[0]), lambda a, k: (len(a[0]["shape"]), a[1] < 0, a[2], a[0]["t"]),
                 chk=2, quick=40, thorough=400,
                 floors={"rank 0": (lambda a, k: not a[0]["shape"], 2), "negative dim": (lambda a, k: a[1] < 0, 8)}))
    return F
