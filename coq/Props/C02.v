(* C02 property theorems: statements only, each closed by `exact`, Print Assumptions beneath.
   The verified checkers evaluated by harness/c02.py on the converter's real protos are
   wf_graphb / no_input_returned / imports_ok (Graph/Wf.v); these theorems say what a `true` means. *)
From Coq Require Import List String Bool ZArith.
Require Import OV.Graph.Syntax OV.Graph.Wf OV.Graph.WfProofs.
Require Import OV.Script.Syntax OV.Script.Translate OV.Script.TranslateProofs OV.Script.TranslateExamples OV.Script.TranslateWfProofs
               OV.Script.TranslateWfNestProofs.
Import ListNotations.

(* checker soundness: a proto on which the checker answers true is well formed in the declarative sense
   (scoping: defined before use with outer-scope visibility, subgraph outputs produced inside, outputs
   distinct; single assignment across the graph and all nested subgraphs). *)
Theorem C02_wf_checker_sound : forall g, wf_graphb g = true -> wf_graph g.
Proof. exact wf_graphb_sound. Qed.
Print Assumptions C02_wf_checker_sound.

Theorem C02_wf_checker_nonvacuous : exists g, depth_graph g = 8 /\ wf_graphb g = true.
Proof. exact wf_example_deep. Qed.
Print Assumptions C02_wf_checker_nonvacuous.

(* every value name is defined exactly once across the graph and all nested subgraphs *)
Theorem C02_single_assignment : forall g, wf_graphb g = true -> NoDup (defs_graph g).
Proof. exact (fun g H => wf_defs_nodup g (wf_graphb_sound g H)). Qed.
Print Assumptions C02_single_assignment.

(* no nested subgraph (at any depth) redefines a graph input or initializer *)
Theorem C02_inputs_not_redefined : forall ins inits nodes outs x,
  wf_graphb (Graph ins inits nodes outs) = true -> In x ins -> ~ In x (defs_nodes_all nodes).
Proof. exact (fun ins inits nodes outs x H => wf_inputs_not_redefined ins inits nodes outs x (wf_graphb_sound _ H)). Qed.
Print Assumptions C02_inputs_not_redefined.

Theorem C02_outputs_distinct_and_defined : forall g, wf_graphb g = true ->
  NoDup (g_outs g) /\ incl (g_outs g) (flat_map n_outs (g_nodes g) ++ g_ins g ++ pure_inits (g_ins g) (g_inits g)).
Proof. exact (fun g H => conj (wf_outputs_distinct g (wf_graphb_sound g H)) (wf_outputs_defined g (wf_graphb_sound g H))). Qed.
Print Assumptions C02_outputs_distinct_and_defined.

Theorem C02_subgraph_outputs_inside : forall vis g, scoped_graph true vis g -> incl (g_outs g) (flat_map n_outs (g_nodes g)).
Proof. exact scoped_sub_outputs_inside. Qed.
Print Assumptions C02_subgraph_outputs_inside.

Theorem C02_no_input_returned_reflect : forall g,
  no_input_returned g = true <-> (forall o, In o (g_outs g) -> ~ In o (g_ins g)).
Proof. exact no_input_returned_spec. Qed.
Print Assumptions C02_no_input_returned_reflect.

Theorem C02_imports_reflect : forall imports g,
  imports_ok imports g = true <-> (NoDup imports /\ incl (domains_graph g) imports).
Proof. exact imports_ok_spec. Qed.
Print Assumptions C02_imports_reflect.

(* the converter's name generator (model of Converter._generate_unique_name over the single _used_vars set shared by
   all nested scopes): the returned name is new and is recorded, so no later name can coincide with it *)
Theorem C02_generated_names_fresh : forall cand st r st',
  gen_unique cand st = Some (r, st') ->
  ~ In r (ts_used st) /\ ts_used st' = r :: ts_used st /\ ts_next st <= ts_next st'
  /\ ts_castable st' = ts_castable st /\ ts_orders st' = ts_orders st.
Proof. exact gen_unique_fresh. Qed.
Print Assumptions C02_generated_names_fresh.

(* ---- the converter model (Script/Translate.v, tied to converter.py by the skeleton correspondence of harness/c01.py and
   harness/c02.py) emits well-formed graphs.

   Full statement, for every program of Script.Syntax (if / for / while nested, attribute parameters, sub-function calls):
   whatever the converter model accepts, the graph passes the verified checker (single assignment across all nested
   subgraphs, definition before use with scoping, subgraph outputs produced inside, outputs distinct) and returns no
   graph input directly.  Distinct parameter names are a precondition Python itself enforces (SyntaxError). *)
Definition C02_translate_wf_full : Prop :=
  forall globals cic afuel orders f g,
    NoDup (f_tparams f) ->
    translate false globals cic afuel orders f = Some g ->
    wf_graphb g = true /\ no_input_returned g = true.

(* PROVED for every program the converter model accepts -- no syntactic class: if/else, for, while, a trailing conditional
   break, nested to any depth (up to the model's own nesting bound), tuple assignment, attribute parameters, module
   constants, sub-function calls -- in the declarative form of the checker's meaning: wf_graph g (Graph/WfProofs.v; it is
   what C02_wf_checker_sound concludes from wf_graphb g = true): every use is defined before it in this graph or an
   enclosing one, every subgraph output is produced by a node of that subgraph, outputs are distinct, and every value name
   is defined exactly once across the graph and all nested subgraphs (so no subgraph redefines an outer name); plus: no graph
   input is returned directly.  Proof (Script/TranslateWfNestProofs.v): induction on the nesting fuel; invariant of every
   step = the emitted nodes are scoped w.r.t. what is visible, and all names they define, nested subgraphs included, are
   pairwise distinct and fresh (C02_generated_names_fresh); block_outputs / loop_outputs list a value only when a node of
   the block defines it and it is not listed yet and otherwise copy it with Identity (the Identity-copy rule, with the
   repaired alias and duplicate-output cases).
   Session 6: completeness of the checker is proved (Graph/WfCompleteProofs.v), and C02_translate_wf_full is a theorem:
   Props/C02_complete.v, C02_translate_wf_full_proved (this Definition is kept for reference); on every generated program the harness also evaluates
   wf_graphb on the model's graph (obligation "C02_translate_wf_full observed"). *)
Theorem C02_translate_wf_all : forall globals cic afuel orders f g,
  NoDup (f_tparams f) ->
  translate false globals cic afuel orders f = Some g ->
  wf_graph g /\ no_input_returned g = true.
Proof. exact translate_wf_all. Qed.
Print Assumptions C02_translate_wf_all.

(* consequences, spelled out for the converter model *)
Theorem C02_translate_single_assignment : forall globals cic afuel orders f g,
  NoDup (f_tparams f) -> translate false globals cic afuel orders f = Some g ->
  NoDup (defs_graph g) /\ NoDup (g_outs g) /\ (forall o, In o (g_outs g) -> ~ In o (g_ins g)).
Proof.
  exact (fun globals cic afuel orders f g Hn Ht =>
           let H := translate_wf_all globals cic afuel orders f g Hn Ht in
           conj (wf_defs_nodup g (proj1 H))
                (conj (wf_outputs_distinct g (proj1 H)) (proj1 (no_input_returned_spec g) (proj2 H)))).
Qed.
Print Assumptions C02_translate_single_assignment.

(* non-vacuity: a `for` loop whose body holds an if/else; the then branch aliases a value computed before the loop (`y = t`:
   the branch graph must copy it with Identity), the else branch updates y; y is loop carried.  The model accepts it, the
   graph has depth 6, and it also passes the executable checker. *)
Theorem C02_translate_wf_nested_nonvacuous :
  exists g, NoDup (f_tparams exwf_f) /\ translate false [] (fun _ => None) 6 [] exwf_f = Some g /\
            depth_graph g = 6 /\ wf_graphb g = true /\ no_input_returned g = true.
Proof. exact exwf_hyps. Qed.
Print Assumptions C02_translate_wf_nested_nonvacuous.

(* Earlier proved part, with the boolean checker itself: stage S1, straight-line bodies (the syntactic class of C01_graph_eq_python_straightline_partial, attribute
   parameters allowed): assignments and tuple assignments of arbitrary expressions (literals with their static CastLike,
   attribute parameters promoted through Constant (+Cast), module constants, operator and sub-function calls) followed by one
   return of several values with the Identity copies for returned inputs and duplicates.  From the freshness invariant of
   _generate_unique_name (C02_generated_names_fresh).
   Missing: SIf / SFor / SWhile, i.e. the nested graphs (subgraph outputs produced inside, no redefinition of an outer name,
   loop-state naming): for those the evidence is wf_graphb evaluated in Coq on the real protos of every generated program. *)
Theorem C02_translate_wf_straightline_partial : forall globals cic afuel orders f g pre es,
  f_body f = (pre ++ [SReturn es])%list -> assigns_ok pre = true -> forallb expr_ok es = true -> NoDup (f_tparams f) ->
  translate false globals cic afuel orders f = Some g ->
  wf_graphb g = true /\ no_input_returned g = true.
Proof. exact translate_wf_straightline. Qed.
Print Assumptions C02_translate_wf_straightline_partial.

(* the hypotheses are satisfiable on non-trivial instances (11 and 10 nodes: literal operands with casts, a re-assigned
   parameter, a parameter named like a generated name, tuple assignment, attribute parameters incl. a bool one, a module
   constant, returned inputs and duplicate returns) *)
Theorem C02_translate_wf_straightline_nonvacuous :
  (exists g pre es, f_body ex_f = (pre ++ [SReturn es])%list /\ assigns_ok pre = true /\ forallb expr_ok es = true /\
     NoDup (f_tparams ex_f) /\ translate false [] (fun _ => None) 5 [] ex_f = Some g /\ List.length (g_nodes g) = 11) /\
  (exists g pre es, f_body ex_attr = (pre ++ [SReturn es])%list /\ assigns_ok pre = true /\ forallb expr_ok es = true /\
     NoDup (f_tparams ex_attr) /\ translate false [("K"%string, LFloat 1065353216%Z)] (fun _ => None) 5 [] ex_attr = Some g /\
     List.length (g_nodes g) = 10).
Proof. exact translate_wf_nonvacuous. Qed.
Print Assumptions C02_translate_wf_straightline_nonvacuous.

(* without distinct parameter names the model's graph is not well formed (so the precondition is needed; `def f(x, x)` is a
   SyntaxError in Python, the decorator never sees it) *)
Theorem C02_translate_wf_needs_distinct_parameters :
  exists f g, f_body f = ([] ++ [SReturn [EUn "USub"%string (EVar "x"%string)]])%list /\
    translate false [] (fun _ => None) 5 [] f = Some g /\ wf_graphb g = false.
Proof. exact translate_wf_needs_distinct_parameters. Qed.
Print Assumptions C02_translate_wf_needs_distinct_parameters.
