"""C05 translator: every numeric constant a shipped rewrite rule MATCHES against, with the tolerance it is matched with.

Source of truth: the current files onnxscript/rewriter/rules/{common,fusion}/*.py (not *_test.py), _pattern_ir.py
(defaults of `Constant.__init__`, promotion of bare literals in `_to_value_pattern`, `AttrConstantPattern.matches`),
_matcher.py (`_match_constant` passes the pattern's tolerances to math.isclose) and _ir_utils.py (`is_singleton_value`).
Everything is read from the AST, fail-closed: a construct this reader does not recognise is a `problem`
(-> ctx.tie_broken("translator", ...)), never silently skipped.

What is collected (one row per scalar; a list literal gives one row per element):
  pattern   a numeric literal that becomes a `_pattern_ir.Constant` in a TARGET pattern: positional argument of an
            `op.X(...)` call / operand of an arithmetic operator on a pattern value (tolerances = defaults of
            Constant.__init__), an explicit `Constant(v, rel_tol=, abs_tol=)`, or a call of a module-level helper that
            returns such a Constant (e.g. `_exactly(1)`)
  pattern_int   the same when the operator's schema types that input as tensor(int64) only (axes of ReduceMean, ...):
            the operand is an integer tensor and the default tolerance is vacuous for small integer targets (theorem)
  singleton / singleton_int   `is_singleton_value(v, <float>, rtol=r)` (math.isclose(rel_tol=r), abs_tol 0) /
            `is_singleton_value(v, <int>)` (`expected == scalar`)
  np_isclose / math_isclose   calls in any function of a rule file, with their (default) tolerance arguments
Keyword arguments of `op.X(...)` in a pattern are ATTRIBUTE patterns (AttrConstantPattern: `==`); they are counted, and the
`==` is itself checked on the AST of AttrConstantPattern.matches.

Where a number is expected, a CONSTANT EXPRESSION is accepted and evaluated with Python semantics (class _Scopes):
literals, unary + -, binary + - * / ** of constant expressions, float(c) / int(c), math.pi / math.e / math.tau,
math.sqrt(c), np.float32(c) / np.float64(c) (`math` / `np` / `numpy` bound once at module level by an import, `float` / `int`
not rebound), and NAMES of constants:
  module level   a name bound exactly once in the module scope, by `NAME = <constant expression>` (or the annotated form),
                 that no function of the file declares `global`;
  class level    `self.X` / `cls.X` / `Class.X` where X is bound exactly once in the body of the enclosing class (or of a base
                 class named in the same file), to a constant expression, X is bound in no other class body of the rule
                 files and no `<expr>.X = ...` store exists in the rule files;
  local          a name bound exactly once in its function (not a parameter, no global / nonlocal) by `name = <constant
                 expression>`: every successful read yields that value.
A name bound more than once with a constant among its bindings is a `problem` where a pattern constant may be meant; every
other name is a pattern variable / runtime value as before.  Trusted: no code outside the rule files rebinds such a name.
The table is independent of line numbers and of the spelling of locals: `ce_line` holds the ORDINAL of the row among the
rows of its file in source order, and the comment renders constant sub-expressions by their value and single-assignment
locals by their defining expression.  The shape checks on _pattern_ir / _matcher / _ir_utils compare canonical forms
(harness/c01_pynorm: early-return vs nested if, renamed locals / parameters, single-use locals; here also `return a if c
else b` vs the if statement).
"""
from __future__ import annotations

import ast
import copy
import glob
import inspect
import math
import os
from fractions import Fraction

from harness import c01_pynorm as pynorm
from harness import common

RULE_DIRS = ("onnxscript/rewriter/rules/common", "onnxscript/rewriter/rules/fusion")
ARITH = (ast.Add, ast.Sub, ast.Mult, ast.Div, ast.Pow)


def _num(node):
    """numeric literal (int/float, optionally negated) -> python number, else None"""
    if isinstance(node, ast.Constant) and isinstance(node.value, (int, float)) and not isinstance(node.value, bool):
        return node.value
    if isinstance(node, ast.UnaryOp) and isinstance(node.op, (ast.USub, ast.UAdd)):
        v = _num(node.operand)
        if v is not None:
            return -v if isinstance(node.op, ast.USub) else v
    return None


def _const_expr(node):
    """closed arithmetic expression of literals (1 / 6) -> number, else None"""
    v = _num(node)
    if v is not None:
        return v
    if isinstance(node, ast.BinOp) and isinstance(node.op, ARITH):
        a, b = _const_expr(node.left), _const_expr(node.right)
        if a is None or b is None:
            return None
        try:
            return {ast.Add: a + b, ast.Sub: a - b, ast.Mult: a * b, ast.Div: a / b, ast.Pow: a ** b}[type(node.op)]
        except Exception:
            return None
    return None


def _num_list(node):
    if isinstance(node, (ast.List, ast.Tuple)) and node.elts and all(_num(e) is not None for e in node.elts):
        return [_num(e) for e in node.elts]
    return None


# ----------------------------------------------------------------------------- constant expressions through names

_FN = (ast.FunctionDef, ast.AsyncFunctionDef, ast.Lambda)
_MATH_CONSTS = ("pi", "e", "tau")


def _bindings(scope):
    """name -> [(kind, value)] for every binding of the scope's own names (module / class body / function), nested
    function, lambda and class bodies excluded (their names bind there).  kind: 'assign' (`name = value`, value kept),
    'import' (value = module name), 'param', 'declared' (global / nonlocal), 'other'.  Comprehension targets are counted
    for the enclosing scope (over-approximation: more bindings only make fewer names constants)."""
    b = {}

    def add(name, kind, val=None):
        b.setdefault(name, []).append((kind, val))

    if isinstance(scope, _FN):
        a = scope.args
        for p in list(a.posonlyargs) + list(a.args) + list(a.kwonlyargs) + ([a.vararg] if a.vararg else []) + ([a.kwarg] if a.kwarg else []):
            add(p.arg, "param")
    body = scope.body if isinstance(scope.body, list) else [scope.body]

    def go(n):
        if isinstance(n, (ast.FunctionDef, ast.AsyncFunctionDef, ast.ClassDef)):
            add(n.name, "other")
            return
        if isinstance(n, ast.Lambda):
            return
        if isinstance(n, ast.Assign) and len(n.targets) == 1 and isinstance(n.targets[0], ast.Name):
            add(n.targets[0].id, "assign", n.value)
            go(n.value)
            return
        if isinstance(n, ast.AnnAssign) and isinstance(n.target, ast.Name):
            add(n.target.id, "assign" if n.value is not None else "other", n.value)
            if n.value is not None:
                go(n.value)
            return
        if isinstance(n, ast.Name) and isinstance(n.ctx, (ast.Store, ast.Del)):
            add(n.id, "other")
        elif isinstance(n, ast.ExceptHandler) and n.name:
            add(n.name, "other")
        elif isinstance(n, ast.Import):
            for al in n.names:
                add(al.asname or al.name.split(".")[0], "import" if (al.asname or "." not in al.name) else "other", al.name)
        elif isinstance(n, ast.ImportFrom):
            for al in n.names:
                add(al.asname or al.name, "other")
        elif isinstance(n, (ast.Global, ast.Nonlocal)):
            for nm in n.names:
                add(nm, "declared")
        elif type(n).__name__ in ("MatchAs", "MatchStar") and getattr(n, "name", None):
            add(n.name, "other")
        elif type(n).__name__ == "MatchMapping" and getattr(n, "rest", None):
            add(n.rest, "other")
        for c in ast.iter_child_nodes(n):
            go(c)
    for st in body:
        go(st)
    return b


class _Scopes:
    """Name resolution for one file.  chain = scopes from the innermost function outwards (functions / lambdas; a class
    body only while one of its own expressions is evaluated); the module scope is always last."""

    def __init__(self, tree, attr_index=None):
        self.tree = tree
        self.parent = {}
        for n in ast.walk(tree):
            for c in ast.iter_child_nodes(n):
                self.parent[c] = n
        self._b = {}
        self._active = set()
        self.module_b = self.bindings(tree)
        self.globals_declared = {nm for n in ast.walk(tree) if isinstance(n, ast.Global) for nm in n.names}
        self.classes = {}
        for n in ast.walk(tree):
            if isinstance(n, ast.ClassDef):
                self.classes.setdefault(n.name, []).append(n)
        self.attr_index = attr_index if attr_index is not None else attr_bindings([tree])

    def bindings(self, scope):
        if scope not in self._b:
            self._b[scope] = _bindings(scope)
        return self._b[scope]

    def nonlocals_below(self, scope):
        """names a function nested in scope declares nonlocal (it may rebind the scope's name)"""
        key = ("nl", id(scope))
        if key not in self._b:
            self._b[key] = {nm for n in ast.walk(scope) if isinstance(n, ast.Nonlocal) for nm in n.names}
        return self._b[key]

    def module_data_name(self, name, chain):
        """a name that is not bound in an enclosing function and is bound at module level by assignments only (no def /
        class / import): data, so where a pattern constant may be written it must resolve"""
        if any(name in self.bindings(sc) for sc in chain):
            return False
        ents = self.module_b.get(name, [])
        return bool(ents) and all(k in ("assign", "other", "declared") for k, _ in ents) and name not in self.classes \
            and not any(isinstance(n, (ast.FunctionDef, ast.AsyncFunctionDef)) and n.name == name for n in self.tree.body)

    def chain_of(self, node):
        """enclosing function scopes of a node, innermost first"""
        out, n = [], self.parent.get(node)
        while n is not None:
            if isinstance(n, _FN):
                out.append(n)
            n = self.parent.get(n)
        return out

    def enclosing_class(self, node):
        n = self.parent.get(node)
        while n is not None:
            if isinstance(n, ast.ClassDef):
                return n
            n = self.parent.get(n)
        return None

    # -- names
    def lookup(self, name, chain):
        """-> (kind, payload): ('const', v) | ('ambiguous', None) | ('import', module) | ('class', ClassDef) |
        ('expr', (node, chain)) a single-assignment name with a non-constant value | ('opaque', None) | ('free', None)"""
        scopes = list(chain) + [self.tree]
        for i, sc in enumerate(scopes):
            b = self.bindings(sc)
            if name not in b:
                continue
            key = (id(sc), name)
            if key in self._active:
                return "opaque", None           # a binding that refers to itself
            self._active.add(key)
            try:
                ents = b[name]
                rest = [x for x in scopes[i:] if x is not self.tree]
                consts = [self.cval(v, rest, 1) for k, v in ents if k == "assign"]
                if any(k == "declared" for k, _ in ents) or (sc is self.tree and name in self.globals_declared) \
                        or (sc is not self.tree and name in self.nonlocals_below(sc)):
                    return ("ambiguous" if any(c is not None for c in consts) else "opaque"), None
                if len(ents) == 1:
                    k, v = ents[0]
                    if k == "assign":
                        return ("const", consts[0]) if consts[0] is not None else ("expr", (v, rest))
                    if k == "import":
                        return "import", v
                    if k == "other" and sc is self.tree and len(self.classes.get(name, [])) == 1 \
                            and self.parent.get(self.classes[name][0]) is self.tree:
                        return "class", self.classes[name][0]
                    return "opaque", None
                return ("ambiguous" if any(c is not None for c in consts) else "opaque"), None
            finally:
                self._active.discard(key)
        return "free", None

    def _class_attr(self, cls, attr, seen=()):
        """constant bound once to `attr` in the body of cls or of a base class named in this file -> value or None"""
        if cls in seen:
            return None
        b = _bindings(cls)
        if attr in b:
            ents = b[attr]
            if len(ents) == 1 and ents[0][0] == "assign":
                return self.cval(ents[0][1], [cls], 1)
            return None
        for base in cls.bases:
            nm = base.id if isinstance(base, ast.Name) else None
            if nm and len(self.classes.get(nm, [])) == 1 and self.lookup(nm, [])[0] == "class":
                v = self._class_attr(self.classes[nm][0], attr, tuple(seen) + (cls,))
                if v is not None:
                    return v
        return None

    def attr_const(self, node, chain):
        """self.X / cls.X / Class.X -> ('const', v) | ('ambiguous', None) | ('opaque', None)"""
        if not (isinstance(node, ast.Attribute) and isinstance(node.value, ast.Name)):
            return "opaque", None
        base, attr = node.value.id, node.attr
        idx = self.attr_index.get(attr, {"class": 0, "store": 0})
        cls = None
        if base in ("self", "cls"):
            for sc in chain:        # the method whose first parameter is `self` / `cls` (not rebound on the way out)
                pos = (sc.args.posonlyargs + sc.args.args) if isinstance(sc, ast.FunctionDef) else []
                if pos and pos[0].arg == base and isinstance(self.parent.get(sc), ast.ClassDef):
                    if len(self.bindings(sc).get(base, [])) == 1:
                        cls = self.parent.get(sc)
                    break
                if base in self.bindings(sc):
                    break
        else:
            k, payload = self.lookup(base, chain)
            if k == "class":
                cls = payload
        if cls is None:
            return "opaque", None
        v = self._class_attr(cls, attr)
        if v is None:
            return "opaque", None
        if idx["class"] != 1 or idx["store"] != 0 or self.attr_index.get("*", {"store": 0})["store"]:
            return "ambiguous", None
        return "const", v

    # -- expressions
    def cval(self, node, chain, depth=0):
        """constant expression -> int / float (Python semantics), else None"""
        if depth > 12:
            return None
        v = self._cv(node, chain, depth)
        if isinstance(v, bool) or v is None:
            return None
        if isinstance(v, int):
            return v
        try:
            import numpy as np
            if isinstance(v, (float, np.floating)):
                f = float(v)
                return f if math.isfinite(f) else None
        except Exception:
            return None
        return None

    def _cv(self, node, chain, depth):
        import numpy as np
        if isinstance(node, ast.Constant):
            return node.value if isinstance(node.value, (int, float)) and not isinstance(node.value, bool) else None
        if isinstance(node, ast.UnaryOp) and isinstance(node.op, (ast.USub, ast.UAdd)):
            v = self._cv(node.operand, chain, depth + 1)
            if v is None:
                return None
            return -v if isinstance(node.op, ast.USub) else +v
        if isinstance(node, ast.BinOp) and isinstance(node.op, ARITH):
            a, b = self._cv(node.left, chain, depth + 1), self._cv(node.right, chain, depth + 1)
            if a is None or b is None:
                return None
            if isinstance(node.op, ast.Pow) and (abs(b) > 1024 or (isinstance(a, int) and abs(a) > 2 ** 64)):
                return None
            try:
                with np.errstate(all="ignore"):
                    r = {ast.Add: lambda: a + b, ast.Sub: lambda: a - b, ast.Mult: lambda: a * b, ast.Div: lambda: a / b,
                         ast.Pow: lambda: a ** b}[type(node.op)]()
            except Exception:
                return None
            return r if isinstance(r, (int, float, np.floating)) and not isinstance(r, bool) else None
        if isinstance(node, ast.Name):
            k, payload = self.lookup(node.id, chain) if depth < 12 else ("opaque", None)
            return payload if k == "const" else None
        if isinstance(node, ast.Attribute) and isinstance(node.value, ast.Name):
            k, payload = self.lookup(node.value.id, chain)
            if k == "import" and payload == "math" and node.attr in _MATH_CONSTS:
                return getattr(math, node.attr)
            k, payload = self.attr_const(node, chain)
            return payload if k == "const" else None
        if isinstance(node, ast.Call) and len(node.args) == 1 and not node.keywords and not isinstance(node.args[0], ast.Starred):
            cal = _callee(node)
            if cal is None:
                return None
            a = self._cv(node.args[0], chain, depth + 1)
            if a is None:
                return None
            try:
                if len(cal) == 1 and cal[0] in ("float", "int") and self.lookup(cal[0], chain)[0] == "free":
                    return float(a) if cal[0] == "float" else int(a)
                if len(cal) == 2:
                    k, mod = self.lookup(cal[0], chain)
                    if k == "import" and mod == "math" and cal[1] == "sqrt":
                        return math.sqrt(a)
                    if k == "import" and mod == "numpy" and cal[1] in ("float32", "float64"):
                        with np.errstate(all="ignore"):
                            return getattr(np, cal[1])(a)
            except Exception:
                return None
        return None

    def status(self, node, chain):
        """'const' / 'ambiguous' (a name bound several times, one of them a constant: the reader cannot say which value is
        matched) / 'other' for an expression in a position where a pattern constant may be written"""
        if self.cval(node, chain) is not None:
            return "const"
        for n in ast.walk(node):
            if isinstance(n, ast.Name) and isinstance(n.ctx, ast.Load) and self.lookup(n.id, chain)[0] == "ambiguous":
                return "ambiguous"
            if isinstance(n, ast.Name) and isinstance(n.ctx, ast.Load) and n is node and self.module_data_name(n.id, chain):
                return "ambiguous"      # module-level data that is not a constant expression this reader evaluates
            if isinstance(n, ast.Attribute) and self.attr_const(n, chain)[0] == "ambiguous":
                return "ambiguous"
        return "other"

    def render(self, node, chain):
        """text of an expression that does not depend on how constants / single-assignment locals are spelled"""
        sc = self

        class R(ast.NodeTransformer):
            def __init__(self, depth):
                self.depth = depth

            def generic_visit(self, n):
                if isinstance(n, ast.expr):
                    v = sc.cval(n, chain)
                    if v is not None:
                        return ast.Constant(value=v)
                return super().generic_visit(n)

            def visit_Name(self, n):
                v = sc.cval(n, chain)
                if v is not None:
                    return ast.Constant(value=v)
                if isinstance(n.ctx, ast.Load) and self.depth < 3 and chain:
                    k, payload = sc.lookup(n.id, chain)
                    if k == "expr" and payload[1]:            # a local (not a module-level name)
                        return R(self.depth + 1).visit(copy.deepcopy(payload[0]))
                return n
        return ast.unparse(ast.fix_missing_locations(R(0).visit(copy.deepcopy(node))))


def attr_bindings(trees):
    """attribute name -> {'class': number of class-body bindings, 'store': number of `<expr>.name = ...` stores} over trees"""
    idx = {}
    for tree in trees:
        for n in ast.walk(tree):
            if isinstance(n, ast.ClassDef):
                for nm, ents in _bindings(n).items():
                    idx.setdefault(nm, {"class": 0, "store": 0})["class"] += len(ents)
            elif isinstance(n, ast.Attribute) and isinstance(n.ctx, (ast.Store, ast.Del)):
                idx.setdefault(n.attr, {"class": 0, "store": 0})["store"] += 1
            elif isinstance(n, ast.Call) and isinstance(n.func, ast.Name) and n.func.id in ("setattr", "delattr"):
                key = n.args[1].value if len(n.args) > 1 and isinstance(n.args[1], ast.Constant) and isinstance(n.args[1].value, str) else "*"
                idx.setdefault(key, {"class": 0, "store": 0})["store"] += 1
    return idx


def _callee(node):
    """dotted name of a call target: op.Pow -> ('op','Pow'); np.isclose -> ('np','isclose'); f -> ('f',)"""
    parts = []
    f = node.func
    while isinstance(f, ast.Attribute):
        parts.append(f.attr)
        f = f.value
    if isinstance(f, ast.Name):
        parts.append(f.id)
        return tuple(reversed(parts))
    return None


class _ReturnIfExp(ast.NodeTransformer):
    """`return a if c else b`  ==  `if c: return a` / `return b` (c is evaluated once, then exactly one of a, b)."""

    def visit_Return(self, node):
        if isinstance(node.value, ast.IfExp):
            e = node.value
            return [ast.copy_location(ast.If(test=e.test, body=self._ret(e.body, node), orelse=[]), node)] + self._ret(e.orelse, node)
        return node

    def _ret(self, value, at):
        r = self.visit_Return(ast.copy_location(ast.Return(value=value), at))
        return r if isinstance(r, list) else [r]


def _positive(test):
    """the test whose negation `test` is, when test is written as a negation (`not t`, `a is not b`, `a != b`, `a not in b`)"""
    if isinstance(test, ast.UnaryOp) and isinstance(test.op, ast.Not):
        return test.operand
    if isinstance(test, ast.Compare) and len(test.ops) == 1 and isinstance(test.ops[0], (ast.IsNot, ast.NotIn)):
        return ast.Compare(left=test.left, ops=[{ast.IsNot: ast.Is, ast.NotIn: ast.In}[type(test.ops[0])]()], comparators=test.comparators)
    return None


def _orient(stmts):
    """`if not t: B else: C` == `if t: C else: B`;  `if not t: B` + rest, B and rest both leaving the function, == `if t: rest` + B
    (`is not` / `not in` are the negations of `is` / `in` for every operand; `!=` is left alone: __ne__ can be overridden)"""
    out = []
    for i, st in enumerate(stmts):
        if isinstance(st, ast.If):
            body, orelse, test = _orient(st.body), _orient(st.orelse), st.test
            pos = _positive(test)
            rest = _orient(stmts[i + 1:])
            if pos is not None and orelse:
                out.append(ast.copy_location(ast.If(test=pos, body=orelse, orelse=body), st))
            elif pos is not None and pynorm.terminates(body) and pynorm.terminates(rest):
                out.append(ast.copy_location(ast.If(test=pos, body=rest, orelse=[]), st))
                out.extend(body)
                return out
            else:
                out.append(ast.copy_location(ast.If(test=test, body=body, orelse=orelse), st))
        else:
            out.append(st)
    return out


def _prep(fn):
    fn = ast.fix_missing_locations(_ReturnIfExp().visit(copy.deepcopy(fn)))
    fn.body = _orient(pynorm.flatten(pynorm.strip_doc(fn.body) or [ast.Pass()]))
    return ast.fix_missing_locations(fn)


def _canon(fn, params=None):
    """canonical form of a function (c01_pynorm: early-return chains, merged nested ifs, single-use locals inlined, locals and
    parameters named by binding position); params = canonical names for the leading positional parameters instead"""
    fn = _prep(fn)
    if params is not None:
        try:
            fn = pynorm.rename_params(fn, params)
        except pynorm.NotNormalisable:
            pass
        fn = ast.parse(ast.unparse(fn)).body[0]
        fn.body = pynorm.strip_doc(fn.body) or [ast.Pass()]
        fn.body = pynorm.merge_nested_ifs(pynorm.flatten(fn.body))
        try:
            fn = pynorm.inline_single_use(fn)
        except pynorm.NotNormalisable:
            pass
        return ast.fix_missing_locations(fn)
    return pynorm.canonical(fn)


_IS_SINGLETON_REFERENCE = """
def is_singleton_value(val, expected, *, rtol=None, rank=None):
    scalar = get_singleton_value(val, rank=rank)
    if scalar is None:
        return False
    if callable(expected):
        return expected(scalar)
    if isinstance(expected, int):
        return expected == scalar
    assert rtol is not None
    return math.isclose(scalar, expected, rel_tol=rtol)
"""


def constant_defaults(repo):
    """(rel_tol, abs_tol) defaults of _pattern_ir.Constant.__init__, and the facts the table relies on, from the AST
    (compared in canonical form: see _canon)."""
    problems = []
    path = os.path.join(repo, "onnxscript/rewriter/_pattern_ir.py")
    tree = ast.parse(open(path).read())
    S = _Scopes(tree)
    rel = abs_ = None
    promo_ok = attr_eq_ok = clone_ok = False
    for n in ast.walk(tree):
        if isinstance(n, ast.ClassDef) and n.name == "Constant":
            for f in n.body:
                if isinstance(f, ast.FunctionDef) and f.name == "__init__":
                    names = [a.arg for a in f.args.args]
                    defs = dict(zip(names[len(names) - len(f.args.defaults):], f.args.defaults))
                    # defaults are evaluated in the scope enclosing the function
                    rel = S.cval(defs["rel_tol"], S.chain_of(f)) if "rel_tol" in defs else None
                    abs_ = S.cval(defs["abs_tol"], S.chain_of(f)) if "abs_tol" in defs else None
                    if names[:4] != ["self", "value", "rel_tol", "abs_tol"]:
                        rel = abs_ = None
                if isinstance(f, ast.FunctionDef) and f.name == "clone":
                    # commuted copies of a rule are built with clone(): it must forward both tolerances
                    g = _canon(f, ["self"])
                    rets = [r for r in ast.walk(g) if isinstance(r, ast.Return)]
                    if len(rets) == 1 and isinstance(rets[0].value, ast.Call) and _callee(rets[0].value) == ("Constant",):
                        c = rets[0].value
                        got = dict(zip(("value", "rel_tol", "abs_tol"), (ast.unparse(a) for a in c.args)))
                        got.update({k.arg: ast.unparse(k.value) for k in c.keywords})
                        clone_ok = got == {"value": "self._value", "rel_tol": "self._rel_tol", "abs_tol": "self._abs_tol"} \
                            and not any(isinstance(a, ast.Starred) for a in c.args)
        if isinstance(n, ast.FunctionDef) and n.name == "_to_value_pattern":
            # `return Constant(x)` for int/float and for sequences: defaults apply to bare literals
            g = _canon(n, ["x"])
            rets = [ast.unparse(r.value) for r in ast.walk(g) if isinstance(r, ast.Return) and r.value is not None]
            promo_ok = rets.count("Constant(x)") == 2
        if isinstance(n, ast.ClassDef) and n.name == "AttrConstantPattern":
            for f in n.body:
                if isinstance(f, ast.FunctionDef) and f.name == "matches":
                    g = _canon(f, ["self"])
                    rets = [r.value for r in ast.walk(g) if isinstance(r, ast.Return)]
                    cmp = [r for r in rets if isinstance(r, ast.Compare)]
                    attr_eq_ok = bool(cmp) and all(len(c.ops) == 1 and isinstance(c.ops[0], ast.Eq) for c in cmp) and \
                        all(isinstance(r, ast.Compare) or (isinstance(r, ast.Constant) and r.value is False) for r in rets)
    if rel is None or abs_ is None:
        problems.append("_pattern_ir.Constant.__init__: rel_tol / abs_tol defaults not found as constant expressions")
    if not promo_ok:
        problems.append("_pattern_ir._to_value_pattern: bare literals are no longer promoted by `Constant(x)`")
    if not attr_eq_ok:
        problems.append("_pattern_ir.AttrConstantPattern.matches: not a plain `==` comparison any more")
    if not clone_ok:
        problems.append("_pattern_ir.Constant.clone does not forward (value, rel_tol, abs_tol)")
    # the matcher hands exactly these tolerances to math.isclose
    mt = ast.parse(open(os.path.join(repo, "onnxscript/rewriter/_matcher.py")).read())
    calls = []
    for n in ast.walk(mt):
        if isinstance(n, ast.FunctionDef) and n.name == "_match_constant":
            g = _canon(n, ["self", "pattern_constant", "value"])
            b = _bindings(g)
            for c in ast.walk(g):
                if isinstance(c, ast.Call) and _callee(c) == ("math", "isclose"):
                    kw = {}
                    for k in c.keywords:
                        v = k.value
                        if isinstance(v, ast.Name) and len(b.get(v.id, [])) == 1 and b[v.id][0][0] == "assign":
                            v = b[v.id][0][1]          # a local bound once: its defining expression
                        kw[k.arg] = ast.unparse(v)
                    calls.append(kw)
    if len(calls) != 2 or any(c != {"rel_tol": "pattern_constant._rel_tol", "abs_tol": "pattern_constant._abs_tol"} for c in calls):
        problems.append(f"_matcher._match_constant: math.isclose calls changed: {calls}")
    # is_singleton_value: int -> ==, float -> math.isclose(rel_tol=rtol)
    iu = ast.parse(open(os.path.join(repo, "onnxscript/rewriter/_ir_utils.py")).read())
    ok_sv = False
    want = pynorm.alpha_dump(_prep(ast.parse(_IS_SINGLETON_REFERENCE).body[0]))
    for n in iu.body:
        if isinstance(n, ast.FunctionDef) and n.name == "is_singleton_value":
            kwonly = [a.arg for a in n.args.kwonlyargs]
            ok_sv = pynorm.alpha_dump(_prep(n)) == want and kwonly == ["rtol", "rank"]
    if not ok_sv:
        problems.append("_ir_utils.is_singleton_value: body changed (int: ==, float: math.isclose(rel_tol=rtol))")
    return rel, abs_, problems


INT_TYPES = {"tensor(int64)", "tensor(int32)", "tensor(int16)", "tensor(int8)", "tensor(uint64)", "tensor(uint32)",
             "tensor(uint16)", "tensor(uint8)"}


def _yields_int64(node, env=None, depth=0):
    """pattern expression whose value is an int64 tensor by the operator documents: Shape / Size, or Gather of one
    (local names are resolved through the function's single-target assignments)."""
    env = env or {}
    if isinstance(node, ast.Name) and node.id in env and depth < 8:
        return _yields_int64(env[node.id], env, depth + 1)
    if isinstance(node, ast.Call):
        cal = _callee(node)
        if cal and cal[0] == "op" and len(cal) == 2:
            if cal[1] in ("Shape", "Size"):
                return True
            if cal[1] == "Gather" and node.args:
                return _yields_int64(node.args[0], env, depth + 1)
    return False


def _int_only_input(op_type, idx, call=None, env=None):
    """True iff in every ONNX schema version of op_type input idx can only be an integer tensor: its type constraint lists
    integer tensor types only, or it shares its type variable with another positional argument of the same call that is
    Shape / Size / Gather(Shape) (int64 by the operator documents; a valid model gives both the same type)."""
    import onnx.defs
    found = False
    for s in onnx.defs.get_all_schemas_with_history():
        if s.name == op_type and s.domain == "" and idx < len(s.inputs):
            found = True
            if set(s.inputs[idx].types) <= INT_TYPES:
                continue
            tied = False
            if call is not None:
                for j, a in enumerate(call.args):
                    if j != idx and j < len(s.inputs) and s.inputs[j].type_str == s.inputs[idx].type_str and _yields_int64(a, env):
                        tied = True
            if not tied:
                return False
    return found


def scan(repo=None):
    """-> (rows, stats, problems).  row = dict(file, line, ord, kind, value, rel, abs, where); `ord` = position of the row
    among the rows of its file in source order (what the table carries: stable when lines move)."""
    import numpy as np
    repo = repo or common.REPO
    rel_d, abs_d, problems = constant_defaults(repo)
    np_sig = inspect.signature(np.isclose).parameters
    np_rel, np_abs = np_sig["rtol"].default, np_sig["atol"].default
    m_sig = inspect.signature(math.isclose).parameters
    m_rel, m_abs = m_sig["rel_tol"].default, m_sig["abs_tol"].default
    rows, stats = [], {"files": 0, "pattern_functions": 0, "attr_patterns": 0, "dynamic_singletons": 0, "named_constants": 0,
                       "saturating_slice_bounds": 0}
    files = []
    for d in RULE_DIRS:
        for path in sorted(glob.glob(os.path.join(repo, d, "*.py"))):
            base = os.path.basename(path)
            if base.endswith("_test.py") or base == "__init__.py":
                continue
            files.append((path, ast.parse(open(path).read())))
    attr_index = attr_bindings([t for _, t in files])
    for path, tree in files:
            stats["files"] += 1
            rel = os.path.relpath(path, os.path.join(repo, "onnxscript/rewriter"))
            S = _Scopes(tree, attr_index)
            file_rows = []
            funcs = {}
            for n in ast.walk(tree):
                if isinstance(n, (ast.FunctionDef,)):
                    funcs.setdefault(n.name, []).append(n)

            def num(node, chain):
                v = S.cval(node, chain)
                if v is not None and _num(node) is None:
                    stats["named_constants"] += 1
                return v

            def num_list(node, chain):
                if isinstance(node, (ast.List, ast.Tuple)) and node.elts and all(S.cval(e, chain) is not None for e in node.elts):
                    return [num(e, chain) for e in node.elts]
                return None

            def tol(node, chain, what, line):
                """tolerance argument -> number; a non-constant one is a problem (None)"""
                return S.cval(node, chain)

            # helpers returning a Constant: name -> (rel, abs) with the value taken from the call's first argument
            helpers = {}
            for n in tree.body:
                if isinstance(n, ast.FunctionDef) and len(n.args.args) == 1:
                    rets = [r for r in ast.walk(n) if isinstance(r, ast.Return)]
                    if len(rets) == 1 and isinstance(rets[0].value, ast.Call) and (_callee(rets[0].value) or ("",))[-1] == "Constant":
                        c = rets[0].value
                        if c.args and isinstance(c.args[0], ast.Name) and c.args[0].id == n.args.args[0].arg \
                                and len(S.bindings(n).get(n.args.args[0].arg, [])) == 1:
                            kw = {k.arg: S.cval(k.value, [n]) for k in c.keywords}
                            pos = [S.cval(a, [n]) for a in c.args[1:]]
                            r = kw.get("rel_tol", pos[0] if len(pos) > 0 else rel_d)
                            a = kw.get("abs_tol", pos[1] if len(pos) > 1 else abs_d)
                            if r is None or a is None:
                                problems.append(f"{rel}:{n.lineno}: helper {n.name}: tolerance is not a constant expression")
                            else:
                                helpers[n.name] = (r, a)
            # roles of module-level functions: RewriteRule(target, replacement[, condition])
            role = {}
            for n in ast.walk(tree):
                if isinstance(n, ast.Call) and (_callee(n) or ("",))[-1] == "RewriteRule":
                    for i, a in enumerate(n.args[:3]):
                        if isinstance(a, ast.Name):
                            role.setdefault(a.id, ("pattern", "replacement", "condition")[i])
            for name, fl in funcs.items():
                if name == "pattern":
                    role["pattern"] = "pattern"
            # transitive: functions called by name from a pattern function build part of the pattern
            changed = True
            while changed:
                changed = False
                for name, r in list(role.items()):
                    if r != "pattern":
                        continue
                    for f in funcs.get(name, []):
                        for c in ast.walk(f):
                            if isinstance(c, ast.Call) and isinstance(c.func, ast.Name) and c.func.id in funcs \
                                    and c.func.id not in role and c.func.id not in helpers:
                                role[c.func.id] = "pattern"
                                changed = True

            seen = set()

            def add(kind, v, r, a, node, where, sub=0):
                for j, x in enumerate(v if isinstance(v, list) else [v]):
                    key = (node.lineno, node.col_offset, sub, j, kind)
                    if key in seen:
                        continue            # the same call reached through an enclosing function
                    seen.add(key)
                    file_rows.append(dict(file=rel, line=node.lineno, kind=kind, value=x, rel=r, abs=a, where=where, _pos=key))

            def ambiguous(node, chain, what):
                if S.status(node, chain) == "ambiguous":
                    problems.append(f"{rel}:{node.lineno}: {what}: `{ast.unparse(node)}` names a constant bound more than once, or module-level data that is not a constant expression")
                    return True
                return False

            for name, fl in funcs.items():
                for f in fl:
                    is_pat = role.get(name) == "pattern"
                    env = {}
                    for st in ast.walk(f):
                        if isinstance(st, ast.Assign) and len(st.targets) == 1 and isinstance(st.targets[0], ast.Name):
                            env[st.targets[0].id] = st.value
                    if is_pat:
                        stats["pattern_functions"] += 1
                    for c in ast.walk(f):
                        ch = S.chain_of(c)
                        if isinstance(c, ast.Call):
                            cal = _callee(c)
                            if cal is None:
                                continue
                            last = cal[-1]
                            if last == "Constant" and cal[0] != "op":
                                v = num(c.args[0], ch) if c.args else None
                                vl = num_list(c.args[0], ch) if c.args else None
                                if v is None and vl is None:
                                    if name in helpers:
                                        continue          # the helper's own `Constant(value, ...)`
                                    problems.append(f"{rel}:{c.lineno}: Constant(...) with a non-literal value")
                                    continue
                                kw = {k.arg: S.cval(k.value, ch) for k in c.keywords}
                                pos = [S.cval(a, ch) for a in c.args[1:]]
                                r = kw["rel_tol"] if "rel_tol" in kw else (pos[0] if len(pos) > 0 else rel_d)
                                a = kw["abs_tol"] if "abs_tol" in kw else (pos[1] if len(pos) > 1 else abs_d)
                                if r is None or a is None:
                                    problems.append(f"{rel}:{c.lineno}: Constant(...) tolerance is not a constant expression")
                                    continue
                                if not is_pat:
                                    problems.append(f"{rel}:{c.lineno}: pattern Constant outside a recognised target pattern ({name})")
                                add("pattern", v if v is not None else vl, r, a, c, f"{name}: {S.render(c, ch)}")
                            elif len(cal) == 1 and last in helpers and S.lookup(last, ch)[0] == "opaque":
                                v = num(c.args[0], ch) if c.args else None
                                if v is None:
                                    problems.append(f"{rel}:{c.lineno}: {last}(...) with a non-literal value")
                                    continue
                                add("pattern", v, helpers[last][0], helpers[last][1], c, f"{name}: {S.render(c, ch)}")
                            elif cal[0] == "op" and len(cal) == 2 and is_pat:
                                for i, a in enumerate(c.args):
                                    v, vl = num(a, ch), num_list(a, ch)
                                    if v is None and vl is None:
                                        ambiguous(a, ch, f"op.{last} input {i}")
                                        continue
                                    vals = vl if vl is not None else [v]
                                    ints = all(isinstance(x, int) for x in vals)
                                    int_only = ints and _int_only_input(last, i, c, env)
                                    if int_only and last == "Slice" and i in (1, 2) and all(abs(x) >= 2 ** 62 for x in vals):
                                        # `ends` = INT64_MAX ("to the end"): Slice clamps every bound beyond the dimension, and a
                                        # value within the default tolerance of 2**63 is beyond every dimension; counted, not a row
                                        stats["saturating_slice_bounds"] += len(vals)
                                        continue
                                    kind = "pattern_int" if int_only else "pattern"
                                    add(kind, v if v is not None else vl, rel_d, abs_d, c, f"{name}: op.{last} input {i}", sub=1 + i)
                                for k in c.keywords:
                                    if k.arg and not k.arg.startswith("_") and (S.cval(k.value, ch) is not None or num_list(k.value, ch) is not None):
                                        stats["attr_patterns"] += 1
                            elif last == "is_singleton_value":
                                if len(c.args) < 2:
                                    problems.append(f"{rel}:{c.lineno}: is_singleton_value with fewer than 2 positional arguments")
                                    continue
                                v = num(c.args[1], ch)
                                kw = {k.arg: k.value for k in c.keywords}
                                if v is None:
                                    if "rtol" in kw or ambiguous(c.args[1], ch, "is_singleton_value"):
                                        if "rtol" in kw:
                                            problems.append(f"{rel}:{c.lineno}: is_singleton_value(non-literal, rtol=..) not modelled")
                                    else:
                                        stats["dynamic_singletons"] += 1      # int (==) or predicate; a float would fail the assert
                                    continue
                                if isinstance(v, int):
                                    add("singleton_int", v, 0.0, 0.0, c, f"{name}: {S.render(c, ch)}")
                                else:
                                    r = S.cval(kw["rtol"], ch) if "rtol" in kw else None
                                    if r is None:
                                        problems.append(f"{rel}:{c.lineno}: is_singleton_value(float) without a constant rtol")
                                        continue
                                    add("singleton", v, r, 0.0, c, f"{name}: {S.render(c, ch)}")
                            elif last in ("isclose", "allclose"):
                                mod = S.lookup(cal[0], ch) if len(cal) == 2 else ("", None)
                                if mod == ("import", "numpy") and last == "isclose":
                                    kind, r0, a0, rk, ak = "np_isclose", np_rel, np_abs, "rtol", "atol"
                                elif mod == ("import", "math") and last == "isclose":
                                    kind, r0, a0, rk, ak = "math_isclose", m_rel, m_abs, "rel_tol", "abs_tol"
                                else:
                                    problems.append(f"{rel}:{c.lineno}: unrecognised closeness test {'.'.join(cal)}")
                                    continue
                                vals = [num(a, ch) for a in c.args[:2]]
                                lit = [x for x in vals if x is not None]
                                if len(lit) != 1 or any(ambiguous(a, ch, ".".join(cal)) for a in c.args[:2]):
                                    problems.append(f"{rel}:{c.lineno}: {'.'.join(cal)} without exactly one constant side")
                                    continue
                                kw = {k.arg: S.cval(k.value, ch) for k in c.keywords}
                                pos = [S.cval(a, ch) for a in c.args[2:]]
                                r = kw[rk] if rk in kw else (pos[0] if len(pos) > 0 else r0)
                                a = kw[ak] if ak in kw else (pos[1] if len(pos) > 1 else a0)
                                if r is None or a is None or set(kw) - {rk, ak}:
                                    problems.append(f"{rel}:{c.lineno}: {'.'.join(cal)} tolerance is not a constant expression")
                                    continue
                                add(kind, lit[0], r, a, c, f"{name}: {S.render(c, ch)}")
                        elif isinstance(c, ast.BinOp) and isinstance(c.op, ARITH) and is_pat:
                            if S.cval(c, ch) is not None:
                                continue        # a closed constant expression: handled where it is used
                            for si, side in enumerate((c.left, c.right)):
                                v = num(side, ch)
                                if v is not None:
                                    add("pattern", v, rel_d, abs_d, c, f"{name}: {S.render(c, ch)}", sub=1 + si)
                                else:
                                    ambiguous(side, ch, "arithmetic on a pattern value")
            file_rows.sort(key=lambda r: r["_pos"])
            for i, r in enumerate(file_rows):
                r["ord"] = i + 1
                del r["_pos"]
            rows += file_rows
    return rows, stats, problems


KIND_COQ = {"pattern": "KPattern", "pattern_int": "KPatternInt", "singleton": "KSingleton", "singleton_int": "KSingletonInt",
            "np_isclose": "KNumpyIsclose", "math_isclose": "KMathIsclose"}


def cq(x):
    f = Fraction(x)
    return f"(({f.numerator})%Z # {f.denominator}%positive)"


def to_coq(rows):
    lines = ["(* GENERATED by harness/c05_consts_py2v.py from onnxscript/rewriter/rules/{common,fusion}/*.py -- do not edit.",
             "   ce_line = position of the row among the rows of its file, in source order (independent of line numbers). *)",
             "From Coq Require Import ZArith QArith List String.", "Require Import OV.Rules.XNoOp.", "Import ListNotations.",
             "Local Open Scope string_scope.", "",
             "Definition table : list centry := ["]
    ents = []
    for r in rows:
        ents.append('  {| ce_file := "%s"; ce_line := %d%%Z; ce_kind := %s; ce_value := %s; ce_rel := %s; ce_abs := %s |}  (* %s *)' % (
            r["file"], r["ord"], KIND_COQ[r["kind"]], cq(r["value"]), cq(r["rel"]), cq(r["abs"]),
            r["where"].replace("(*", "( *").replace("*)", "* )")[:110]))
    body = []
    for i, e in enumerate(ents):
        head, _, comment = e.partition("  (* ")
        body.append(head + (";" if i < len(ents) - 1 else "") + "  (* " + comment)
    lines += body + ["]."]
    return "\n".join(lines) + "\n"


def regenerate(ctx):
    rows, stats, problems = scan()
    for p in problems:
        ctx.tie_broken("translator", "c05_consts_py2v", p)
    ctx.gen("C05Consts", to_coq(rows))
    return rows, stats, problems


if __name__ == "__main__":
    rows, stats, problems = scan()
    for r in rows:
        print(r)
    print(stats)
    print("PROBLEMS", problems)
