(* C08 property theorems, family max_pool{1,2,3}d / avg_pool{1,2,3}d (nn.py): statements only.

   `aten_{max,avg}_pool_shape e s ...` = output shape of MaxPool / AveragePool (operator documents, Onnx2.v: floor / ceil
   formula, windows starting in the right padding ignored, pads = [begin..., end...]) with the attributes that
   _adjust_attributes_of_{max,avg}_pool computes (e = expand_size = number of spatial axes), behind the Unsqueeze/Squeeze of
   an unbatched input; `torch_pool_shape` = ATen's pooling_output_shape + pool shape checks.
   NOT covered: the pooled values and the indices output (kernels), count_include_pad / divisor_override arithmetic. *)
From Coq Require Import ZArith List Bool.
Require Import OV.Torch.Onnx OV.Torch.Onnx2 OV.Torch.Spec OV.Torch.Spec2 OV.Torch.Aten OV.Torch.Aten2
               OV.Torch.PoolProofs OV.Torch.Examples2.
Import ListNotations.
Local Open Scope Z_scope.

(* one spatial axis: ONNX output extent with pads (p, p) = PyTorch's, floor and ceil mode, whenever PyTorch accepts *)
Theorem C08_pool_output_extent : forall ceil_mode n k s p d o,
  torch_pool_out ceil_mode n k s p d = Some o -> pool_out ceil_mode n k s p p d = Some o /\ 0 < o.
Proof. exact pool_out_correct. Qed.
Print Assumptions C08_pool_output_extent.

(* remark: the opset-12..21 text without the sentence about windows starting in the right padding gives one more window;
   onnxruntime and onnx.reference apply the sentence to every opset (measured on every run) *)
Theorem C08_pool_ceil_doc18_differs : exists n k s p d o,
  torch_pool_out true n k s p d = Some o /\ pool_out true n k s p p d = Some o /\ pool_out_doc18 true n k s p p d = Some (o + 1).
Proof. exact pool_ceil_doc18_differs. Qed.
Print Assumptions C08_pool_ceil_doc18_differs.

(* max_pool1d / 2d / 3d: kernel_size, dilation an int or a full list; stride an int, [] (= kernel) or a full list;
   padding an int, a one-entry list or a full list *)
Theorem C08_max_pool_shape : forall e s kernel stride padding dilation ceil_mode out,
  1 <= e <= 3 ->
  full_ints e kernel -> stride_ints e stride -> padding_ints e padding -> full_ints e dilation ->
  torch_pool_shape e s kernel stride padding dilation ceil_mode = Some out ->
  aten_max_pool_shape e s kernel stride padding dilation ceil_mode = Some out.
Proof. exact max_pool_shape_correct. Qed.
Print Assumptions C08_max_pool_shape.

Theorem C08_avg_pool_shape : forall e s kernel stride padding ceil_mode out,
  1 <= e <= 3 ->
  full_ints e kernel -> stride_ints e stride -> padding_ints e padding ->
  torch_pool_shape e s kernel stride padding (IInt 1) ceil_mode = Some out ->
  aten_avg_pool_shape e s kernel stride padding ceil_mode = Some out.
Proof. exact avg_pool_shape_correct. Qed.
Print Assumptions C08_avg_pool_shape.

(* genuine defect: a one-entry list for kernel_size / stride / dilation of a 2-D or 3-D pool (PyTorch: equal entries) is
   passed on unexpanded and the runtime refuses the node *)
Theorem C08_max_pool_one_entry_kernel_refuted : exists e s kernel stride padding dilation ceil_mode out,
  torch_pool_shape e s kernel stride padding dilation ceil_mode = Some out /\
  aten_max_pool_shape e s kernel stride padding dilation ceil_mode = None.
Proof. exact max_pool_one_entry_kernel_refuted. Qed.
Print Assumptions C08_max_pool_one_entry_kernel_refuted.

Theorem C08_avg_pool_one_entry_kernel_refuted : exists e s kernel stride padding ceil_mode out,
  torch_pool_shape e s kernel stride padding (IInt 1) ceil_mode = Some out /\
  aten_avg_pool_shape e s kernel stride padding ceil_mode = None.
Proof. exact avg_pool_one_entry_kernel_refuted. Qed.
Print Assumptions C08_avg_pool_one_entry_kernel_refuted.

(* the repaired attribute adjustment (proposed_fixes/C08_pool_expand_one_entry_lists.diff): every argument form PyTorch accepts *)
Theorem C08_max_pool_shape_fixed : forall e s kernel stride padding dilation ceil_mode out,
  1 <= e <= 3 ->
  torch_pool_shape e s kernel stride padding dilation ceil_mode = Some out ->
  aten_max_pool_shape_fixed e s kernel stride padding dilation ceil_mode = Some out.
Proof. exact max_pool_shape_fixed_correct. Qed.
Print Assumptions C08_max_pool_shape_fixed.

Theorem C08_avg_pool_shape_fixed : forall e s kernel stride padding ceil_mode out,
  1 <= e <= 3 ->
  torch_pool_shape e s kernel stride padding (IInt 1) ceil_mode = Some out ->
  aten_avg_pool_shape_fixed e s kernel stride padding ceil_mode = Some out.
Proof. exact avg_pool_shape_fixed_correct. Qed.
Print Assumptions C08_avg_pool_shape_fixed.
