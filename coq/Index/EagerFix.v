(* C11 -- Tensor.__getitem__ with the repair of proposed_fixes/ready/C11_01_eager_negative_step_start_below_minus_dim.diff:
   in the negative-step branch a start below -d (Python: before the first element, nothing is selected) is replaced,
   together with the stop, by the empty range 0:0.  `cl` = false is the code without the repair (EagerIdx.eager_ops true).
   No proofs in this file. *)
From Coq Require Import ZArith List Bool.
Import ListNotations.
Require Import OV.Index.NumpySpec OV.Index.OnnxSlice OV.Index.ConverterIdx OV.Index.EagerIdx OV.Index.Corr
               OV.Index.AdvSpec OV.Index.AdvCorr.
Open Scope Z_scope.

Definition eager_bounds_c (cl : bool) (d : Z) (a b s : bound) : Z * Z * Z :=
  let pos := match bval s with None => true | Some st => 0 <? st end in
  let '(x, y, st) := eager_bounds d a b s in
  if cl && negb pos && (x <? - d) then (0, 0, st) else (x, y, st).

Definition eager_slice_c (cl : bool) (d : Z) (a b s : bound) : option (list Z) :=
  let '(x, y, st) := eager_bounds_c cl d a b s in onnx_slice d x y st.

Definition eslice_spec_c (cl : bool) (p : nat * (Z * comp)) : spec :=
  match e_comp p with
  | CSlice a b s => let '(x, y, st) := eager_bounds_c cl (e_dim p) a b s in (x, y, e_axis p, st)
  | _ => (0, 0, e_axis p, 1)
  end.

Definition eager_ops_c (cl : bool) (shape : list Z) (idx : list comp) : option (list op) :=
  if Nat.ltb (length shape) (length idx) then None
  else
    let en := enum_from 0 (combine shape idx) in
    let sliced := filter (fun p => is_sliced (e_comp p)) en in
    let scalars := filter (fun p => is_escalar (e_comp p)) en in
    let tens := filter (fun p => is_t1 (e_comp p)) en in
    let sq := map e_axis scalars in
    match sliced, scalars, tens with
    | [], [], [] => Some [OIdentity]
    | [], [p], _ => Some (OGather (e_axis p) (gix (e_comp p)) :: egathers true sq tens)
    | [], [], _ => Some (egathers true [] tens)
    | _, _, _ =>
        Some (OSlice (map (eslice_spec_c cl) sliced ++ map escalar_spec scalars)
              :: (match sq with [] => [] | _ => [OSqueeze sq] end)
              ++ egathers true sq tens)
    end.

Definition run_eager_c (cl : bool) (shape : list Z) (idx : list comp) : option view :=
  match eager_ops_c cl shape idx with
  | None => None
  | Some ops => run_ops ops (full shape)
  end.

Definition eager_nest_c (cl : bool) (shape : list Z) (aidx : list acomp) : option nest :=
  option_map (fun v => outer_arr 0 (items aidx v)) (run_eager_c cl shape (map flat aidx)).

(* ---- correspondence ---- *)
Definition eskel_check (ops : option (list op)) (observed : list op) (ok : bool) : bool :=
  match ops with
  | None => match observed with [] => true | _ => false end
  | Some l => let l' := filter not_squeeze l in if ok then list_eqb op_eqb observed l' else is_prefix op_eqb observed l'
  end.
Definition is_ok (o : option outcome) : bool := match o with Some (OOk _ _) => true | _ => false end.

Definition eager_agrees_c (cl : bool) (c : case) : bool :=
  chk (c_eager c) (fun o => outcome_eqb o (outcome_of (c_shape c) (run_eager_c cl (c_shape c) (c_idx c)))).
Definition eskel_agrees_c (cl : bool) (c : case) : bool :=
  chk (c_eskel c) (fun s => eskel_check (eager_ops_c cl (c_shape c) (c_idx c)) s (is_ok (c_eager c))).

Definition aeager_agrees_c (cl : bool) (c : acase) : bool :=
  chk (a_eager c) (fun o => outcome_eqb o (outcome_of_nest (a_shape c) (eager_nest_c cl (a_shape c) (a_idx c)))).
Definition aeskel_agrees_c (cl : bool) (c : acase) : bool :=
  chk (a_eskel c) (fun s => eskel_check (eager_ops_c cl (a_shape c) (map flat (a_idx c))) s (is_ok (a_eager c))) &&
  chk (a_egsh c) (fun g => if is_ok (a_eager c) then list_eqb zlist_eqb g (eager_gshapes (a_idx c))
                           else is_prefix zlist_eqb g (eager_gshapes (a_idx c))).
