(* C13 (session 6, round 2): initializers owned by subgraphs -- proofs about Export/SubInits.v.

   export_si_refuses_iff         with skip_initializers the exporter refuses iff two skipped initializers (of the main graph or
                                 of any subgraphs) get the same Python name, or the graph without them is refused
   export_si_lifts_injectively   otherwise make_model's parameters are the Python names of ALL skipped initializers, main graph
                                 first, pairwise distinct, one per skipped initializer
   export_si_is_lift             and the printed program is literally the program printed WITHOUT the option for the graph in
                                 which every skipped initializer (nested ones too) is a leading graph input
   rename_inj_refuses_iff        for a renamer that is injective on the skipped names (the exporter's unique-name mapper is):
                                 refused iff two skipped initializers have the same ONNX name
   strip_no_owner / export_si_no_owner   a graph no subgraph of which owns an initializer: export_si = export_cf (every
                                 earlier theorem applies unchanged)
   eval_strip_false / export_si_noskip_sound   option off: the markers are not read by OV.Graph.Sem, so the nested soundness
                                 theorem for the desugared graph is the round trip for the graph with nested initializers *)
From Coq Require Import List String Ascii Bool Arith ZArith Lia.
Require Import OV.Export.Cleanup OV.Export.CleanupProofs.
Require Import OV.Graph.Syntax OV.Graph.Names OV.Graph.Sem OV.Graph.SemProofs OV.Graph.WfCompleteProofs OV.Script.Syntax OV.Script.Translate OV.Gen.ScriptTables
               OV.Script.PySem OV.Export.Emit OV.Export.EmitProofs OV.Export.EmitCF OV.Export.EmitCFProofs OV.Gen.ExportTables
               OV.Export.EmitOpts OV.Export.EmitOptsProofs OV.Export.SubInits.
Import ListNotations.
Local Open Scope string_scope.

Lemma nodupb_NoDup' : forall l, nodupb l = true -> NoDup l.
Proof.
  induction l as [|x t IH]; intros H; [constructor|].
  destruct (nodupb_cons _ _ H) as [Hn Ht]. constructor; [exact Hn | exact (IH Ht)].
Qed.

(* ---- refusal and injective lifting -------------------------------------------------------------------------- *)
Theorem export_si_refuses_iff : forall kw prename rename infun use_ops inline fname ivals g,
  let g' := strip_top true g in
  let rm := fst (scan rename infun inline true ivals g') in
  export_si kw prename rename infun use_ops inline true fname ivals g = None <->
  (nodupb (map (tr_with rename rm) (all_skipped ivals g)) = false \/
   export_cf kw prename rename infun use_ops inline true fname ivals g' = None).
Proof.
  intros. subst g' rm. unfold export_si. cbv zeta.
  destruct (nodupb (map (tr_with rename (fst (scan rename infun inline true ivals (strip_top true g)))) (all_skipped ivals g))).
  - destruct (export_cf kw prename rename infun use_ops inline true fname ivals (strip_top true g)) as [[f sk]|].
    + split; [discriminate | intros [H|H]; discriminate].
    + split; [intros _; right; reflexivity | intros _; reflexivity].
  - split; [intros _; left; reflexivity | intros _; reflexivity].
Qed.

Lemma export_cf_sk : forall kw prename rename infun use_ops inline skip fname ivals g f sk,
  export_cf kw prename rename infun use_ops inline skip fname ivals g = Some (f, sk) ->
  sk = map (tr_with rename (fst (scan rename infun inline skip ivals g))) (map fst (filter (skipped skip) ivals)).
Proof.
  intros until sk. unfold export_cf. destruct (scan rename infun inline skip ivals g) as [rm consts]. cbn [fst].
  destruct (emit_all (emit_init_cf kw rename inline skip rm) ivals); [|discriminate].
  destruct (emit_nodes kw rename infun use_ops inline rm consts (depth_graph g) (g_nodes g)); [|discriminate].
  intros H; inversion H; subst. rewrite map_map. reflexivity.
Qed.

Theorem export_si_lifts_injectively : forall kw prename rename infun use_ops inline fname ivals g f sk,
  export_si kw prename rename infun use_ops inline true fname ivals g = Some (f, sk) ->
  let rm := fst (scan rename infun inline true ivals (strip_top true g)) in
  sk = map (tr_with rename rm) (all_skipped ivals g) /\ NoDup sk /\
  List.length sk = List.length (skipped_ivals ivals) + List.length (nested_skipped g).
Proof.
  intros until sk. intros H rm. subst rm. unfold export_si in H. cbv zeta in H.
  destruct (nodupb (map (tr_with rename (fst (scan rename infun inline true ivals (strip_top true g)))) (all_skipped ivals g))) eqn:Hn; [|discriminate].
  destruct (export_cf kw prename rename infun use_ops inline true fname ivals (strip_top true g)) as [[f0 sk0]|] eqn:He; [|discriminate].
  inversion H; subst f0 sk. clear H.
  pose proof (export_cf_sk _ _ _ _ _ _ _ _ _ _ _ _ He) as Hs. subst sk0.
  assert (E : (map (tr_with rename (fst (scan rename infun inline true ivals (strip_top true g)))) (map fst (filter (skipped true) ivals)) ++
               map (tr_with rename (fst (scan rename infun inline true ivals (strip_top true g)))) (nested_skipped g))%list =
              map (tr_with rename (fst (scan rename infun inline true ivals (strip_top true g)))) (all_skipped ivals g)).
  { unfold all_skipped, skipped_ivals. rewrite map_app. reflexivity. }
  rewrite E. split; [reflexivity|]. split; [apply nodupb_NoDup'; exact Hn|].
  unfold all_skipped. rewrite map_length, app_length, map_length. reflexivity.
Qed.

(* a renamer that does not merge two of the skipped names: the Python names collide iff the ONNX names do *)
Lemma nodupb_map_inj_on : forall (f : string -> string) l,
  (forall x y, In x l -> In y l -> f x = f y -> x = y) -> nodupb (map f l) = nodupb l.
Proof.
  intros f. induction l as [|x t IH]; intros Hinj; [reflexivity|].
  cbn [map nodupb]. rewrite IH by (intros a b Ha Hb; apply Hinj; right; assumption).
  f_equal. f_equal. unfold mem.
  destruct (existsb (String.eqb x) t) eqn:E1.
  - apply existsb_exists in E1. destruct E1 as [y [Hy Hxy]]. apply String.eqb_eq in Hxy. subst y.
    apply existsb_exists. exists (f x). split; [apply in_map; exact Hy | apply String.eqb_refl].
  - destruct (existsb (String.eqb (f x)) (map f t)) eqn:E2; [|reflexivity].
    apply existsb_exists in E2. destruct E2 as [z [Hz Hxz]]. apply String.eqb_eq in Hxz. subst z.
    apply in_map_iff in Hz. destruct Hz as [y [Hfy Hy]].
    assert (y = x) by (apply Hinj; [right; exact Hy | left; reflexivity | exact Hfy]). subst y.
    assert (existsb (String.eqb x) t = true) by (apply existsb_exists; exists x; split; [exact Hy | apply String.eqb_refl]).
    congruence.
Qed.

Theorem rename_inj_refuses_iff : forall kw prename rename infun use_ops inline fname ivals g,
  let g' := strip_top true g in
  let rm := fst (scan rename infun inline true ivals g') in
  (forall x y, In x (all_skipped ivals g) -> In y (all_skipped ivals g) -> tr_with rename rm x = tr_with rename rm y -> x = y) ->
  (export_si kw prename rename infun use_ops inline true fname ivals g = None <->
   (nodupb (all_skipped ivals g) = false \/ export_cf kw prename rename infun use_ops inline true fname ivals g' = None)).
Proof.
  intros until g. intros g' rm Hinj. subst g' rm.
  rewrite <- (nodupb_map_inj_on _ _ Hinj). apply export_si_refuses_iff.
Qed.

(* ---- the printed program is the program of the lifted graph, option off ---------------------------------- *)
Lemma export_cf_more_inputs : forall kw prename rename infun use_ops inline skip fname ivals extra ins inits nodes outs f sk,
  export_cf kw prename rename infun use_ops inline skip fname ivals (Graph ins inits nodes outs) = Some (f, sk) ->
  export_cf kw prename rename infun use_ops inline skip fname ivals (Graph (extra ++ ins)%list inits nodes outs) =
    Some ({| f_name := f_name f; f_tparams := (map prename extra ++ f_tparams f)%list; f_aparams := f_aparams f; f_body := f_body f |}, sk).
Proof.
  intros until sk. unfold export_cf, scan. cbn [g_ins g_inits g_nodes g_outs depth_graph].
  destruct (scan_nodes rename infun inline _ ([], init_consts rename inline skip ivals) nodes) as [rm consts].
  destruct (emit_all (emit_init_cf kw rename inline skip rm) ivals); [|discriminate].
  destruct (emit_nodes kw rename infun use_ops inline rm consts _ nodes); [|discriminate].
  intros H; inversion H; subst. cbn [f_name f_tparams f_aparams f_body]. rewrite map_app. reflexivity.
Qed.

Lemma scan_more_inputs : forall rename infun inline skip ivals extra ins inits nodes outs,
  scan rename infun inline skip ivals (Graph (extra ++ ins)%list inits nodes outs) = scan rename infun inline skip ivals (Graph ins inits nodes outs).
Proof. intros. reflexivity. Qed.

Theorem export_si_is_lift : forall kw prename rename infun use_ops fname ivals g f sk,
  export_si kw prename rename infun use_ops None true fname ivals g = Some (f, sk) ->
  export_cf kw prename rename infun use_ops None false fname (kept_ivals ivals) (lift_all ivals g) =
    Some ({| f_name := f_name f; f_tparams := (map prename (all_skipped ivals g) ++ f_tparams f)%list;
             f_aparams := f_aparams f; f_body := f_body f |}, []).
Proof.
  intros until sk. intros H. unfold export_si in H. cbv zeta in H.
  destruct (nodupb _); [|discriminate].
  destruct (export_cf kw prename rename infun use_ops None true fname ivals (strip_top true g)) as [[f0 sk0]|] eqn:He; [|discriminate].
  inversion H; subst f0 sk. clear H.
  unfold strip_top in He.
  pose proof (export_cf_more_inputs _ _ _ _ _ _ _ _ _ (nested_skipped g) _ _ _ _ _ _ He) as Hm.
  destruct (export_skip_is_lift _ _ _ _ _ _ _ _ _ _ Hm) as [Hl _].
  unfold lift_all, strip_top. unfold lift_skipped in Hl. cbn [g_ins g_inits g_nodes g_outs f_name f_tparams f_aparams f_body] in Hl |- *.
  rewrite Hl. unfold all_skipped. rewrite map_app, app_assoc. reflexivity.
Qed.

(* ---- graphs no subgraph of which owns an initializer: nothing changes ---------------------------------- *)
Lemma strip_subs_id : forall b (subs : list (string * graph)),
  (forall k g, In (k, g) subs -> strip_graph b g = g) ->
  (fix go (l : list (string * graph)) : list (string * graph) :=
     match l with [] => [] | (k, g) :: t => (k, strip_graph b g) :: go t end) subs = subs.
Proof.
  induction subs as [|[k g] t IH]; intros H; [reflexivity|].
  rewrite (H k g (or_introl eq_refl)). rewrite IH; [reflexivity|]. intros k' g' Hi. apply (H k' g'). right. exact Hi.
Qed.

Lemma strip_nodes_id : forall b (nodes : list node),
  (forall n, In n nodes -> strip_node b n = n) ->
  (fix go (k : list vname) (l : list node) : list node :=
     match l with
     | [] => []
     | n :: t => match k with
                 | [] => strip_node b n :: go [] t
                 | _ :: k' => match init_skipped b n with Some _ => go k' t | None => n :: go k' t end
                 end
     end) [] nodes = nodes.
Proof.
  induction nodes as [|n t IH]; intros H; [reflexivity|].
  rewrite (H n (or_introl eq_refl)). rewrite IH; [reflexivity|]. intros n' Hi. apply H. right. exact Hi.
Qed.

Lemma owns_subs_false : forall (subs : list (string * graph)) k g,
  (fix go (l : list (string * graph)) : bool := match l with [] => false | (k, g) :: t => owns_graph g || go t end) subs = false ->
  In (k, g) subs -> owns_graph g = false.
Proof.
  induction subs as [|[k0 g0] t IH]; intros k g H Hi; [destruct Hi|].
  apply orb_false_iff in H. destruct H as [H0 Ht]. destruct Hi as [E|Hi]; [inversion E; subst; exact H0 | exact (IH k g Ht Hi)].
Qed.

Lemma owns_nodes_false : forall (nodes : list node) n,
  (fix go (l : list node) : bool := match l with [] => false | n :: t => owns_node n || go t end) nodes = false ->
  In n nodes -> owns_node n = false.
Proof.
  induction nodes as [|n0 t IH]; intros n H Hi; [destruct Hi|].
  apply orb_false_iff in H. destruct H as [H0 Ht]. destruct Hi as [E|Hi]; [subst; exact H0 | exact (IH n Ht Hi)].
Qed.

Lemma strip_id_fuel : forall b fuel,
  (forall n, depth_node n <= fuel -> owns_node n = false -> strip_node b n = n) /\
  (forall g, depth_graph g <= fuel -> owns_graph g = false -> strip_graph b g = g).
Proof.
  intros b. induction fuel as [|fu [IHn IHg]].
  - split; [intros [d o i u a subs] H; cbn [depth_node] in H; lia | intros g H; pose proof (depth_graph_pos g); lia].
  - split.
    + intros [d o i u a subs] Hd Ho. cbn [strip_node]. f_equal. apply strip_subs_id. intros k g Hi.
      apply IHg.
      * pose proof (depth_sub_of_node d o i u a subs k g Hi). lia.
      * cbn [owns_node] in Ho. exact (owns_subs_false subs k g Ho Hi).
    + intros [ins inits nodes outs] Hd Ho. cbn [owns_graph] in Ho. apply orb_false_iff in Ho. destruct Ho as [Hi Hn].
      destruct inits as [|w ws]; [|discriminate Hi]. cbn [strip_graph]. f_equal. apply strip_nodes_id. intros n Hin.
      apply IHn.
      * pose proof (depth_node_of_graph ins [] nodes outs n Hin). lia.
      * exact (owns_nodes_false nodes n Hn Hin).
Qed.

Lemma strip_node_id : forall b n, owns_node n = false -> strip_node b n = n.
Proof. intros b n. apply (proj1 (strip_id_fuel b (depth_node n))). lia. Qed.

Theorem strip_no_owner : forall b g, owns_nested g = false -> strip_top b g = g.
Proof.
  intros b [ins inits nodes outs] H. unfold strip_top, owns_nested in *. cbn [g_ins g_inits g_nodes g_outs] in *. f_equal.
  induction nodes as [|n t IH]; [reflexivity|]. cbn [existsb map] in *. apply orb_false_iff in H. destruct H as [Hn Ht].
  rewrite (strip_node_id b n Hn), (IH Ht). reflexivity.
Qed.

(* nothing is collected either *)
Lemma nsk_subs_nil : forall (subs : list (string * graph)),
  (forall k g, In (k, g) subs -> nsk_graph g = []) ->
  Forall (fun l => l = []) ((fix go (l : list (string * graph)) : list (list vname) :=
                               match l with [] => [] | (k, g) :: t => nsk_graph g :: go t end) subs).
Proof.
  induction subs as [|[k g] t IH]; intros H; [constructor|].
  constructor; [apply (H k g); left; reflexivity | apply IH; intros k' g' Hi; apply (H k' g'); right; exact Hi].
Qed.

Lemma concat_nils : forall (ls : list (list vname)), Forall (fun l => l = []) ls -> List.concat ls = [].
Proof. induction 1 as [|l t Hl _ IH]; [reflexivity|]. cbn [List.concat]. rewrite Hl, IH. reflexivity. Qed.

Lemma nsk_nodes_nil : forall (nodes : list node),
  (forall n, In n nodes -> nsk_node n = []) ->
  (fix go (k : list vname) (l : list node) : list vname :=
     match l with
     | [] => []
     | n :: t => match k with
                 | [] => (nsk_node n ++ go [] t)%list
                 | _ :: k' => match init_skipped true n with Some w => w :: go k' t | None => go k' t end
                 end
     end) [] nodes = [].
Proof.
  induction nodes as [|n t IH]; intros H; [reflexivity|].
  rewrite (H n (or_introl eq_refl)). cbn [app]. apply IH. intros n' Hi. apply H. right. exact Hi.
Qed.

Lemma nsk_nil_fuel : forall fuel,
  (forall n, depth_node n <= fuel -> owns_node n = false -> nsk_node n = []) /\
  (forall g, depth_graph g <= fuel -> owns_graph g = false -> nsk_graph g = []).
Proof.
  induction fuel as [|fu [IHn IHg]].
  - split; [intros [d o i u a subs] H; cbn [depth_node] in H; lia | intros g H; pose proof (depth_graph_pos g); lia].
  - split.
    + intros [d o i u a subs] Hd Ho. cbn [nsk_node].
      assert (HF : Forall (fun l => l = []) ((fix go (l : list (string * graph)) : list (list vname) :=
                                                match l with [] => [] | (k, g) :: t => nsk_graph g :: go t end) subs)).
      { apply nsk_subs_nil. intros k g Hi. apply IHg.
        - pose proof (depth_sub_of_node d o i u a subs k g Hi). lia.
        - cbn [owns_node] in Ho. exact (owns_subs_false subs k g Ho Hi). }
      destruct subs as [|[n0 g0] [|[n1 g1] [|s3 rest]]]; try (apply concat_nils; exact HF).
      inversion HF as [|l0 r0 H0 HF1]; subst. inversion HF1 as [|l1 r1 H1 HF2]; subst.
      rewrite H0, H1. destruct (String.eqb o "If" && String.eqb n0 "else_branch"); reflexivity.
    + intros [ins inits nodes outs] Hd Ho. cbn [owns_graph] in Ho. apply orb_false_iff in Ho. destruct Ho as [Hi Hn].
      destruct inits as [|w ws]; [|discriminate Hi]. cbn [nsk_graph]. apply nsk_nodes_nil. intros n Hin.
      apply IHn.
      * pose proof (depth_node_of_graph ins [] nodes outs n Hin). lia.
      * exact (owns_nodes_false nodes n Hn Hin).
Qed.

Theorem nested_skipped_no_owner : forall g, owns_nested g = false -> nested_skipped g = [].
Proof.
  intros [ins inits nodes outs] H. unfold nested_skipped, owns_nested in *. cbn [g_nodes] in *.
  induction nodes as [|n t IH]; [reflexivity|]. cbn [existsb flat_map] in *. apply orb_false_iff in H. destruct H as [Hn Ht].
  rewrite (proj1 (nsk_nil_fuel (depth_node n)) n (le_n _) Hn), (IH Ht). reflexivity.
Qed.

Theorem export_si_no_owner : forall kw prename rename infun use_ops inline skip fname ivals g,
  owns_nested g = false ->
  (skip = true -> nodupb (map (tr_with rename (fst (scan rename infun inline true ivals g))) (map fst (skipped_ivals ivals))) = true) ->
  export_si kw prename rename infun use_ops inline skip fname ivals g =
  export_cf kw prename rename infun use_ops inline skip fname ivals g.
Proof.
  intros until g. intros Ho Hn. unfold export_si, all_skipped. cbv zeta.
  rewrite (strip_no_owner true g Ho), (strip_no_owner false g Ho), (nested_skipped_no_owner g Ho). rewrite app_nil_r.
  destruct skip; [|reflexivity]. rewrite (Hn eq_refl).
  destruct (export_cf kw prename rename infun use_ops inline true fname ivals g) as [[f sk]|]; [|reflexivity].
  cbn [map]. rewrite app_nil_r. reflexivity.
Qed.

(* ---- option off: the markers are not read by the graph semantics ----------------------------------------- *)
Lemma init_skipped_false : forall n, init_skipped false n = None.
Proof.
  intros [d o i u a subs]. cbn [init_skipped]. destruct u as [|x [|y t]]; try reflexivity.
  destruct a as [|[k v] [|p q]]; reflexivity.
Qed.

Section StripSem.
  Variable V : Type.
  Variable sem : string -> string -> list (string * attrv) -> list (option V) -> option (list V).
  Variable truth : V -> option bool.
  Variable trip : V -> option nat.
  Variable of_nat : nat -> V.
  Variable of_bool : bool -> V.
  Variable limit : nat.

  Notation env := (list (vname * V)).
  Notation eval_graph := (eval_graph V sem truth trip of_nat of_bool limit).
  Notation eval_node := (eval_node V sem truth trip of_nat of_bool limit).
  Notation eval_body := (eval_body V sem truth trip of_nat of_bool limit).
  Notation run := (run V sem truth trip of_nat of_bool limit).
  Notation loop_iter := (loop_iter V truth of_nat of_bool).

  Definition ev_ok (ev : env -> graph -> list V -> option (list V)) : Prop :=
    forall e g args, ev e (strip_graph false g) args = ev e g args.

  Lemma find_sub_strip : forall name (subs : list (string * graph)),
    find_sub name ((fix go (l : list (string * graph)) : list (string * graph) :=
                      match l with [] => [] | (k, g) :: t => (k, strip_graph false g) :: go t end) subs) =
    option_map (strip_graph false) (find_sub name subs).
  Proof.
    intros name. induction subs as [|[k g] t IH]; [reflexivity|]. cbn [find_sub]. destruct (String.eqb k name); [reflexivity | exact IH].
  Qed.

  Lemma loop_iter_strip : forall ev, ev_ok ev -> forall e body bounded k i c st,
    loop_iter ev e (strip_graph false body) bounded k i c st = loop_iter ev e body bounded k i c st.
  Proof.
    intros ev Hev e body bounded. induction k as [|k IH]; intros i c st; cbn [Sem.loop_iter]; [reflexivity|].
    rewrite Hev. destruct (negb c); [reflexivity|].
    destruct (ev e body (of_nat i :: of_bool c :: st)) as [[|cv' st']|]; try reflexivity.
    destruct (Nat.eqb (List.length st') (List.length st)); [|reflexivity].
    destruct (truth cv'); [apply IH | reflexivity].
  Qed.

  Lemma eval_node_strip : forall ev, ev_ok ev -> forall e n, eval_node ev e (strip_node false n) = eval_node ev e n.
  Proof.
    intros ev Hev e [d o i u a subs]. cbn [strip_node Sem.eval_node].
    destruct (is_if d o).
    - destruct (lookup_opts e i) as [l|]; [|reflexivity]. destruct l as [|[c|] [|x y]]; try reflexivity.
      destruct (truth c) as [b|]; [|reflexivity]. rewrite find_sub_strip.
      destruct (find_sub (if b then "then_branch" else "else_branch") subs) as [sg|]; [|reflexivity]. cbn [option_map]. rewrite Hev. reflexivity.
    - destruct (is_loop d o); [|reflexivity].
      destruct i as [|m [|c carried]]; try reflexivity. rewrite find_sub_strip.
      destruct (find_sub "body" subs) as [body|]; [|reflexivity]. cbn [option_map].
      destruct (lookup_opts e [m; c]) as [l|]; [|reflexivity]. destruct l as [|mv [|cv [|x y]]]; try reflexivity.
      destruct (lookups e (present carried)) as [st0|]; [|reflexivity].
      destruct (match mv with Some v => option_map Some (trip v) | None => Some None end) as [mt|]; [|reflexivity].
      destruct (match cv with Some v => truth v | None => Some true end) as [c0|]; [|reflexivity].
      destruct mt as [k|]; rewrite (loop_iter_strip ev Hev); reflexivity.
  Qed.

  Lemma run_strip_map : forall ev, ev_ok ev -> forall nodes e, run ev e (map (strip_node false) nodes) = run ev e nodes.
  Proof.
    intros ev Hev. induction nodes as [|n t IH]; intros e; [reflexivity|]. cbn [map Sem.run]. rewrite (eval_node_strip ev Hev).
    destruct (eval_node ev e n); [apply IH | reflexivity].
  Qed.

  Lemma run_strip_go : forall ev, ev_ok ev -> forall nodes k e,
    run ev e ((fix go (k : list vname) (l : list node) : list node :=
                 match l with
                 | [] => []
                 | n :: t => match k with
                             | [] => strip_node false n :: go [] t
                             | _ :: k' => match init_skipped false n with Some _ => go k' t | None => n :: go k' t end
                             end
                 end) k nodes) = run ev e nodes.
  Proof.
    intros ev Hev. induction nodes as [|n t IH]; intros k e; [reflexivity|]. destruct k as [|w k'].
    - cbn [Sem.run]. rewrite (eval_node_strip ev Hev). destruct (eval_node ev e n); [apply IH | reflexivity].
    - rewrite init_skipped_false. cbn [Sem.run]. destruct (eval_node ev e n); [apply IH | reflexivity].
  Qed.

  Lemma eval_body_strip : forall ev, ev_ok ev -> ev_ok (eval_body ev).
  Proof.
    intros ev Hev e [ins inits nodes outs] args. unfold Sem.eval_body. cbn [strip_graph g_ins g_nodes g_outs].
    destruct (Sem.bind ins args e) as [e0|]; [|reflexivity]. rewrite (run_strip_go ev Hev). reflexivity.
  Qed.

  Theorem eval_strip_false : forall fuel, ev_ok (eval_graph fuel).
  Proof.
    induction fuel as [|f IH]; [intros e g args; reflexivity|]. intros e g args. cbn [Sem.eval_graph]. apply (eval_body_strip _ IH).
  Qed.

  Theorem eval_strip_top_false : forall fuel outer g args,
    eval_graph fuel outer (strip_top false g) args = eval_graph fuel outer g args.
  Proof.
    intros [|f] outer [ins inits nodes outs] args; [reflexivity|]. cbn [Sem.eval_graph]. unfold Sem.eval_body, strip_top. cbn [g_ins g_nodes g_outs].
    destruct (Sem.bind ins args outer) as [e0|]; [|reflexivity]. rewrite (run_strip_map _ (eval_strip_false f)). reflexivity.
  Qed.

  (* the nested soundness theorem for a graph whose subgraphs own initializers, option off *)
  Variable globals : list (string * lit).
  Variable kw : list string.
  Variable prename rename : vname -> string.
  Variable infun : bool.
  Hypothesis sem_identity : forall v, sem "" "Identity" [] [Some v] = Some [v].
  Hypothesis truth_of_bool : forall b, truth (of_bool b) = Some b.
  Variable brk : bool.
  Hypothesis sem_not : forall v b, truth v = Some b -> exists r, sem "" "Not" [] [Some v] = Some [r] /\ truth r = Some (negb b).
  Hypothesis truth_total : brk = true -> forall v, exists b, truth v = Some b.

  Theorem export_si_noskip_sound : forall use_ops fname ivals g f sk,
    export_si kw prename rename infun use_ops None false fname ivals g = Some (f, sk) ->
    nested_ops_okb kw prename rename infun brk use_ops ivals (strip_top false g) = true ->
    forall fp fg xs, depth_graph (strip_top false g) <= S fp -> depth_graph (strip_top false g) <= S fg ->
      eval_script V sem truth trip of_nat limit globals (S (S fp)) f xs =
      match init_env V sem ivals with
      | Some outer => eval_graph (S (S fg)) outer g xs
      | None => None
      end.
  Proof.
    intros use_ops fname ivals g f sk He Hok fp fg xs Hfp Hfg. unfold export_si in He.
    rewrite (export_cf_ops_sound V sem truth trip of_nat of_bool limit globals kw prename rename infun sem_identity truth_of_bool brk sem_not truth_total
               use_ops fname ivals (strip_top false g) f sk He Hok fp fg xs Hfp Hfg).
    destruct (init_env V sem ivals) as [outer|]; [|reflexivity]. apply eval_strip_top_false.
  Qed.
End StripSem.

(* ---- a worked instance: both branches of an If own a 6-element initializer ------------------------------- *)
Definition w6a : attrv := ATensor 1 [6%Z] [0; 0; 0; 0; 0; 0; 128; 63]%Z.
Definition w6b : attrv := ATensor 1 [2; 3]%Z [0; 0; 128; 191]%Z.
Definition w3 : attrv := ATensor 1 [3%Z] [0; 0; 128; 63; 0; 0; 0; 64; 0; 0; 64; 64]%Z.
Definition g_siblings (en : string) (small : attrv) : graph :=
  Graph ["x"; "b"] []
    [Node "" "If" [Some "b"] ["y"] []
       [("else_branch", Graph [] [en; "k"] [Node "" "Constant" [] [en] [("value", w6b)] []; Node "" "Constant" [] ["k"] [("value", small)] [];
                                            Node "" "Add" [Some "x"; Some en] ["e0"] [] []; Node "" "Mul" [Some "e0"; Some "k"] ["e"] [] []] ["e"]);
        ("then_branch", Graph [] ["W"] [Node "" "Constant" [] ["W"] [("value", w6a)] []; Node "" "Mul" [Some "x"; Some "W"] ["t"] [] []] ["t"])]]
    ["y"].

Theorem export_si_example :
  (* the same name in both branches: refused with the option, printed as two Constant lines without it *)
  export_si kwlist (cleanup kwlist) (cleanup kwlist) true None None true "g" [] (g_siblings "W" w3) = None /\
  nested_skipped (g_siblings "W" w3) = ["W"; "W"] /\
  (exists f, export_si kwlist (cleanup kwlist) (cleanup kwlist) true None None false "g" [] (g_siblings "W" w3) = Some (f, []) /\
             f_body f = [SIf (EVar "b")
                             [SAssign "W" (ECall (COp "Constant") [] [("value", KLit w6a)]); SAssign "t" (ECall (COp "Mul") [Some (EVar "x"); Some (EVar "W")] []);
                              SAssign "y" (EVar "t")]
                             [SAssign "W" (ECall (COp "Constant") [] [("value", KLit w6b)]); SAssign "k" (ECall (COp "Constant") [] [("value", KLit w3)]);
                              SAssign "e0" (ECall (COp "Add") [Some (EVar "x"); Some (EVar "W")] []);
                              SAssign "e" (ECall (COp "Mul") [Some (EVar "e0"); Some (EVar "k")] []); SAssign "y" (EVar "e")];
                         SReturn [EVar "y"]]) /\
  (* different names: lifted injectively, the then-branch's first (whatever the order of the attributes); the small one stays *)
  (exists f, export_si kwlist (cleanup kwlist) (cleanup kwlist) true None None true "g" [] (g_siblings "w.0" w3) = Some (f, ["W"; "w_0"]) /\
             f_body f = [SIf (EVar "b")
                             [SAssign "t" (ECall (COp "Mul") [Some (EVar "x"); Some (EVar "W")] []); SAssign "y" (EVar "t")]
                             [SAssign "k" (ECall (COp "Constant") [] [("value", KLit w3)]);
                              SAssign "e0" (ECall (COp "Add") [Some (EVar "x"); Some (EVar "w_0")] []);
                              SAssign "e" (ECall (COp "Mul") [Some (EVar "e0"); Some (EVar "k")] []); SAssign "y" (EVar "e")];
                         SReturn [EVar "y"]]) /\
  g_ins (lift_all [] (g_siblings "w.0" w3)) = ["W"; "w.0"; "x"; "b"].
Proof.
  split; [vm_compute; reflexivity|]. split; [vm_compute; reflexivity|].
  split; [eexists; split; vm_compute; reflexivity|]. split; [eexists; split; vm_compute; reflexivity|]. vm_compute; reflexivity.
Qed.
