(* Round-trip theorems for the sub-byte codecs, for every length (incl. 0 and lengths that need padding). *)
From Coq Require Import ZArith List Bool Lia.
Require Import OV.Serde.Packing.
Import ListNotations.
Open Scope Z_scope.
Ltac Zify.zify_post_hook ::= Z.to_euclidean_division_equations.

Lemma list_ind2 : forall (A : Type) (P : list A -> Prop),
  P [] -> (forall a, P [a]) -> (forall a b r, P r -> P (a :: b :: r)) -> forall l, P l.
Proof.
  intros A P H0 H1 H2. fix IH 1. intros [|a [|b r]]; [exact H0 | apply H1 | apply H2, IH].
Qed.
Lemma list_ind4 : forall (A : Type) (P : list A -> Prop),
  P [] -> (forall a, P [a]) -> (forall a b, P [a; b]) -> (forall a b c, P [a; b; c]) ->
  (forall a b c d r, P r -> P (a :: b :: c :: d :: r)) -> forall l, P l.
Proof.
  intros A P H0 H1 H2 H3 H4. fix IH 1.
  intros [|a [|b [|c [|d r]]]]; [exact H0 | apply H1 | apply H2 | apply H3 | apply H4, IH].
Qed.

Lemma nib_range : forall e, 0 <= nib e < 16. Proof. intro; unfold nib; lia. Qed.
Lemma crumb_range : forall e, 0 <= crumb e < 4. Proof. intro; unfold crumb; lia. Qed.
Lemma nib_id : forall e, 0 <= e < 16 -> nib e = e. Proof. intros; unfold nib; lia. Qed.
Lemma crumb_id : forall e, 0 <= e < 4 -> crumb e = e. Proof. intros; unfold crumb; lia. Qed.
Lemma sext4_nib : forall e, -8 <= e <= 7 -> sext4 (nib e) = e.
Proof. intros; unfold sext4, nib; destruct (e mod 16 <? 8) eqn:E; [apply Z.ltb_lt in E | apply Z.ltb_ge in E]; lia. Qed.
Lemma sext2_crumb : forall e, -2 <= e <= 1 -> sext2 (crumb e) = e.
Proof. intros; unfold sext2, crumb; destruct (e mod 4 <? 2) eqn:E; [apply Z.ltb_lt in E | apply Z.ltb_ge in E]; lia. Qed.

Lemma resize_exact : forall l, resize (length l) l = l.
Proof. intro l; unfold resize. rewrite Nat.sub_diag; cbn [repeat]. rewrite app_nil_r. apply firstn_all. Qed.

(* ---------------------------------------------------------------- 4-bit *)
Lemma unpack4_all_pack4 : forall l,
  unpack4_all (pack4 l) = map nib l ++ (if Nat.odd (length l) then [0] else []).
Proof.
  induction l as [| a | a b r IH] using list_ind2.
  - reflexivity.
  - cbn [pack4 unpack4_all map length Nat.odd Nat.even app]. pose proof (nib_range a).
    replace (nib a mod 16) with (nib a) by lia. replace (nib a / 16) with 0 by lia. reflexivity.
  - cbn [pack4 unpack4_all map length app]. rewrite IH. pose proof (nib_range a); pose proof (nib_range b).
    replace ((nib a + 16 * nib b) mod 16) with (nib a) by lia.
    replace ((nib a + 16 * nib b) / 16) with (nib b) by lia.
    change (Nat.odd (S (S (length r)))) with (Nat.odd (length r)). reflexivity.
Qed.

Theorem unpack4_pack4_nib : forall l, unpack4 (length l) (pack4 l) = map nib l.
Proof.
  intro l. unfold unpack4. rewrite unpack4_all_pack4. destruct (Nat.odd (length l)).
  - rewrite app_length, map_length. cbn [length]. replace (length l + 1)%nat with (S (length l)) by lia.
    rewrite Nat.eqb_refl, removelast_last. rewrite <- (map_length nib l) at 1. apply resize_exact.
  - rewrite app_nil_r, map_length.
    replace (Nat.eqb (length l) (S (length l))) with false by (symmetry; apply Nat.eqb_neq; lia).
    rewrite <- (map_length nib l) at 1. apply resize_exact.
Qed.

Lemma map_id_on : forall (f : Z -> Z) (P : Z -> Prop) l, (forall e, P e -> f e = e) -> Forall P l -> map f l = l.
Proof. induction l; intros Hf H; cbn; [reflexivity|]. inversion H; subst. rewrite Hf, IHl by assumption. reflexivity. Qed.

(* uint4: unpack n (pack l) = l for every list of nibbles, every length *)
Theorem unpack4_pack4 : forall l, Forall (fun e => 0 <= e < 16) l -> unpack4 (length l) (pack4 l) = l.
Proof. intros l H. rewrite unpack4_pack4_nib. eapply map_id_on; [|exact H]. intros; apply nib_id; assumption. Qed.

(* int4: elements -8..7 come back after reading the nibbles as signed values *)
Theorem unpack4_pack4_signed : forall l, Forall (fun e => -8 <= e <= 7) l ->
  map sext4 (unpack4 (length l) (pack4 l)) = l.
Proof.
  intros l H. rewrite unpack4_pack4_nib, map_map. eapply map_id_on; [|exact H]. intros; apply sext4_nib; assumption.
Qed.

Theorem pack4_length : forall l, length (pack4 l) = Nat.div2 (S (length l)).
Proof.
  induction l as [| a | a b r IH] using list_ind2.
  - reflexivity.
  - reflexivity.
  - cbn [pack4 length]. rewrite IH. reflexivity.
Qed.

Theorem pack4_bytes : forall l, Forall (fun b => 0 <= b < 256) (pack4 l).
Proof.
  induction l as [| a | a b r IH] using list_ind2; cbn [pack4].
  - constructor.
  - constructor; [pose proof (nib_range a); lia | constructor].
  - constructor; [pose proof (nib_range a); pose proof (nib_range b); lia | assumption].
Qed.

(* the padding nibble of an odd-length tensor is zero *)
Theorem pack4_padding_zero : forall l, Nat.odd (length l) = true -> last (pack4 l) 0 / 16 = 0.
Proof.
  induction l as [| a | a b r IH] using list_ind2; intros H.
  - discriminate.
  - cbn. pose proof (nib_range a). lia.
  - change (Nat.odd (length (a :: b :: r))) with (Nat.odd (length r)) in H. specialize (IH H).
    cbn [pack4]. destruct (pack4 r) eqn:E; [|exact IH].
    destruct r as [|x [|y r']]; cbn in E; try discriminate; cbn in H; discriminate.
Qed.

(* ---------------------------------------------------------------- 2-bit *)
Definition pad2 (n : nat) : list Z := repeat 0 ((4 - n mod 4) mod 4).

Lemma unpack2_all_pack2 : forall l, unpack2_all (pack2 l) = map crumb l ++ pad2 (length l).
Proof.
  induction l as [| a | a b | a b c | a b c d r IH] using list_ind4.
  - reflexivity.
  - cbn [pack2 unpack2_all map length app]. pose proof (crumb_range a).
    replace (crumb a mod 4) with (crumb a) by lia. replace (crumb a / 4 mod 4) with 0 by lia.
    replace (crumb a / 16 mod 4) with 0 by lia. replace (crumb a / 64) with 0 by lia. reflexivity.
  - cbn [pack2 unpack2_all map length app]. pose proof (crumb_range a); pose proof (crumb_range b).
    replace ((crumb a + 4 * crumb b) mod 4) with (crumb a) by lia.
    replace ((crumb a + 4 * crumb b) / 4 mod 4) with (crumb b) by lia.
    replace ((crumb a + 4 * crumb b) / 16 mod 4) with 0 by lia.
    replace ((crumb a + 4 * crumb b) / 64) with 0 by lia. reflexivity.
  - cbn [pack2 unpack2_all map length app]. pose proof (crumb_range a); pose proof (crumb_range b); pose proof (crumb_range c).
    replace ((crumb a + 4 * crumb b + 16 * crumb c) mod 4) with (crumb a) by lia.
    replace ((crumb a + 4 * crumb b + 16 * crumb c) / 4 mod 4) with (crumb b) by lia.
    replace ((crumb a + 4 * crumb b + 16 * crumb c) / 16 mod 4) with (crumb c) by lia.
    replace ((crumb a + 4 * crumb b + 16 * crumb c) / 64) with 0 by lia. reflexivity.
  - cbn [pack2 unpack2_all map length app]. rewrite IH.
    pose proof (crumb_range a); pose proof (crumb_range b); pose proof (crumb_range c); pose proof (crumb_range d).
    replace ((crumb a + 4 * crumb b + 16 * crumb c + 64 * crumb d) mod 4) with (crumb a) by lia.
    replace ((crumb a + 4 * crumb b + 16 * crumb c + 64 * crumb d) / 4 mod 4) with (crumb b) by lia.
    replace ((crumb a + 4 * crumb b + 16 * crumb c + 64 * crumb d) / 16 mod 4) with (crumb c) by lia.
    replace ((crumb a + 4 * crumb b + 16 * crumb c + 64 * crumb d) / 64) with (crumb d) by lia.
    unfold pad2. replace (S (S (S (S (length r)))) mod 4)%nat with (length r mod 4)%nat; [reflexivity|].
    change (S (S (S (S (length r))))) with (4 + length r)%nat.
    rewrite Nat.add_mod by lia. rewrite Nat.mod_same by lia. cbn [Nat.add]. rewrite Nat.mod_mod by lia. reflexivity.
Qed.

Theorem unpack2_pack2_crumb : forall l, unpack2 (length l) (pack2 l) = map crumb l.
Proof.
  intro l. unfold unpack2. rewrite unpack2_all_pack2. rewrite app_length, map_length.
  destruct (pad2 (length l)) as [|z p] eqn:E.
  - cbn [length]. rewrite Nat.add_0_r, Nat.ltb_irrefl, app_nil_r.
    rewrite <- (map_length crumb l) at 1. apply resize_exact.
  - replace (Nat.ltb (length l) (length l + length (z :: p))) with true by (symmetry; apply Nat.ltb_lt; cbn; lia).
    rewrite <- (map_length crumb l) at 1 2. rewrite firstn_app, Nat.sub_diag, firstn_all. cbn [firstn]. rewrite app_nil_r.
    apply resize_exact.
Qed.

Theorem unpack2_pack2 : forall l, Forall (fun e => 0 <= e < 4) l -> unpack2 (length l) (pack2 l) = l.
Proof. intros l H. rewrite unpack2_pack2_crumb. eapply map_id_on; [|exact H]. intros; apply crumb_id; assumption. Qed.

Theorem unpack2_pack2_signed : forall l, Forall (fun e => -2 <= e <= 1) l ->
  map sext2 (unpack2 (length l) (pack2 l)) = l.
Proof.
  intros l H. rewrite unpack2_pack2_crumb, map_map. eapply map_id_on; [|exact H]. intros; apply sext2_crumb; assumption.
Qed.

(* ---------------------------------------------------------------- 8-bit and 16-bit element types *)
Theorem dec16_enc16 : forall l, Forall (fun e => 0 <= e < 65536) l -> dec16 (enc16 l) = l.
Proof.
  induction l as [|v l IH]; intros H; [reflexivity|]. inversion H; subst. cbn [enc16 dec16]. rewrite IH by assumption.
  f_equal. lia.
Qed.
Theorem enc16_length : forall l, length (enc16 l) = (2 * length l)%nat.
Proof. induction l as [|v l IH]; [reflexivity|]. cbn [enc16 length]. rewrite IH. lia. Qed.
Theorem enc16_bytes : forall l, Forall (fun b => 0 <= b < 256) (enc16 l).
Proof. induction l as [|v l IH]; cbn [enc16]; [constructor|]. constructor; [lia|]. constructor; [lia|assumption]. Qed.
(* and the other way round: every even-length byte string is the payload of exactly the elements it decodes to *)
Theorem enc16_dec16 : forall n bs, length bs = (2 * n)%nat -> Forall (fun b => 0 <= b < 256) bs -> enc16 (dec16 bs) = bs.
Proof.
  induction n as [|n IH]; intros bs L H.
  - destruct bs; [reflexivity | discriminate].
  - destruct bs as [|lo [|hi r]]; try (cbn in L; lia). cbn [dec16 enc16].
    inversion H as [|? ? Hlo H']; subst. inversion H' as [|? ? Hhi Hr]; subst.
    rewrite (IH r); [|cbn in L; lia|assumption]. f_equal; [lia|]. f_equal. lia.
Qed.
Theorem dec8_enc8 : forall l, Forall (fun e => 0 <= e < 256) l -> dec8 (enc8 l) = l.
Proof. intros l H. unfold dec8, enc8. eapply map_id_on; [|exact H]. intros e He. cbn in He. lia. Qed.

(* the int32_data carrier: bit patterns stored as non-negative int32 come back unchanged; sign-extended negative values
   (INT16 / INT8) come back as their two's-complement pattern *)
Theorem int32_carrier16 : forall l, Forall (fun e => 0 <= e < 65536) l ->
  int32_to_bytes16 l = enc16 l /\ int32_to_elems16 l = l /\ dec16 (int32_to_bytes16 l) = l.
Proof.
  intros l H. assert (E : map (fun v => v mod 65536) l = l).
  { eapply map_id_on; [|exact H]. intros e He. cbn in He. lia. }
  unfold int32_to_bytes16, int32_to_elems16. rewrite E. repeat split. apply dec16_enc16; assumption.
Qed.
Theorem int32_carrier16_signed : forall l, dec16 (int32_to_bytes16 l) = map (fun v => v mod 65536) l.
Proof.
  intro l. unfold int32_to_bytes16. apply dec16_enc16. apply Forall_forall. intros x I. apply in_map_iff in I.
  destruct I as (v & <- & _). lia.
Qed.
Theorem int32_carrier8 : forall l, Forall (fun e => 0 <= e < 256) l -> int32_to_bytes8 l = l /\ int32_to_elems8 l = l.
Proof.
  intros l H. unfold int32_to_bytes8, int32_to_elems8. split; (eapply map_id_on; [|exact H]); intros e He; cbn in He; lia.
Qed.
(* 4-bit tensors (INT4, UINT4, FLOAT4E2M1) and 2-bit tensors carried in int32_data are already packed: one byte per int32 *)
Theorem int32_carrier_packed4 : forall l, Forall (fun e => 0 <= e < 16) l ->
  unpack4 (length l) (int32_to_bytes8 (pack4 l)) = l.
Proof. intros l H. destruct (int32_carrier8 (pack4 l) (pack4_bytes l)) as [E _]. rewrite E. apply unpack4_pack4; assumption. Qed.

Example enc16_example : enc16 [32705; 1] = [193; 127; 1; 0] /\ dec16 [193; 127; 1; 0] = [32705; 1] /\ int32_to_bytes16 [-1] = [255; 255].
Proof. repeat split; reflexivity. Qed.

Example pack4_odd_example : pack4 [1; 15; 7] = [241; 7] /\ unpack4 3 [241; 7] = [1; 15; 7]
  /\ map sext4 (unpack4 3 (pack4 [-8; -1; 7])) = [-8; -1; 7].
Proof. repeat split; reflexivity. Qed.
