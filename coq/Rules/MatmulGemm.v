(* Models of (C05)
   _matmul_add_to_gemm.py    Add(MatMul(a|a^T, b|b^T), c) -> Gemm(a, b, c; transA, transB)
   _gemm_to_matmul_add.py    Reshape(Gemm(Reshape(a, sa), b, c; alpha=1, beta=1), sc) -> Add(MatMul(a, b), c)
   _broadcast_to_matmul.py   Reshape(MatMul(Reshape(a, sa), Reshape(b, sb) | b), sc) -> MatMul(a, b)
   as shape arithmetic (dims are Z; a negative number stands for a named symbolic dim) plus an index-level model of
   MatMul / Transpose / Gemm.  No proofs in this file. *)
From Coq Require Import ZArith List Bool.
Import ListNotations.
Local Open Scope Z_scope.

(* ---------------------------------------------------------------- broadcasting *)
(* numpy / ONNX multidirectional broadcast of reversed shapes (innermost dim first) *)
Fixpoint bcast_rev (a b : list Z) : option (list Z) :=
  match a, b with
  | [], l | l, [] => Some l
  | x :: a', y :: b' =>
      match bcast_rev a' b' with
      | None => None
      | Some r => if x =? y then Some (x :: r) else if x =? 1 then Some (y :: r) else if y =? 1 then Some (x :: r) else None
      end
  end.
Definition bcast (a b : list Z) : option (list Z) := option_map (@rev Z) (bcast_rev (rev a) (rev b)).

(* unidirectional: c can be broadcast TO target (what Gemm demands of C with target [M; N]) *)
Fixpoint unidir_rev (c target : list Z) : bool :=
  match c, target with
  | [], _ => true
  | _ :: _, [] => false
  | x :: c', y :: t' => ((x =? 1) || (x =? y)) && unidir_rev c' t'
  end.
Definition unidir (c target : list Z) : bool := unidir_rev (rev c) (rev target).

(* ---------------------------------------------------------------- MatMulAddToGemm *)
Record mg_params := {
  mg_rank_a : option nat; mg_rank_b : option nat;     (* statically known ranks of input_a / input_b (before the Transpose) *)
  mg_m : Z; mg_n : Z;                                 (* rows of op(a), columns of op(b) *)
  mg_c : option (list Z)                              (* static shape of input_c, if known *)
}.
(* _MatMulAddToGemmBase.check as read *)
Definition mg_check_impl (p : mg_params) : bool :=
  match mg_rank_a p, mg_rank_b p with Some 2%nat, Some 2%nat => true | _, _ => false end.
(* repaired: c must be broadcastable to (M, N) *)
Definition mg_check_fixed (p : mg_params) : bool :=
  mg_check_impl p && match mg_c p with Some c => unidir c [mg_m p; mg_n p] | None => false end.
(* shape of Add(MatMul, c) *)
Definition mg_host_shape (p : mg_params) : option (list Z) :=
  match mg_c p with Some c => bcast [mg_m p; mg_n p] c | None => None end.

(* index-level semantics: matrices are total functions of (row, column) *)
Definition mat := Z -> Z -> Z.
Fixpoint sumk (k : nat) (f : Z -> Z) : Z := match k with O => 0 | S k' => sumk k' f + f (Z.of_nat k') end.
Definition matmul (K : nat) (a b : mat) : mat := fun i j => sumk K (fun k => a i k * b k j).
Definition tr (a : mat) : mat := fun i j => a j i.
Definition madd (a c : mat) : mat := fun i j => a i j + c i j.
(* ONNX Gemm: alpha * A' B' + beta * C with A' = transpose(A) if transA *)
Definition gemm (alpha beta : Z) (ta tb : bool) (K : nat) (a b c : mat) : mat :=
  fun i j => alpha * matmul K (if ta then tr a else a) (if tb then tr b else b) i j + beta * c i j.

(* ---------------------------------------------------------------- check_if_not_need_reshape (_broadcast_to_matmul.py) *)
Inductive operand := Vec (k : Z) | Mat (batch_rev : list Z) (r c : Z).
Definition decompose (s : list Z) : option operand :=
  match rev s with [] => None | [k] => Some (Vec k) | c :: r :: b => Some (Mat b r c) end.

(* the zip loop over reversed batch dims (idx > 0) followed by the prefix of the longer shape:
   "if dim_from_a not in {1, dim_from_b}: return False ... max(dim_from_a, dim_from_b)" *)
Fixpoint zipb (A B : list Z) : option (list Z) :=
  match A, B with
  | [], l => Some l
  | l, [] => Some l
  | da :: A', db :: B' =>
      if (da =? 1) || (da =? db) then option_map (cons (Z.max da db)) (zipb A' B') else None
  end.

Fixpoint lz_eqb (a b : list Z) : bool :=
  match a, b with [], [] => true | x :: a', y :: b' => (x =? y) && lz_eqb a' b' | _, _ => false end.

(* result: None = the function raises (IndexError on a rank-0 operand); strict = repaired variant *)
Definition expected_shape (strict : bool) (sa sb : list Z) : option (option (list Z)) :=
  match decompose sa, decompose sb with
  | None, None | None, Some (Vec _) => Some None
  | None, Some (Mat _ _ _) => if strict then Some None else None
  | Some (Vec _), None => Some None
  | Some (Mat _ _ _), None => if strict then Some None else None
  | Some (Vec _), Some (Vec _) => Some None
  | Some (Vec ka), Some (Mat B kb n) => Some (if ka =? kb then Some (rev B ++ [n]) else None)
  | Some (Mat A m ka), Some (Vec kb) => Some (if kb =? ka then Some (rev A ++ [m]) else None)
  | Some (Mat A m ka), Some (Mat B kb n) =>
      Some (if (if strict then ka =? kb else (ka =? 1) || (ka =? kb))
            then match zipb A B with Some o => Some (rev o ++ [m; n]) | None => None end
            else None)
  end.

Definition check_bcast (strict : bool) (sa sb sc : list Z) : option bool :=
  if existsb (fun d => d <? 0) (sa ++ sb) then Some false else     (* "Symbolic dimensions are not yet supported." *)
  match expected_shape strict sa sb with
  | None => None
  | Some None => Some false
  | Some (Some out) => Some (lz_eqb sc out)
  end.

(* ONNX / numpy MatMul output shape *)
Definition matmul_shape (sa sb : list Z) : option (list Z) :=
  match decompose sa, decompose sb with
  | Some (Vec ka), Some (Vec kb) => if ka =? kb then Some [] else None
  | Some (Vec ka), Some (Mat B kb n) => if ka =? kb then Some (rev B ++ [n]) else None
  | Some (Mat A m ka), Some (Vec kb) => if ka =? kb then Some (rev A ++ [m]) else None
  | Some (Mat A m ka), Some (Mat B kb n) =>
      if ka =? kb then match bcast_rev A B with Some o => Some (rev o ++ [m; n]) | None => None end else None
  | _, _ => None
  end.

(* ---------------------------------------------------------------- gemm_to_matmul_add: role of c *)
(* repaired extra conjunct: c (broadcastable to the flattened [M'; N] in the host) must also broadcast into the MatMul
   output [..., m, N], whose shape the check has established to be shape_c *)
Definition g2m_c_ok (c sc : list Z) : bool := unidir c sc.

(* ---------------------------------------------------------------- flat row-major matrices, for the reshape witness *)
Definition nthz (l : list Z) (i : Z) : Z := nth (Z.to_nat i) l 0.
(* (m x k) @ (k x n) on flat lists *)
Definition mm_flat (m k n : nat) (a b : list Z) : list Z :=
  flat_map (fun i => map (fun j => sumk k (fun t => nthz a (Z.of_nat i * Z.of_nat k + t) * nthz b (t * Z.of_nat n + Z.of_nat j)))
                         (seq 0 n)) (seq 0 m).
(* batched: b has `batch` matrices of k x n, a is a single (m x k) matrix broadcast over the batch *)
Definition bmm_flat (batch m k n : nat) (a b : list Z) : list Z :=
  flat_map (fun q => mm_flat m k n a (firstn (k * n) (skipn (q * (k * n)) b))) (seq 0 batch).

(* ---------------------------------------------------------------- correspondence helpers *)
Fixpoint idx_false {A} (f : A -> bool) (i : nat) (l : list A) : list nat :=
  match l with [] => [] | c :: t => (if f c then [] else [i]) ++ idx_false f (S i) t end.
Definition ob_eqb (a b : option bool) : bool :=
  match a, b with Some x, Some y => Bool.eqb x y | None, None => true | _, _ => false end.
(* (sa, sb, sc, observed) ; observed None = raised *)
Definition cb_case := (list Z * list Z * list Z * option bool)%type.
Definition cb_dis (strict : bool) (cs : list cb_case) : list nat :=
  idx_false (fun '(sa, sb, sc, obs) => ob_eqb (check_bcast strict sa sb sc) obs) 0 cs.
Definition mg_case := (mg_params * bool)%type.
Definition mg_dis (fixed : bool) (cs : list mg_case) : list nat :=
  idx_false (fun '(p, obs) => Bool.eqb ((if fixed then mg_check_fixed else mg_check_impl) p) obs) 0 cs.
(* gemm_to_matmul_add: (sa, sb, sc, c shape, Gemm has transA or transB set, observed fired?)
   as read: the pattern lets extra attributes through and the condition never looks at the Gemm node *)
Definition g2m_case := (list Z * list Z * list Z * list Z * bool * bool)%type.
Definition g2m_rule (fixed : bool) (sa sb sc c : list Z) (trans : bool) : bool :=
  match check_bcast fixed sa sb sc with
  | Some true => if fixed then g2m_c_ok c sc && negb trans else true
  | _ => false
  end.
Definition g2m_dis (fixed : bool) (cs : list g2m_case) : list nat :=
  idx_false (fun '(sa, sb, sc, c, trans, obs) => Bool.eqb (g2m_rule fixed sa sb sc c trans) obs) 0 cs.
