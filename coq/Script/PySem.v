(* The source of a script function read as ordinary Python control flow over tensors (DESIGN 3.4):
   one scope per function, if/else, for over range(n), while, a conditional break, return; every
   operator and every `op.X(...)` call denotes the ONNX operator it maps to (the kernel semantics `sem`
   is the same Section variable as in Graph/Sem.v); a Python scalar (literal) meeting a tensor operand
   is promoted to that operand's type with CastLike, per the operator's type variables.

   Values: a tensor, or a Python scalar together with the tensor its Constant denotes.
   What this reading does not define is an error (None), never a default value: arithmetic between two
   Python scalars, a scalar where a tensor is required by the control flow, an unbound name, a call whose
   kernel fails, running out of fuel.  No proofs in this file. *)
From Coq Require Import List String ZArith Bool.
Require Import OV.Graph.Syntax OV.Graph.Sem OV.Script.Syntax OV.Script.Sets OV.Gen.ScriptTables OV.Script.Translate.
Import ListNotations.
Local Open Scope string_scope.

Section PySem.
  Variable V : Type.
  Variable sem : string -> string -> list (string * attrv) -> list (option V) -> option (list V).
  Variable truth : V -> option bool.
  Variable trip : V -> option nat.
  Variable of_nat : nat -> V.
  Variable while_limit : nat.                       (* a while loop running longer than this is an error *)
  Variable globals : list (string * lit).

  Inductive pval :=
  | PT (v : V)                                      (* a tensor *)
  | PS (l : lit) (c : V).                           (* a Python scalar and the tensor `Constant(value=l)` denotes *)

  Definition penv := list (string * pval).

  Fixpoint plookup (e : penv) (x : string) : option pval :=
    match e with [] => None | (y, v) :: t => if String.eqb x y then Some v else plookup t x end.

  Definition tensor_of (p : pval) : V := match p with PT v => v | PS _ c => c end.
  Definition is_scalar (p : pval) : bool := match p with PT _ => false | PS _ _ => true end.

  Definition const_val (l : lit) : option V :=
    match sem "" "Constant" [("value", lit_attr l)] [] with Some [c] => Some c | _ => None end.

  Definition sem1 (dom op : string) (attrs : list (string * attrv)) (args : list (option V)) : option V :=
    match sem dom op attrs args with Some [r] => Some r | _ => None end.

  (* promotion of the scalar arguments of one operator call: the plan of autocast.cast_inputs *)
  Fixpoint promote_args (args : list (option pval)) (plan : list (option nat)) (all : list (option pval))
    : option (list (option V)) :=
    match args, plan with
    | a :: t, p :: pt =>
      match promote_args t pt all with
      | None => None
      | Some t' =>
        match a, p with
        | Some pv, Some j =>
          match nth j all None with
          | Some y => match sem1 "" "CastLike" [] [Some (tensor_of pv); Some (tensor_of y)] with
                      | Some r => Some (Some r :: t')
                      | None => None
                      end
          | None => Some (Some (tensor_of pv) :: t')
          end
        | Some pv, None => Some (Some (tensor_of pv) :: t')
        | None, _ => Some (None :: t')
        end
      end
    | [], _ => Some []
    | a :: t, [] => match promote_args t [] all with
                    | Some t' => Some (option_map tensor_of a :: t')
                    | None => None
                    end
    end.

  Definition all_scalars (args : list (option pval)) : bool :=
    forallb (fun a => match a with Some p => is_scalar p | None => true end) args.

  Definition promoted (op : string) (args : list (option pval)) : option (list (option V)) :=
    match lookup_assoc op op_typevars with
    | None => Some (map (option_map tensor_of) args)
    | Some tvs =>
      match cast_plan tvs (map (option_map is_scalar) args) with
      | None => None
      | Some plan => promote_args args plan args
      end
    end.

  Fixpoint eval_expr (env : penv) (e : expr) {struct e} : option pval :=
    match e with
    | EVar x =>
      match plookup env x with
      | Some v => Some v
      | None => match lookup_assoc x globals with
                | Some l => option_map (PS l) (const_val l)
                | None => None                           (* NameError *)
                end
      end
    | ELit l => option_map (PS l) (const_val l)
    | EUn op a =>
      match lookup_assoc op primop_map, eval_expr env a with
      | Some opname, Some (PT v) => option_map PT (sem1 "" opname [] [Some v])
      | _, _ => None                                      (* -k, not k on Python scalars: Python arithmetic, not modelled *)
      end
    | EBin op a b =>
      match lookup_assoc op primop_map, eval_expr env a, eval_expr env b with
      | Some opname, Some va, Some vb =>
        if is_scalar va && is_scalar vb then None         (* Python arithmetic on two scalars *)
        else
          let attrs := binop_attrs op b in
          match promoted opname [Some va; Some vb] with
          | Some args => option_map PT (sem1 "" opname attrs args)
          | None => None
          end
      | _, _, _ => None
      end
    | ECmp op a b =>
      match lookup_assoc op primop_map, eval_expr env a, eval_expr env b with
      | Some opname, Some va, Some vb =>
        if is_scalar va && is_scalar vb then None
        else if String.eqb opname "NotEqual" then
          match promoted "Equal" [Some va; Some vb] with
          | Some args => match sem1 "" "Equal" [] args with
                         | Some t => option_map PT (sem1 "" "Not" [] [Some t])
                         | None => None
                         end
          | None => None
          end
        else
          match promoted opname [Some va; Some vb] with
          | Some args => option_map PT (sem1 "" opname [] args)
          | None => None
          end
      | _, _, _ => None
      end
    | ECall f args kws =>
      match (fix go (l : list (option expr)) : option (list (option pval)) :=
               match l with
               | [] => Some []
               | None :: t => option_map (cons None) (go t)
               | Some a :: t => match eval_expr env a, go t with
                                | Some v, Some vs => Some (Some v :: vs)
                                | _, _ => None
                                end
               end) args with
      | None => None
      | Some vals =>
        match f with
        | COp name => match promoted name vals with
                      | Some args' => option_map PT (sem1 "" name (map kw_attr kws) args')
                      | None => None
                      end
        | CFun name => option_map PT (sem1 "this" name (map kw_attr kws) (map (option_map tensor_of) vals))
        end
      end
    end.

  (* a call with several results (tuple assignment) *)
  Definition eval_call_multi (env : penv) (e : expr) : option (list V) :=
    match e with
    | ECall f args kws =>
      match (fix go (l : list (option expr)) : option (list (option pval)) :=
               match l with
               | [] => Some []
               | None :: t => option_map (cons None) (go t)
               | Some a :: t => match eval_expr env a, go t with
                                | Some v, Some vs => Some (Some v :: vs)
                                | _, _ => None
                                end
               end) args with
      | None => None
      | Some vals =>
        match f with
        | COp name => match promoted name vals with
                      | Some args' => sem "" name (map kw_attr kws) args'
                      | None => None
                      end
        | CFun name => sem "this" name (map kw_attr kws) (map (option_map tensor_of) vals)
        end
      end
    | _ => None
    end.

  Fixpoint pbind (xs : list string) (vs : list V) (env : penv) : option penv :=
    match xs, vs with
    | [], [] => Some env
    | x :: xt, v :: vt => pbind xt vt ((x, PT v) :: env)
    | _, _ => None
    end.

  Definition ptruth (p : pval) : option bool :=
    match p with
    | PT v => truth v
    | PS (LBool b) _ => Some b
    | PS (LInt z) _ => Some (negb (Z.eqb z 0))
    | PS _ _ => None
    end.

  Definition ptrip (p : pval) : option nat :=
    match p with
    | PT v => trip v
    | PS (LInt z) _ => Some (Z.to_nat z)
    | PS _ _ => None
    end.

  Inductive outcome :=
  | ONormal (env : penv)
  | OBreak (env : penv)
  | OReturn (vs : list V).

  (* fuel bounds the nesting depth; loops recurse on their trip count / on while_limit *)
  Fixpoint exec_block (fuel : nat) (ss : list stmt) (env : penv) {struct fuel} : option outcome :=
    match fuel with
    | O => None
    | S fu =>
      let exec_stmt := fun (s : stmt) (env : penv) =>
        match s with
        | SAssign x e => match eval_expr env e with Some v => Some (ONormal ((x, v) :: env)) | None => None end
        | STuple xs e => match eval_call_multi env e with
                         | Some vs => option_map ONormal (pbind xs vs env)
                         | None => None
                         end
        | SReturn es =>
          match (fix go (l : list expr) : option (list V) :=
                   match l with
                   | [] => Some []
                   | e :: t => match eval_expr env e, go t with
                               | Some v, Some vs => Some (tensor_of v :: vs)
                               | _, _ => None
                               end
                   end) es with
          | Some vs => Some (OReturn vs)
          | None => None
          end
        | SBreak => Some (OBreak env)
        | SIf c t f =>
          match eval_expr env c with
          | Some vc => match ptruth vc with
                       | Some true => exec_block fu t env
                       | Some false => exec_block fu f env
                       | None => None
                       end
          | None => None
          end
        | SFor i bound body =>
          match eval_expr env bound with
          | Some vb =>
            match ptrip vb with
            | Some n =>
              (fix iter (k : nat) (j : nat) (env : penv) {struct k} : option outcome :=
                 match k with
                 | O => Some (ONormal env)
                 | S k' =>
                   match exec_block fu body ((i, PT (of_nat j)) :: env) with
                   | Some (ONormal env') => iter k' (S j) env'
                   | Some (OBreak env') => Some (ONormal env')
                   | Some (OReturn vs) => Some (OReturn vs)
                   | None => None
                   end
                 end) n 0 env
            | None => None
            end
          | None => None
          end
        | SWhile c body =>
          (fix iter (k : nat) (env : penv) {struct k} : option outcome :=
             match plookup env c with
             | Some vc =>
               match ptruth vc with
               | Some false => Some (ONormal env)
               | Some true =>
                 match k with
                 | O => None                              (* does not terminate within while_limit *)
                 | S k' =>
                   match exec_block fu body env with
                   | Some (ONormal env') => iter k' env'
                   | Some (OBreak env') => Some (ONormal env')
                   | Some (OReturn vs) => Some (OReturn vs)
                   | None => None
                   end
                 end
               | None => None
               end
             | None => None
             end) while_limit env
        end in
      (fix go (ss : list stmt) (env : penv) {struct ss} : option outcome :=
         match ss with
         | [] => Some (ONormal env)
         | s :: rest =>
           match exec_stmt s env with
           | Some (ONormal env') => go rest env'
           | Some o => Some o
           | None => None
           end
         end) ss env
    end.

  (* calling the function on tensors (attribute parameters are not part of this reading yet: S4) *)
  Definition eval_script (fuel : nat) (f : func) (xs : list V) : option (list V) :=
    match pbind (f_tparams f) xs [] with
    | Some env0 =>
      match exec_block fuel (f_body f) env0 with
      | Some (OReturn vs) => Some vs
      | _ => None                                          (* falling off the end returns None in Python: not a tensor *)
      end
    | None => None
    end.
End PySem.
