(* C10 -- model of onnxscript/version_converter/_version_converter.py (the native converter) and
   onnxscript/version_converter/__init__.py (pass with fallback, ModelProto wrapper).
   No proofs in this file.

   What is modelled (read from the Python, see the line references):
   * _VersionConverter.visit_graph_or_function (l.309-338): the graph is a work list; a node of the
     default domain is taken from its version (node.version or the model's default) one step at a
     time to the target; nodes created by an adapter are inserted *after* the current node and are
     therefore visited later by the same iteration (onnx_ir DoublyLinkedSet semantics), the replaced
     node keeps being stepped although it is detached ("ghost");
   * visit_node (l.285-307): adapter lookup by (op, from_version); replacement nodes are stamped
     to_version; no replacement -> subgraphs (attributes) visited, node.version = to_version;
   * the try/except of l.331-338: a VersionConverterError raised below visit_node (by the adapter or by
     a node inside a subgraph) is logged and the loop continues; any other exception, and the three
     VersionConverterErrors raised outside the try (no version / ref attribute / target below the
     node's version), abort the conversion and leave the state mutated so far;
   * visit_model (l.340-351): graph, then every function (stamped one by one), then the model;
   * convert_version (l.354-364): target range check;
   * _ConvertVersionPassRequiresInline.call and convert_version of __init__.py.
   Not modelled: value names / NameFixPass, metadata merging, the contents of initializers, the
   subgraphs of a *replaced* node (none of the registered adapters handles nodes with subgraphs). *)
From Coq Require Import ZArith List Bool String.
Import ListNotations.
Open Scope Z_scope.

(* ---------------------------------------------------------------- nodes *)
Inductive attrv :=
| AInt (z : Z) | AStr (s : string) | AInts (l : list Z) | AFlt (bits : Z) | AOther.

(* what an adapter can learn about one dimension of an input's shape *)
Inductive dimk := DMissing (* value has no shape *) | DSym (* symbolic / unknown dim *) | DStatic (z : Z).

Inductive node : Type :=
  Node (op : string)
       (dflt : bool)                       (* node.domain == "" *)
       (ver : option Z)                    (* node.version *)
       (ref : bool)                        (* any(attr.is_ref()) *)
       (attrs : list (string * attrv))     (* non-graph attributes, sorted by name *)
       (ins : list bool)                   (* one flag per input: is it present (not None) *)
       (shp : list dimk)                   (* [inputs[0].shape[1]; inputs[1].shape[0]; inputs[2].shape[0]] when asked for *)
       (subs : list node).                 (* nodes of the graph attributes, in attribute order *)

Definition n_op n := match n with Node o _ _ _ _ _ _ _ => o end.
Definition n_dflt n := match n with Node _ d _ _ _ _ _ _ => d end.
Definition n_ver n := match n with Node _ _ v _ _ _ _ _ => v end.
Definition n_ref n := match n with Node _ _ _ r _ _ _ _ => r end.
Definition n_attrs n := match n with Node _ _ _ _ a _ _ _ => a end.
Definition n_ins n := match n with Node _ _ _ _ _ i _ _ => i end.
Definition n_shp n := match n with Node _ _ _ _ _ _ s _ => s end.
Definition n_subs n := match n with Node _ _ _ _ _ _ _ s => s end.
Definition set_ver n v := match n with Node o d _ r a i s sb => Node o d (Some v) r a i s sb end.
Definition set_subs n sb := match n with Node o d v r a i s _ => Node o d v r a i s sb end.

(* ---------------------------------------------------------------- adapters *)
(* what calling registry.lookup_adapters(...)(node, ctx) does; "no adapter registered" = ANone *)
Inductive aresult :=
| ANone                         (* no adapter, or the adapter returned None *)
| ARaiseVCE                     (* adapter raised VersionConverterError *)
| ARaiseOther                   (* adapter raised anything else *)
| AReplace (news : list node).  (* adapter built replacement nodes *)

Definition adapter := string -> Z -> node -> aresult.

Inductive err :=
| ENoVersion | ERefAttr | EDowngrade          (* VersionConverterError raised outside the try *)
| EOther                                      (* an adapter's own exception *)
| EGhostReplace                               (* replacement of an already detached node: ValueError from insert_after *)
| EValueRange | EOpsetConflict                (* ValueError of convert_version / _get_onnx_opset_version *)
| ERefused                                    (* repaired variant only (Model2.v): VersionConverterError raised by the pre-check *)
| EOutOfFuel.                                 (* model artefact, excluded in every theorem *)

Definition is_vce (e : err) : bool :=
  match e with ENoVersion | ERefAttr | EDowngrade => true | _ => false end.

(* result of visiting one graph: the node list afterwards, and the ops for which a warning
   "Skipping version conversion for node ..." was logged *)
Inductive gres :=
| GFin (ns : list node) (log : list string)
| GAbort (e : err) (ns : list node) (log : list string).

Inductive sres :=
| SKept (n : node) (log : list string)
| SRepl (news : list node) (log : list string)
| SAbortKept (e : err) (n : node) (log : list string)
| SAbortRepl (e : err) (news : list node) (log : list string).

Definition g_cons (n : node) (l0 : list string) (r : gres) : gres :=
  match r with
  | GFin ns l => GFin (n :: ns) (l0 ++ l)
  | GAbort e ns l => GAbort e (n :: ns) (l0 ++ l)
  end.
Definition g_log (l0 : list string) (r : gres) : gres :=
  match r with
  | GFin ns l => GFin ns (l0 ++ l)
  | GAbort e ns l => GAbort e ns (l0 ++ l)
  end.

Section Conv.
  Variable adapt : adapter.
  Variable t : Z.                  (* target version *)
  Variable dv : option Z.          (* self._default_onnx_opset *)

  (* the detached node keeps being stepped by `for from_version in range(...)` *)
  Fixpoint ghost (n : node) (k : Z) (cnt : nat) (log : list string) : option err * list string :=
    match cnt with
    | O => (None, log)
    | S c =>
      match adapt (n_op n) k n with
      | ANone => ghost n (k + 1) c log
      | ARaiseVCE => ghost n (k + 1) c (log ++ [n_op n])
      | ARaiseOther => (Some EOther, log)
      | AReplace _ => (Some EGhostReplace, log)
      end
    end.

  Fixpoint conv (fuel : nat) (todo : list node) {struct fuel} : gres :=
    match fuel with
    | O => GAbort EOutOfFuel todo []
    | S f =>
      match todo with
      | [] => GFin [] []
      | n :: rest =>
        if negb (n_dflt n) then g_cons n [] (conv f rest)
        else
          match (match n_ver n with Some v => Some v | None => dv end) with
          | None => GAbort ENoVersion todo []
          | Some v =>
            if n_ref n then GAbort ERefAttr todo []
            else if t <? v then GAbort EDowngrade todo []
            else
              match steps f n v (Z.to_nat (t - v)) [] with
              | SKept n' l => g_cons n' l (conv f rest)
              | SRepl news l => g_log l (conv f (news ++ rest))
              | SAbortKept e n' l => GAbort e (n' :: rest) l
              | SAbortRepl e news l => GAbort e (news ++ rest) l
              end
          end
      end
    end
  with steps (fuel : nat) (n : node) (k : Z) (cnt : nat) (log : list string) {struct fuel} : sres :=
    match fuel with
    | O => SAbortKept EOutOfFuel n log
    | S f =>
      match cnt with
      | O => SKept n log
      | S c =>
        match adapt (n_op n) k n with
        | ANone =>
          match conv f (n_subs n) with
          | GFin sb l => steps f (set_ver (set_subs n sb) (k + 1)) (k + 1) c (log ++ l)
          | GAbort e sb l =>
            if is_vce e then steps f (set_subs n sb) (k + 1) c (log ++ l ++ [n_op n])
            else SAbortKept e (set_subs n sb) (log ++ l)
          end
        | ARaiseVCE => steps f n (k + 1) c (log ++ [n_op n])
        | ARaiseOther => SAbortKept EOther n log
        | AReplace news =>
          let news' := map (fun m => set_ver m (k + 1)) news in
          match ghost n (k + 1) c log with
          | (None, l) => SRepl news' l
          | (Some e, l) => SAbortRepl e news' l
          end
        end
      end
    end.
End Conv.

(* ---------------------------------------------------------------- models *)
Record func := Func { f_decl : option Z; f_ai : option Z; f_nodes : list node }.
Record model := Model {
  m_decl : option Z;        (* opset_imports[""] *)
  m_ai : option Z;          (* opset_imports["ai.onnx"] *)
  m_graph : list node;
  m_funcs : list func }.

Inductive mres :=
| MDone (M : model) (log : list string)
| MRaised (e : err) (M : model) (log : list string).

(* _get_onnx_opset_version *)
Definition default_version (M : model) : option (option Z) :=
  match m_decl M, m_ai M with
  | Some a, Some b => if a =? b then Some (Some a) else None
  | Some a, None => Some (Some a)
  | None, b => Some b
  end.

Section Native.
  Variable adapt : adapter.
  Variables smin smax : Z.         (* SUPPORTED_MIN_ONNX_OPSET, SUPPORTED_MAX_ONNX_OPSET *)
  Variable fuel : nat.

  (* functions are visited and stamped one after the other *)
  Fixpoint conv_funcs (t : Z) (dv : option Z) (fs : list func) : list func * option err * list string :=
    match fs with
    | [] => ([], None, [])
    | f :: rest =>
      match conv adapt t dv fuel (f_nodes f) with
      | GAbort e ns l => (Func (f_decl f) (f_ai f) ns :: rest, Some e, l)
      | GFin ns l =>
        let '(rest', e, l') := conv_funcs t dv rest in
        (Func (Some t) None ns :: rest', e, l ++ l')
      end
    end.

  Definition convert_native (M : model) (t : Z) : mres :=
    if (t >? smax) || (t <? smin) then MRaised EValueRange M []
    else
      match default_version M with
      | None => MRaised EOpsetConflict M []
      | Some dv =>
        match conv adapt t dv fuel (m_graph M) with
        | GAbort e g l => MRaised e (Model (m_decl M) (m_ai M) g (m_funcs M)) l
        | GFin g l =>
          match conv_funcs t dv (m_funcs M) with
          | (fs, Some e, l') => MRaised e (Model (m_decl M) (m_ai M) g fs) (l ++ l')
          | (fs, None, l') => MDone (Model (Some t) None g fs) (l ++ l')
          end
        end
      end.

  (* version_supported *)
  Definition supported (M : model) (t : Z) : bool :=
    match m_decl M with
    | None => true
    | Some c => (smin <=? c) && (c <=? t) && (t <=? smax)
    end.

  (* -------------------------------------------------------------- the pass and the proto wrapper *)
  (* oracles: what onnx_ir's passes and the ONNX C-API converter return (not modelled; measured) *)
  Variable inline : model -> model.            (* InlinePass; RemoveUnusedFunctions; RemoveUnusedOpsets *)
  Variable cleanup : model -> model.           (* RemoveUnusedNodes; RemoveUnusedFunctions; RemoveUnusedOpsets *)
  Variable capi : model -> Z -> option model.  (* call_onnx_api(onnx.version_converter.convert_version); None = raised *)

  Definition pass_convert (fallback : bool) (M : model) (t : Z) : mres :=
    let M1 := inline M in
    if (match m_decl M1 with Some c => c =? t | None => false end) then MDone (cleanup M1) []
    else if negb fallback || supported M1 t then
      match convert_native M1 t with
      | MDone M2 l => MDone (cleanup M2) l
      | MRaised e M2 l => MRaised e M2 l
      end
    else
      match capi M1 t with
      | None => MDone (cleanup M1) []          (* warning, "The model was not modified" *)
      | Some M2 =>                             (* model.graph = converted_model.graph: graph and its opset imports *)
        MDone (cleanup (Model (m_decl M2) (m_ai M2) (m_graph M2) (m_funcs M1))) []
      end.
End Native.

(* ---------------------------------------------------------------- ModelProto wrapper *)
(* A NodeProto has no version field: serialisation forgets node.version. *)
Fixpoint strip (n : node) : node :=
  match n with Node o d _ r a i s sb => Node o d None r a i s (map strip sb) end.
Definition strip_func (f : func) : func := Func (f_decl f) (f_ai f) (map strip (f_nodes f)).

(* the proto is the same record; its nodes carry no version *)
Definition of_proto (p : model) : model :=
  Model (m_decl p) (m_ai p) (map strip (m_graph p)) (map strip_func (m_funcs p)).

Inductive pres :=
| PDone (p : model) (log : list string)
| PRaised (e : err) (p : model).         (* exception before the copy-back: proto untouched *)

(* __init__.convert_version on a ModelProto.  copy_imports = false is the code as it stands
   (graph.Clear(); del functions[:]; graph.CopyFrom(...)); true is the repaired wrapper which also
   copies opset_import and functions back. *)
Definition proto_convert (copy_imports : bool) (pass : model -> Z -> mres) (p : model) (t : Z) : pres :=
  match pass (of_proto p) t with
  | MRaised e _ _ => PRaised e p
  | MDone M l =>
    if copy_imports
    then PDone (Model (m_decl M) (m_ai M) (map strip (m_graph M)) (map strip_func (m_funcs M))) l
    else PDone (Model (m_decl p) (m_ai p) (map strip (m_graph M)) []) l
  end.

(* ---------------------------------------------------------------- consistency predicates (computable) *)
Definition oz_is (v : option Z) (t : Z) : bool := match v with Some x => x =? t | None => false end.
Definition oz_none_or (v : option Z) (t : Z) : bool := match v with Some x => x =? t | None => true end.

(* every default-domain node (recursively, under default-domain nodes) runs at version t:
   explicit node.version = t, or no version (then the enclosing model's import decides) *)
Fixpoint at_version (t : Z) (n : node) : bool :=
  match n with
  | Node _ d v _ _ _ _ sb => negb d || (oz_none_or v t && forallb (at_version t) sb)
  end.

Definition func_at (t : Z) (f : func) : bool :=
  oz_is (f_decl f) t && oz_none_or (f_ai f) t && forallb (at_version t) (f_nodes f).

(* "declares opset t for the default domain consistently (model, functions and nodes)" *)
Definition consistent_at (t : Z) (M : model) : bool :=
  oz_is (m_decl M) t && oz_none_or (m_ai M) t && forallb (at_version t) (m_graph M) && forallb (func_at t) (m_funcs M).

(* equality on nodes, ignoring shp (an input of adapters only) -- used by the correspondence *)
Definition attrv_eqb (a b : attrv) : bool :=
  match a, b with
  | AInt x, AInt y => x =? y
  | AStr x, AStr y => String.eqb x y
  | AInts x, AInts y => (Nat.eqb (List.length x) (List.length y)) && forallb (fun p => fst p =? snd p) (combine x y)
  | AFlt x, AFlt y => x =? y
  | AOther, AOther => true
  | _, _ => false
  end.
Definition oz_eqb (a b : option Z) : bool :=
  match a, b with Some x, Some y => x =? y | None, None => true | _, _ => false end.
Fixpoint list_eqb {A} (eq : A -> A -> bool) (x y : list A) : bool :=
  match x, y with
  | [], [] => true
  | a :: x', b :: y' => eq a b && list_eqb eq x' y'
  | _, _ => false
  end.
Fixpoint node_eqb (a b : node) {struct a} : bool :=
  match a, b with
  | Node o d v r at_ i _ sb, Node o' d' v' r' at' i' _ sb' =>
    String.eqb o o' && Bool.eqb d d' && oz_eqb v v' && Bool.eqb r r'
    && list_eqb (fun p q => String.eqb (fst p) (fst q) && attrv_eqb (snd p) (snd q)) at_ at'
    && list_eqb Bool.eqb i i'
    && (fix go (x : list node) (y : list node) : bool :=
          match x, y with
          | [], [] => true
          | p :: x', q :: y' => node_eqb p q && go x' y'
          | _, _ => false
          end) sb sb'
  end.
Definition func_eqb (a b : func) : bool :=
  oz_eqb (f_decl a) (f_decl b) && oz_eqb (f_ai a) (f_ai b) && list_eqb node_eqb (f_nodes a) (f_nodes b).
Definition model_eqb (a b : model) : bool :=
  oz_eqb (m_decl a) (m_decl b) && oz_eqb (m_ai a) (m_ai b) && list_eqb node_eqb (m_graph a) (m_graph b)
  && list_eqb func_eqb (m_funcs a) (m_funcs b).
