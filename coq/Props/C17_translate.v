(* C17 property theorems, part 2: inheritance along the extracted class chain, and "opsetN.Op denotes the same
   schema in eager mode and in translation" on the translation side.
   Statements only, each closed by `exact`, Print Assumptions beneath.
   Models: Registry/OpsetInherit.v, Registry/OpsetTranslate.v; general proofs: Registry/OpsetInheritProofs.v,
   Registry/OpsetTranslateProofs.v; regenerated instance: Registry/OpsetInheritGen.v. *)
From Coq Require Import List String ZArith Bool.
Import ListNotations.
Require Import OV.Registry.OpsetMethod OV.Registry.OpsetMethodProofs OV.Registry.OpsetEmit OV.Registry.OpsetEmitProofs
               OV.Registry.OpsetChain OV.Registry.OpsetChainProofs OV.Registry.OpsetGen
               OV.Registry.OpsetInherit OV.Registry.OpsetInheritProofs
               OV.Registry.OpsetTranslate OV.Registry.OpsetTranslateProofs OV.Registry.OpsetInheritGen.
Local Open Scope string_scope.

(* Python attribute lookup on a class = the nearest definition along its method resolution order. *)
Theorem C17_static_lookup_is_nearest_definition : forall cs c op l, mro_of cs c = Some l ->
  static_lookup cs c op = option_map snd (defining l op) /\
  forall d m, defining l op = Some (d, m) ->
    exists pre post, l = (pre ++ d :: post)%list /\
      (forall k, In k pre -> lookup_in (c_methods k) op = None) /\ lookup_in (c_methods d) op = Some m.
Proof. exact (fun cs c op l H => conj (static_lookup_defining cs c op l H) (defining_spec l op)). Qed.
Print Assumptions C17_static_lookup_is_nearest_definition.

(* General: for every registry with unique (name, domain, since_version) and every set of classes passing the
   computable inheritance test, the method opsetN.Op resolves to is defined in the class whose version is the
   since_version of get_schema(Op, N, domain), no nearer class re-defines it, it names exactly that schema, and
   when OpsetN does not define Op itself the supplying class is a proper ancestor. *)
Theorem C17_inheritance_test_sound : forall reg cs, inherit_ok reg cs = true -> uniq_keysb reg = true ->
  forall c, In c cs -> forall op s, dyn_getitem reg c op = Some s ->
    (covered c = true -> exists m, static_lookup cs c op = Some m) /\
    forall m, static_lookup cs c op = Some m ->
      exists l pre d post, mro_of cs c = Some l /\ l = (pre ++ d :: post)%list /\
        (forall k, In k pre -> lookup_in (c_methods k) op = None) /\
        lookup_in (c_methods d) op = Some m /\
        c_domain d = c_domain c /\ c_version d = s_since s /\ m_since m = s_since s /\
        static_schema reg m = Some s /\
        (lookup_in (c_methods c) op = None -> exists pre', pre = c :: pre').
Proof. exact inherit_sound. Qed.
Print Assumptions C17_inheritance_test_sound.

(* ON THE CODE AS IT IS NOW (33 classes with base classes and own methods extracted from the Python ast, incl.
   ai.onnx.ml 1..5 and ai.onnx.preview 1; onnx.defs as installed): for every (Op, N) that onnx.defs resolves, the
   method resolution order of OpsetN -- the classes of versions N, N-1, ..., 1 of the domain -- supplies Op from
   the class of version since_version(get_schema(Op, N)); that is |pre| classes up the chain, no nearer class
   defines Op, the method names exactly that schema; and an operator NOT re-defined at N is inherited from a
   proper ancestor whose version is the schema's since_version < N. *)
Theorem C17_inherited_method_resolves_to_schema : forall c, In c gen_classes ->
  forall op s, dyn_getitem gen_schemas c op = Some s ->
    (covered c = true -> exists m, static_lookup gen_classes c op = Some m) /\
    forall m, static_lookup gen_classes c op = Some m ->
      exists l pre d post, mro_of gen_classes c = Some l /\ l = (pre ++ d :: post)%list /\
        (forall k, In k pre -> lookup_in (c_methods k) op = None) /\
        lookup_in (c_methods d) op = Some m /\
        c_domain d = c_domain c /\ c_version d = s_since s /\ m_since m = s_since s /\
        static_schema gen_schemas m = Some s /\
        c_version d = (c_version c - Z.of_nat (List.length pre))%Z /\
        (lookup_in (c_methods c) op = None -> (s_since s < c_version c)%Z /\ exists pre', pre = c :: pre').
Proof. exact gen_inherited_method_resolves. Qed.
Print Assumptions C17_inherited_method_resolves_to_schema.

Theorem C17_inheritance_test_passes :
  inherit_ok gen_schemas gen_classes = true /\ chains_shape_ok gen_classes = true /\ uniq_keysb gen_schemas = true.
Proof. exact (conj gen_inherit_ok (conj gen_chains_shape gen_uniq_keys)). Qed.
Print Assumptions C17_inheritance_test_passes.

(* TRANSLATION.  `opsetN.Op(...)` is translated to a node (domain of opsetN, "Op"); inside a proto that imports N
   for that domain the node denotes get_schema(Op, N, domain) -- and so does the generated method visible on
   opsetN, own or inherited, which mirrors that schema (method_ok): same schema in eager mode and in translation. *)
Theorem C17_translated_node_denotes_method_schema : forall ex reg cs, registry_ok ex reg cs = true ->
  forall c, In c cs -> forall op m, static_lookup cs c op = Some m ->
  forall imp, assoc (c_domain c) imp = Some (c_version c) ->
  exists s, node_schema reg imp (translate_call c op) = Some s /\ dyn_getitem reg c op = Some s /\
            (ex s = false -> static_schema reg m = Some s /\ mirrors m s).
Proof. exact translated_call_denotes_method_schema. Qed.
Print Assumptions C17_translated_node_denotes_method_schema.

(* ... on the regenerated data *)
Theorem C17_translated_node_denotes_method_schema_generated : forall c, In c gen_classes ->
  forall op m, static_lookup gen_classes c op = Some m ->
  forall imp, assoc (c_domain c) imp = Some (c_version c) ->
  exists s, node_schema gen_schemas imp (translate_call c op) = Some s /\ dyn_getitem gen_schemas c op = Some s /\
            (gen_exempt s = false -> static_schema gen_schemas m = Some s /\ mirrors m s).
Proof. exact gen_translated_call. Qed.
Print Assumptions C17_translated_node_denotes_method_schema_generated.

(* Under the import of ANOTHER version N' the same node denotes get_schema(Op, N', domain): a different schema
   than the method's as soon as the operator changed between the two versions. *)
Theorem C17_translated_node_under_other_version : forall ex reg cs, registry_ok ex reg cs = true ->
  forall c, In c cs -> forall op m s, static_lookup cs c op = Some m -> dyn_getitem reg c op = Some s -> ex s = false ->
  forall imp N', assoc (c_domain c) imp = Some N' ->
    node_schema reg imp (translate_call c op) = resolve reg op N' (c_domain c) /\
    static_schema reg m = Some s /\
    forall s', resolve reg op N' (c_domain c) = Some s' -> s_since s' <> s_since s ->
      node_schema reg imp (translate_call c op) <> static_schema reg m.
Proof. exact translated_call_under_other_version. Qed.
Print Assumptions C17_translated_node_under_other_version.

(* Function bodies (converter as read: two versions of the standard domain refused, first node of a domain fixes
   the import): every standard-domain call of an accepted body denotes its method's schema. *)
Theorem C17_accepted_body_standard_calls_resolve : forall ex reg cs, registry_ok ex reg cs = true ->
  forall calls nodes imp, translate_body calls = Some (nodes, imp) ->
  forall c op m, In (c, op) calls -> In c cs -> c_domain c = "" -> static_lookup cs c op = Some m ->
    exists s, node_schema reg imp (translate_call c op) = Some s /\
              (ex s = false -> static_schema reg m = Some s /\ mirrors m s).
Proof. exact standard_calls_resolve. Qed.
Print Assumptions C17_accepted_body_standard_calls_resolve.

(* The full statement -- EVERY call of an accepted body, whatever its domain -- is false of the converter as
   read: two versions of ai.onnx.ml in one function are accepted (UserWarning only), the proto imports the first
   one (witness in the shape of LabelEncoder; replayed on the real converter by the harness, finding
   C17:translation:mixed-opset-versions-accepted:ai.onnx.ml). *)
Definition C17_accepted_body_every_call_resolves_full : Prop :=
  forall reg cs, registry_ok no_exemption reg cs = true ->
  forall calls nodes imp, translate_body calls = Some (nodes, imp) ->
  forall c op m s, In (c, op) calls -> In c cs -> static_lookup cs c op = Some m -> static_schema reg m = Some s ->
    node_schema reg imp (translate_call c op) = Some s.

Theorem C17_accepted_body_every_call_resolves_refuted : exists reg cs calls nodes imp c op m s,
  registry_ok no_exemption reg cs = true /\ translate_body calls = Some (nodes, imp) /\
  In (c, op) calls /\ In c cs /\ static_lookup cs c op = Some m /\ static_schema reg m = Some s /\
  node_schema reg imp (translate_call c op) <> Some s.
Proof. exact mixed_nonstandard_versions_refuted. Qed.
Print Assumptions C17_accepted_body_every_call_resolves_refuted.

(* Repaired (two versions of ANY domain refused): every call of an accepted body denotes its method's schema;
   the witness body above is then refused. *)
Theorem C17_strict_refusal_every_call_resolves : forall ex reg cs, registry_ok ex reg cs = true ->
  forall calls nodes imp, translate_body_strict calls = Some (nodes, imp) ->
  forall c op m, In (c, op) calls -> In c cs -> static_lookup cs c op = Some m ->
    exists s, node_schema reg imp (translate_call c op) = Some s /\
              (ex s = false -> static_schema reg m = Some s /\ mirrors m s).
Proof. exact strict_calls_resolve. Qed.
Print Assumptions C17_strict_refusal_every_call_resolves.

Theorem C17_strict_refusal_rejects_witness :
  translate_body_strict ex_ml_body = None /\ translate_body ex_ml_body <> None.
Proof. exact ex_ml_body_refused_strict. Qed.
Print Assumptions C17_strict_refusal_rejects_witness.

(* The hypotheses are satisfiable: a body using one opset object is always accepted (both refusal rules). *)
Theorem C17_single_opset_body_accepted : forall c ops, exists nodes imp,
  translate_body (map (pair c) ops) = Some (nodes, imp) /\ translate_body_strict (map (pair c) ops) = Some (nodes, imp).
Proof. exact single_class_accepted. Qed.
Print Assumptions C17_single_opset_body_accepted.

(* The (domain, operator, k1 < k2) pairs between which a schema changed, enumerated from the registry, are
   complete -- any two opset versions that resolve an operator differently are listed -- and sound. *)
Theorem schema_changed_pairs_complete : forall reg name dom N1 N2 s1 s2,
  resolve reg name N1 dom = Some s1 -> resolve reg name N2 dom = Some s2 ->
  (s_since s1 < s_since s2)%Z ->
  In (dom, name, s_since s1, s_since s2) (changed_pairs reg).
Proof. exact OpsetTranslateProofs.schema_changed_pairs_complete. Qed.
Print Assumptions schema_changed_pairs_complete.

Theorem C17_schema_changed_pairs_sound : forall reg d n k1 k2, uniq_keysb reg = true ->
  In (d, n, k1, k2) (changed_pairs reg) ->
  (k1 < k2)%Z /\ exists s1 s2, resolve reg n k1 d = Some s1 /\ resolve reg n k2 d = Some s2 /\
                               s_since s1 = k1 /\ s_since s2 = k2 /\ s1 <> s2.
Proof. exact schema_changed_pairs_sound. Qed.
Print Assumptions C17_schema_changed_pairs_sound.

Theorem C17_schema_changed_pairs_generated : forall name dom N1 N2 s1 s2,
  resolve gen_schemas name N1 dom = Some s1 -> resolve gen_schemas name N2 dom = Some s2 ->
  (s_since s1 < s_since s2)%Z -> In (dom, name, s_since s1, s_since s2) gen_changed_pairs.
Proof. exact gen_changed_pairs_complete. Qed.
Print Assumptions C17_schema_changed_pairs_generated.

(* Operators that do not exist at version 1 of their domain: the list is complete, and for each the two lookups
   of the history tests have the stated outcome (miss just below the first version, hit at it). *)
Theorem C17_late_ops_complete : forall reg s, In s reg -> (1 < s_since s)%Z ->
  (forall s', In s' reg -> s_name s' = s_name s -> s_domain s' = s_domain s -> (s_since s <= s_since s')%Z) ->
  In (s_domain s, s_name s, s_since s) (late_ops reg).
Proof. exact late_ops_complete. Qed.
Print Assumptions C17_late_ops_complete.

Theorem C17_late_op_miss_then_hit : forall d n k, In (d, n, k) gen_late_ops ->
  (1 < k)%Z /\ resolve gen_schemas n (k - 1) d = None /\ exists s, resolve gen_schemas n k d = Some s /\ s_since s = k.
Proof. exact gen_late_ops_histories. Qed.
Print Assumptions C17_late_op_miss_then_hit.
