(* C07 model: onnx_ir.passes.common.NameFixPass as the rewriter runs it after rewriting.  The pass renames value OBJECTS
   (every use follows the object), graph inputs and outputs first.  Over the token graphs of OV.Rewrite.Apply (a token IS
   the object) its effect is: the final names are an injective, capture-free relabelling of the tokens of the node
   outputs; graph inputs, subgraph inputs and initializers keep their names.  namefix rn g is that relabelling
   (OV.Builder.Inline.clone_graph with the identity on inputs, no attribute substitution).  No proofs in this file. *)
From Coq Require Import List String Bool.
Require Import OV.Graph.Syntax OV.Builder.Inline OV.Rewrite.Apply.
Import ListNotations.
Local Open Scope string_scope.
Local Open Scope list_scope.

Definition namefix (rn : vname -> vname) (g : graph) : graph := clone_graph same rn [] [] g.

(* the relabelling given by a finite table (token, final name); a token without entry keeps its name *)
Definition rn_of (pairs : list (vname * vname)) : vname -> vname := assoc pairs.

(* executable conditions: no reference attributes to resolve (omit_graph [] [] g = g), the relabelling is injective and
   capture-free on g where vis are the names visible from outside (initializers, enclosing scopes), and it leaves the
   names of the graph outputs alone *)
Definition namefix_okb (rn : vname -> vname) (vis : list vname) (g : graph) : bool :=
  OV.Rewrite.Apply.graph_eqb (omit_graph [] [] g) g && ok_graph same rn [] vis [] g &&
  OV.Rewrite.Apply.list_eqb String.eqb (g_outs (namefix rn g)) (g_outs g).
