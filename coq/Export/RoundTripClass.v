(* Which exported functions satisfy the hypotheses of C13_roundtrip_sound_partial that come from C01's converter theorem
   (class pre_ok, return expressions, distinct parameters, the converter model accepts the function): evaluated by
   harness/c13_cf.py on every program of the nested correspondence, with no module constants, no constant `if`
   conditions, the converter model's own set orders and the analysis fuel C01's harness uses.  No proofs. *)
From Coq Require Import List String Bool Arith ZArith.
Require Import OV.Graph.Syntax OV.Script.Syntax OV.Script.Sets OV.Gen.Analysis OV.Script.AnalysisAux OV.Script.Translate
               OV.Script.Corr OV.Script.ClassCorr OV.Script.TranslateProofs OV.Script.TranslateNestDefs OV.Export.Emit.
Import ListNotations.

(* -> (in the class of the converter theorem with / without "every value is a condition", the converter model accepts) *)
Definition rt_class (m : option (func * list string)) : bool * bool * bool :=
  match m with
  | Some (f, _) =>
    let cic := cic_of (f_body f) [] in
    let afuel := fuel_of (f_body f) in
    match split_ret (f_body f) with
    | Some (pre, es) =>
      let side := forallb expr_ok es && OV.Graph.Syntax.nodupb (f_tparams f) in
      (pre_ok [] cic afuel false 11 pre [SReturn es] [] && side,
       pre_ok [] cic afuel true 11 pre [SReturn es] [] && side,
       match translate false [] cic afuel [] f with Some _ => true | None => false end)
    | None => (false, false, false)
    end
  | None => (false, false, false)
  end.
