"""C19 helper: a tiny graph builder plus execution / inspection utilities.

Everything here builds plain onnx protos (no onnxscript involved) so that the instance that is
handed to the real fusion functions is fully determined by the parameters listed in the evidence.
"""
from __future__ import annotations

import numpy as np
import onnx
from onnx import TensorProto as TP
from onnx import helper, numpy_helper

NP = {"float32": np.float32, "float16": np.float16, "float64": np.float64, "int32": np.int32, "int64": np.int64}
TPT = {"float32": TP.FLOAT, "float16": TP.FLOAT16, "float64": TP.DOUBLE, "int32": TP.INT32, "int64": TP.INT64,
       "bool": TP.BOOL}
MS = "com.microsoft"


class G:
    """Accumulates nodes; values are plain strings."""

    def __init__(self, opset=18, ir_version=10):
        self.nodes = []
        self.inputs = []
        self.outputs = []
        self.inits = []
        self.vinfo = []
        self.opset = opset
        self.ir_version = ir_version
        self.n = 0
        self.feeds_spec = {}    # name -> (dtype, shape)

    def fresh(self, base="v"):
        self.n += 1
        return f"{base}{self.n}"

    def inp(self, name, dtype, shape, feed_shape=None):
        self.inputs.append(helper.make_tensor_value_info(name, TPT[dtype], shape))
        self.feeds_spec[name] = (dtype, tuple(feed_shape if feed_shape is not None else shape))
        return name

    def out(self, name, dtype, shape):
        self.outputs.append(helper.make_tensor_value_info(name, TPT[dtype], shape))
        return name

    def const(self, value, dtype, name=None, as_node=False):
        name = name or self.fresh("c")
        arr = np.array(value, dtype=NP[dtype])
        if as_node:
            self.nodes.append(helper.make_node("Constant", [], [name], value=numpy_helper.from_array(arr, name)))
        else:
            self.inits.append(numpy_helper.from_array(arr, name))
        return name

    def op(self, op_type, ins, n_out=1, domain="", out=None, **attrs):
        outs = out if out is not None else [self.fresh(op_type.lower()[:4]) for _ in range(n_out)]
        if isinstance(outs, str):
            outs = [outs]
        self.nodes.append(helper.make_node(op_type, list(ins), outs, domain=domain, **attrs))
        return outs[0] if len(outs) == 1 else outs

    def info(self, name, dtype, shape):
        self.vinfo.append(helper.make_tensor_value_info(name, TPT[dtype], shape))

    def model(self, infer=True, check=True):
        g = helper.make_graph(self.nodes, "g", self.inputs, self.outputs, initializer=self.inits, value_info=self.vinfo)
        m = helper.make_model(g, opset_imports=[helper.make_opsetid("", self.opset), helper.make_opsetid(MS, 1)],
                              ir_version=self.ir_version)
        if infer:
            m = onnx.shape_inference.infer_shapes(m, data_prop=True)
        if check:
            try:
                onnx.checker.check_model(m)
            except onnx.checker.ValidationError as e:
                # ORT-only ops (SimplifiedLayerNormalization, contrib ops): unknown to the checker / to shape inference
                ort_only = any(n.domain not in ("", "ai.onnx") or n.op_type == "SimplifiedLayerNormalization" for n in m.graph.node)
                if not ort_only:
                    raise
        return m


def feeds_for(g, rng_np, scale=1.0, int_high=4):
    feeds = {}
    for name, (dtype, shape) in g.feeds_spec.items():
        if dtype.startswith("float"):
            feeds[name] = np.asarray(rng_np.standard_normal(shape) * scale).astype(NP[dtype])
        elif dtype == "bool":
            feeds[name] = np.asarray(rng_np.integers(0, 2, shape)).astype(bool)
        else:
            feeds[name] = np.asarray(rng_np.integers(0, int_high, shape)).astype(NP[dtype])
    return feeds


_SESS_OPTS = None


def ort_run(model_proto, feeds):
    import onnxruntime as ort
    global _SESS_OPTS
    if _SESS_OPTS is None:
        so = ort.SessionOptions()
        so.graph_optimization_level = ort.GraphOptimizationLevel.ORT_DISABLE_ALL
        so.log_severity_level = 4
        so.intra_op_num_threads = 1
        so.inter_op_num_threads = 1
        _SESS_OPTS = so
    sess = ort.InferenceSession(model_proto.SerializeToString(), _SESS_OPTS, providers=["CPUExecutionProvider"])
    return sess.run(None, feeds)


TOL = {"float32": (1e-4, 1e-5), "float16": (1e-2, 1e-3), "float64": (1e-7, 1e-9)}


def close(a, b, dtype_hint=None, slack=1.0):
    """Outputs equal within the dtype's tolerance; NaN/inf positions must coincide; dtype and shape must match."""
    if len(a) != len(b):
        return False, "different number of outputs"
    for i, (x, y) in enumerate(zip(a, b)):
        x = np.asarray(x)
        y = np.asarray(y)
        if x.dtype != y.dtype:
            return False, f"output {i}: dtype {x.dtype} vs {y.dtype}"
        if x.shape != y.shape:
            return False, f"output {i}: shape {x.shape} vs {y.shape}"
        if x.dtype.kind != "f":
            if not np.array_equal(x, y):
                return False, f"output {i}: values differ"
            continue
        rtol, atol = TOL.get(str(x.dtype), (1e-4, 1e-5))
        rtol *= slack
        atol *= slack
        # absolute tolerance relative to the magnitude of the tensor (fused kernels accumulate differently)
        mag = float(np.max(np.abs(x[np.isfinite(x)]))) if np.isfinite(x).any() else 1.0
        if not np.allclose(x.astype(np.float64), y.astype(np.float64), rtol=rtol, atol=atol * max(1.0, mag), equal_nan=True):
            d = np.abs(x.astype(np.float64) - y.astype(np.float64))
            return False, f"output {i}: max abs diff {np.nanmax(d):.4g} (magnitude {mag:.3g})"
    return True, ""


def nodes_of(model_proto):
    """[(domain, op_type, {attr: value}, inputs, outputs)] skipping Constant nodes."""
    res = []
    for n in model_proto.graph.node:
        if n.op_type == "Constant":
            continue
        attrs = {}
        for a in n.attribute:
            v = helper.get_attribute_value(a)
            if isinstance(v, bytes):
                v = v.decode()
            elif isinstance(v, onnx.TensorProto):
                v = numpy_helper.to_array(v).tolist()
            elif not isinstance(v, (int, float, str)):
                try:
                    v = list(v)
                except TypeError:
                    v = str(v)
            attrs[a.name] = v
        res.append((n.domain, n.op_type, attrs, list(n.input), list(n.output)))
    return res


def ops_of(model_proto):
    return [(d + "::" if d else "") + t for d, t, _, _, _ in nodes_of(model_proto)]


def find(model_proto, op_type, domain=None):
    return [x for x in nodes_of(model_proto) if x[1] == op_type and (domain is None or x[0] == domain)]


def apply_ir(model_proto, fn, **kw):
    """Apply an in-place fusion function `fn(ir.Model) -> count` to a copy; returns (new proto, count)."""
    import onnx_ir as ir
    m = ir.serde.deserialize_model(model_proto)
    cnt = fn(m, **kw)
    return ir.serde.serialize_model(m), cnt
