"""C04 family `rewrite-new-domain`: rewrite rules whose replacement introduces an operator of a domain the rewritten
container does not import yet, applied through onnxscript.rewriter.rewrite / RewriteRuleSet.apply_to_model / RewritePass
(NOT optimize(): that inlines every model-local function first), on hosts where the match sits
  (a) in the main graph,                      (b) in an If / Loop body (nested up to three times) of the main graph,
  (c) directly in a model-local function,     (d) in an If / Loop body (nested up to three times) of a model-local function,
the function being called once, twice, through another function, or also containing a direct match.
C04 text: "every domain used has an opset import", the result passes the checker.  The container that is SERIALIZED with a node
decides: the model's opset_import for the main graph and everything nested in it, the function's opset_import for a function
body and everything nested in it.  Verified with Graph/Wf.v imports_ok evaluated in Coq on the real result (model and every
function, recursively through subgraphs), onnx.checker, the declared signature, wf_graphb, and onnxruntime where every
operator of the result has a kernel (MatMul -> com.microsoft::FusedMatMul).
"""
from __future__ import annotations

import base64
import collections
import itertools

import numpy as np
import onnx
from onnx import TensorProto, helper, numpy_helper

from harness import c03_run as R
from harness import graphlit
from harness.common import clist, parse_nat_list

F = TensorProto.FLOAT
PATHS = [(), ("If_then",), ("If_else",), ("Loop",), ("If_then", "If_else"), ("If_else", "Loop"), ("Loop", "If_then"), ("Loop", "Loop"),
         ("If_then", "If_then", "If_else"), ("If_else", "Loop", "If_then")]
CONTAINERS = ["main", "fn", "fn-called-twice", "fn-in-fn", "fn-and-direct"]
RULESETS = ["matmul", "abs", "both"]
PREIMPORT = ["none", "model"]
ENTRIES = ["rewrite(proto)", "rewrite(ir)", "RewriteRuleSet.apply_to_model", "RewritePass"]
NEW_DOMAINS = {"matmul": ["com.microsoft"], "abs": ["verif.custom"], "both": ["com.microsoft", "verif.custom"]}


# ------------------------------------------------------------------------------------------------------------ rules
def make_rules(which):
    from onnxscript.rewriter import pattern
    rules = []
    # family `rewrite-existing-value`: the replacement RETURNS a value that exists already (written as `return x`)
    for w in which.split("+"):
        if w == "negneg":
            rules.append(pattern.RewriteRule(lambda op, x: op.Neg(op.Neg(x)), lambda op, x: x, name="NegNegToX"))
        elif w == "identity":
            rules.append(pattern.RewriteRule(lambda op, x: op.Identity(x), lambda op, x: x, name="IdentityToX"))
        elif w == "addzero":
            rules.append(pattern.RewriteRule(lambda op, x: op.Add(x, 0.0), lambda op, x: x, name="AddZeroToX"))
    if which in ("matmul", "both"):
        rules.append(pattern.RewriteRule(lambda op, a, b: op.MatMul(a, b),
                                         lambda op, a, b: op.FusedMatMul(a, b, _domain="com.microsoft", _version=1), name="MatMulToFusedMatMul"))
    if which in ("abs", "both"):
        rules.append(pattern.RewriteRule(lambda op, x: op.Abs(x), lambda op, x: op.VerifAbs(x, _domain="verif.custom", _version=1),
                                         name="AbsToVerifAbs"))
    return rules


# ------------------------------------------------------------------------------------------------------------ hosts
def _core(which, a, b, tag):
    """the nodes that contain the match: t = OP(a [, b])"""
    if which == "matmul":
        return [helper.make_node("MatMul", [a, b], [f"t{tag}"])], f"t{tag}"
    if which == "abs":
        return [helper.make_node("Abs", [a], [f"t{tag}"])], f"t{tag}"
    return [helper.make_node("MatMul", [a, b], [f"m{tag}"]), helper.make_node("Abs", [f"m{tag}"], [f"t{tag}"])], f"t{tag}"


def _vi(name, shape=(2, 3), t=F):
    return helper.make_tensor_value_info(name, t, list(shape))


def build_nodes(which, path, a, b, c, tag=""):
    """nodes of the current graph computing a [2,3] float value from `a` with the match at the end of `path`; b and c are read from
    the enclosing scopes by name.  -> (nodes, output name)"""
    if not path:
        return _core(which, a, b, tag)
    head, rest = path[0], path[1:]
    d = f"{tag}_{len(path)}"
    if head.startswith("If"):
        inner, out = build_nodes(which, rest, a, b, c, d)
        hit = helper.make_graph(inner, f"hit{d}", [], [_vi(out)])
        other = helper.make_graph([helper.make_node("Identity", [a], [f"e{d}"])], f"other{d}", [], [_vi(f"e{d}")])
        then_g, else_g = (hit, other) if head == "If_then" else (other, hit)
        return [helper.make_node("If", [c], [f"r{d}"], then_branch=then_g, else_branch=else_g)], f"r{d}"
    # Loop: two iterations, the carried value starts at `a`
    inner, out = build_nodes(which, rest, f"v{d}", b, c, d)
    body = helper.make_graph(inner + [helper.make_node("Identity", [f"ci{d}"], [f"co{d}"])], f"body{d}",
                             [_vi(f"i{d}", (), TensorProto.INT64), _vi(f"ci{d}", (), TensorProto.BOOL), _vi(f"v{d}")],
                             [_vi(f"co{d}", (), TensorProto.BOOL), _vi(out)])
    return [helper.make_node("Constant", [], [f"trip{d}"], value=numpy_helper.from_array(np.array(2, dtype=np.int64), f"trip{d}")),
            helper.make_node("Loop", [f"trip{d}", "", a], [f"r{d}"], body=body)], f"r{d}"


def build_host(which, path, container, preimport, ir_version=8):
    imports = [helper.make_opsetid("", 18)]
    if preimport == "model":
        imports += [helper.make_opsetid(d, 1) for d in NEW_DOMAINS[which]]
    bw = numpy_helper.from_array(np.array([[1, 2, 3], [4, 5, 6], [7, 8, 10]], dtype=np.float32), "b")
    ins = [_vi("c", (), TensorProto.BOOL), _vi("a")]
    functions = []
    if container == "main":
        nodes, out = build_nodes(which, path, "a", "b", "c")
        nodes.append(helper.make_node("Identity", [out], ["r"]))
    else:
        imports.append(helper.make_opsetid("local", 1))
        fnodes, fout = build_nodes(which, path, "fa", "fb", "fc", "f")
        if container == "fn-and-direct":
            dn, dout = _core(which, fout, "fb", "fd")
            fnodes, fout = fnodes + dn, dout
        fnodes.append(helper.make_node("Identity", [fout], ["fr"]))
        functions.append(helper.make_function("local", "host_fn", ["fc", "fa", "fb"], ["fr"], fnodes, [helper.make_opsetid("", 18)]))
        callee = "host_fn"
        if container == "fn-in-fn":
            functions.append(helper.make_function("local", "outer_fn", ["oc", "oa", "ob"], ["or"],
                                                  [helper.make_node("host_fn", ["oc", "oa", "ob"], ["ot"], domain="local"),
                                                   helper.make_node("Neg", ["ot"], ["or"])],
                                                  [helper.make_opsetid("", 18), helper.make_opsetid("local", 1)]))
            callee = "outer_fn"
        nodes = [helper.make_node(callee, ["c", "a", "b"], ["r0"], domain="local")]
        if container == "fn-called-twice":
            nodes.append(helper.make_node(callee, ["c", "r0", "b"], ["r1"], domain="local"))
            nodes.append(helper.make_node("Identity", ["r1"], ["r"]))
        else:
            nodes.append(helper.make_node("Identity", ["r0"], ["r"]))
    g = helper.make_graph(nodes, "host", ins, [_vi("r")], initializer=[bw])
    m = helper.make_model(g, opset_imports=imports, ir_version=ir_version, functions=functions)
    return m


FEEDS = [{"c": np.array(True), "a": np.array([[1.0, -2.0, 3.0], [0.5, 0.25, -1.0]], dtype=np.float32)},
         {"c": np.array(False), "a": np.array([[1.0, -2.0, 3.0], [0.5, 0.25, -1.0]], dtype=np.float32)},
         {"c": np.array(True), "a": np.zeros((2, 3), dtype=np.float32)}]


def apply(entry, model_proto, which):
    """-> (ModelProto, count or None)"""
    import onnx_ir as ir
    from onnxscript import rewriter
    from onnxscript.rewriter import pattern
    m = onnx.ModelProto()
    m.CopyFrom(model_proto)
    rules = make_rules(which)
    if entry == "rewrite(proto)":
        return rewriter.rewrite(m, pattern_rewrite_rules=rules), None
    mi = ir.serde.deserialize_model(m)
    if entry == "rewrite(ir)":
        return ir.serde.serialize_model(rewriter.rewrite(mi, pattern_rewrite_rules=rules)), None
    if entry == "RewriteRuleSet.apply_to_model":
        n = pattern.RewriteRuleSet(rules).apply_to_model(mi)
        return ir.serde.serialize_model(mi), n
    if entry == "RewritePass":
        res = rewriter.RewritePass(rules)(mi)
        return ir.serde.serialize_model(res.model), None
    raise ValueError(entry)


# ------------------------------------------------------------------------------------------------------------ observations
def used_domains(nodes, acc=None):
    acc = set() if acc is None else acc
    for n in nodes:
        acc.add("" if n.domain == "ai.onnx" else n.domain)
        for a in n.attribute:
            if a.type == onnx.AttributeProto.GRAPH:
                used_domains(a.g.node, acc)
            elif a.type == onnx.AttributeProto.GRAPHS:
                for g in a.graphs:
                    used_domains(g.node, acc)
    return acc


def op_types(nodes, acc=None):
    acc = [] if acc is None else acc
    for n in nodes:
        acc.append((n.domain, n.op_type))
        for a in n.attribute:
            if a.type == onnx.AttributeProto.GRAPH:
                op_types(a.g.node, acc)
    return acc


def containers_missing(m):
    """[(container, [domains used there without an import in the container that is serialized for them])]"""
    res = []
    imp = {("" if o.domain == "ai.onnx" else o.domain) for o in m.opset_import}
    miss = sorted(used_domains(m.graph.node) - imp)
    if miss:
        res.append(("model", miss))
    for f in m.functions:
        fimp = {("" if o.domain == "ai.onnx" else o.domain) for o in f.opset_import}
        miss = sorted(used_domains(f.node) - fimp)
        if miss:
            res.append((f"function {f.domain}::{f.name}", miss))
    return res


def where_class(container, path):
    host = "main" if container == "main" else "function"
    return f"{host}-{'body' if not path else 'subgraph'}"


def replay_doc(which, path, container, preimport, entry, host, extra=None, family="rewrite-new-domain"):
    d = {"family": family, "rules": which, "path": list(path), "container": container, "preimport": preimport,
         "entry": entry, "model_b64": base64.b64encode(host.SerializeToString()).decode(), "feeds": R.feeds_json(FEEDS)}
    if extra:
        d.update(extra)
    return d


def replay(doc):
    r = doc["replay"]
    m = onnx.ModelProto()
    m.ParseFromString(base64.b64decode(r["model_b64"]))
    print("property", doc["property"], "key", doc["key"])
    print(onnx.printer.to_text(m)[:3000])
    try:
        m2, _ = apply(r["entry"], m, r["rules"])
    except Exception as e:
        print("entry raised:", R.root_cause(e))
        return 1
    print("--- after", r["entry"], "rules", r["rules"])
    print(onnx.printer.to_text(m2)[:3000])
    rc = 0
    for cont, miss in containers_missing(m2):
        print(f"  {cont}: domains used without an opset import: {miss}")
        rc = 1
    try:
        onnx.checker.check_model(m2, full_check=r.get("family") == "rewrite-existing-value")
    except Exception as e:
        print("  checker:", str(e)[:300])
        rc = 1
    if r.get("family") == "rewrite-existing-value":
        d = R.signature_diff(m, m2)
        if d is not None:
            print("  signature:", d[1])
            rc = 1
        from harness import c03_check
        ins = {i.name for i in m.graph.input}
        feeds = [{k: a for k, a in fd.items() if k in ins} for fd in c03_check.feeds_from_json(r["feeds"])]
        s0, o0 = R.run_ort(m, feeds)
        s2, o2 = R.run_ort(m2, feeds)
        print("  onnxruntime original:", s0, "result:", s2 if s2 == "ok" else o2)
        if s0 == "ok" and (s2 != "ok" or any(R.compare_outputs(a, b, None) is not None for a, b in zip(o0, o2))):
            print("  outputs differ")
            rc = 1
    return rc


def plan(rng, quick):
    combos = list(itertools.product(PATHS, CONTAINERS))
    res = []
    k = rng.randrange(24)
    for path, cont in combos:
        # every (path, container) in every run; rules / preimport / entry cycle through their products (coverage of each value
        # is guaranteed), offset by the seed
        n = 1 if quick else 6
        for _ in range(n):
            which = RULESETS[k % 3]
            pre = PREIMPORT[(k // 3) % 2] if k % 5 else "none"
            entry = ENTRIES[(k // 6 + k) % 4]
            res.append((which, path, cont, pre, entry))
            k += 1
    # the seeded class in all four entries, whatever the cycle gave
    for entry in ENTRIES:
        res.append(("matmul", ("If_then",), "fn", "none", entry))
        res.append(("abs", ("Loop", "If_then"), "fn", "none", entry))
    seen, out = set(), []
    for p in res:
        if p not in seen:
            seen.add(p)
            out.append(p)
    return out


def run_family(ctx, quick):
    """returns the statistics; violations / ties are reported through ctx"""
    stats = collections.Counter()
    coq_cases = []
    ort_ok_hosts = {}
    for which, path, cont, pre, entry in plan(ctx.rng, quick):
        ir_version = 8 if (len(path) + len(cont)) % 2 else 10
        host = build_host(which, path, cont, pre, ir_version)
        hk = (which, path, cont, pre, ir_version)
        if hk not in ort_ok_hosts:
            try:
                onnx.checker.check_model(host, full_check=True)
                s0, o0 = R.run_ort(host, FEEDS)
            except Exception as e:
                s0, o0 = "err", f"checker: {e}"
            ort_ok_hosts[hk] = (s0, o0)
        s0, o0 = ort_ok_hosts[hk]
        if s0 != "ok":
            ctx.tie_broken("harness", "rewrite-new-domain:host-invalid", f"{hk}: {str(o0)[:300]}")
            stats["host-invalid"] += 1
            continue
        stats["runs"] += 1
        wc = where_class(cont, path)
        doc = lambda extra=None: replay_doc(which, path, cont, pre, entry, host, extra)  # noqa: E731
        try:
            m2, count = apply(entry, host, which)
        except Exception as e:
            t, site, msg = R.root_cause(e)
            ctx.violation(f"C04:raises:{t}:{site}", f"{entry} with a rule introducing a new domain ({which}) raised {t} at {site}: {msg}", doc())
            stats["raised"] += 1
            continue
        ops = op_types(m2.graph.node)
        for f in m2.functions:
            op_types(f.node, ops)
        want_gone = {"matmul": ["MatMul"], "abs": ["Abs"], "both": ["MatMul", "Abs"]}[which]
        fired = not any(("", o) in ops for o in want_gone) and any(d in NEW_DOMAINS[which] for d, _ in ops)
        if not fired:
            # totality / progress is C07's; here the family would be vacuous
            stats["rule-did-not-fire"] += 1
            ctx.tie_broken("harness", "rewrite-new-domain:rule-did-not-fire", f"{(which, path, cont, pre, entry)}: ops after = {ops[:12]}")
            continue
        stats["fired"] += 1
        stats[f"fired-in:{wc}"] += 1
        stats[f"entry:{entry}"] += 1
        stats[f"depth:{len(path)}"] += 1
        ctx.case(("rewrite-new-domain", which, path, cont, pre, entry))
        missing = containers_missing(m2)
        bad = False
        try:
            onnx.checker.check_model(m2)
            chk = None
        except Exception as e:
            chk = str(e)
        d = R.signature_diff(host, m2)
        if d is not None:
            ctx.violation(f"C04:signature:{d[0]}:rewrite-new-domain", f"{entry}: {d[1]}", doc({"signature": d[1]}))
            stats["violations"] += 1
        if missing:
            bad = True
            ctx.violation(f"C04:opset-import-missing:rewrite:{wc}",
                          f"{entry} (rules {which}, match at {'/'.join(path) or 'top level'} of {cont}): " +
                          "; ".join(f"{c} uses {ms} without an opset import" for c, ms in missing) +
                          (f"; onnx.checker: {chk.splitlines()[0][:120]}" if chk else ""), doc({"missing": missing, "checker": (chk or "")[:300]}))
            stats["violations"] += 1
        elif chk is not None:
            bad = True
            ctx.violation(f"C04:checker:rewrite-new-domain:{wc}:{chk.splitlines()[0][:60]}", f"{entry}: result fails onnx.checker: {chk[:200]}",
                          doc({"checker": chk[:300]}))
            stats["violations"] += 1
        # onnxruntime, when every operator of the result has a kernel
        if which == "matmul" and not bad:
            s2, o2 = R.run_ort(m2, FEEDS)
            stats["ort-compared"] += 1
            if s2 != "ok":
                ctx.violation(f"C04:result-not-loadable:rewrite-new-domain:{wc}", f"{entry}: onnxruntime rejects the result: {str(o2)[:200]}", doc())
                stats["violations"] += 1
            else:
                for x, y in zip(o0, o2):
                    dd = R.compare_outputs(x, y, None)
                    if dd is not None:
                        ctx.violation(f"C04:result-differs:rewrite-new-domain:{wc}", f"{entry}: {dd}", doc())
                        stats["violations"] += 1
                        break
        coq_cases.append(((which, path, cont, pre, entry), host, m2, bool(missing)))
    eval_in_coq(ctx, coq_cases, stats)
    return stats


def _model_terms(m):
    """(imports literal, graph literal) of the model and of every function"""
    terms = [(graphlit.imports_lit(m.opset_import), graphlit.graph_lit(m.graph))]
    for f in m.functions:
        terms.append((graphlit.imports_lit(f.opset_import), graphlit.function_lit(f)))
    return terms


def eval_in_coq(ctx, cases, stats, fam="rewrite-new-domain", docf=None, wf_known=None):
    """imports_ok (per container) and wf_graphb (per container) in Coq on the host and on the real result"""
    if not cases:
        return
    replay_doc = docf or globals()["replay_doc"]
    for start in range(0, len(cases), 150):
        chunk = cases[start:start + 150]
        defs = []
        for i, (_k, host, m2, _pm) in enumerate(chunk):
            h = clist([f"({im}, {g})" for im, g in _model_terms(host)])
            r = clist([f"({im}, {g})" for im, g in _model_terms(m2)])
            defs.append(f"Definition h_{i} : list (list string * graph) := {h}.\nDefinition r_{i} : list (list string * graph) := {r}.\n")
        body = "".join(defs)
        body += ("Definition imp (l : list (list string * graph)) : bool := forallb (fun p => imports_ok (fst p) (snd p)) l.\n"
                 "Definition wf (l : list (list string * graph)) : bool := forallb (fun p => wf_graphb (snd p)) l.\n"
                 "Fixpoint bad (f : list (list string * graph) -> bool) (i : nat) (l : list (list (list string * graph) * list (list string * graph))) : list nat := "
                 "match l with [] => [] | (a, b) :: t => (if f a && negb (f b) then [i] else []) ++ bad f (S i) t end.\n")
        lst = clist([f"(h_{i}, r_{i})" for i in range(len(chunk))])
        body += f"Eval vm_compute in (bad imp 0 {lst}).\nEval vm_compute in (bad wf 0 {lst}).\n"
        body += f"Eval vm_compute in (List.length (filter (fun p => imp (fst p) && wf (fst p)) {lst})).\n"
        ok, vals, raw = ctx.coq_eval(["OV.Graph.Syntax", "OV.Graph.Wf"], body, timeout=600, name="rwimports")
        if not ok or len(vals) < 3:
            ctx.tie_broken("checker", f"imports_ok:{fam}:evaluation", raw[-1000:])
            return
        import re
        stats["coq-evaluated"] += len(chunk)
        stats["coq-host-imports-and-wf-true"] += int(re.sub(r"%\w+", "", vals[2]).strip())
        bad_imp = set(parse_nat_list(vals[0]))
        for i, (k, host, m2, py_missing) in enumerate(chunk):
            which, path, cont, pre, entry = k
            wc = where_class(cont, path)
            if (i in bad_imp) != py_missing:
                # the verified checker and the Python walk disagree about the same result
                if i in bad_imp:
                    ctx.violation(f"C04:opset-import-missing:rewrite:{wc}", f"{entry} (rules {which}): imports_ok (Graph/Wf.v) holds for every container "
                                  "of the host and fails for a container of the result", replay_doc(which, path, cont, pre, entry, host))
                    stats["violations"] += 1
                else:
                    ctx.tie_broken("checker", f"imports_ok:{fam}:python-walk-disagrees", f"{k}")
            elif i in bad_imp:
                stats["coq-confirmed-missing-import"] += 1
        for i in parse_nat_list(vals[1]):
            which, path, cont, pre, entry = chunk[i][0]
            if wf_known and (start + i) in wf_known:
                # the verified checker agrees with onnx.checker about a result that is reported under a known key already
                ctx.violation(wf_known[start + i], f"{entry} (rules {which}): wf_graphb (Graph/Wf.v) holds for every container of the host and not for the result",
                              replay_doc(which, path, cont, pre, entry, chunk[i][1]))
                stats["coq-wf_graphb-confirms-known"] += 1
                continue
            ctx.violation(f"C04:wf_graphb:{fam}:{where_class(cont, path)}",
                          f"{entry} (rules {which}): wf_graphb holds for every container of the host and not for the result",
                          replay_doc(which, path, cont, pre, entry, chunk[i][1]))
            stats["violations"] += 1


# ------------------------------------------------------------------------------------------------------------ family `rewrite-existing-value`
# User rules whose replacement returns a value that EXISTS already (Neg(Neg(x)) -> x, Identity(x) -> x, Add(x, 0) -> x written as `return x`), on
# hosts where the pattern output is a graph output / an interior value / a graph output that is also read, and x is a graph input / an
# initializer / an initializer that is also a graph input / another graph output / an interior value; in the main graph and in an If branch
# (x captured from the main graph, pattern output = the branch's output).  When the pattern output is a graph output and x has a fixed name,
# RewriteRule.try_rewrite keeps both names by a forwarding Identity (and declines when the match IS that Identity).  C04 text: the call
# returns (totality), the result passes the checker, names / order / element types of the declared inputs and outputs are kept; onnxruntime
# returns the same numbers.
XV_RULES = ["negneg", "identity", "addzero"]
XV_X = ["graph-input", "initializer", "initializer-input", "graph-output", "interior"]
XV_OUT = ["graph-output", "interior", "graph-output-and-read"]
XV_FEEDS = [{"c": np.array(True), "x": np.array([1.0, -2.0, 3.5], dtype=np.float32), "a": np.array([0.5, 4.0, -1.0], dtype=np.float32)},
            {"c": np.array(False), "x": np.array([-0.0, 7.0, -8.25], dtype=np.float32), "a": np.array([2.0, 2.0, 2.0], dtype=np.float32)},
            {"c": np.array(True), "x": np.zeros(3, dtype=np.float32), "a": np.array([-3.0, 0.0, 1e6], dtype=np.float32)}]


def xv_pattern_nodes(rule, v, p, tag=""):
    """(nodes, initializers) computing p from v with the shape the rule matches"""
    if rule == "negneg":
        return [helper.make_node("Neg", [v], [f"t{tag}"]), helper.make_node("Neg", [f"t{tag}"], [p])], []
    if rule == "identity":
        return [helper.make_node("Identity", [v], [p])], []
    zero = numpy_helper.from_array(np.array(0, dtype=np.float32), f"zero{tag}")
    return [helper.make_node("Add", [v, f"zero{tag}"], [p])], [zero]


def xv_host(rule, xk, ok, where, flip):
    vi = lambda n, s=(3,), t=F: helper.make_tensor_value_info(n, t, list(s))  # noqa: E731
    ins = [vi("x"), vi("a")]
    inits, nodes, outs = [], [], []
    if xk == "graph-input":
        v = "x"
    elif xk in ("initializer", "initializer-input"):
        inits.append(numpy_helper.from_array(np.array([1.0, -2.0, 3.0], dtype=np.float32), "w"))
        v = "w"
        if xk == "initializer-input":
            ins.append(vi("w"))
    elif xk == "graph-output":
        nodes.append(helper.make_node("Add", ["x", "a"], ["s"]))
        outs.append(vi("s"))
        v = "s"
    else:
        nodes.append(helper.make_node("Relu", ["x"], ["u"]))
        v = "u"
    if xk != "graph-output":
        nodes.append(helper.make_node("Mul", ["x", "a"], ["k"]))
        outs.append(vi("k"))
    if where == "main":
        p = "p" if ok == "interior" else "y"
        pn, pi = xv_pattern_nodes(rule, v, p)
        nodes += pn
        inits += pi
        if ok == "interior":
            nodes.append(helper.make_node("Sub", ["p", "a"], ["y"]))
        outs.append(vi("y"))
        if ok == "graph-output-and-read":
            nodes.append(helper.make_node("Mul", ["y", "a"], ["q"]))
            outs.append(vi("q"))
    else:
        ins.insert(0, vi("c", (), TensorProto.BOOL))
        pn, pi = xv_pattern_nodes(rule, v, "bo", "_b")      # the zero of Add(x, 0) is an initializer of the main graph, captured by the branch
        inits += pi
        tb = helper.make_graph(pn, "tb", [], [vi("bo")])
        eb = helper.make_graph([helper.make_node("Abs", [v], ["eo"])], "eb", [], [vi("eo")])
        if where == "if-else":
            tb, eb = eb, tb
        nodes.append(helper.make_node("If", ["c"], ["y"], then_branch=tb, else_branch=eb))
        outs.append(vi("y"))
    if flip:
        outs.reverse()
    g = helper.make_graph(nodes, "xvhost", ins, outs, initializer=inits)
    return helper.make_model(g, opset_imports=[helper.make_opsetid("", 18)], ir_version=8 if not flip else 10), v


def xv_plan(rng, quick):
    hosts = [(r, xk, ok, "main") for r in XV_RULES for xk in XV_X for ok in XV_OUT]
    hosts += [(r, xk, "graph-output", w) for r in XV_RULES for xk in XV_X if xk != "initializer-input" for w in ("if-then", "if-else")]
    res = []
    k = rng.randrange(4)
    for h in hosts:
        for j in range(1 if quick else 4):
            res.append(h + (ENTRIES[(k + j) % 4],))
        k += 1
    # the forwarding-Identity class (pattern output is a graph output, x has a fixed name) in all four entries
    for r in ("negneg", "addzero"):
        for xk in ("graph-input", "initializer", "graph-output"):
            for e in ENTRIES:
                res.append((r, xk, "graph-output", "main", e))
    seen, out = set(), []
    for p in res:
        if p not in seen:
            seen.add(p)
            out.append(p)
    return out


def _count_ops(m, ops):
    return sum(1 for _d, o in op_types(m.graph.node) if o in ops)


def run_existing_value_family(ctx, quick):
    stats = collections.Counter()
    coq_cases = []
    wf_known = {}
    base = {}
    fam = "rewrite-existing-value"
    for rule, xk, ok, where, entry in xv_plan(ctx.rng, quick):
        flip = (len(rule) + len(xk) + len(ok)) % 2 == 1
        host, v = xv_host(rule, xk, ok, where, flip)
        feeds = [{k: a for k, a in fd.items() if k != "c" or where != "main"} for fd in XV_FEEDS]
        hk = (rule, xk, ok, where)
        if hk not in base:
            try:
                onnx.checker.check_model(host, full_check=True)
                base[hk] = R.run_ort(host, feeds)
            except Exception as e:
                base[hk] = ("err", f"checker: {e}")
        s0, o0 = base[hk]
        if s0 != "ok":
            ctx.tie_broken("harness", f"{fam}:host-invalid", f"{hk}: {str(o0)[:300]}")
            stats["host-invalid"] += 1
            continue
        stats["runs"] += 1
        path = () if where == "main" else ("If_then" if where == "if-then" else "If_else",)
        doc = lambda extra=None: replay_doc(rule, path, f"x={xk},out={ok}", "none", entry, host,  # noqa: E731
                                            dict({"feeds": R.feeds_json(feeds)}, **(extra or {})), family=fam)
        cls = f"x={xk}:out={ok}:{where}"
        try:
            m2, _count = apply(entry, host, rule)
        except Exception as e:
            t, site, msg = R.root_cause(e)
            ctx.violation(f"C04:raises:{t}:{site}", f"{entry} with the user rule {rule} (replacement returns the existing value x; {cls}) raised {t} at {site}: {msg}", doc())
            stats["raised"] += 1
            stats["violations"] += 1
            continue
        pat_ops = {"negneg": ["Neg"], "identity": ["Identity"], "addzero": ["Add"]}[rule]
        before, after = _count_ops(host, pat_ops), _count_ops(m2, pat_ops)
        fixed = xk != "interior"
        # Identity(x) -> x where the matched Identity IS the node that has to stay between two interface names (or, once the known finding
        # ...:replacement-returns-outer-scope-value is repaired, between a branch output and a value of the enclosing graph): declined
        declined_by_design = rule == "identity" and ok != "interior" and (fixed or where != "main")
        fired = after < before
        forwarded = any(n.op_type == "Identity" and list(n.input) == [v] for n in _nodes_deep_proto(m2.graph)) and rule != "identity"
        if not fired and not declined_by_design:
            stats["rule-did-not-fire"] += 1
            ctx.tie_broken("harness", f"{fam}:rule-did-not-fire", f"{(rule, xk, ok, where, entry)}: ops after = {op_types(m2.graph.node)[:12]}")
            continue
        stats["fired"] += int(fired)
        stats["declined-the-match-is-the-forwarding-Identity"] += int(not fired)
        stats["forwarding-Identity-inserted"] += int(forwarded)
        stats[f"entry:{entry}"] += 1
        stats[f"x:{xk}"] += 1
        stats[f"out:{ok}:{where}"] += 1
        ctx.case((fam, rule, xk, ok, where, entry))
        bad = False
        try:
            onnx.checker.check_model(m2, full_check=True)
        except Exception as e:
            bad = True
            chk = str(e)
            if where != "main" and xk == "interior" and "is not an output of any node in graph" in chk:
                # known finding: the value returned by the replacement lives in the ENCLOSING graph and takes the place of the branch's output
                ctx.violation("C04:rewrite:replacement-returns-outer-scope-value:subgraph-output-not-produced-in-subgraph",
                              f"{entry} (rule {rule}, {cls}): the branch's output is replaced by a value of the enclosing graph; onnx.checker: {chk[:160]}",
                              doc({"checker": chk[:300]}))
                stats["known:subgraph-output-is-outer-value"] += 1
                wf_known[len(coq_cases)] = "C04:rewrite:replacement-returns-outer-scope-value:subgraph-output-not-produced-in-subgraph"
                coq_cases.append(((rule, path, "main", "none", entry), host, m2, bool(containers_missing(m2))))
                continue
            ctx.violation(f"C04:checker:{fam}:{cls}:{chk.splitlines()[0][:60]}", f"{entry} (rule {rule}): result fails onnx.checker: {chk[:200]}", doc({"checker": chk[:300]}))
            stats["violations"] += 1
        d = R.signature_diff(host, m2)
        if d is not None:
            bad = True
            ctx.violation(f"C04:signature:{d[0]}:{fam}:{cls}", f"{entry} (rule {rule}): {d[1]}", doc({"signature": d[1]}))
            stats["violations"] += 1
        if not bad:
            s2, o2 = R.run_ort(m2, feeds)
            stats["ort-compared"] += 1
            if s2 != "ok":
                ctx.violation(f"C04:result-not-loadable:{fam}:{cls}", f"{entry} (rule {rule}): onnxruntime rejects the result: {str(o2)[:200]}", doc())
                stats["violations"] += 1
            else:
                for x, y in zip(o0, o2):
                    dd = R.compare_outputs(x, y, None)
                    if dd is not None:
                        ctx.violation(f"C04:result-differs:{fam}:{cls}", f"{entry} (rule {rule}): {dd}", doc())
                        stats["violations"] += 1
                        break
        coq_cases.append(((rule, path, "main", "none", entry), host, m2, bool(containers_missing(m2))))
    eval_in_coq(ctx, coq_cases, stats, fam=fam, wf_known=wf_known,
                docf=lambda which, path, cont, pre, entry, host, extra=None: replay_doc(which, path, cont, pre, entry, host,
                                                                                        dict({"feeds": R.feeds_json(XV_FEEDS)}, **(extra or {})), family=fam))
    return stats


def _nodes_deep_proto(g):
    for n in g.node:
        yield n
        for a in n.attribute:
            if a.type == onnx.AttributeProto.GRAPH:
                yield from _nodes_deep_proto(a.g)
