(* C17 -- the translation side (Registry/OpsetTranslate.v): a translated call `opsetN.Op(...)` placed in a proto
   that imports N for the opset's domain denotes the schema the generated method denotes; a function body is
   faithful exactly as far as no domain is used with two versions (the converter refuses that for the standard
   domain only); the enumeration of the version pairs between which a schema changed is complete. *)
From Coq Require Import List String ZArith Bool Lia.
Import ListNotations.
Require Import OV.Registry.OpsetMethod OV.Registry.OpsetMethodProofs OV.Registry.OpsetEmit OV.Registry.OpsetEmitProofs
               OV.Registry.OpsetChain OV.Registry.OpsetChainProofs OV.Registry.OpsetTranslate.
Local Open Scope string_scope.
Local Open Scope list_scope.

(* ------------------------------------------------------------------ changed pairs *)

Lemma changed_pairs_In : forall reg s1 s2, In s1 reg -> In s2 reg ->
  s_name s2 = s_name s1 -> s_domain s2 = s_domain s1 -> (s_since s1 < s_since s2)%Z ->
  In (s_domain s1, s_name s1, s_since s1, s_since s2) (changed_pairs reg).
Proof.
  intros reg s1 s2 I1 I2 E1 E2 L. unfold changed_pairs. apply in_flat_map. exists s1. split; auto.
  unfold changed_from. apply in_flat_map. exists s2. split; auto.
  unfold same_op. rewrite E1, E2, !String.eqb_refl. cbn [andb].
  destruct (Z.ltb_spec (s_since s1) (s_since s2)); [left; auto|lia].
Qed.

(* COMPLETE: whenever two versions of an opset domain resolve an operator to schemas of different
   since_versions, the pair is enumerated *)
Theorem schema_changed_pairs_complete : forall reg name dom N1 N2 s1 s2,
  resolve reg name N1 dom = Some s1 -> resolve reg name N2 dom = Some s2 ->
  (s_since s1 < s_since s2)%Z ->
  In (dom, name, s_since s1, s_since s2) (changed_pairs reg).
Proof.
  intros reg name dom N1 N2 s1 s2 R1 R2 L.
  destruct (resolve_spec _ _ _ _ _ R1) as [I1 [A1 [B1 _]]].
  destruct (resolve_spec _ _ _ _ _ R2) as [I2 [A2 [B2 _]]].
  rewrite <- A1, <- B1. apply changed_pairs_In; auto; congruence.
Qed.

(* SOUND: every enumerated pair is a pair of registered versions k1 < k2 of one operator, and the opsets k1
   and k2 resolve the operator to two different schemas *)
Theorem schema_changed_pairs_sound : forall reg d n k1 k2, uniq_keysb reg = true ->
  In (d, n, k1, k2) (changed_pairs reg) ->
  (k1 < k2)%Z /\ exists s1 s2, resolve reg n k1 d = Some s1 /\ resolve reg n k2 d = Some s2 /\
                               s_since s1 = k1 /\ s_since s2 = k2 /\ s1 <> s2.
Proof.
  intros reg d n k1 k2 U I. unfold changed_pairs in I. apply in_flat_map in I as [s1 [I1 I]].
  unfold changed_from in I. apply in_flat_map in I as [s2 [I2 I]].
  destruct (same_op s2 s1 && Z.ltb (s_since s1) (s_since s2)) eqn:C; [|destruct I].
  destruct I as [I|[]]. inversion I; subst; clear I.
  apply andb_true_iff in C as [C1 C2]. unfold same_op in C1. apply andb_true_iff in C1 as [C0 C1].
  apply String.eqb_eq in C0, C1. apply Z.ltb_lt in C2.
  split; auto. exists s1, s2. repeat split; auto.
  - apply resolve_exact; auto.
  - rewrite <- C0, <- C1. apply resolve_exact; auto.
  - intro E. subst. lia.
Qed.

(* ------------------------------------------------------------------ operators introduced after version 1 *)

Theorem late_ops_complete : forall reg s, In s reg -> (1 < s_since s)%Z ->
  (forall s', In s' reg -> s_name s' = s_name s -> s_domain s' = s_domain s -> (s_since s <= s_since s')%Z) ->
  In (s_domain s, s_name s, s_since s) (late_ops reg).
Proof.
  intros reg s I L F. unfold late_ops. apply in_map_iff. exists s. split; auto.
  apply filter_In. split; auto. apply andb_true_iff. split; [apply Z.ltb_lt; auto|].
  unfold is_first. apply negb_true_iff. destruct (existsb _ reg) eqn:E; auto.
  apply existsb_exists in E as [s' [I' C]]. apply andb_true_iff in C as [C1 C2].
  unfold same_op in C1. apply andb_true_iff in C1 as [C0 C1]. apply String.eqb_eq in C0, C1. apply Z.ltb_lt in C2.
  specialize (F s' I' C0 C1). lia.
Qed.

(* the two-step histories of such an operator: a lookup in the opset just before its first version misses,
   a lookup in the opset of its first version finds the schema of that version *)
Theorem late_op_miss_then_hit : forall reg d n k, uniq_keysb reg = true ->
  In (d, n, k) (late_ops reg) ->
  (1 < k)%Z /\ resolve reg n (k - 1) d = None /\ exists s, resolve reg n k d = Some s /\ s_since s = k.
Proof.
  intros reg d n k U I. unfold late_ops in I. apply in_map_iff in I as [s [E I]]. inversion E; subst; clear E.
  apply filter_In in I as [I C]. apply andb_true_iff in C as [C1 C2]. apply Z.ltb_lt in C1.
  split; auto. split.
  - destruct (resolve reg (s_name s) (s_since s - 1) (s_domain s)) as [s'|] eqn:R; auto.
    exfalso. destruct (resolve_spec _ _ _ _ _ R) as [I' [A [B [L _]]]].
    unfold is_first in C2. apply negb_true_iff in C2.
    pose proof (existsb_false _ _ C2 s' I') as X. unfold same_op in X.
    rewrite A, B, !String.eqb_refl in X. cbn [andb] in X. apply Z.ltb_ge in X. lia.
  - exists s. split; auto. apply resolve_exact; auto.
Qed.

(* ------------------------------------------------------------------ one translated call *)

(* COROLLARY of the registry theorem: the generated method visible on opsetN (own or inherited) and the node
   `opsetN.Op(...)` is translated to, placed in a proto importing N for the opset's domain, denote the same
   schema -- the one get_schema(Op, N, domain) returns -- and the method mirrors it *)
Theorem translated_call_denotes_method_schema : forall ex reg cs, registry_ok ex reg cs = true ->
  forall c, In c cs -> forall op m, static_lookup cs c op = Some m ->
  forall imp, assoc (c_domain c) imp = Some (c_version c) ->
  exists s, node_schema reg imp (translate_call c op) = Some s /\ dyn_getitem reg c op = Some s /\
            (ex s = false -> static_schema reg m = Some s /\ mirrors m s).
Proof.
  intros ex reg cs OK c I op m L imp A.
  destruct (dyn_getitem reg c op) as [s|] eqn:R.
  - exists s. unfold node_schema, translate_call. cbn [t_domain t_op]. rewrite A.
    split; [exact R|]. split; auto. intro X.
    destruct (registry_sound _ _ _ OK _ I _ _ R X) as [_ H]. destruct (H m L) as [H1 [H2 _]]. auto.
  - exfalso. destruct (dynamic_lookup_agrees _ _ _ OK c I op) as [_ [_ H]]. destruct (H R) as [_ H']. congruence.
Qed.

(* placed under another version N' the node denotes get_schema(Op, N', domain): the same schema exactly when
   the operator did not change between the two versions *)
Theorem translated_call_under_other_version : forall ex reg cs, registry_ok ex reg cs = true ->
  forall c, In c cs -> forall op m s, static_lookup cs c op = Some m -> dyn_getitem reg c op = Some s -> ex s = false ->
  forall imp N', assoc (c_domain c) imp = Some N' ->
    node_schema reg imp (translate_call c op) = resolve reg op N' (c_domain c) /\
    static_schema reg m = Some s /\
    forall s', resolve reg op N' (c_domain c) = Some s' -> s_since s' <> s_since s ->
      node_schema reg imp (translate_call c op) <> static_schema reg m.
Proof.
  intros ex reg cs OK c I op m s L R X imp N' A.
  destruct (registry_sound _ _ _ OK _ I _ _ R X) as [_ H]. destruct (H m L) as [H1 _].
  unfold node_schema, translate_call. cbn [t_domain t_op]. rewrite A. repeat split; auto.
  intros s' R' D. rewrite R', H1. intro E. inversion E. subst. congruence.
Qed.

(* ------------------------------------------------------------------ imports of a body *)

Lemma assoc_app_last {A} : forall (l : list (string * A)) d d' v,
  assoc d (l ++ [(d', v)]) = match assoc d l with Some x => Some x | None => if String.eqb d' d then Some v else None end.
Proof.
  induction l as [|[k x] t IH]; cbn; intros d d' v; auto.
  destruct (String.eqb k d); auto.
Qed.

Lemma assoc_add_import : forall imp d d' v,
  assoc d (add_import imp d' v) = match assoc d imp with Some x => Some x | None => if String.eqb d' d then Some v else None end.
Proof.
  intros imp d d' v. unfold add_import. destruct (assoc d' imp) as [x|] eqn:E.
  - destruct (assoc d imp) eqn:F; auto. destruct (String.eqb_spec d' d); auto. subst. congruence.
  - apply assoc_app_last.
Qed.

Lemma imports_from_assoc : forall calls imp d,
  assoc d (imports_from imp calls) =
  match assoc d imp with Some x => Some x | None => option_map c_version (find (in_domain d) calls) end.
Proof.
  induction calls as [|c t IH]; intros imp d.
  - cbn. destruct (assoc d imp); auto.
  - unfold imports_from. cbn [fold_left]. fold (imports_from (add_import imp (c_domain c) (c_version c)) t).
    rewrite IH, assoc_add_import. cbn [find]. unfold in_domain at 2.
    destruct (assoc d imp); auto. destruct (String.eqb (c_domain c) d); auto.
Qed.

Lemma find_filter {A} (p : A -> bool) : forall l, find p l = match filter p l with [] => None | x :: _ => Some x end.
Proof. induction l as [|a t IH]; cbn; auto. destruct (p a); auto. Qed.

(* a domain used with one version only is imported with that version (first node wins = every node agrees) *)
Lemma conflict_free_import : forall calls c, conflict_in (c_domain c) calls = false -> In c calls ->
  assoc (c_domain c) (imports_of calls) = Some (c_version c).
Proof.
  intros calls c NC I. unfold imports_of. rewrite imports_from_assoc. cbn [assoc].
  rewrite find_filter. unfold conflict_in in NC.
  assert (In c (filter (in_domain (c_domain c)) calls)) as F.
  { apply filter_In. split; auto. unfold in_domain. apply String.eqb_refl. }
  destruct (filter (in_domain (c_domain c)) calls) as [|c0 t]; [destruct F|].
  apply negb_false_iff in NC. rewrite forallb_forall in NC. cbn [option_map].
  destruct F as [->|F]; auto. specialize (NC c F). apply Z.eqb_eq in NC. congruence.
Qed.

(* an accepted body: every call whose domain is used with one version only resolves to its method's schema *)
Theorem accepted_body_resolves : forall ex reg cs, registry_ok ex reg cs = true ->
  forall refuse calls nodes imp, translate_with refuse calls = Some (nodes, imp) ->
  forall c op m, In (c, op) calls -> In c cs -> conflict_in (c_domain c) (map fst calls) = false ->
    static_lookup cs c op = Some m ->
    In (translate_call c op) nodes /\
    exists s, node_schema reg imp (translate_call c op) = Some s /\
              (ex s = false -> static_schema reg m = Some s /\ mirrors m s).
Proof.
  intros ex reg cs OK refuse calls nodes imp T c op m I Ic NC L.
  unfold translate_with in T. destruct (refuse (map fst calls)); [discriminate|]. inversion T; subst; clear T.
  split.
  - apply in_map_iff. exists (c, op). split; auto.
  - assert (In c (map fst calls)) as I' by (apply in_map_iff; exists (c, op); split; auto).
    destruct (translated_call_denotes_method_schema _ _ _ OK c Ic op m L _ (conflict_free_import _ _ NC I'))
      as [s [H1 [_ H3]]]. eauto.
Qed.

(* AS READ (two versions refused for the standard domain only): every standard-domain call of an accepted body
   denotes, in the translated function, the schema its generated method denotes in eager mode *)
Theorem standard_calls_resolve : forall ex reg cs, registry_ok ex reg cs = true ->
  forall calls nodes imp, translate_body calls = Some (nodes, imp) ->
  forall c op m, In (c, op) calls -> In c cs -> c_domain c = "" -> static_lookup cs c op = Some m ->
    exists s, node_schema reg imp (translate_call c op) = Some s /\
              (ex s = false -> static_schema reg m = Some s /\ mirrors m s).
Proof.
  intros ex reg cs OK calls nodes imp T c op m I Ic D L.
  assert (conflict_in (c_domain c) (map fst calls) = false) as NC.
  { unfold translate_body, translate_with, refused in T. rewrite D.
    destruct (conflict_in "" (map fst calls)); [discriminate|reflexivity]. }
  destruct (accepted_body_resolves _ _ _ OK _ _ _ _ T c op m I Ic NC L) as [_ H]. exact H.
Qed.

(* REPAIRED (two versions of ANY domain refused): every call of an accepted body does *)
Theorem strict_calls_resolve : forall ex reg cs, registry_ok ex reg cs = true ->
  forall calls nodes imp, translate_body_strict calls = Some (nodes, imp) ->
  forall c op m, In (c, op) calls -> In c cs -> static_lookup cs c op = Some m ->
    exists s, node_schema reg imp (translate_call c op) = Some s /\
              (ex s = false -> static_schema reg m = Some s /\ mirrors m s).
Proof.
  intros ex reg cs OK calls nodes imp T c op m I Ic L.
  assert (conflict_in (c_domain c) (map fst calls) = false) as NC.
  { unfold translate_body_strict, translate_with in T.
    destruct (refused_strict (map fst calls)) eqn:Rf; [discriminate|].
    unfold refused_strict in Rf. apply (existsb_false _ _ Rf c).
    apply in_map_iff. exists (c, op). split; auto. }
  destruct (accepted_body_resolves _ _ _ OK _ _ _ _ T c op m I Ic NC L) as [_ H]. exact H.
Qed.

(* a body that uses one class only is never refused *)
Lemma single_class_accepted : forall c ops, exists nodes imp,
  translate_body (map (pair c) ops) = Some (nodes, imp) /\ translate_body_strict (map (pair c) ops) = Some (nodes, imp).
Proof.
  intros c ops.
  assert (forall d, conflict_in d (map fst (map (pair c) ops)) = false) as NC.
  { intro d. unfold conflict_in. rewrite map_map. cbn [fst].
    destruct (filter (in_domain d) (map (fun _ : string => c) ops)) as [|c0 t] eqn:F; auto.
    apply negb_false_iff. apply forallb_forall. intros x Ix.
    assert (In x (filter (in_domain d) (map (fun _ : string => c) ops))) as Ix' by (rewrite F; right; auto).
    assert (In c0 (filter (in_domain d) (map (fun _ : string => c) ops))) as I0 by (rewrite F; left; auto).
    apply filter_In in Ix' as [Ix' _]. apply filter_In in I0 as [I0 _].
    apply in_map_iff in Ix' as [? [<- _]]. apply in_map_iff in I0 as [? [<- _]]. apply Z.eqb_refl. }
  unfold translate_body, translate_body_strict, translate_with, refused, refused_strict.
  rewrite NC. eexists. eexists. split; [reflexivity|].
  destruct (existsb _ (map fst (map (pair c) ops))) eqn:E; [|reflexivity].
  apply existsb_exists in E as [x [_ X]]. rewrite NC in X. discriminate.
Qed.

(* ------------------------------------------------------------------ as read, and false for other domains *)

(* two versions of ai.onnx.ml in one function are accepted (only a UserWarning); the proto imports the first
   version, so the other call denotes another schema than its method does in eager mode.  Witness in the shape
   of LabelEncoder 1 / 2; the harness replays the real pair (ai.onnx.ml 2 / 4) on the converter. *)
Definition ex_ml_reg : list schema := [
  mkS "ai.onnx.ml" "LabelEncoder" 1 false [("X", IReq)] [mkA "classes_strings" false DNone; mkA "default_int64" false (DInt (-1))];
  mkS "ai.onnx.ml" "LabelEncoder" 2 false [("X", IReq)] [mkA "default_int64" false (DInt (-1)); mkA "keys_strings" false DNone]].
Definition ex_ml_classes : list cls := emit_classes no_exemption [] ex_ml_reg.
Definition ex_ml1 : cls := emit_class no_exemption ex_ml_reg ("ai.onnx.ml", 1%Z).
Definition ex_ml2 : cls := emit_class no_exemption ex_ml_reg ("ai.onnx.ml", 2%Z).
Definition ex_ml_body : list (cls * string) := [(ex_ml2, "LabelEncoder"); (ex_ml1, "LabelEncoder")].

Lemma ex_ml_registry_ok : registry_ok no_exemption ex_ml_reg ex_ml_classes = true.
Proof. vm_compute. reflexivity. Qed.

Lemma mixed_nonstandard_versions_refuted : exists reg cs calls nodes imp c op m s,
  registry_ok no_exemption reg cs = true /\ translate_body calls = Some (nodes, imp) /\
  In (c, op) calls /\ In c cs /\ static_lookup cs c op = Some m /\ static_schema reg m = Some s /\
  node_schema reg imp (translate_call c op) <> Some s.
Proof.
  exists ex_ml_reg, ex_ml_classes, ex_ml_body.
  eexists. eexists. exists ex_ml1, "LabelEncoder". eexists. eexists.
  split; [exact ex_ml_registry_ok|].
  split; [vm_compute; reflexivity|].
  split; [right; left; reflexivity|].
  split; [left; reflexivity|].
  split; [vm_compute; reflexivity|].
  split; [vm_compute; reflexivity|].
  vm_compute. discriminate.
Qed.

(* the repaired refusal rejects that body *)
Lemma ex_ml_body_refused_strict : translate_body_strict ex_ml_body = None /\ translate_body ex_ml_body <> None.
Proof. split; vm_compute; [reflexivity|discriminate]. Qed.
