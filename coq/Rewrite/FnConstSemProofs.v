(* C07: a call of the function extracted WITH copied constants evaluates like the matched nodes in place, for every
   environment that binds each copied value to what its Constant node produces (an initializer or a Constant node outside
   the match: that is what const_value records); graph-level consequence; imports of the extracted function. *)
From Coq Require Import List String ZArith Bool Lia.
Require Import OV.Graph.Syntax OV.Graph.Sem OV.Graph.Names OV.Graph.SemProofs.
Require Import OV.Rewrite.Apply OV.Rewrite.ApplyProofs OV.Rewrite.KeepProofs OV.Rewrite.FnCall OV.Rewrite.FnCallProofs.
Require Import OV.Rewrite.State OV.Rewrite.StateProofs OV.Rewrite.FnConst.
Import ListNotations.
Local Open Scope string_scope.
Local Open Scope list_scope.

Lemma fn_body_eq cmap cattrs M : fn_body cmap cattrs M = const_nodes cmap cattrs ++ map (rename_ins cmap) M.
Proof. reflexivity. Qed.

Lemma assoc_cases : forall (cmap : list (vname * vname)) x,
  (In x (map fst cmap) /\ In (assoc cmap x) (map snd cmap)) \/ (~ In x (map fst cmap) /\ assoc cmap x = x).
Proof.
  induction cmap as [|[a b] t IH]; intro x; cbn; [right; tauto|].
  destruct (String.eqb x a) eqn:E.
  - apply String.eqb_eq in E. subst. left. split; left; reflexivity.
  - destruct (IH x) as [[H1 H2]|[H1 H2]]; [left; tauto|right]. split; [|exact H2].
    intros [H|H]; [subst; rewrite String.eqb_refl in E; discriminate|tauto].
Qed.

Lemma assoc_nodup : forall (cmap : list (vname * vname)) t c, NoDup (map fst cmap) -> In (t, c) cmap -> assoc cmap t = c.
Proof.
  induction cmap as [|[a b] r IH]; intros t c N I; [destruct I|]. cbn in *. inversion N; subst.
  destruct I as [E|I].
  - inversion E; subst. rewrite String.eqb_refl. reflexivity.
  - destruct (String.eqb t a) eqn:Q; [|apply IH; assumption].
    apply String.eqb_eq in Q. subst. exfalso. apply H1. apply in_map_iff. exists (a, c). split; auto.
Qed.

Lemma nodupb_NoDup : forall l, nodupb l = true -> NoDup l.
Proof.
  induction l as [|x t IH]; intro H; [constructor|]. cbn in H. apply andb_true_iff in H. destruct H as [H1 H2].
  constructor; [|apply IH; exact H2]. intro Q. apply mem_In in Q. rewrite Q in H1. discriminate.
Qed.

Lemma Forall2_in_both {A B} (P Q : A -> B -> Prop) : forall l vs, Forall2 P l vs -> Forall2 Q l vs ->
  forall x, In x l -> exists v, P x v /\ Q x v.
Proof.
  induction 1; intros F x0 I; [destruct I|]. inversion F; subst. destruct I as [<-|I]; [exists y; auto|eauto].
Qed.

Lemma map_fst_combine {A B} : forall (a : list A) (b : list B), List.length a = List.length b -> map fst (combine a b) = a.
Proof. induction a as [|x t IH]; intros [|y u] L; cbn in *; try discriminate; auto. f_equal. apply IH. lia. Qed.

Section FnConst.
  Variable V : Type.
  Variable sem : string -> string -> list (string * attrv) -> list (option V) -> option (list V).
  Variable truth : V -> option bool.
  Variable trip : V -> option nat.
  Variable of_nat : nat -> V.
  Variable of_bool : bool -> V.
  Variable limit : nat.

  Notation env := (list (vname * V)).
  Notation eval_node := (eval_node V sem truth trip of_nat of_bool limit).
  Notation run := (run V sem truth trip of_nat of_bool limit).
  Notation eval_graph := (eval_graph V sem truth trip of_nat of_bool limit).

  Variable cmap : list (vname * vname).
  Local Notation lan := (lookup_app_notin V sem truth trip of_nat limit).

  Lemma lookup_opts_renamed : forall ins (e1 e2 : env),
    (forall x, In x (present ins) -> lookup e1 x = lookup e2 (assoc cmap x)) ->
    lookup_opts e1 ins = lookup_opts e2 (map (option_map (assoc cmap)) ins).
  Proof.
    induction ins as [|[x|] t IH]; intros e1 e2 H; cbn in *; auto.
    - rewrite (H x (or_introl eq_refl)). rewrite (IH e1 e2); auto.
    - rewrite (IH e1 e2); auto.
  Qed.

  Lemma node_sim : forall ev1 ev2 n (e1 e2 : env), plain n = true ->
    (forall x, In x (present (n_ins n)) -> lookup e1 x = lookup e2 (assoc cmap x)) ->
    match eval_node ev1 e1 n, eval_node ev2 e2 (rename_ins cmap n) with
    | Some a, Some b => exists p, a = p ++ e1 /\ b = p ++ e2 /\ map fst p = n_outs n
    | None, None => True
    | _, _ => False
    end.
  Proof.
    intros ev1 ev2 [dom op ins outs attrs subs] e1 e2 Hp H. unfold plain in Hp. cbn [n_dom n_op n_ins n_outs rename_ins] in *.
    apply andb_true_iff in Hp. destruct Hp as [P1 P2]. apply negb_true_iff in P1. apply negb_true_iff in P2.
    unfold Sem.eval_node. rewrite P1, P2. rewrite (lookup_opts_renamed ins e1 e2 H).
    destruct (lookup_opts e2 (map (option_map (assoc cmap)) ins)) as [vs|]; auto.
    destruct (sem dom op attrs vs) as [rs|]; auto. apply (bind_two V).
  Qed.

  Lemma run_sim : forall ev1 ev2 M S (e1 e2 : env), forallb plain M = true -> closed_in S M = true ->
    (forall x, In x S -> lookup e1 x = lookup e2 (assoc cmap x)) ->
    (forall x, In x (defs_nodes M) -> ~ In x (map fst cmap) /\ ~ In x (map snd cmap)) ->
    match run ev1 e1 M, run ev2 e2 (map (rename_ins cmap) M) with
    | Some a, Some b => exists p, a = p ++ e1 /\ b = p ++ e2 /\ (forall x, In x (map fst p) <-> In x (defs_nodes M))
    | None, None => True
    | _, _ => False
    end.
  Proof.
    intros ev1 ev2 M. induction M as [|n t IH]; intros S e1 e2 Hp Hc Ha Hd; cbn [Sem.run map].
    - exists []. cbn. split; auto. split; auto. intro x. split; intros [].
    - cbn in Hp, Hc. apply andb_true_iff in Hp. destruct Hp as [Pn Pt]. apply andb_true_iff in Hc. destruct Hc as [Cn Ct].
      assert (Hr : forall x, In x (present (n_ins n)) -> lookup e1 x = lookup e2 (assoc cmap x)).
      { intros x Hx. apply Ha. eapply subset_in; eauto. }
      pose proof (node_sim ev1 ev2 n e1 e2 Pn Hr) as N.
      destruct (eval_node ev1 e1 n) as [a1|], (eval_node ev2 e2 (rename_ins cmap n)) as [b1|]; try contradiction; auto.
      destruct N as [p1 [-> [-> Hp1]]].
      assert (Hd' : forall x, In x (defs_nodes t) -> ~ In x (map fst cmap) /\ ~ In x (map snd cmap)).
      { intros x Hx. apply Hd. unfold defs_nodes. cbn [flat_map]. apply in_or_app. right. exact Hx. }
      assert (Ho : forall x, In x (n_outs n) -> ~ In x (map fst cmap) /\ ~ In x (map snd cmap)).
      { intros x Hx. apply Hd. unfold defs_nodes. cbn [flat_map]. apply in_or_app. left. exact Hx. }
      assert (Ha' : forall x, In x (n_outs n ++ S) -> lookup (p1 ++ e1) x = lookup (p1 ++ e2) (assoc cmap x)).
      { intros x Hx. destruct (in_dec string_dec x (n_outs n)) as [I|I].
        - rewrite (assoc_notin cmap x (proj1 (Ho x I))). apply (lookup_same_prefix V). left. rewrite Hp1. exact I.
        - apply in_app_or in Hx. destruct Hx as [Hx|Hx]; [contradiction|].
          assert (N1 : ~ In x (map fst p1)) by (rewrite Hp1; exact I).
          assert (N2 : ~ In (assoc cmap x) (map fst p1)).
          { rewrite Hp1. intro Q.
            destruct (assoc_cases cmap x) as [[_ H2]|[_ H2]]; [apply (proj2 (Ho _ Q)); exact H2|rewrite H2 in Q; contradiction]. }
          rewrite (lan p1 e1 x N1). rewrite (lan p1 e2 _ N2). apply Ha; exact Hx. }
      specialize (IH (n_outs n ++ S) (p1 ++ e1) (p1 ++ e2) Pt Ct Ha' Hd').
      destruct (run ev1 (p1 ++ e1) t), (run ev2 (p1 ++ e2) (map (rename_ins cmap) t)); try contradiction; auto.
      destruct IH as [p2 [-> [-> Hp2]]]. exists (p2 ++ p1). rewrite !app_assoc. split; auto. split; auto.
      intro x. rewrite map_app, in_app_iff. unfold defs_nodes. cbn [flat_map]. rewrite in_app_iff. rewrite Hp1.
      fold (defs_nodes t). rewrite (Hp2 x). tauto.
  Qed.

  (* the Constant nodes at the head of the function body *)
  Lemma run_consts : forall ev L vs (e : env),
    Forall2 (fun ca v => sem "" "Constant" (snd ca) [] = Some [v]) L vs ->
    NoDup (map (fun ca : (vname * vname) * list (string * attrv) => snd (fst ca)) L) ->
    exists p, run ev e (map const_node L) = Some (p ++ e) /\
              (forall x, In x (map fst p) <-> In x (map (fun ca => snd (fst ca)) L)) /\
              Forall2 (fun ca v => lookup (p ++ e) (snd (fst ca)) = Some v) L vs.
  Proof.
    intros ev L vs e F. revert e. induction F as [|ca v L' vs' Hv F IH]; intros e N.
    - exists []. cbn. split; auto. split; [tauto|constructor].
    - cbn [map] in N. inversion N; subst. cbn [map Sem.run]. unfold const_node at 1. unfold Sem.eval_node.
      change (is_if "" "Constant") with false. change (is_loop "" "Constant") with false. cbn [lookup_opts]. rewrite Hv. cbn [bind].
      destruct (IH ((snd (fst ca), v) :: e) H2) as [p [R [Hk Hl]]]. exists (p ++ [(snd (fst ca), v)]).
      rewrite <- app_assoc. cbn [List.app]. split; [exact R|]. split.
      + intro x. rewrite map_app, in_app_iff. cbn. rewrite (Hk x). tauto.
      + constructor; [|exact Hl]. rewrite lan; [cbn; rewrite String.eqb_refl; reflexivity|].
        intro Q. apply Hk in Q. contradiction.
  Qed.

  (* ---- the call against the matched nodes, in one environment --------------------------------------------------------- *)
  Theorem call_const_eq_matched : forall ev f dom op attrs ins cattrs M outs couts (e : env) vs cvs,
    (forall ws, sem dom op attrs (map Some ws) = eval_graph (S f) [] (fn_graph ins (fn_body cmap cattrs M) outs) ws) ->
    extract_const_okb dom op ins cmap cattrs M outs = true ->
    Forall2 (fun ca v => sem "" "Constant" (snd ca) [] = Some [v]) (combine cmap cattrs) cvs ->
    Forall2 (fun ca v => lookup e (fst (fst ca)) = Some v) (combine cmap cattrs) cvs ->
    lookups e ins = Some vs ->
    eval_node ev e (call_of dom op attrs ins couts) =
    match run ev e M with
    | Some e1 => match lookups e1 outs with Some rs => bind couts rs e | None => None end
    | None => None
    end.
  Proof.
    intros ev f dom op attrs ins cattrs M outs couts e vs cvs Hsem Hok Fc Fe Hl. unfold extract_const_okb in Hok.
    repeat (apply andb_true_iff in Hok; destruct Hok as [Hok ?]).
    rename H into D2, H0 into D1, H1 into N2, H2 into N1, H3 into Len, H4 into Ho, H5 into Hc, H6 into I2, H7 into I1.
    apply negb_true_iff in I1. apply negb_true_iff in I2. apply Nat.eqb_eq in Len.
    apply nodupb_NoDup in N1. apply nodupb_NoDup in N2. apply disjointb_sound in D1. apply disjointb_sound in D2.
    unfold call_of, Sem.eval_node. rewrite I1, I2. rewrite (lookup_opts_somes V), Hl. cbn [option_map]. rewrite Hsem.
    cbn [Sem.eval_graph]. unfold Sem.eval_body, fn_graph. cbn [g_ins g_nodes g_outs].
    destruct (bind_lookups V ins vs e Hl) as [e0 [B A]]. rewrite B. rewrite fn_body_eq. rewrite run_app.
    set (L := combine cmap cattrs) in *.
    assert (EL : map (fun ca : (vname * vname) * list (string * attrv) => snd (fst ca)) L = map snd cmap).
    { rewrite <- (map_map fst snd). unfold L. rewrite map_fst_combine; auto. }
    assert (NL : NoDup (map (fun ca : (vname * vname) * list (string * attrv) => snd (fst ca)) L)) by (rewrite EL; exact N2).
    destruct (run_consts (eval_graph f) L cvs e0 Fc NL) as [p0 [R0 [K0 L0]]]. unfold const_nodes. fold L. rewrite R0.
    rewrite EL in K0.
    assert (Rel : forall x, In x (ins ++ map fst cmap) -> lookup e x = lookup (p0 ++ e0) (assoc cmap x)).
    { intros x Hx. apply in_app_or in Hx. destruct Hx as [Hx|Hx].
      - assert (Nx : ~ In x (map fst cmap)).
        { intro Q. apply (D1 x Q). apply in_or_app. right. exact Hx. }
        rewrite (assoc_notin cmap x Nx). rewrite lan; [symmetry; apply A; exact Hx|].
        intro Q. apply K0 in Q. apply (D2 x Q). apply in_or_app. right. apply in_or_app. left. exact Hx.
      - apply in_map_iff in Hx. destruct Hx as [[t c] [Et Hin]]. cbn in Et. subst x.
        rewrite (assoc_nodup cmap t c N1 Hin).
        assert (HL : exists a, In ((t, c), a) L).
        { unfold L. clear - Hin Len. revert cattrs Len. induction cmap as [|h r IH]; intros [|a ca] Len; cbn in *; try discriminate; [destruct Hin|].
          destruct Hin as [->|Hin]; [exists a; left; reflexivity|]. destruct (IH Hin ca) as [a' Ha]; [lia|]. exists a'. right. exact Ha. }
        destruct HL as [a Ha]. destruct (Forall2_in_both _ _ _ _ Fe L0 _ Ha) as [v [E1 E2]]. cbn in E1, E2. congruence. }
    assert (Dm : forall x, In x (defs_nodes M) -> ~ In x (map fst cmap) /\ ~ In x (map snd cmap)).
    { intros x Hx. split; intro Q; [apply (D1 x Q)|apply (D2 x Q)]; apply in_or_app; left; exact Hx. }
    pose proof (run_sim ev (eval_graph f) M (ins ++ map fst cmap) e (p0 ++ e0) Hok Hc Rel Dm) as R.
    destruct (run ev e M) as [a|], (run (eval_graph f) (p0 ++ e0) (map (rename_ins cmap) M)) as [b|]; try contradiction; auto.
    destruct R as [p [-> [-> Hdef]]].
    rewrite (lookups_same_prefix V outs p e (p0 ++ e0)).
    - destruct (lookups (p ++ p0 ++ e0) outs); auto.
    - intros x Hx. apply (subset_in _ _ Ho) in Hx. apply in_app_or in Hx. destruct Hx as [Hx|Hx].
      + left. apply Hdef. exact Hx.
      + right. rewrite (Rel x (in_or_app _ _ _ (or_introl Hx))). f_equal. apply assoc_notin.
        intro Q. apply (D1 x Q). apply in_or_app. right. exact Hx.
  Qed.
End FnConst.

(* ---- the opset imports of the extracted function -------------------------------------------------------------------------- *)
(* every domain the body uses -- the default domain of the copied Constant nodes included -- is imported by the function as
   soon as the parent imports it (fix 8f809b5) *)
Theorem fn_imports_cover : forall parent body d,
  In d (map n_dom body) -> In d (map fst parent) -> In d (map fst (fn_imports parent body)).
Proof.
  intros parent body d Hb Hp. apply in_map_iff in Hp. destruct Hp as [[d' v] [E I]]. cbn in E. subst d'.
  apply in_map_iff. exists (d, v). split; [reflexivity|]. unfold fn_imports. apply filter_In. split; [exact I|].
  apply mem_In. exact Hb.
Qed.

Theorem fn_imports_only_used : forall parent body e, In e (fn_imports parent body) -> In e parent /\ In (fst e) (map n_dom body).
Proof. intros parent body e H. unfold fn_imports in H. apply filter_In in H. destruct H as [H1 H2]. split; [exact H1|apply mem_In; exact H2]. Qed.

(* a body with copied constants uses the default domain *)
Theorem fn_body_uses_default_domain : forall cmap cattrs M, combine cmap cattrs <> [] ->
  In ""%string (map n_dom (fn_body cmap cattrs M)).
Proof.
  intros cmap cattrs M H. rewrite fn_body_eq. unfold const_nodes. destruct (combine cmap cattrs) as [|ca r]; [congruence|].
  cbn. left. reflexivity.
Qed.

(* a match inside an If/Loop body (site not a function): the parent is the model graph, whatever the site (fix 480b533) *)
Theorem parent_imports_of_subgraph : forall site i, parent_imports site false i = parent_imports 0 false i.
Proof. reflexivity. Qed.

(* the table entry add_function writes when the request lists the domains of the whole body *)
Theorem add_function_imports_body : forall site isfn i q fs ov fs' fd,
  add_function site isfn i q fs = Some (ov, fs') -> fq_used q = map n_dom (fq_body q) ->
  dget fkey_eqb (fq_dom q, fq_name q, ov) fs' = Some fd ->
  fd_imports fd = fn_imports (parent_imports site isfn i) (fq_body q) /\ fd_ins fd = fq_ins q /\ fd_outs fd = fq_outs q /\
  fd_body fd = fq_body q.
Proof.
  intros site isfn i q fs ov fs' fd A U G. unfold add_function in A.
  destruct (new_overload (fq_dom q) (fq_name q) fs) as [o|]; [|discriminate]. inversion A; subst ov fs'; clear A.
  rewrite (dget_dset_same fkey_eqb fkey_eqb_eq) in G. inversion G; subst fd; clear G. cbn. rewrite U. auto.
Qed.

(* ---- the call node against the matched segment where the copied values are bound; the whole graph ----------------------- *)
Section FnConstGraph.
  Variable V : Type.
  Variable sem : string -> string -> list (string * attrv) -> list (option V) -> option (list V).
  Variable truth : V -> option bool.
  Variable trip : V -> option nat.
  Variable of_nat : nat -> V.
  Variable of_bool : bool -> V.
  Variable limit : nat.

  Notation env := (list (vname * V)).
  Notation eval_node := (eval_node V sem truth trip of_nat of_bool limit).
  Notation run := (run V sem truth trip of_nat of_bool limit).
  Notation eval_graph := (eval_graph V sem truth trip of_nat of_bool limit).
  Local Notation lan := (lookup_app_notin V sem truth trip of_nat limit).

  Definition consts_bound (cmap : list (vname * vname)) (cattrs : list (list (string * attrv))) (cvs : list V) (e : env) : Prop :=
    Forall2 (fun ca v => lookup e (fst (fst ca)) = Some v) (combine cmap cattrs) cvs.

  Lemma call_const_seg_at : forall cmap ev f dom op attrs ins cattrs M outs X cvs (e : env),
    (forall ws, sem dom op attrs (map Some ws) = eval_graph (S f) [] (fn_graph ins (fn_body cmap cattrs M) outs) ws) ->
    extract_const_okb dom op ins cmap cattrs M outs = true ->
    subset ins (free_reads [] M) = true -> subset outs (defs_nodes M) = true ->
    Forall2 (fun ca v => sem "" "Constant" (snd ca) [] = Some [v]) (combine cmap cattrs) cvs ->
    consts_bound cmap cattrs cvs e ->
    (forall x, In x (defs_nodes M) -> ~ In x outs -> In x X) ->
    match run ev e M, run ev e [call_of dom op attrs ins outs] with
    | Some a, Some b => agree_except V X a b
    | None, None => True
    | _, _ => False
    end.
  Proof.
    intros cmap ev f dom op attrs ins cattrs M outs X cvs e Hsem Hok Hfr Hod Fc Fe HX.
    pose proof Hok as Hok0. unfold extract_const_okb in Hok.
    repeat (apply andb_true_iff in Hok; destruct Hok as [Hok ?]).
    rename H5 into Hc, H6 into I2, H7 into I1. apply negb_true_iff in I1. apply negb_true_iff in I2.
    cbn [Sem.run].
    destruct (lookups e ins) as [vs|] eqn:L.
    - rewrite (call_const_eq_matched V sem truth trip of_nat of_bool limit cmap ev f dom op attrs ins cattrs M outs outs e vs cvs
                 Hsem Hok0 Fc Fe L).
      destruct (run ev e M) as [e1|] eqn:R; auto.
      destruct (run_shape V sem truth trip of_nat of_bool limit ev M e e1 R) as [p [-> Hpd]].
      pose proof (run_two V sem truth trip of_nat of_bool limit ev ev M (ins ++ map fst cmap) e e Hok Hc (fun x _ => eq_refl)) as T.
      rewrite R in T. destruct T as [p' [E' [_ Hdef]]]. apply app_inv_tail in E'. subst p'.
      destruct (lookups (p ++ e) outs) as [rs|] eqn:Lo.
      + destruct (bind outs rs e) as [e2|] eqn:B.
        * intros x Hx. destruct (in_dec string_dec x outs) as [I|I].
          -- symmetry. eapply (bind_reads V); eauto.
          -- assert (~ In x (map fst p)) by (intro Q; apply Hdef in Q; apply Hx; apply HX; auto).
             rewrite lan; auto.
             destruct (bind_shape V outs rs e e2 B) as [b [-> Hb]]. rewrite lan; auto. rewrite Hb. exact I.
        * exfalso. apply (bind_total V outs rs e); auto. eapply (lookups_length V); eauto.
      + exfalso. destruct (lookups_none_somes V _ _ Lo) as [x [Hx Lx]].
        apply (lookup_in_prefix V p e x); auto. apply Hdef. eapply subset_in; eauto.
    - assert (C : eval_node ev e (call_of dom op attrs ins outs) = None).
      { unfold call_of, Sem.eval_node. rewrite I1, I2. rewrite (lookup_opts_somes V), L. reflexivity. }
      rewrite C. destruct (run ev e M) as [e1|] eqn:R; auto.
      destruct (lookups_none_somes V _ _ L) as [x [Hx Lx]].
      apply (run_free_reads_bound V sem truth trip of_nat of_bool limit ev M [] e e1 Hok R x); auto. eapply subset_in; eauto.
  Qed.

  (* the graph with the matched segment M against the graph with the call of the extracted function in its place, for every
     input: whenever the environment reaching the match binds each copied value to what its Constant node produces *)
  Theorem as_function_const_graph_sound :
    forall cmap fuel f dom op attrs ins cattrs M outs X cvs outer gi gn pre suf gouts args,
      (forall ws, sem dom op attrs (map Some ws) = eval_graph (S f) [] (fn_graph ins (fn_body cmap cattrs M) outs) ws) ->
      extract_const_okb dom op ins cmap cattrs M outs = true ->
      subset ins (free_reads [] M) = true -> subset outs (defs_nodes M) = true ->
      Forall2 (fun ca v => sem "" "Constant" (snd ca) [] = Some [v]) (combine cmap cattrs) cvs ->
      (forall e0 e1, bind gi args outer = Some e0 -> run (eval_graph fuel) e0 pre = Some e1 -> consts_bound cmap cattrs cvs e1) ->
      (forall x, In x (defs_nodes M) -> ~ In x outs -> In x X) ->
      disjoint X (names_nodes suf) -> disjoint X gouts ->
      eval_graph (S fuel) outer (Graph gi gn (pre ++ M ++ suf) gouts) args
      = eval_graph (S fuel) outer (Graph gi gn (pre ++ [call_of dom op attrs ins outs] ++ suf) gouts) args.
  Proof.
    intros cmap fuel f dom op attrs ins cattrs M outs X cvs outer gi gn pre suf gouts args Hsem Hok Hfr Hod Fc Hb HX Ds Do.
    cbn [Sem.eval_graph]. unfold Sem.eval_body. cbn [g_ins g_nodes g_outs].
    destruct (bind gi args outer) as [e0|] eqn:B; [|reflexivity].
    rewrite !run_app. destruct (run (eval_graph fuel) e0 pre) as [e1|] eqn:R; [|reflexivity].
    rewrite !run_app.
    pose proof (call_const_seg_at cmap (eval_graph fuel) f dom op attrs ins cattrs M outs X cvs e1 Hsem Hok Hfr Hod Fc
                  (Hb e0 e1 eq_refl R) HX) as E.
    destruct (run (eval_graph fuel) e1 M) as [a|], (run (eval_graph fuel) e1 [call_of dom op attrs ins outs]) as [b|];
      try contradiction; auto.
    pose proof (run_agree V sem truth trip of_nat of_bool limit X (eval_graph fuel) suf
                  (eval_graph_agree V sem truth trip of_nat of_bool limit X fuel) a b E Ds) as H.
    destruct (run (eval_graph fuel) a suf) as [a'|], (run (eval_graph fuel) b suf) as [b'|]; try contradiction; auto.
    apply (agree_lookups V X); assumption.
  Qed.

  (* the invariant holds for copied INITIALIZERS: values of the enclosing environment that neither a graph input nor a node
     before the match rebinds *)
  Theorem consts_bound_from_outer : forall cmap cattrs cvs ev (outer e0 e1 : env) gi args pre,
    consts_bound cmap cattrs cvs outer ->
    (forall t, In t (map fst cmap) -> ~ In t gi /\ ~ In t (defs_nodes pre)) ->
    List.length cmap = List.length cattrs ->
    bind gi args outer = Some e0 -> run ev e0 pre = Some e1 -> consts_bound cmap cattrs cvs e1.
  Proof.
    intros cmap cattrs cvs ev outer e0 e1 gi args pre Hb Hn Len B R. unfold consts_bound in *.
    destruct (bind_shape V gi args outer e0 B) as [b0 [-> Hb0]].
    destruct (run_shape V sem truth trip of_nat of_bool limit ev pre _ e1 R) as [b1 [-> Hb1]].
    assert (In1 : forall ca, In ca (combine cmap cattrs) -> In (fst (fst ca)) (map fst cmap)).
    { intros ca Hca. rewrite <- (map_fst_combine cmap cattrs Len). apply in_map_iff. exists (fst ca). split; [reflexivity|].
      apply in_map_iff. exists ca. split; [reflexivity|exact Hca]. }
    revert In1. induction Hb as [|ca v L vs Hv F IH]; intro In1; constructor.
    - destruct (Hn _ (In1 ca (or_introl eq_refl))) as [N1 N2].
      rewrite lan; [rewrite lan; [exact Hv|rewrite Hb0; exact N1]|]. intro Q. apply N2. apply Hb1. exact Q.
    - apply IH. intros c Hc. apply In1. right. exact Hc.
  Qed.
End FnConstGraph.
