(* C10 -- proofs about the attribute / input readers: the bodies translated from the current source
   (Gen/VersionHelpers.v) compute Adapters.get_int / get_str / present for every node, name and default; what the adapters
   emit for the attributes they read is exactly the attribute when it is present (falsy values included) and the old
   opset's default only when it is absent. *)
From Coq Require Import ZArith List Bool String Lia.
Import ListNotations.
Require Import OV.Version.Model OV.Version.Adapters OV.Version.Helpers OV.Gen.VersionHelpers.
Local Open Scope string_scope.
Local Open Scope Z_scope.

(* ---------------------------------------------------------------- the translated readers *)
(* case analysis on the attribute table entry; the equation is kept because evaluation exposes further occurrences of the
   same lookup only after the first one is decided (guard-clause spellings: `in` test first, subscript later) *)
Ltac reader_tac :=
  cbn -[lookup];
  repeat match goal with
         | E : lookup ?k ?a = _ |- context [lookup ?k ?a] => rewrite E; cbn -[lookup]
         | |- context [lookup ?k ?a] =>
           let E := fresh "E" in destruct (lookup k a) as [[? | ? | ? | ? | ] | ] eqn:E; cbn -[lookup]
         | d : option _ |- _ => destruct d; cbn -[lookup]
         end; reflexivity.

Lemma gen_get_int_exact : forall n name d,
  call n gen_get_int (int_args name d) = Some (of_oz (get_int n name d)).
Proof.
  intros n name d. unfold call, gen_get_int, int_args, get_int. reader_tac.
Qed.

Lemma gen_get_str_exact : forall n name d,
  call n gen_get_str (str_args name d) = Some (of_os (get_str n name d)).
Proof.
  intros n name d. unfold call, gen_get_str, str_args, get_str. reader_tac.
Qed.

Lemma nth_error_present : forall (l : list bool) (i : nat),
  match nth_error l i with Some b => nth i l false = b /\ (i < List.length l)%nat | None => nth i l false = false /\ (List.length l <= i)%nat end.
Proof.
  induction l as [| a l IH]; intros [| i]; cbn; try (split; [reflexivity | lia]).
  specialize (IH i). destruct (nth_error l i); destruct IH; split; try assumption; lia.
Qed.

Lemma gen_get_input_exact : forall n i,
  option_map is_value (call n gen_get_input (input_args i)) = Some (present i n).
Proof.
  intros n i. unfold call, gen_get_input, input_args, present. cbn.
  rewrite ?Nat2Z.id.
  pose proof (nth_error_present (n_ins n) i) as H.
  repeat match goal with |- context [?a <? ?b] => destruct (Z.ltb_spec a b) end;
  destruct (nth_error (n_ins n) i) as [[|]|]; destruct H as [Hn Hl]; cbn; rewrite ?Hn; try reflexivity; try lia.
Qed.

(* the falsy values, spelled out: an explicit 0 / "" is returned whatever the default *)
Lemma get_int_falsy_kept : forall n name d z,
  lookup name (n_attrs n) = Some (AInt z) -> get_int n name d = Some z.
Proof. intros n name d z H. unfold get_int. rewrite H. reflexivity. Qed.
Lemma get_str_falsy_kept : forall n name d s,
  lookup name (n_attrs n) = Some (AStr s) -> get_str n name d = Some s.
Proof. intros n name d s H. unfold get_str. rewrite H. reflexivity. Qed.
Lemma get_int_default_iff_absent : forall n name d,
  lookup name (n_attrs n) = None -> get_int n name d = d.
Proof. intros n name d H. unfold get_int. rewrite H. reflexivity. Qed.

Lemma gen_readers_keep_falsy : forall n name d,
  (lookup name (n_attrs n) = Some (AInt 0) -> call n gen_get_int (int_args name d) = Some (PInt 0)) /\
  (lookup name (n_attrs n) = Some (AStr "") -> call n gen_get_str (str_args name (option_map (fun _ => "x") d)) = Some (PStr "")).
Proof.
  intros n name d. split; intro H.
  - rewrite gen_get_int_exact, (get_int_falsy_kept _ _ _ _ H). reflexivity.
  - rewrite gen_get_str_exact, (get_str_falsy_kept _ _ _ _ H). reflexivity.
Qed.

(* a reader that falls back to the default on a falsy value is NOT the reader of the model: witness *)
Definition falsy_reader : list hstmt :=
  [HAssign "attr" (HGet (HVar "name") HNone);
   HIf (HIsNone (HVar "attr")) [HReturn (HVar "default")] [];
   HIf (HAnd (HIsInst (HVar "attr") KAttr) (HIsInst (HValueOf (HVar "attr")) KInt))
       [HReturn (HOr (HValueOf (HVar "attr")) (HVar "default"))] [];
   HReturn HNone].
Lemma falsy_reader_differs : exists n name d,
  call n falsy_reader (int_args name d) <> Some (of_oz (get_int n name d)).
Proof.
  exists (Node "DFT" true None false [("axis", AInt 0)] [true] [] []), "axis", (Some 1).
  vm_compute. discriminate.
Qed.
Lemma falsy_reader_agrees_off_zero : forall n name d z,
  lookup name (n_attrs n) = Some (AInt z) -> z <> 0 ->
  call n falsy_reader (int_args name d) = Some (of_oz (get_int n name d)).
Proof.
  intros n name d z H Hz. unfold call, falsy_reader, int_args, get_int. cbn. rewrite H. cbn.
  destruct (z =? 0) eqn:E; [lia |]. cbn. reflexivity.
Qed.

(* ---------------------------------------------------------------- the call table *)
Lemma gen_reads_exact : exists dflt, (dflt = Some 1 \/ dflt = None) /\ reads_eqb gen_reads (model_reads dflt) = true.
Proof.
  first [ exists (Some 1); split; [left; reflexivity | vm_compute; reflexivity]
        | exists None; split; [right; reflexivity | vm_compute; reflexivity] ].
Qed.

(* ---------------------------------------------------------------- DFT 19 -> 20: the emitted axis *)
Lemma dft_axis_adapter_exact : forall fx n,
  fx_dft_axis fx = true -> n_ins n <> [] ->
  match lookup "axis" (n_attrs n) with
  | Some (AInt a) => emitted_axis (dft_19_20 fx n) = Some a                 (* present: the attribute, 0 included *)
  | None => emitted_axis (dft_19_20 fx n) = Some 1                          (* absent: the DFT-17 default *)
  | Some _ => dft_19_20 fx n = ANone                                        (* not an int: node left alone *)
  end.
Proof.
  intros fx n Hfx Hin. unfold dft_19_20, get_int. rewrite Hfx.
  destruct (n_ins n) as [| i0 r] eqn:E; [contradiction |].
  destruct (lookup "axis" (n_attrs n)) as [[a | s | l | b |] |]; reflexivity.
Qed.

Lemma dft_axis_one_only_if : forall fx n,
  fx_dft_axis fx = true -> n_ins n <> [] ->
  (emitted_axis (dft_19_20 fx n) = Some 1 <->
   lookup "axis" (n_attrs n) = Some (AInt 1) \/ lookup "axis" (n_attrs n) = None).
Proof.
  intros fx n Hfx Hin. pose proof (dft_axis_adapter_exact fx n Hfx Hin) as H.
  destruct (lookup "axis" (n_attrs n)) as [[a | s | l | b |] |].
  - rewrite H. split; [intro X; inversion X; left; reflexivity | intros [X | X]; [inversion X; reflexivity | discriminate]].
  - rewrite H. split; [discriminate | intros [X | X]; discriminate].
  - rewrite H. split; [discriminate | intros [X | X]; discriminate].
  - rewrite H. split; [discriminate | intros [X | X]; discriminate].
  - rewrite H. split; [discriminate | intros [X | X]; discriminate].
  - split; [intros _; right; reflexivity | intros _; exact H].
Qed.

Lemma dft_flags_exact : forall fx n a,
  n_ins n <> [] -> get_int n "axis" (dft_axis_default fx) = Some a ->
  emitted_attr "inverse" (dft_19_20 fx n) = option_map AInt (get_int n "inverse" (Some 0)) /\
  emitted_attr "onesided" (dft_19_20 fx n) = option_map AInt (get_int n "onesided" (Some 0)).
Proof.
  intros fx n a Hin Ha. unfold dft_axis_default in Ha. unfold dft_19_20. rewrite Ha.
  destruct (n_ins n) as [| i0 r] eqn:E; [contradiction |].
  destruct (get_int n "inverse" (Some 0)) as [iv |]; destruct (get_int n "onesided" (Some 0)) as [os |]; split; reflexivity.
Qed.

Lemma dft_axis_zero_example :
  let n := Node "DFT" true None false [("axis", AInt 0)] [true] [] [] in
  emitted_axis (dft_19_20 flags_fixed n) = Some 0 /\ dft20_axis 4 (dft_19_20 flags_fixed n) n = Some 0 /\ dft19_axis 4 n = Some 0.
Proof. vm_compute. repeat split; reflexivity. Qed.

(* ---------------------------------------------------------------- GridSample 19 -> 20 *)
Lemma gridsample_attrs_exact : forall n m,
  gridsample_19_20 n = AReplace [m] ->
  (* align_corners: the attribute when present (0 included), 0 when absent *)
  lookup "align_corners" (n_attrs m) = option_map AInt (get_int n "align_corners" (Some 0)) /\
  (match lookup "align_corners" (n_attrs n) with
   | Some (AInt z) => lookup "align_corners" (n_attrs m) = Some (AInt z)
   | None => lookup "align_corners" (n_attrs m) = Some (AInt 0)
   | Some _ => lookup "align_corners" (n_attrs m) = None
   end) /\
  (* padding_mode: the attribute when present (the empty string included), "zeros" when absent *)
  (match lookup "padding_mode" (n_attrs n) with
   | Some (AStr s) => lookup "padding_mode" (n_attrs m) = Some (AStr s)
   | None => lookup "padding_mode" (n_attrs m) = Some (AStr "zeros")
   | Some _ => lookup "padding_mode" (n_attrs m) = None
   end).
Proof.
  intros n m H. unfold gridsample_19_20 in H.
  destruct (n_ins n) as [| i0 [| i1 r]]; try discriminate.
  unfold get_int, get_str in *.
  destruct (lookup "mode" (n_attrs n)) as [[? | md | ? | ? |] |]; try discriminate;
  match type of H with
  | context [gs_rename ?x] => destruct (gs_rename x) as [m' |]; [| discriminate]
  end;
  inversion H; subst m; clear H; cbn [n_attrs mk];
  destruct (lookup "align_corners" (n_attrs n)) as [[? | ? | ? | ? |] |];
  destruct (lookup "padding_mode" (n_attrs n)) as [[? | ? | ? | ? |] |]; cbn; repeat split; reflexivity.
Qed.

Lemma gridsample_replaced_iff : forall n,
  (exists a b r, n_ins n = a :: b :: r) ->
  (replaced (gridsample_19_20 n) = true <->
   get_str n "mode" (Some "linear") = Some "bilinear" \/ get_str n "mode" (Some "linear") = Some "bicubic").
Proof.
  intros n [a [b [r Hi]]]. unfold gridsample_19_20. rewrite Hi.
  destruct (get_str n "mode" (Some "linear")) as [md |]; cbn.
  - unfold gs_rename.
    destruct (String.eqb md "bilinear") eqn:E1.
    + apply String.eqb_eq in E1. subst. cbn. split; [intros _; left; reflexivity | reflexivity].
    + destruct (String.eqb md "bicubic") eqn:E2.
      * apply String.eqb_eq in E2. subst. cbn. split; [intros _; right; reflexivity | reflexivity].
      * cbn. split; [discriminate |].
        intros [X | X]; inversion X; subst; [rewrite String.eqb_refl in E1 | rewrite String.eqb_refl in E2]; discriminate.
  - split; [discriminate | intros [X | X]; discriminate].
Qed.

(* an empty mode string is not "absent": the node is left alone (as for every string other than the two renamed ones) *)
Lemma gridsample_empty_mode : forall n a b r,
  n_ins n = a :: b :: r -> lookup "mode" (n_attrs n) = Some (AStr "") -> gridsample_19_20 n = ANone.
Proof. intros n a b r Hi Hm. unfold gridsample_19_20, get_str. rewrite Hi, Hm. reflexivity. Qed.

(* ---------------------------------------------------------------- GroupNormalization 20 -> 21 *)
Lemma groupnorm_attrs_exact : forall fx n g d,
  gn_decide n = GnExpand g d ->
  lookup "num_groups" (n_attrs n) = Some (AInt g) /\
  emitted_attr "num_groups" (groupnormalization_20_21 fx n) = Some (AInt g) /\
  (fx_gn_eps fx = true ->
   emitted_attr "epsilon" (groupnormalization_20_21 fx n) = lookup "epsilon" (n_attrs n)).     (* present (0.0 included) <-> present *)
Proof.
  intros fx n g d H. unfold groupnormalization_20_21. rewrite H.
  assert (Hg : lookup "num_groups" (n_attrs n) = Some (AInt g)).
  { unfold gn_decide in H.
    destruct (negb (present 0 n && present 1 n && present 2 n)); [discriminate |].
    destruct (n_shp n) as [| xc [| s0 [| b0 [| ? ?]]]]; try discriminate.
    destruct xc as [| | c]; try discriminate. destruct s0 as [| | sg]; try discriminate; destruct b0 as [| | bg]; try discriminate.
    unfold get_int in H. destruct (lookup "num_groups" (n_attrs n)) as [[z | ? | ? | ? |] |]; try discriminate.
    destruct (negb (z =? c) && (z =? sg) && (z =? bg)); [| discriminate].
    destruct (z =? 0); [discriminate |]. inversion H. reflexivity. }
  split; [exact Hg |]. unfold emitted_attr, gn_new_nodes. cbn [rev app n_attrs mk].
  split.
  - destruct (fx_gn_eps fx); [| reflexivity].
    destruct (lookup "epsilon" (n_attrs n)); reflexivity.
  - intro Hfx. rewrite Hfx. destruct (lookup "epsilon" (n_attrs n)); reflexivity.
Qed.

Lemma groupnorm_eps_zero_example :
  let n := Node "GroupNormalization" true None false [("epsilon", AFlt 0); ("num_groups", AInt 2)] [true; true; true]
                [DStatic 4; DStatic 2; DStatic 2] [] in
  emitted_attr "epsilon" (groupnormalization_20_21 flags_fixed n) = Some (AFlt 0) /\
  emitted_attr "num_groups" (groupnormalization_20_21 flags_fixed n) = Some (AInt 2).
Proof. vm_compute. split; reflexivity. Qed.
