(* A program with a syntactic defect found by Script/Refuse.v is never accepted by the converter model, whatever state the
   translation is in (C02, session 6):   detect cic n top ss = Some e -> tr_stmts ... fuel top ss lo sc outs st = None.
   Plus: the path returned points at a statement of the program whose shape is the one the class names (declarative reading),
   and with checker completeness the boolean form of translate_wf_all. *)
From Coq Require Import List String ZArith Bool Arith Lia.
Require Import OV.Graph.Syntax OV.Graph.Wf OV.Graph.WfProofs OV.Graph.WfCompleteProofs.
Require Import OV.Script.Syntax OV.Script.Sets OV.Gen.Analysis OV.Gen.ScriptTables OV.Script.Translate
               OV.Script.TranslateProofs OV.Script.TranslateIfProofs OV.Script.TranslateForDefs OV.Script.TranslateNestDefs
               OV.Script.TranslateWfNestProofs OV.Script.Refuse.
Import ListNotations.
Local Open Scope string_scope.
Local Open Scope list_scope.

(* ------------------------------------------------------------------ failure propagates *)

Lemma bind_none_l : forall A B (m : M A) (f : A -> M B) st, m st = None -> bind m f st = None.
Proof. intros A B m f st H. unfold bind. rewrite H. reflexivity. Qed.

Lemma bind_none_r : forall A B (m : M A) (f : A -> M B) st, (forall a st1, f a st1 = None) -> bind m f st = None.
Proof.
  intros A B m f st H. unfold bind. destruct (m st) as [[[a st1] n1]|]; [|reflexivity]. rewrite H. reflexivity.
Qed.

Lemma capture_none : forall A (m : M A) st, m st = None -> capture m st = None.
Proof. intros A m st H. unfold capture. rewrite H. reflexivity. Qed.

Lemma ssubset_nil_r : forall o, ssubset o [] = true -> o = [].
Proof. intros [|x t] H; [reflexivity | discriminate]. Qed.

(* listing the empty set gives the empty list, whatever the oracle says *)
Lemma list_set_nil : forall st r st' ns, list_set [] st = Some (r, st', ns) -> r = [].
Proof.
  intros st r st' ns H. unfold list_set in H. destruct (ts_orders st) as [|o rest].
  - inversion H. reflexivity.
  - destruct (seqb o [] && nodupb o) eqn:E; [|discriminate]. inversion H; subst.
    apply andb_true_iff in E. destruct E as [E _]. unfold seqb in E. apply andb_true_iff in E. destruct E as [E _].
    apply ssubset_nil_r. exact E.
Qed.

Section Refuses.
  Variable globals : list (string * lit).
  Variable cic : expr -> option bool.
  Variable afuel : nat.
  Variable inputs : list vname.
  Notation trs := (Translate.tr_stmts globals cic afuel false inputs).

  Definition refuses (top : bool) (ss : list stmt) : Prop :=
    forall fuel lo sc outs st, trs fuel top ss lo sc outs st = None.

  (* the rest of a block cannot repair a refusal of its first statement *)
  Ltac step_fails :=
    apply bind_none_r; intros ? ?; apply bind_none_l.

  Lemma tuple_not_call_fails : forall sc e xs st,
    match e with ECall _ _ _ => false | _ => true end = true -> tr_call_multi globals sc e xs st = None.
  Proof. intros sc e xs st H. destruct e; try reflexivity. discriminate. Qed.

  (* a loop whose body assigns nothing has no state *)
  Lemma loop_core_no_assign : forall fu s body lo_s sc outs lv cp ob oc wc st,
    is_nil (assigned_block cic body) = true ->
    tr_loop_core globals cic afuel inputs fu s body lo_s sc outs lv cp ob oc wc st = None.
  Proof.
    intros fu s body lo_s sc outs lv cp ob oc wc st H. unfold tr_loop_core.
    destruct (assigned_block cic body) as [|a t]; [|discriminate]. cbn [sinter filter].
    unfold bind at 1. destruct (list_set [] st) as [[[r st1] n1]|] eqn:E; [|reflexivity].
    apply list_set_nil in E. subst r. reflexivity.
  Qed.

  Section WithRec.
    Variable fu : nat.
    Variable rec : list stmt -> option rerr.
    Hypothesis rec_ok : forall ss e, rec ss = Some e -> forall lo sc outs st, trs fu false ss lo sc outs st = None.

    Lemma branch_fails : forall blk lo_s sc live_defs st e,
      rec blk = Some e -> tr_branch globals cic afuel inputs fu blk lo_s sc live_defs st = None.
    Proof.
      intros blk lo_s sc live_defs st e H. unfold tr_branch. apply bind_none_l. apply capture_none. eapply rec_ok. exact H.
    Qed.

    Lemma loop_body_fails : forall lo_body body k e sc_b st,
      body_det rec body k = Some e -> tr_loop_body globals cic afuel inputs fu lo_body body sc_b st = None.
    Proof.
      intros lo_body. induction body as [|s0 rest IH]; intros k e sc_b st H; [discriminate|].
      rewrite tr_loop_body_cons. cbn [body_det] in H.
      destruct (is_break_if s0) as [c|] eqn:Eb.
      - destruct c; try reflexivity.
        destruct rest as [|r1 rest']; [discriminate|]. reflexivity.
      - apply bind_none_r. intros lo0 st1.
        destruct (body_stmt_det rec s0 k) as [e1|] eqn:E1.
        + apply bind_none_l. destruct s0 as [x e0|xs e0|c t f|i b bd|c bd| |es]; cbn [body_stmt_det] in E1; try discriminate E1.
          * apply bind_none_l. apply tuple_not_call_fails. destruct e0; try reflexivity. discriminate E1.
          * destruct (rec [SIf c t f]) as [e2|] eqn:E2; [|discriminate]. eapply rec_ok. exact E2.
          * destruct (rec [SFor i b bd]) as [e2|] eqn:E2; [|discriminate]. eapply rec_ok. exact E2.
          * destruct (rec [SWhile c bd]) as [e2|] eqn:E2; [|discriminate]. eapply rec_ok. exact E2.
          * destruct (rec [SBreak]) as [e2|] eqn:E2; [|discriminate]. eapply rec_ok. exact E2.
          * destruct (rec [SReturn es]) as [e2|] eqn:E2; [|discriminate]. eapply rec_ok. exact E2.
        + cbn [orelse] in H. apply bind_none_r. intros r0 st2. eapply IH. exact H.
    Qed.

    Lemma loop_core_body_fails : forall s body lo_s sc outs lv cp ob oc wc st e,
      body_det rec body 0 = Some e ->
      tr_loop_core globals cic afuel inputs fu s body lo_s sc outs lv cp ob oc wc st = None.
    Proof.
      intros s body lo_s sc outs lv cp ob oc wc st e H. unfold tr_loop_core.
      apply bind_none_r. intros state st1.
      apply bind_none_r. intros u1 st2.
      apply bind_none_r. intros lo_body st3.
      apply bind_none_r. intros lvn st4.
      apply bind_none_r. intros ps st5.
      apply bind_none_l. apply capture_none. eapply loop_body_fails. exact H.
    Qed.

    Lemma go_refuses : forall top ss k e,
      go_det cic rec top ss k = Some e -> forall lo sc outs st, trs (S fu) top ss lo sc outs st = None.
    Proof.
      intros top. induction ss as [|s rest IH]; intros k e H lo sc outs st; [discriminate|].
      cbn [go_det] in H.
      destruct (detect_stmt cic rec top s) as [e1|] eqn:E1.
      - (* this statement is refused *)
        clear H IH.
        destruct s as [x e0|xs e0|c t f|i b bd|c bd| |es]; cbn [detect_stmt] in E1.
        + discriminate.
        + rewrite tr_stmts_tuple. step_fails. apply bind_none_l. apply tuple_not_call_fails.
          destruct e0; try reflexivity. discriminate E1.
        + rewrite tr_stmts_if. step_fails.
          destruct (cic c) as [[|]|].
          * destruct (rec t) as [e2|] eqn:E2; [|discriminate]. eapply rec_ok. exact E2.
          * destruct (rec f) as [e2|] eqn:E2; [|discriminate]. eapply rec_ok. exact E2.
          * unfold tr_if. apply bind_none_r. intros ? ?. apply bind_none_r. intros ? ?.
            destruct (rec t) as [e2|] eqn:E2.
            -- apply bind_none_l. eapply branch_fails. exact E2.
            -- destruct (rec f) as [e3|] eqn:E3; [|discriminate].
               apply bind_none_r. intros ? ?. apply bind_none_l. eapply branch_fails. exact E3.
        + rewrite tr_stmts_for'. step_fails. apply bind_none_r. intros hdr sth.
          destruct hdr as [[[[lv cp] ob] oc] wc]. unfold unpack_hdr.
          destruct (is_nil (assigned_block cic bd)) eqn:En.
          * apply loop_core_no_assign. exact En.
          * destruct (body_det rec bd 0) as [e2|] eqn:E2; [|discriminate]. eapply loop_core_body_fails. exact E2.
        + rewrite tr_stmts_while'. step_fails. apply bind_none_r. intros hdr sth.
          destruct hdr as [[[[lv cp] ob] oc] wc]. unfold unpack_hdr.
          destruct (is_nil (assigned_block cic bd)) eqn:En.
          * apply loop_core_no_assign. exact En.
          * destruct (body_det rec bd 0) as [e2|] eqn:E2; [|discriminate]. eapply loop_core_body_fails. exact E2.
        + rewrite tr_stmts_break. step_fails. reflexivity.
        + rewrite tr_stmts_return_any. step_fails. destruct top; [|reflexivity].
          destruct es as [|e0 es']; [reflexivity | discriminate].
      - (* a later statement is refused *)
        cbn [pre orelse] in H.
        assert (K : forall sc' outs' st', trs (S fu) top rest lo sc' outs' st' = None) by (intros; eapply IH; exact H).
        destruct s as [x e0|xs e0|c t f|i b bd|c bd| |es].
        + rewrite tr_stmts_assign. apply bind_none_r. intros ? ?. apply bind_none_r. intros ? ?. apply K.
        + rewrite tr_stmts_tuple. apply bind_none_r. intros ? ?. apply bind_none_r. intros ? ?. apply K.
        + rewrite tr_stmts_if. apply bind_none_r. intros ? ?. apply bind_none_r. intros ? ?. apply K.
        + rewrite tr_stmts_for'. apply bind_none_r. intros ? ?. apply bind_none_r. intros ? ?. apply K.
        + rewrite tr_stmts_while'. apply bind_none_r. intros ? ?. apply bind_none_r. intros ? ?. apply K.
        + rewrite tr_stmts_break. apply bind_none_r. intros ? ?. apply bind_none_r. intros ? ?. apply K.
        + rewrite tr_stmts_return_any. apply bind_none_r. intros ? ?. apply bind_none_r. intros ? ?. apply K.
    Qed.
  End WithRec.

  Theorem detect_refuses : forall n top ss e, detect cic n top ss = Some e -> refuses top ss.
  Proof.
    induction n as [|n IH]; intros top ss e H; [discriminate|].
    intros fuel lo sc outs st. destruct fuel as [|fu]; [apply tr_stmts_zero|].
    cbn [detect] in H. eapply go_refuses; [|exact H].
    intros ss' e' H' lo' sc' outs' st'. eapply IH. exact H'.
  Qed.
End Refuses.

(* a program with a detected defect is never accepted: for every module environment, analysis fuel and oracle *)
Theorem refusal_never_accepted : forall globals cic afuel orders f e,
  refusal cic f = Some e -> translate false globals cic afuel orders f = None.
Proof.
  intros globals cic afuel orders f e H. unfold translate, refusal in *.
  rewrite (detect_refuses globals cic afuel (f_tparams f) _ _ _ _ H). reflexivity.
Qed.

(* ... equivalently: whatever the model accepts has none of these defects *)
Theorem accepted_has_no_defect : forall globals cic afuel orders f g,
  translate false globals cic afuel orders f = Some g -> refusal cic f = None.
Proof.
  intros globals cic afuel orders f g H. destruct (refusal cic f) as [e|] eqn:E; [|reflexivity].
  rewrite (refusal_never_accepted globals cic afuel orders f e E) in H. discriminate.
Qed.

(* ------------------------------------------------------------------ the boolean form of translate_wf_all (needs checker completeness) *)

Theorem translate_wf_full : forall globals cic afuel orders f g,
  NoDup (f_tparams f) ->
  translate false globals cic afuel orders f = Some g ->
  wf_graphb g = true /\ no_input_returned g = true.
Proof.
  intros globals cic afuel orders f g Hn Ht.
  destruct (translate_wf_all globals cic afuel orders f g Hn Ht) as [Hw Hi].
  split; [apply wf_graphb_complete; exact Hw | exact Hi].
Qed.

(* ------------------------------------------------------------------ examples: each class, with its path *)

Definition ex_params : list string := ["x"].
Definition mkf (body : list stmt) : func :=
  {| f_name := "f"; f_tparams := ex_params; f_aparams := []; f_body := body |}.
Definition nocic : expr -> option bool := fun _ => None.
Definition xp1 : expr := EBin "Add" (EVar "x") (ELit (LFloat 1065353216%Z)).
Definition cnd : expr := ECmp "Gt" (EVar "x") (ELit (LFloat 0%Z)).

Example ex_return_inside :
  refusal nocic (mkf [SAssign "y" xp1; SIf cnd [SAssign "y" xp1] [SReturn [EVar "y"]]; SReturn [EVar "y"]])
  = Some (RReturnInside, [1; 1; 0]).
Proof. vm_compute. reflexivity. Qed.

Example ex_break_not_last :
  refusal nocic (mkf [SFor "i" (ELit (LInt 3)) [SAssign "b" cnd; SIf (EVar "b") [SBreak] []; SAssign "x" xp1]; SReturn [EVar "x"]])
  = Some (RBreakNotLast, [0; 0; 1]).
Proof. vm_compute. reflexivity. Qed.

Example ex_nested_loop_return :
  refusal nocic (mkf [SFor "i" (ELit (LInt 3)) [SAssign "x" xp1; SWhile "c" [SAssign "x" xp1; SIf cnd [SReturn [EVar "x"]] [SAssign "x" xp1]]];
                      SReturn [EVar "x"]])
  = Some (RReturnInside, [0; 0; 1; 0; 1; 0; 0]).
Proof. vm_compute. reflexivity. Qed.

Example ex_loop_no_assign :
  refusal nocic (mkf [SAssign "y" xp1; SFor "i" (ELit (LInt 3)) []; SReturn [EVar "y"]]) = Some (RLoopNoAssign, [1]).
Proof. vm_compute. reflexivity. Qed.

(* ------------------------------------------------------------------ two accepted near misses (findings; the model follows the code)

   (1) `if b: break` with an else clause: the converter (and Script.Syntax.is_break_if) matches the break by the `if` body
       only; the else clause is dropped without a word: the program with the else clause and the program without it are
       translated into the same graph. *)
Definition brk_body (els : list stmt) : list stmt :=
  [SFor "i" (ELit (LInt 3)) [SAssign "x" xp1; SAssign "b" cnd; SIf (EVar "b") [SBreak] els]; SReturn [EVar "x"]].

Example break_else_dropped :
  exists g, translate false [] nocic 6 [] (mkf (brk_body [SAssign "x" (EBin "Mul" (EVar "x") (EVar "x"))])) = Some g /\
            translate false [] nocic 6 [] (mkf (brk_body [])) = Some g.
Proof. eexists. split; vm_compute; reflexivity. Qed.

(* (2) a `return` that is not the last statement of the function body: the statements after it are translated, and every
       return appends its values to the outputs: two outputs for a function that returns one value in Python. *)
Example return_not_last_accepted :
  exists g, translate false [] nocic 6 [] (mkf [SReturn [EUn "USub" (EVar "x")]; SAssign "x" xp1; SReturn [EUn "USub" (EVar "x")]]) = Some g /\
            List.length (g_outs g) = 2.
Proof. eexists. split; vm_compute; reflexivity. Qed.
