(* C01 property theorems: statements only, each closed by `exact`, Print Assumptions beneath. *)
From Coq Require Import List String Bool.
Require Import OV.Graph.Syntax OV.Script.Syntax OV.Script.Sets OV.Gen.Analysis OV.Script.AnalysisAux.
Import ListNotations.
