(* Executable instance of Opt/Fold.v used by the decision-trace correspondence (harness/c03_trace.py):
   values are summaries of the real tensors (element type, dims, integer payload when small, a content id),
   the reference evaluator is the table of calls recorded from the real pass.  No proofs in this file. *)
From Coq Require Import List String ZArith Bool.
Require Import OV.Graph.Syntax OV.Opt.Fold.
Import ListNotations.
Local Open Scope string_scope.

Record cval := mkCval {
  c_id : Z;                       (* identifies the content (assigned by the harness) *)
  c_dt : Z;
  c_dims : list Z;
  c_ints : option (list Z);
  c_zero : bool;
  c_tensor : bool;
  c_attr : attrv                  (* the tensor as attribute literal (harness/graphlit.py) *)
}.

Fixpoint zlist_eqb (a b : list Z) : bool :=
  match a, b with
  | [], [] => true
  | x :: s, y :: t => Z.eqb x y && zlist_eqb s t
  | _, _ => false
  end.
Fixpoint slist_eqb (a b : list string) : bool :=
  match a, b with
  | [], [] => true
  | x :: s, y :: t => String.eqb x y && slist_eqb s t
  | _, _ => false
  end.

(* two summaries denote the same tensor: payload when both have it, content id otherwise *)
Definition cval_eqb (a b : cval) : bool :=
  Z.eqb (c_dt a) (c_dt b) && zlist_eqb (c_dims a) (c_dims b) &&
  match c_ints a, c_ints b with
  | Some x, Some y => zlist_eqb x y
  | None, None => Z.eqb (c_id a) (c_id b)
  | _, _ => false
  end.

Definition attrv_eqb (a b : attrv) : bool :=
  match a, b with
  | AInt x, AInt y => Z.eqb x y
  | AInts x, AInts y => zlist_eqb x y
  | AStr x, AStr y => String.eqb x y
  | AStrs x, AStrs y => slist_eqb x y
  | AFloat x, AFloat y => Z.eqb x y
  | AFloats x, AFloats y => zlist_eqb x y
  | ATensor d s p, ATensor d' s' p' => Z.eqb d d' && zlist_eqb s s' && zlist_eqb p p'
  | ARef x, ARef y => String.eqb x y
  | AOther x, AOther y => String.eqb x y
  | _, _ => false
  end.
Fixpoint attrs_eqb (a b : list (string * attrv)) : bool :=
  match a, b with
  | [], [] => true
  | (k, x) :: s, (k', y) :: t => String.eqb k k' && attrv_eqb x y && attrs_eqb s t
  | _, _ => false
  end.

Fixpoint ocvals_eqb (a b : list (option cval)) : bool :=
  match a, b with
  | [], [] => true
  | None :: s, None :: t => ocvals_eqb s t
  | Some x :: s, Some y :: t => cval_eqb x y && ocvals_eqb s t
  | _, _ => false
  end.

(* recorded calls of the reference evaluator: (domain, op, attributes, inputs) -> result *)
Definition eval_table := list (string * string * list (string * attrv) * list (option cval) * option (list cval)).
Fixpoint table_eval (t : eval_table) (dom op : string) (attrs : list (string * attrv)) (ins : list (option cval))
  : option (list cval) :=
  match t with
  | [] => None
  | (d, o, a, i, r) :: rest =>
    if String.eqb d dom && String.eqb o op && attrs_eqb a attrs && ocvals_eqb i ins then r
    else table_eval rest dom op attrs ins
  end.

(* tensors denoted by Constant attributes: small integer attributes are computed, the others are looked up *)
Definition const_table := list (list (string * attrv) * cval).
Definition is_zero_list (l : list Z) : bool := match l with [z] => Z.eqb z 0 | _ => false end.
Fixpoint table_const (t : const_table) (attrs : list (string * attrv)) : option cval :=
  match t with
  | [] => None
  | (a, v) :: rest => if attrs_eqb a attrs then Some v else table_const rest attrs
  end.
Definition inst_const_val (t : const_table) (attrs : list (string * attrv)) : option cval :=
  match attrs with
  | [(k, AInt z)] =>
    if String.eqb k "value_int" then Some (mkCval 0 DT_INT64 [] (Some [z]) (Z.eqb z 0) true (AOther ""))
    else table_const t attrs
  | [(k, AInts l)] =>
    if String.eqb k "value_ints" then Some (mkCval 0 DT_INT64 [Z.of_nat (List.length l)] (Some l) (is_zero_list l) true (AOther ""))
    else table_const t attrs
  | _ => table_const t attrs
  end.

Definition inst_fresh (k : nat) : vname := "%" ++ nat_to_string k.

Definition inst_config := config.
Definition inst_state := state cval.

Definition inst_fold_model (et : eval_table) (ct : const_table) (strict : bool) (depth fuel : nat) (cfg : inst_config)
           (st : inst_state) (g : graph) (funs : list graph) :=
  fold_model cval (table_eval et) (inst_const_val ct) c_attr c_dt c_dims c_ints c_zero c_tensor inst_fresh
             strict depth fuel cfg (s_inits cval st) st g funs.

Definition inst_uses (g : graph) (funs : list graph) : list (vname * list vname) :=
  fold_left (fun acc f => uses_graph f acc) funs (uses_graph g []).

(* ---- comparison with what the real pass did *)
Definition olist_eqb (a b : list (option vname)) : bool :=
  (fix go (a b : list (option vname)) : bool :=
     match a, b with
     | [], [] => true
     | None :: s, None :: t => go s t
     | Some x :: s, Some y :: t => String.eqb x y && go s t
     | _, _ => false
     end) a b.

(* attributes are compared as sets keyed by name (the IR keeps them in a dict) *)
Definition attrs_sub (a b : list (string * attrv)) : bool :=
  forallb (fun kx => match assoc (fst kx) b with Some y => attrv_eqb (snd kx) y | None => false end) a.
Definition attrs_same (a b : list (string * attrv)) : bool :=
  Nat.eqb (List.length a) (List.length b) && attrs_sub a b && attrs_sub b a.

Fixpoint node_eqb (fuel : nat) (a b : node) {struct fuel} : bool :=
  match fuel with
  | O => false
  | S f =>
    let 'Node d o i u at_ s := a in
    let 'Node d' o' i' u' at' s' := b in
    String.eqb d d' && String.eqb o o' && olist_eqb i i' && slist_eqb u u' && attrs_same at_ at' &&
    (fix go (x y : list (string * graph)) : bool :=
       match x, y with
       | [], [] => true
       | (k, g) :: s, (k', g') :: t => String.eqb k k' && graph_eqb f g g' && go s t
       | _, _ => false
       end) s s'
  end
with graph_eqb (fuel : nat) (a b : graph) {struct fuel} : bool :=
  match fuel with
  | O => false
  | S f =>
    let 'Graph i ii ns o := a in
    let 'Graph i' ii' ns' o' := b in
    slist_eqb i i' && subset ii ii' && subset ii' ii && slist_eqb o o' &&
    (fix go (x y : list node) : bool :=
       match x, y with
       | [], [] => true
       | n :: s, n' :: t => node_eqb f n n' && go s t
       | _, _ => false
       end) ns ns'
  end.

Definition graphs_eqb (a b : list graph) : bool :=
  (fix go (x y : list graph) : bool :=
     match x, y with
     | [], [] => true
     | g :: s, g' :: t => graph_eqb (2 * (depth_graph g + depth_graph g') + 2) g g' && go s t
     | _, _ => false
     end) a b.

(* observed trace entries: (kind, op, id, substituted inputs, ops of the new nodes)
   kind: 0 keep, 1 replaced by an initializer, 2 replaced by nodes, 3 If branch inlined *)
Definition obs_entry := (Z * string * vname * nat * list string)%type.
Definition tr_subst (t : tr_entry) : option nat := match t with TKeep _ _ _ k => Some k | _ => None end.

Fixpoint trace_first_diff (i : nat) (m : list tr_entry) (o : list obs_entry) : option nat :=
  match m with
  | [] => match o with [] => None | _ => Some i end
  | TOutput _ _ :: mt => trace_first_diff i mt o
  | t :: mt =>
    match o with
    | [] => Some i
    | (k, op, id, ns, ops) :: ot =>
      let same :=
        match t with
        | TKeep op' id' _ ns' => Z.eqb k 0 && String.eqb op op' && String.eqb id id' && Nat.eqb ns ns'
        | TFoldInit op' id' => Z.eqb k 1 && String.eqb op op' && String.eqb id id'
        | TFoldConst op' id' => Z.eqb k 2 && String.eqb op op' && String.eqb id id' && slist_eqb ops ["Constant"]
        | TNodes op' id' ops' => Z.eqb k 2 && String.eqb op op' && String.eqb id id' && slist_eqb ops ops'
        | TInline op' id' ops' _ => Z.eqb k 3 && String.eqb op op' && String.eqb id id' && slist_eqb ops ops'
        | TOutput _ _ => true
        end in
      if same then trace_first_diff (S i) mt ot else Some i
    end
  end.

(* verdict of one case: 0 = agree; 1 = traces differ; 2 = final graphs differ; 3 = model raised but the pass did not (or
   vice versa); 4 = out of fuel; 5 = the model met an evaluator it does not describe (case not compared);
   6 = a freshness side condition of the soundness theorem does not hold for this model (strict mode) *)
Definition verdict_with (strict : bool) (et : eval_table) (ct : const_table) (depth fuel : nat) (cfg : inst_config) (st : inst_state)
           (g : graph) (funs : list graph) (obs_raised : bool) (obs_trace : list obs_entry) (obs_g : graph) (obs_funs : list graph)
  : Z * option nat :=
  match inst_fold_model et ct strict depth fuel cfg st g funs with
  | OK (_, g', funs', tr, _) =>
    if existsb (fun t => match t with TKeep _ _ RUnmodelled _ => true | _ => false end) tr then (5%Z, None)
    else if obs_raised then (3%Z, None)
    else match trace_first_diff 0 tr obs_trace with
         | Some i => (1%Z, Some i)
         | None => if graphs_eqb (g' :: funs') (obs_g :: obs_funs) then (0%Z, None) else (2%Z, None)
         end
  | Raised => if obs_raised then (0%Z, None) else (3%Z, None)
  | OutOfFuel => (4%Z, None)
  | Stuck _ => (6%Z, None)
  end.
(* strict first; when a side condition fails the comparison is repeated without the checks and 10 is added *)
Definition verdict (et : eval_table) (ct : const_table) (depth fuel : nat) (cfg : inst_config) (st : inst_state)
           (g : graph) (funs : list graph) (obs_raised : bool) (obs_trace : list obs_entry) (obs_g : graph) (obs_funs : list graph)
  : Z * option nat :=
  match verdict_with true et ct depth fuel cfg st g funs obs_raised obs_trace obs_g obs_funs with
  | (6%Z, _) => let '(c, i) := verdict_with false et ct depth fuel cfg st g funs obs_raised obs_trace obs_g obs_funs in ((10 + c)%Z, i)
  | r => r
  end.
