(* C07, as_function extraction: WHICH values may be copied into the function body as Constant nodes
   (onnxscript/rewriter/_rewrite_rule.py::_copy_for_function: every call input is mapped to its formal parameter BEFORE the
   nodes are copied, so copy_value materialises a Constant only for a value that is not a call input and has a const_value).

   const_value is also set on an initializer that is listed among the graph inputs: such a value is an INPUT of the model with
   a default, the caller may bind it to anything.  The hypothesis `consts_bound` of C07_as_function_with_constants_sound (the
   environment reaching the match binds every copied value to what its Constant produces) can then fail, so the side
   condition of the extraction is: a value that is a graph input is never copied, whatever its const_value
   (copied_not_inputs_okb).  Together with "not defined by a node before the match" it is exactly the hypothesis of
   consts_bound_from_outer (FnConstSemProofs.v); FnConstInProofs.v composes the two.

   Tie: harness/c07.py::coq_replay evaluates events_copied_okb / mevents_copied_okb on every traced sweep with the graph
   inputs of the container before the sweep (g_ins of the top graph: nested graphs capture them; a function's formal
   parameters carry no const_value).  Executable definitions only; no proofs here. *)
From Coq Require Import List String ZArith Bool Arith.
Require Import OV.Graph.Syntax OV.Graph.Names.
Require Import OV.Rewrite.Apply OV.Rewrite.State OV.Rewrite.Multi.
Import ListNotations.

(* gi: the names the caller binds (graph inputs), pre: the nodes evaluated before the match *)
Definition copied_not_inputs_okb (gi : list vname) (cmap : list (vname * vname)) : bool :=
  disjointb (map fst cmap) gi.

Definition copied_stable_okb (gi : list vname) (pre : list node) (cmap : list (vname * vname)) : bool :=
  disjointb (map fst cmap) (gi ++ defs_nodes pre).

Definition events_copied_okb (gi : list vname) (evs : list event) : bool :=
  forallb (fun e => match e with ESplice _ _ _ cmap _ => copied_not_inputs_okb gi cmap | EVisit _ => true end) evs.

Definition mevents_copied_okb (gi : list vname) (evs : list mevent) : bool :=
  forallb (fun e => match e with MSplice _ _ _ cmap _ => copied_not_inputs_okb gi cmap | MVisit _ => true end) evs.
