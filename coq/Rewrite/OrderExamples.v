(* C07: the hypotheses of the order theorems are satisfiable on non-trivial instances (non-contiguous match in the
   main graph, keeping rule, match inside an If branch of a model-local function), the order predicate is not
   vacuous (an insertion at the position the implementation uses for patterns with several output nodes breaks it),
   and the stable sort repairs exactly that list. *)
From Coq Require Import List String ZArith Bool Arith.
Require Import OV.Graph.Syntax OV.Graph.Sem OV.Graph.Names.
Require Import OV.Rewrite.Apply OV.Rewrite.ApplyExamples OV.Rewrite.Order.
Import ListNotations.
Local Open Scope string_scope.
Local Open Scope list_scope.

Example ex_order_main :
  topo_nodes ["x"; "y"] ex_nodes = true /\ order_okb ["x"; "y"] ex_app ex_nodes = true /\
  topo_nodes ["x"; "y"] ex_after = true.
Proof. vm_compute. repeat split. Qed.

Example ex_order_keep :
  topo_nodes ["x"] ex_nodes_k2 = true /\ order_okb ["x"] ex_app_keep ex_nodes_k2 = true /\
  topo_nodes ["x"] ex_after_k2 = true.
Proof. vm_compute. repeat split. Qed.

(* a model: the main graph only calls the function; the match sits in the then-branch of an If of the function body *)
Definition ex_main := Graph ["p"; "q"; "b"] [] [Node "local" "F" [Some "p"; Some "q"; Some "b"] ["m"] [] []] ["m"].
Definition ex_model := [ex_main; ex_host].
Definition ex_model_pass : list (nat * path * app) := [(1, ex_path, ex_app)].

Example ex_order_model :
  model_sorted [] ex_model = true /\ order_ok_model [] ex_model_pass ex_model = true /\
  apply_model_pass ex_model_pass ex_model = Some [ex_main; ex_host_after].
Proof. vm_compute. repeat split. Qed.

Example ex_check_order : check_order [] [(ex_path, ex_app, ["a"])] ex_host = true.
Proof. vm_compute. reflexivity. Qed.

(* a replacement that reads a value defined after the window is rejected by the conditions *)
Definition ex_app_bad := App [true] [Node "" "Mul" [Some "x"; Some "u"] ["t"] [] []] true [].
Example ex_order_rejects : topo_nodes ["x"; "y"] ex_nodes = true /\ order_okb ["x"; "y"] ex_app_bad ex_nodes = false.
Proof. vm_compute. split; reflexivity. Qed.

(* pattern with two output nodes (Neg(v) -> a, Abs(v) -> b) in a function body  b = Abs(v); c = Relu(b); a = Neg(v);
   w = Add(a, c): the implementation inserts the replacement after the first output node (Neg) and removes both;
   the consumer c of the later output b now precedes its definition.  The stable sort restores an order. *)
Definition nMul (x y t : string) := Node "" "Mul" [Some x; Some y] [t] [] [].
Definition nMax (x y t : string) := Node "" "Max" [Some x; Some y] [t] [] [].
Definition nConst (t : string) := Node "" "Constant" [] [t] [] [].
Definition ex_multi_spliced := [nRelu "b" "c"; nConst "k"; nMul "v" "k" "a"; nMax "v" "a" "b"; nAdd "a" "c" "w"].
Definition ex_multi_sorted := [nConst "k"; nMul "v" "k" "a"; nMax "v" "a" "b"; nRelu "b" "c"; nAdd "a" "c" "w"].

Example ex_multi_output_needs_sort :
  topo_nodes ["v"] ex_multi_spliced = false /\
  stable_sort 5 ["v"] ex_multi_spliced = Some ex_multi_sorted /\
  topo_nodes ["v"] ex_multi_sorted = true.
Proof. vm_compute. repeat split. Qed.
