(* C09 -- proofs for Shape/Accept.v: the acceptance half of the property for ReshapeReshape, SlicesSplit and the
   sequence evaluators. *)
From Coq Require Import String ZArith List Bool Lia ZifyBool.
Require Import OV.Shape.SymDim OV.Shape.SymDimProofs OV.Shape.PartialEval OV.Shape.PartialEvalProofs.
Require Import OV.Shape.Extra OV.Shape.ExtraProofs OV.Shape.Extra2 OV.Shape.Extra2Proofs OV.Shape.Accept.
Require OV.Rules.Reshape OV.Rules.ReshapeProofs OV.Rules.SliceCollapse OV.Rules.SliceCollapseProofs.
Import ListNotations.
Open Scope Z_scope.
Ltac Zify.zify_post_hook ::= Z.to_euclidean_division_equations.

Import Reshape ReshapeProofs.

(* ===================================================================== ReshapeReshape ================================ *)
(* no dim of the intermediate tensor is copied: the fused Reshape accepts exactly what the second Reshape accepted and
   gives the same shape, whatever s1 was (given that the first Reshape accepted) *)
Theorem rr_no_zero_copy_exact : forall xs s1 az1 mid s2 az2 s' az',
  resolve az1 xs s1 = Some mid -> rr_rule None s2 az2 = Some (s', az') -> zero_copy s2 az2 = false ->
  resolve az' xs s' = resolve az2 mid s2.
Proof.
  intros xs s1 az1 mid s2 az2 s' az' H1 R Z. pose proof (resolve_prod _ _ _ _ H1) as Hp.
  unfold rr_rule in R. cbn [option_map rr_new] in R. unfold rr_decide in R. unfold zero_copy in Z.
  destruct (az2 && has 0 s2) eqn:E1.
  - inversion R; subst. apply andb_true_iff in E1 as [-> _]. apply resolve_true_prod. now symmetry.
  - destruct (has 0 s2) eqn:Ez.
    + destruct az2; cbn in E1, Z; discriminate.
    + cbn [andb] in R. destruct (1 <? count 0 s2)%nat; [discriminate|]. inversion R; subst.
      rewrite (has_false_map s2 Ez). apply resolve_nozero_prod; auto.
Qed.

Corollary rr_accepts_iff : forall xs s1 az1 mid s2 az2 s' az',
  resolve az1 xs s1 = Some mid -> rr_rule None s2 az2 = Some (s', az') -> zero_copy s2 az2 = false ->
  forall out, rr_orig az1 xs s1 az2 s2 = Some out <-> resolve az' xs s' = Some out.
Proof.
  intros xs s1 az1 mid s2 az2 s' az' H1 R Z out. unfold rr_orig. rewrite H1.
  rewrite (rr_no_zero_copy_exact _ _ _ _ _ _ _ _ H1 R Z). reflexivity.
Qed.

(* ---- exactly one 0 (allowzero off), every other entry positive: the rule turns the 0 into -1 ---------------------- *)
Lemma has_count0 : forall l, has 0 l = false -> count 0 l = O.
Proof.
  induction l as [|x l IH]; intro H; [reflexivity|]. unfold has in H. cbn [existsb] in H.
  apply orb_false_iff in H as [H1 H2]. unfold count. cbn [filter]. rewrite H1. apply IH. exact H2.
Qed.

Lemma positive_no_neg : forall l, positive l = true -> existsb (fun d => d <? 0) l = false.
Proof.
  induction l as [|x l IH]; intro H; [reflexivity|]. unfold positive in H. cbn [forallb] in H.
  apply andb_true_iff in H as [H1 H2]. cbn [existsb]. rewrite (IH H2). lia.
Qed.

Lemma rr_rule_one_zero : forall pre post, positive pre = true -> positive post = true ->
  rr_rule None (pre ++ 0 :: post) false = Some (pre ++ -1 :: post, false).
Proof.
  intros pre post Hp Hq. unfold rr_rule. cbn [option_map rr_new]. unfold rr_decide. cbn [andb].
  destruct (positive_no_zero pre Hp) as [Zp _]. destruct (positive_no_zero post Hq) as [Zq _].
  assert (H0 : has 0 (pre ++ 0 :: post) = true).
  { unfold has. rewrite existsb_app. cbn [existsb]. rewrite Z.eqb_refl. now rewrite orb_true_r. }
  rewrite H0. rewrite existsb_app. cbn [existsb]. rewrite (positive_no_neg pre Hp), (positive_no_neg post Hq).
  replace (0 <? 0) with false by reflexivity. cbn [orb andb].
  assert (C : count 0 (pre ++ 0 :: post) = 1%nat).
  { unfold count. rewrite filter_app, app_length. cbn [filter]. rewrite Z.eqb_refl. cbn [length].
    pose proof (has_count0 pre Zp) as A. pose proof (has_count0 post Zq) as B. unfold count in A, B. rewrite A, B. reflexivity. }
  rewrite C. cbn. rewrite map_app. cbn [map]. rewrite Z.eqb_refl.
  rewrite (has_false_map pre Zp), (has_false_map post Zq). reflexivity.
Qed.

(* finish on a target with one entry v >= 0 between positive entries and no -1 *)
Lemma finish_plain_mid : forall n pre post v, positive pre = true -> positive post = true -> 0 <= v ->
  finish n (pre ++ v :: post) = if prod pre * prod post * v =? n then Some (pre ++ v :: post) else None.
Proof.
  intros n pre post v Hp Hq Hv.
  destruct (positive_no_zero pre Hp) as [_ [Cp Np]]. destruct (positive_no_zero post Hq) as [_ [Cq Nq]].
  unfold finish. rewrite existsb_app. cbn [existsb]. rewrite Np, Nq.
  replace (v <? -1) with false by lia. cbn [orb].
  assert (Hc : count (-1) (pre ++ v :: post) = O).
  { unfold count in *. rewrite filter_app, app_length. cbn [filter]. replace (-1 =? v) with false by lia. cbn [length]. lia. }
  rewrite Hc. rewrite prod_app. change (prod (v :: post)) with (v * prod post).
  replace (prod pre * (v * prod post)) with (prod pre * prod post * v) by ring. reflexivity.
Qed.

Lemma finish_minus1_mid : forall n pre post, positive pre = true -> positive post = true ->
  finish n (pre ++ -1 :: post) =
    if n mod (prod pre * prod post) =? 0 then Some (pre ++ n / (prod pre * prod post) :: post) else None.
Proof.
  intros n pre post Hp Hq.
  destruct (positive_no_zero pre Hp) as [_ [Cp Np]]. destruct (positive_no_zero post Hq) as [_ [Cq Nq]].
  pose proof (positive_prod pre Hp). pose proof (positive_prod post Hq).
  unfold finish. rewrite existsb_app. cbn [existsb]. rewrite Np, Nq. cbn.
  unfold count in *. rewrite filter_app. cbn [filter]. cbn. rewrite app_length. cbn [length]. rewrite Cp, Cq. cbn.
  rewrite filter_app. cbn [filter]. cbn.
  rewrite (proj1 (count_filter_none pre Cp)), (proj1 (count_filter_none post Cq)).
  rewrite prod_app. set (p := prod pre * prod post). assert (Hp0 : 0 < p) by (unfold p; nia).
  replace (p =? 0) with false by lia.
  destruct (n mod p =? 0); [|reflexivity].
  rewrite map_app. cbn [map]. cbn. rewrite (map_repl_none (n / p) pre Cp), (map_repl_none (n / p) post Cq). reflexivity.
Qed.

(* the exact acceptance conditions of the two sides when the second target is pre ++ 0 :: post *)
Theorem rr_zero_copy_exact : forall xs s1 az1 mid pre post,
  resolve az1 xs s1 = Some mid -> nonneg mid = true -> positive pre = true -> positive post = true ->
  let p := prod pre * prod post in let i := List.length pre in
  rr_rule None (pre ++ 0 :: post) false = Some (pre ++ -1 :: post, false) /\
  resolve false xs (pre ++ -1 :: post) = (if prod xs mod p =? 0 then Some (pre ++ prod xs / p :: post) else None) /\
  resolve false mid (pre ++ 0 :: post) =
    (if (i <? List.length mid)%nat && (p * nth i mid 0 =? prod xs) then Some (pre ++ nth i mid 0 :: post) else None).
Proof.
  intros xs s1 az1 mid pre post H1 Hnn Hp Hq p i. pose proof (resolve_prod _ _ _ _ H1) as Hprod.
  destruct (positive_no_zero pre Hp) as [Zp _]. destruct (positive_no_zero post Hq) as [Zq _].
  split; [apply rr_rule_one_zero; assumption|]. split.
  - unfold resolve. cbn [andb].
    assert (Hz' : has 0 (pre ++ -1 :: post) = false).
    { unfold has in *. rewrite existsb_app. cbn [existsb]. rewrite Zp, Zq. reflexivity. }
    rewrite copy0_nozero by exact Hz'. apply finish_minus1_mid; assumption.
  - unfold resolve. cbn [andb]. destruct (i <? List.length mid)%nat eqn:El.
    + apply Nat.ltb_lt in El. rewrite copy0_app_pos by assumption. fold i.
      assert (Hv : 0 <= nth i mid 0).
      { unfold nonneg in Hnn. rewrite forallb_forall in Hnn. apply Z.leb_le. apply Hnn. now apply nth_In. }
      rewrite finish_plain_mid by assumption. fold p. rewrite Hprod. cbn [andb]. reflexivity.
    + apply Nat.ltb_ge in El. rewrite copy0_short by assumption. reflexivity.
Qed.

(* hence: the fused Reshape accepts an input the two Reshapes reject exactly when the element count is divisible but
   the copied dim is not the quotient (or does not exist) *)
Corollary rr_zero_copy_widens_iff : forall xs s1 az1 mid pre post,
  resolve az1 xs s1 = Some mid -> nonneg mid = true -> positive pre = true -> positive post = true ->
  let p := prod pre * prod post in let i := List.length pre in
  (resolve false mid (pre ++ 0 :: post) = None /\ resolve false xs (pre ++ -1 :: post) <> None)
  <-> (prod xs mod p = 0 /\ ~ ((i < List.length mid)%nat /\ p * nth i mid 0 = prod xs)).
Proof.
  intros xs s1 az1 mid pre post H1 Hnn Hp Hq p i.
  destruct (rr_zero_copy_exact xs s1 az1 mid pre post H1 Hnn Hp Hq) as [_ [A B]]. fold p i in A, B. rewrite A, B.
  destruct (prod xs mod p =? 0) eqn:E1; destruct ((i <? List.length mid)%nat && (p * nth i mid 0 =? prod xs)) eqn:E2;
    split; intros [X Y]; try discriminate; try (exfalso; apply Y; reflexivity).
  - exfalso. apply Y. apply andb_true_iff in E2 as [E2 E3]. apply Nat.ltb_lt in E2. lia.
  - split; [lia|]. intros [L M]. apply Nat.ltb_lt in L. rewrite L in E2. lia.
  - split; [reflexivity|discriminate].
  - lia.
  - lia.
Qed.

(* and when the original accepts, the fused one accepts with the same shape (the soundness half, restated on the exact
   conditions: the copied dim IS the quotient) *)
Corollary rr_zero_copy_orig_implies_fused : forall xs s1 az1 mid pre post out,
  resolve az1 xs s1 = Some mid -> nonneg mid = true -> positive pre = true -> positive post = true ->
  resolve false mid (pre ++ 0 :: post) = Some out -> resolve false xs (pre ++ -1 :: post) = Some out.
Proof.
  intros xs s1 az1 mid pre post out H1 Hnn Hp Hq H2.
  eapply reshape_reshape_sound; [exact H1|exact Hnn|exact H2|].
  pose proof (rr_rule_one_zero pre post Hp Hq) as R. unfold rr_rule in R. cbn [option_map rr_new] in R. exact R.
Qed.

(* ---- the two widenings, as witnesses ------------------------------------------------------------------------------ *)
(* x:[N,3] at N = 1: Reshape(x,[4,-1]) is rejected, Reshape(x,[-1]) is not *)
Theorem rr_first_rejected_widens : exists xs s1 s2 s' az' out,
  nonneg xs = true /\ rr_rule None s2 false = Some (s', az') /\ rr_orig false xs s1 false s2 = None /\
  resolve az' xs s' = Some out /\ rr_widening_class false xs s1 false s2 = WFirstRejected.
Proof. exists [1; 3], [4; -1], [-1], [-1], false, [3]. repeat split; reflexivity. Qed.

(* x:[1,8]: Reshape(x,[-1,4]) = [2,4]; Reshape([2,4] -> ..., [0,2]) copies 2 and needs 4 elements: rejected; fused
   Reshape(x,[-1,2]) gives [4,2] *)
Theorem rr_zero_copy_widens : exists xs s1 mid s2 s' az' out,
  resolve false xs s1 = Some mid /\ rr_rule None s2 false = Some (s', az') /\ resolve false mid s2 = None /\
  resolve az' xs s' = Some out /\ rr_widening_class false xs s1 false s2 = WZeroCopyMismatch.
Proof. exists [1; 8], [-1; 4], [2; 4], [0; 2], [-1; 2], false, [4; 2]. repeat split; reflexivity. Qed.

Theorem rr_accepts_full_refuted : ~ rr_accepts_full.
Proof.
  intro H. specialize (H [1; 3] [4; -1] false [-1] false [-1] false eq_refl eq_refl [3]).
  destruct H as [_ H]. specialize (H eq_refl). discriminate.
Qed.

(* no widening is classified when the first Reshape accepted and no dim is copied *)
Theorem rr_widening_none : forall xs s1 az1 mid s2 az2,
  resolve az1 xs s1 = Some mid -> zero_copy s2 az2 = false -> rr_widening_class az1 xs s1 az2 s2 = WNone.
Proof.
  intros xs s1 az1 mid s2 az2 H1 Z. unfold rr_widening_class, rr_fused.
  destruct (rr_rule None s2 az2) as [[s' az']|] eqn:R; [|reflexivity].
  rewrite (rr_no_zero_copy_exact _ _ _ _ _ _ _ _ H1 R Z), H1.
  destruct (resolve az2 mid s2); reflexivity.
Qed.

(* ===================================================================== SlicesSplit =================================== *)
(* under the rule's check both sides accept at every binding: the Slices because the axis is the last one of a tensor of
   rank >= 1, Split(num_outputs = 2) because the last dim is the static positive even d (so >= 2) *)
Theorem slices_split_accepts_iff : forall s axis b0 e0 b1 e1, ss_check (Some s) axis b0 e0 b1 e1 = true ->
  forall rho cx, shape_denotes rho s cx ->
  slice_accepts cx axis = true /\ split2_accepts cx = true.
Proof.
  intros s axis b0 e0 b1 e1 H rho cx Hx.
  destruct (slices_split_sound s axis b0 e0 b1 e1 H rho cx Hx) as [Ha [d [crest [Hr [Hd _]]]]].
  assert (L : (1 <= List.length cx)%nat).
  { rewrite <- rev_length, Hr. cbn. lia. }
  split.
  - unfold slice_accepts. lia.
  - unfold split2_accepts. rewrite Hr.
    (* the static last dim is even *)
    unfold ss_check in H. destruct (rev s) as [|[d'| |] srest] eqn:E; try discriminate.
    apply andb_true_iff in H as [_ Hev].
    pose proof (shape_denotes_rev' _ _ _ Hx) as Hrv. rewrite E, Hr in Hrv. inversion Hrv as [|? ? ? ? D F]; subst.
    simpl in D. subst d'. apply Z.even_spec in Hev. destruct Hev as [k Hk]. lia.
Qed.

(* the shape-dependent part of the check is needed: with begin0 = 0, end0 = begin1, end1 = d on a static last dim d >= 0,
   if the two Slices are the two outputs of Split(num_outputs = 2) on every fiber and Split accepts, then d > 0 and
   begin1 = ceil(d / 2); for an even d that is the rule's `d // 2 == begin1` *)
Theorem ss_last_dim_necessary : forall d b1, 0 <= b1 <= d ->
  (forall l : list nat, Z.of_nat (List.length l) = d ->
     (SliceCollapse.slice1 0 b1 l, SliceCollapse.slice1 b1 d l) = SliceCollapse.split2 l) ->
  0 < d -> b1 = (d + 1) / 2.
Proof.
  intros d b1 Hb H Hd. specialize (H (repeat O (Z.to_nat d))). rewrite repeat_length in H.
  specialize (H ltac:(lia)). unfold SliceCollapse.split2 in H. rewrite repeat_length in H.
  apply (f_equal fst) in H. cbn [fst] in H. apply (f_equal (@List.length nat)) in H.
  unfold SliceCollapse.slice1 in H. rewrite !firstn_length, skipn_length, repeat_length in H.
  unfold SliceCollapse.clamp in H. rewrite Z2Nat.id in H by lia.
  destruct (0 <? 0) eqn:E0; [lia|]. destruct (b1 <? 0) eqn:E1; [lia|].
  rewrite !Z.min_r in H by lia. rewrite !Z.max_r in H by lia.
  assert (0 <= (d + 1) / 2 <= d) by (split; [apply Z.div_pos; lia|apply Z.div_le_upper_bound; lia]).
  lia.
Qed.

(* a symbolic last dim cannot be served by any constants: nothing is right for both d = 2 and d = 4 *)
Lemma slice_fiber2 : forall s e, 0 <= s <= 2 -> 0 <= e <= 2 ->
  firstn (Z.to_nat (e - s)) (skipn (Z.to_nat s) [0; 1]%nat) = [0%nat] -> s = 0 /\ e = 1.
Proof.
  intros s e Hs He H. assert (Cs : s = 0 \/ s = 1 \/ s = 2) by lia. assert (Ce : e = 0 \/ e = 1 \/ e = 2) by lia.
  destruct Cs as [X|[X|X]]; destruct Ce as [Y|[Y|Y]]; subst s e; cbn in H; try discriminate; auto.
Qed.
Lemma slice_fiber4 : forall s e, 0 <= s <= 4 -> 0 <= e <= 4 ->
  firstn (Z.to_nat (e - s)) (skipn (Z.to_nat s) [0; 1; 2; 3]%nat) = [0; 1]%nat -> s = 0 /\ e = 2.
Proof.
  intros s e Hs He H. assert (Cs : s = 0 \/ s = 1 \/ s = 2 \/ s = 3 \/ s = 4) by lia.
  assert (Ce : e = 0 \/ e = 1 \/ e = 2 \/ e = 3 \/ e = 4) by lia.
  destruct Cs as [X|[X|[X|[X|X]]]]; destruct Ce as [Y|[Y|[Y|[Y|Y]]]]; subst s e; cbn in H; try discriminate; auto.
Qed.

Theorem ss_symbolic_last_dim_no_constants : forall b0 e0,
  ~ (SliceCollapse.slice1 b0 e0 [0; 1]%nat = fst (SliceCollapse.split2 [0; 1]%nat) /\
     SliceCollapse.slice1 b0 e0 [0; 1; 2; 3]%nat = fst (SliceCollapse.split2 [0; 1; 2; 3]%nat)).
Proof.
  intros b0 e0 [H2 H4]. unfold SliceCollapse.slice1 in H2, H4.
  change (fst (SliceCollapse.split2 [0; 1]%nat)) with [0%nat] in H2.
  change (fst (SliceCollapse.split2 [0; 1; 2; 3]%nat)) with [0; 1]%nat in H4.
  change (Z.of_nat (List.length [0; 1]%nat)) with 2 in H2. change (Z.of_nat (List.length [0; 1; 2; 3]%nat)) with 4 in H4.
  apply slice_fiber2 in H2; [|unfold SliceCollapse.clamp; lia|unfold SliceCollapse.clamp; lia].
  apply slice_fiber4 in H4; [|unfold SliceCollapse.clamp; lia|unfold SliceCollapse.clamp; lia].
  destruct H2 as [_ E2]. destruct H4 as [_ E4]. unfold SliceCollapse.clamp in E2, E4. destruct (e0 <? 0) eqn:E; lia.
Qed.

(* ===================================================================== sequences ===================================== *)
Lemma repeat_snoc : forall {A} (x : A) n, (repeat x n ++ [x])%list = repeat x (S n).
Proof. induction n; simpl; [reflexivity|]. f_equal. exact IHn. Qed.

(* SplitToSequence with a scalar split s on a static, NON-EMPTY axis d: the Split the evaluator emits produces exactly
   the chunks of the original, and is accepted *)
Theorem split_scalar_emitted_exact : forall d s, 0 < s -> 0 < d -> split_scalar_emitted d s = Some (scalar_sizes d s).
Proof.
  intros d s Hs Hd. unfold split_scalar_emitted, split_scalar, ceil_div, scalar_sizes.
  destruct (s <=? 0) eqn:E; [lia|].
  pose proof (Z.div_mod d s ltac:(lia)) as DM. pose proof (Z.mod_pos_bound d s Hs) as MB.
  remember (d / s) as q. remember (d mod s) as m.
  assert (Q0 : 0 <= q) by (subst q; apply Z.div_pos; lia).
  destruct (m =? 0) eqn:Em.
  - assert (K : (d + s - 1) / s = q) by (symmetry; apply Z.div_unique with (r := s - 1); lia). rewrite K.
    assert (Q1 : 1 <= q) by nia.
    unfold split_sizes, ceil_div. destruct (q <=? 0) eqn:Eq; [lia|].
    assert (C : (d + q - 1) / q = s) by (symmetry; apply Z.div_unique with (r := q - 1); nia). rewrite C.
    replace (d - (q - 1) * s) with s by nia. rewrite repeat_snoc.
    replace (S (Z.to_nat (q - 1))) with (Z.to_nat q) by lia. rewrite app_nil_r.
    destruct (Z.to_nat q) eqn:T; [lia|]. reflexivity.
  - assert (K : (d + s - 1) / s = q + 1) by (symmetry; apply Z.div_unique with (r := m - 1); lia). rewrite K.
    replace (q + 1 - 1) with q by lia. unfold split_sizes.
    assert (F : forallb (Z.leb 0) (repeat s (Z.to_nat q) ++ [d - q * s]) = true).
    { apply forallb_forall. intros x Hx. apply in_app_or in Hx as [Hx|[<-|[]]]; [apply repeat_spec in Hx; lia|lia]. }
    assert (N : (nsum (repeat s (Z.to_nat q) ++ [d - q * s]) =? d) = true).
    { unfold nsum. rewrite sum_app, sum_repeat. cbn [fold_right]. rewrite Z2Nat.id by lia. lia. }
    rewrite F, N. cbn [andb]. replace (d - q * s) with m by lia.
    destruct (repeat s (Z.to_nat q) ++ [m])%list eqn:L; [destruct (repeat s (Z.to_nat q)); discriminate|]. reflexivity.
Qed.

(* ... and on an EMPTY axis the original returns the empty sequence while the emitted model is rejected
   (Split(num_outputs = 0); SequenceConstruct without input) *)
Theorem split_scalar_emitted_empty_axis_refuted : forall s, 0 < s ->
  scalar_sizes 0 s = [] /\ split_scalar_emitted 0 s = None.
Proof.
  intros s Hs. unfold split_scalar_emitted, split_scalar, ceil_div, scalar_sizes.
  destruct (s <=? 0) eqn:E; [lia|]. rewrite Z.div_0_l, Z.mod_0_l by lia. cbn [Z.to_nat repeat app Z.eqb].
  split; [reflexivity|]. replace ((0 + s - 1) / s) with 0 by (symmetry; apply Z.div_small; lia). reflexivity.
Qed.

Theorem split_scalar_emitted_accepts_iff : forall d s, 0 < s -> 0 <= d ->
  (split_scalar_emitted d s = Some (scalar_sizes d s) <-> 0 < d).
Proof.
  intros d s Hs Hd. split.
  - intro H. destruct (Z.eq_dec d 0) as [->|]; [|lia].
    rewrite (proj2 (split_scalar_emitted_empty_axis_refuted s Hs)) in H. discriminate.
  - apply split_scalar_emitted_exact; assumption.
Qed.

(* the repaired evaluator (gives up on an empty axis) is exact at every d >= 0 *)
Theorem split_scalar_fixed_exact : forall d s, 0 < s -> 0 <= d -> split_scalar_emitted_fixed d s = Some (scalar_sizes d s).
Proof.
  intros d s Hs Hd. unfold split_scalar_emitted_fixed. destruct (d =? 0) eqn:E; [reflexivity|].
  apply split_scalar_emitted_exact; lia.
Qed.

(* SequenceAt: folded to Identity exactly at the positions ONNX accepts; elsewhere the node is kept and rejects as before *)
Theorem at_opt_exact : forall {A} (l : list A) i, at_opt l i = onnx_seq_at l i.
Proof. intros A l i. unfold at_opt. rewrite seq_at_sound. destruct (onnx_seq_at l i); reflexivity. Qed.

(* SplitToSequence(x, sizes, axis k) -> ConcatFromSequence(axis k, new_axis = 0): the emitted Concat of the chunks
   accepts and returns the shape of x, for every shape of x (a dim may be 0) *)
Lemma set_nth_length : forall {A} (l : list A) k v, List.length (set_nth l k v) = List.length l.
Proof. induction l; intros [|k] v; simpl; auto. Qed.
Lemma set_nth_twice : forall {A} (l : list A) k v w, set_nth (set_nth l k v) k w = set_nth l k w.
Proof. induction l; intros [|k] v w; simpl; auto. f_equal. apply IHl. Qed.
Lemma nth_set_nth : forall (l : list Z) k v, (k < List.length l)%nat -> nth k (set_nth l k v) 0 = v.
Proof. induction l; intros [|k] v H; simpl in *; try lia; auto. apply IHl. lia. Qed.
Lemma set_nth_same : forall (l : list Z) k, set_nth l k (nth k l 0) = l.
Proof. induction l; intros [|k]; simpl; auto. f_equal. apply IHl. Qed.
Lemma forallb2_refl : forall l, forallb2 Z.eqb l l = true.
Proof. induction l; simpl; [reflexivity|]. rewrite Z.eqb_refl. exact IHl. Qed.

Theorem split_concat_roundtrip : forall sh k sizes, (k < List.length sh)%nat -> sizes <> [] ->
  nsum sizes = nth k sh 0 ->
  concat_shape (Z.of_nat k) (chunk_shapes sh k sizes) = Some sh.
Proof.
  intros sh k sizes Hk Hne Hs. destruct sizes as [|s0 rest]; [congruence|].
  unfold chunk_shapes. cbn [map]. unfold concat_shape, chunk_shape.
  rewrite set_nth_length, (norm_axis_nat _ _ Hk).
  assert (F : forallb (compatible k (set_nth sh k s0)) (set_nth sh k s0 :: map (fun sz => set_nth sh k sz) rest) = true).
  { apply forallb_forall. intros c Hc.
    assert (exists sz, c = set_nth sh k sz) as [sz ->].
    { destruct Hc as [<-|Hc]; [eauto|]. apply in_map_iff in Hc as [sz [<- _]]. eauto. }
    unfold compatible. rewrite !set_nth_length, Nat.eqb_refl, !set_nth_twice. apply forallb2_refl. }
  rewrite F. f_equal.
  assert (M : map (fun c => nth k c 0) (set_nth sh k s0 :: map (fun sz => set_nth sh k sz) rest) = s0 :: rest).
  { cbn [map]. rewrite nth_set_nth by exact Hk. f_equal. rewrite map_map.
    clear -Hk. induction rest; cbn [map]; [reflexivity|]. rewrite nth_set_nth by exact Hk. f_equal. exact IHrest. }
  rewrite M. unfold nsum in Hs. rewrite Hs, set_nth_twice. apply set_nth_same.
Qed.

(* an empty list of sizes: the original returns the empty sequence and ConcatFromSequence rejects it; Concat without
   input is rejected too *)
Theorem split_concat_empty_rejected : forall k, concat_shape k (chunk_shapes [] 0 []) = None.
Proof. reflexivity. Qed.

(* ===================================================================== get_dim ======================================= *)
Lemma F2_nth_error : forall {A B} (R : A -> B -> Prop) l m k a, Forall2 R l m -> nth_error l k = Some a ->
  exists b, nth_error m k = Some b /\ R a b.
Proof.
  intros A B R l m k a H. revert k. induction H; intros [|k] E; simpl in *; try discriminate.
  - inversion E; subst. eauto.
  - apply IHForall2. exact E.
Qed.

(* the dim get_dim returns denotes, at every valuation, the runtime dim at the same (Python-normalised) position; and
   it returns one exactly for the positions that exist at run time *)
Theorem get_dim_sound : forall s i d rho cx, get_dim (Some s) i = Some d -> shape_denotes rho s cx ->
  exists n, py_index cx i = Some n /\ denotes rho d n.
Proof.
  unfold get_dim, py_index. intros s i d rho cx H Hx. pose proof (rank_valuation_independent _ _ _ Hx) as L. rewrite L.
  destruct ((0 <=? i) && (i <? Z.of_nat (List.length s))).
  - eapply F2_nth_error; eauto.
  - destruct ((i <? 0) && (- Z.of_nat (List.length s) <=? i)); [|discriminate]. eapply F2_nth_error; eauto.
Qed.

Theorem get_dim_none_iff : forall s i rho cx, shape_denotes rho s cx ->
  (get_dim (Some s) i = None <-> py_index cx i = None).
Proof.
  unfold get_dim, py_index. intros s i rho cx Hx. pose proof (rank_valuation_independent _ _ _ Hx) as L. rewrite L.
  destruct ((0 <=? i) && (i <? Z.of_nat (List.length s))) eqn:E1.
  - rewrite !nth_error_None. lia.
  - destruct ((i <? 0) && (- Z.of_nat (List.length s) <=? i)) eqn:E2; [|tauto]. rewrite !nth_error_None. lia.
Qed.

(* ===================================================================== ScatterAllDynamic with Shape attributes ======= *)
Lemma pyslice_whole : forall {A} (l : list A), pyslice l 0 None = l.
Proof.
  intros A l. unfold pyslice, clamp_index. replace (0 <? 0) with false by reflexivity.
  replace (Z.max 0 (Z.min (Z.of_nat (List.length l)) 0)) with 0 by lia.
  rewrite Z.sub_0_r, Nat2Z.id. cbn [Z.to_nat skipn]. apply firstn_all.
Qed.

(* repaired check: when it fires the Shape node returns the whole shape, so the Range covers dim 0 of the scattered-into
   tensor entirely, at every valuation *)
Theorem scatter_dyn_attrs_sound : forall start stop data tdata axis,
  scatter_dyn_attrs SdRepaired start stop (Some data) (Some tdata) axis = true ->
  forall rho cd ct n, shape_denotes rho data cd -> shape_denotes rho tdata ct ->
  py_index (shape_op cd start stop) axis = Some n -> exists rest, ct = n :: rest.
Proof.
  intros start stop data tdata axis H rho cd ct n Hd Ht Hi. unfold scatter_dyn_attrs in H.
  destruct start as [[| |]|]; try discriminate. destruct stop; [discriminate|].
  unfold shape_op in Hi. rewrite pyslice_whole in Hi. eapply scatter_dyn_sound; eauto.
Qed.

(* as read (an `end` attribute is not looked at): data [N,M], base [M,3], axis -1, Shape(data, start=0, end=1) = [N]:
   the Range covers N rows of the M rows of base *)
Theorem scatter_dyn_end_ignored_refuted : exists stop data tdata axis rho cd ct n,
  scatter_dyn_attrs SdAsRead (Some 0) (Some stop) (Some data) (Some tdata) axis = true /\
  shape_denotes rho data cd /\ shape_denotes rho tdata ct /\
  py_index (shape_op cd (Some 0) (Some stop)) axis = Some n /\ hd 0 ct <> n.
Proof.
  exists 1, [DSym "N"; DSym "M"], [DSym "M"; DInt 3], (-1),
         (fun s => if String.eqb s "N" then 2%nat else 3%nat), [2; 3], [3; 3], 2.
  split; [reflexivity|]. split; [repeat constructor|]. split; [repeat constructor|]. split; [reflexivity|]. cbn. lia.
Qed.

(* the two variants differ only when an `end` attribute is present *)
Theorem scatter_dyn_attrs_variants : forall start data tdata axis,
  scatter_dyn_attrs SdAsRead start None data tdata axis = scatter_dyn_attrs SdRepaired start None data tdata axis.
Proof. intros [[| |]|] data tdata axis; reflexivity. Qed.
