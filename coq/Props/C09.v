(* C09 property theorems: statements only, each closed by `exact`, Print Assumptions beneath.
   rho : valuation binds every symbolic name to a runtime size; `shape_denotes rho s c` says that the
   annotation s is truthful for the concrete shape c (unknown dims denote any size). *)
From Coq Require Import String ZArith List Bool.
Require Import OV.Shape.SymDim OV.Shape.SymDimProofs OV.Shape.Broadcast OV.Shape.BroadcastProofs.
Require Import OV.Shape.PartialEval OV.Shape.PartialEvalProofs OV.Shape.Materialize OV.Shape.MaterializeProofs.
Import ListNotations.
Open Scope Z_scope.

(* ---- the three dimension equalities ------------------------------------------------------- *)
Theorem C09_same_dim_sound : forall a b, same_dim a b = true ->
  forall rho n m, denotes rho a n -> denotes rho b m -> n = m.
Proof. exact same_dim_sound. Qed.
Print Assumptions C09_same_dim_sound.

Theorem C09_iu_same_shape_sound : forall s1 s2, iu_same_shape (Some s1) (Some s2) = true ->
  forall rho c1 c2, shape_denotes rho s1 c1 -> shape_denotes rho s2 c2 -> c1 = c2.
Proof. exact iu_same_shape_sound. Qed.
Print Assumptions C09_iu_same_shape_sound.

Theorem C09_cf_same_shape_sound : forall s1 s2, cf_same_shape s1 s2 = true ->
  forall rho c1 c2, shape_denotes rho s1 c1 -> shape_denotes rho s2 c2 -> c1 = c2.
Proof. exact cf_same_shape_sound. Qed.
Print Assumptions C09_cf_same_shape_sound.

(* Python == on dims (SymbolicDim.__eq__) does NOT imply equal runtime sizes: None == None *)
Theorem C09_dim_python_eq_refuted : exists a b rho n m,
  dim_ir_eqb a b = true /\ denotes rho a n /\ denotes rho b m /\ n <> m.
Proof. exact dim_ir_eqb_refuted. Qed.
Print Assumptions C09_dim_python_eq_refuted.

(* ---- BinaryOp(Expand(x, target), y) -> BinaryOp(x, y) ------------------------------------- *)
(* strategy 1 (constant target), repaired check: same output shape including rank, and the same
   set of accepted input shapes (equality of options), for every binding *)
Theorem C09_expand_binop_s1_sound : forall e x y, s1_fixed e x y = true ->
  forall rho cx cy, shape_denotes rho x cx -> shape_denotes rho y cy ->
  pattern_shape cx e cy = rewritten_shape cx cy.
Proof. exact s1_fixed_sound. Qed.
Print Assumptions C09_expand_binop_s1_sound.

(* strategy 2 (annotation e of the Expand output; the runtime target t is arbitrary) *)
Theorem C09_expand_binop_s2_sound : forall e x y, s2_fixed e x y = true ->
  forall rho cx cy ce t, shape_denotes rho x cx -> shape_denotes rho y cy -> shape_denotes rho e ce ->
  bcast cx t = Some ce ->
  pattern_shape cx t cy = rewritten_shape cx cy.
Proof. exact s2_fixed_sound. Qed.
Print Assumptions C09_expand_binop_s2_sound.

(* strategy 3 (annotation o of the binary op output, co = runtime output shape of the original) *)
Theorem C09_expand_binop_s3_sound : forall x y o, s3_fixed x y o = true ->
  forall rho cx cy co, shape_denotes rho x cx -> shape_denotes rho y cy -> shape_denotes rho o co ->
  rewritten_shape cx cy = Some co.
Proof. exact s3_fixed_sound. Qed.
Print Assumptions C09_expand_binop_s3_sound.

(* the whole check, whichever strategy is taken *)
Theorem C09_expand_binop_shape_sound : forall a x y, removable_fixed a x y = true ->
  forall rho cx cy t, shape_denotes rho x cx -> shape_denotes rho y cy -> truthful_avail rho a cx t cy ->
  rewritten_shape cx cy = pattern_shape cx t cy.
Proof. exact removable_fixed_sound. Qed.
Print Assumptions C09_expand_binop_shape_sound.

(* values: at every output index both sides read the same elements of x and of y (index view of
   broadcasting; shapes are reversed lists here, I is a reversed multi-index) *)
Theorem C09_expand_binop_values : forall cx t ce, rb cx t = Some ce ->
  forall (V : Type) (op : V -> V -> V) fx fy cy I,
  binop_at V op (expand_at V fx cx) fy ce cy I = binop_at V op fx fy cx cy I.
Proof. exact expand_binop_values. Qed.
Print Assumptions C09_expand_binop_values.

(* the checks as shipped at the pinned commit are refuted (witnesses replayed on the real rule set) *)
Theorem C09_expand_binop_s1_shipped_refuted : exists e x y rho cx cy,
  s1_old e x y = true /\ shape_denotes rho x cx /\ shape_denotes rho y cy /\
  pattern_shape cx e cy <> None /\ pattern_shape cx e cy <> rewritten_shape cx cy.
Proof. exact s1_old_refuted. Qed.
Print Assumptions C09_expand_binop_s1_shipped_refuted.

Theorem C09_expand_binop_s2_shipped_rank_refuted : exists e x y rho cx cy ce t,
  s2_old e x y = true /\ shape_denotes rho x cx /\ shape_denotes rho y cy /\ shape_denotes rho e ce /\
  bcast cx t = Some ce /\ pattern_shape cx t cy <> None /\ pattern_shape cx t cy <> rewritten_shape cx cy.
Proof. exact s2_old_rank_refuted. Qed.
Print Assumptions C09_expand_binop_s2_shipped_rank_refuted.

Theorem C09_expand_binop_s2_shipped_unknown_refuted : exists e x y rho cx cy ce t,
  s2_old e x y = true /\ rank_ok (length e) (length x) (length y) = true /\
  shape_denotes rho x cx /\ shape_denotes rho y cy /\ shape_denotes rho e ce /\
  bcast cx t = Some ce /\ pattern_shape cx t cy <> None /\ pattern_shape cx t cy <> rewritten_shape cx cy.
Proof. exact s2_old_unknown_refuted. Qed.
Print Assumptions C09_expand_binop_s2_shipped_unknown_refuted.

Theorem C09_expand_binop_s3_shipped_refuted : exists x y o rho cx cy t co,
  s3_old x y o = true /\ shape_denotes rho x cx /\ shape_denotes rho y cy /\ shape_denotes rho o co /\
  pattern_shape cx t cy = Some co /\ rewritten_shape cx cy <> Some co.
Proof. exact s3_old_refuted. Qed.
Print Assumptions C09_expand_binop_s3_shipped_refuted.

(* ---- partial evaluators of _constant_folding.py on shape values ----------------------------- *)
(* invariant of OptimizerState._sym_value_map for Shape / Gather / Concat / Add / Abs chains: the
   recorded ir.Shape denotes the runtime contents of the INT64 tensor, for every binding that
   respects the invented "a+b" names (plus_closed) *)
Theorem C09_shape_value_sound : forall rho e, plus_closed rho e ->
  forall s c, sv_sym e = Some s -> sv_runs rho e c -> Forall2 (denotes rho) s c.
Proof. exact shape_value_sound. Qed.
Print Assumptions C09_shape_value_sound.

(* Shape / Gather folded to Constant(value_ints) when every recorded dim is an int *)
Theorem C09_shape_value_constant_fold_sound : forall rho e s c, plus_closed rho e ->
  sv_sym e = Some s -> all_int s = true -> sv_runs rho e c -> s = map DInt c.
Proof. exact shape_value_constant_fold_sound. Qed.
Print Assumptions C09_shape_value_constant_fold_sound.

(* Reshape -> Identity (_same_shape(input.shape, shape_value)): the output shape is the input shape
   for both values of allowzero, including dims equal to 0 and repeated symbols *)
Theorem C09_reshape_identity_sound : forall x e, reshape_is_identity (Some x) e = true ->
  forall rho cx c, plus_closed rho e -> shape_denotes rho x cx -> sv_runs rho e c ->
  Forall (fun n => 0 <= n) cx ->
  forall allowzero, reshape_out allowzero cx c = Some cx.
Proof. exact reshape_identity_sound. Qed.
Print Assumptions C09_reshape_identity_sound.

(* Expand -> Identity, symbolic target *)
Theorem C09_expand_identity_sound : forall x e, expand_is_identity (Some x) e = true ->
  forall rho cx c, plus_closed rho e -> shape_denotes rho x cx -> sv_runs rho e c ->
  bcast cx c = Some cx.
Proof. exact expand_identity_sound. Qed.
Print Assumptions C09_expand_identity_sound.

(* Expand -> Identity, constant target: expand() constant branch and the ExpandIdentity rewrite rule *)
Theorem C09_expand_identity_const_sound : forall x e, expand_identity_const x e = true ->
  forall rho cx, shape_denotes rho x cx -> bcast cx e = Some cx.
Proof. exact expand_identity_const_sound. Qed.
Print Assumptions C09_expand_identity_const_sound.

(* with the repaired Add evaluator: every recorded int dim is exact and every other recorded dim is
   non-negative at run time -- for every binding, no side condition *)
Theorem C09_shape_value_nonneg : forall rho e s c, sv_sym e = Some s -> sv_runs rho e c -> Forall2 weak s c.
Proof. exact shape_value_nonneg. Qed.
Print Assumptions C09_shape_value_nonneg.

(* Abs on a shape value without negative ints -> Identity (repaired Add evaluator; no side condition) *)
Theorem C09_abs_identity_sound : forall e, abs_is_identity e = true ->
  forall rho c, sv_runs rho e c -> map Z.abs c = c.
Proof. exact abs_identity_sound. Qed.
Print Assumptions C09_abs_identity_sound.

(* as shipped, Add records a name for symbol + negative constant and Abs assumes it non-negative *)
Theorem C09_abs_identity_shipped_refuted : exists e rho c,
  abs_is_identity_old e = true /\ sv_runs rho e c /\ map Z.abs c <> c.
Proof. exact abs_identity_old_refuted. Qed.
Print Assumptions C09_abs_identity_shipped_refuted.

(* ---- MaterializeReshapeShape ----------------------------------------------------------------- *)
(* repaired rule: Reshape(data, Constant(dims), allowzero=1) yields exactly the runtime shape co that the
   truthful annotation o describes (cx = runtime shape of data, same element count as co) *)
Theorem C09_materialize_reshape_sound : forall o dims, mat_dims_fixed o = Some dims ->
  forall rho cx co, shape_denotes rho o co -> Forall (fun n => 0 <= n) co -> zprod cx = zprod co ->
  reshape_out true cx dims = Some co.
Proof. exact materialize_sound. Qed.
Print Assumptions C09_materialize_reshape_sound.

(* as shipped: a static 0 beside the single symbolic dim gives [0, -1] with allowzero=1, which Reshape rejects *)
Theorem C09_materialize_reshape_shipped_refuted : exists o dims rho cx co,
  mat_dims_old o = Some dims /\ shape_denotes rho o co /\ Forall (fun n => 0 <= n) co /\ zprod cx = zprod co /\
  reshape_out true cx dims <> Some co.
Proof. exact materialize_old_refuted. Qed.
Print Assumptions C09_materialize_reshape_shipped_refuted.

(* Flatten2Reshape: the emitted Reshape(x, [0,-1]) is rejected for an empty batch (witness x:[0,4]); finding, no repair *)
Theorem C09_flatten_to_reshape_refuted : exists cx,
  Forall (fun n => 0 <= n) cx /\ reshape_out false cx [0; -1] <> Some (flatten_out cx 1).
Proof. exact flatten_to_reshape_refuted. Qed.
Print Assumptions C09_flatten_to_reshape_refuted.

(* collapse_slice2: a step-1 window of the same length as the axis is the whole axis (with C09_iu_same_shape_sound) *)
Theorem C09_collapse_slice_window : forall (l : list Z) k n,
  List.length (firstn n (skipn k l)) = List.length l -> firstn n (skipn k l) = l.
Proof. exact (@window_full Z). Qed.
Print Assumptions C09_collapse_slice_window.
