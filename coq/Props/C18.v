(* C18 property theorems: statements only, each closed by `exact`, Print Assumptions beneath.
   Model A (module trees -> initializer names): coq/Builder/Modules.v, proofs in ModulesProofs.v.
   Model B (value / node names): Naming.v, NamingProofs.v.
   Model C (trace -> graph -> values): Trace.v, TraceProofs.v (uses the shared OV.Graph evaluator). *)
From Coq Require Import String List Bool Arith ZArith.
Require Import OV.Graph.Syntax OV.Graph.Sem OV.Graph.Wf.
Require Import OV.Builder.Strings OV.Builder.Modules OV.Builder.ModulesProofs.
Require Import OV.Builder.Naming OV.Builder.NamingProofs OV.Builder.Trace OV.Builder.TraceProofs.
Require Import OV.Builder.TraceCF OV.Builder.TraceCFProofs OV.Builder.TraceNames OV.Builder.TraceNamesProofs OV.Builder.TraceCFConvProofs.
Import ListNotations.
Local Open Scope string_scope.

(* --- Model A: "every module parameter appears exactly once as an initializer whose name is the dotted
   module path, equal to the keys of state_dict()/named_parameters() prefixed with the root's name".
   For every construction program s (any depth; Module / ModuleList / Sequential; constructor, early and
   late appends; slices; unnamed or consistently named children; named or unnamed root) whose
   hypotheses `program_okb` hold, under either behaviour `cf` of the three probed code paths.
   Not covered: the order in which a user-written forward() calls its children (the model calls every
   child once, in registration order); modules shared between two parents. *)
Theorem C18_param_names_eq_state_dict : forall cf s, program_okb cf s = true ->
  realised_names cf (construct cf s) =
  map (prefix (root_name (construct cf s))) (sd_keys (construct cf s)).
Proof. exact param_names_eq_state_dict. Qed.
Print Assumptions C18_param_names_eq_state_dict.

Theorem C18_params_once : forall cf s, program_okb cf s = true ->
  NoDup (realised_names cf (construct cf s)) /\
  List.length (realised_names cf (construct cf s)) = List.length (param_ids (construct cf s)).
Proof. exact params_once. Qed.
Print Assumptions C18_params_once.

(* the hypotheses are satisfiable on a depth-4 program mixing all constructs *)
Example C18_program_hypotheses_satisfiable :
  program_okb cfg_pinned (ex_program (Some "model")) = true /\
  program_okb cfg_pinned (ex_program None) = true /\
  program_okb cfg_fixed (ex_program (Some "model")) = true.
Proof. exact ex_program_ok. Qed.

(* the tree-level statement behind it: any object graph whose names are propagated (`shape_ok`) *)
Theorem C18_realised_names_tree : forall cf t, tree_hyps cf t ->
  realised_names cf t = map (prefix (root_name t)) (sd_keys t).
Proof. exact realised_names_tree. Qed.
Print Assumptions C18_realised_names_tree.

(* every consistent construction program propagates names correctly, whatever the order of
   constructor arguments, appends before / after attachment and slicing *)
Theorem C18_construction_propagates_names : forall cf s,
  consistentb URoot s = true -> shape_ok (construct cf s).
Proof. exact construct_shape. Qed.
Print Assumptions C18_construction_propagates_names.

Theorem C18_state_dict_keys_unique : forall t, keys_okb t = true -> NoDup (sd_keys t).
Proof. exact sd_keys_nodup. Qed.
Print Assumptions C18_state_dict_keys_unique.

(* --- outside the hypotheses: the faithful model deviates; each witness is replayed on the real code *)
Theorem C18_named_child_appended_refuted :
  static_okb cfg_pinned (construct cfg_pinned w_named_append) = true /\
  names_match cfg_pinned w_named_append = false /\
  names_match cfg_pinned w_named_init = true /\
  names_match cfg_fixed w_named_append = true.
Proof. exact named_child_appended_refuted. Qed.
Print Assumptions C18_named_child_appended_refuted.

Theorem C18_shared_parameter_refuted :
  consistentb URoot w_shared = true /\ keys_okb (construct cfg_pinned w_shared) = true /\
  realised_names cfg_pinned (construct cfg_pinned w_shared) = ["root.a.weight"] /\
  sd_keys (construct cfg_pinned w_shared) = ["a.weight"; "b.weight"].
Proof. exact shared_parameter_refuted. Qed.
Print Assumptions C18_shared_parameter_refuted.

Theorem C18_module_in_subgraph_refuted :
  consistentb URoot w_subgraph = true /\ keys_okb (construct cfg_pinned w_subgraph) = true /\
  nodup_natb (param_ids (construct cfg_pinned w_subgraph)) = true /\
  realised_names cfg_pinned (construct cfg_pinned w_subgraph) = ["root.weight"] /\
  sd_keys (construct cfg_pinned w_subgraph) = ["a.weight"; "b.weight"] /\
  names_match cfg_fixed w_subgraph = true.
Proof. exact module_in_subgraph_refuted. Qed.
Print Assumptions C18_module_in_subgraph_refuted.

Theorem C18_qualify_not_injective_refuted :
  exists st1 n1 st2 n2, (st1, n1) <> (st2, n2) /\ qualify_init st1 n1 = qualify_init st2 n2.
Proof. exact qualify_not_injective_refuted. Qed.
Print Assumptions C18_qualify_not_injective_refuted.

Theorem C18_dotted_name_collision_refuted :
  nodup_natb (param_ids (construct cfg_pinned w_dotted)) = true /\
  List.length (param_ids (construct cfg_pinned w_dotted)) = 2 /\
  realised_names cfg_pinned (construct cfg_pinned w_dotted) = ["root.a.b.weight"].
Proof. exact dotted_name_collision_refuted. Qed.
Print Assumptions C18_dotted_name_collision_refuted.

Theorem C18_nested_unattached_list_refuted :
  consistentb URoot w_nested_unattached = true /\
  static_okb cfg_pinned (construct cfg_pinned w_nested_unattached) = true /\
  realised_names cfg_pinned (construct cfg_pinned w_nested_unattached) = ["0.weight"] /\
  sd_keys (construct cfg_pinned w_nested_unattached) = ["0.0.weight"] /\
  names_match cfg_fixed w_nested_unattached = true.
Proof. exact nested_unattached_list_refuted. Qed.
Print Assumptions C18_nested_unattached_list_refuted.

(* ======================================================================================= Model B *)
(* "all value and node names are unique": a default value name determines the node counter it was
   generated from (and the output index), for every scope stack and every operator / function name made
   of letters; a node name determines its counter for every scope and operator name. *)
Theorem C18_value_name_single_determines_counter : forall st1 op1 c1 st2 op2 c2,
  plain_op op1 = true -> plain_op op2 = true -> vname1 st1 op1 c1 = vname1 st2 op2 c2 -> c1 = c2.
Proof. exact vname1_inj. Qed.
Print Assumptions C18_value_name_single_determines_counter.

Theorem C18_value_name_multi_determines_counter_and_index : forall st1 op1 c1 i1 st2 op2 c2 i2,
  plain_op op1 = true -> plain_op op2 = true ->
  vnameN st1 op1 c1 i1 = vnameN st2 op2 c2 i2 -> c1 = c2 /\ i1 = i2.
Proof. exact vnameN_inj. Qed.
Print Assumptions C18_value_name_multi_determines_counter_and_index.

Theorem C18_value_name_single_vs_multi_distinct : forall st1 op1 c1 st2 op2 c2 i2,
  plain_op op1 = true -> plain_op op2 = true -> vname1 st1 op1 c1 <> vnameN st2 op2 c2 i2.
Proof. exact vname1_vnameN_neq. Qed.
Print Assumptions C18_value_name_single_vs_multi_distinct.

Theorem C18_node_name_determines_counter : forall st1 op1 c1 st2 op2 c2,
  node_name st1 op1 c1 = node_name st2 op2 c2 -> c1 = c2.
Proof. exact node_name_inj. Qed.
Print Assumptions C18_node_name_determines_counter.

(* names allocated at pairwise different counters are pairwise different *)
Theorem C18_names_unique_allocs : forall l,
  Forall (fun a => plain_op (a_op a) = true) l -> NoDup (map a_count l) -> NoDup (flat_map alloc_names l).
Proof. exact names_unique_allocs. Qed.
Print Assumptions C18_names_unique_allocs.

(* names_unique_one_graph, on what `build` produces: any straight-line trace with default output names,
   under either counter behaviour.  Not covered: explicit _outputs names (the caller's responsibility),
   names produced by call_inline (observed, not modelled). *)
Theorem C18_names_unique_one_graph : forall cf ins tr,
  straight tr = true -> forallb default_plain_call tr = true ->
  NoDup (flat_map n_outs (snd (build_state cf ins tr))).
Proof. exact names_unique_one_graph. Qed.
Print Assumptions C18_names_unique_one_graph.

Example C18_names_unique_one_graph_hypotheses_satisfiable :
  straight ex_default_trace = true /\ forallb default_plain_call ex_default_trace = true /\
  flat_map n_outs (snd (build_state bcfg_pinned ["x"] ex_default_trace)) =
  ["v_enc.Split_0_0"; "v_enc.Split_0_1"; "v_enc.Split_0_2"; "v_enc.Split_1_0"; "v_enc.Split_1_1"; "v_Add_2"; "v_a.b.scaled_3"].
Proof. exact ex_default_trace_ok. Qed.

(* names_unique_across_subgraphs is false on the pinned tree: witness replayed on the real code *)
Theorem C18_names_unique_across_subgraphs_refuted :
  let g := build bcfg_pinned ["x"; "c"] w_subgraph_trace [4] in
  In "v_Add_0" (flat_map n_outs (g_nodes g)) /\ In "v_Add_0" (sub_defs g) /\ wf_graphb g = false /\
  wf_graphb (build bcfg_fixed ["x"; "c"] w_subgraph_trace [4]) = true.
Proof. exact names_unique_across_subgraphs_refuted. Qed.
Print Assumptions C18_names_unique_across_subgraphs_refuted.

(* ======================================================================================= Model C *)
(* "computes exactly the sequence of operator calls that was traced": for every straight-line trace
   (operators and function calls as abstract kernels `sem`; literal operands through the constant cache;
   omitted optional inputs; default or explicit output names; any scopes), evaluating the built graph
   with the shared graph evaluator = reading the trace directly, including failure.
   Hypotheses: value ids exist when used; value and initializer names pairwise distinct (for default
   names: C18_names_unique_one_graph); literals that share a cache key denote the same tensor (C12).
   Not covered by this theorem: subgraph bodies and operands that need a CastLike node (see
   C18_build_computes_trace_cf_partial below), call_inline (Props/C18_inline.v). *)
Theorem C18_build_computes_trace :
  forall V sem truth trip of_nat of_bool lim lit_val cf fuel ins tr outs args,
    straight tr = true ->
    ids_ok (List.length ins) tr = true ->
    let sf := fst (build_state cf ins tr) in
    forallb (fun i => Nat.ltb i (List.length (b_names sf))) outs = true ->
    NoDup (b_names sf ++ cache_names (b_cache sf)) ->
    Forall (lit_ok V lit_val (b_cache sf)) (flat_map call_lits tr) ->
    List.length args = List.length ins ->
    eval_graph V sem truth trip of_nat of_bool lim (S fuel) (init_env V lit_val (b_cache sf)) (build cf ins tr outs) args =
    replay V sem lit_val tr args outs.
Proof. exact build_computes_trace. Qed.
Print Assumptions C18_build_computes_trace.

Example C18_build_computes_trace_hypotheses_satisfiable :
  forall V sem truth trip of_nat of_bool lim lit_val cf fuel a b,
  eval_graph V sem truth trip of_nat of_bool lim (S fuel)
             (init_env V lit_val (b_cache (fst (build_state cf ["x"; "y"] ex_trace))))
             (build cf ["x"; "y"] ex_trace [6; 5]) [a; b] =
  replay V sem lit_val ex_trace [a; b] [6; 5].
Proof. exact ex_trace_computes. Qed.

(* --- control flow and promoted constants.  For every trace of operator calls, function calls, If and Loop
   calls whose bodies were built through builder.subgraph (nested builder scopes to any depth, bodies capturing
   values of the enclosing trace functions, declared output names), with literal operands at every level --
   promoted constants through the constant cache of the root builder (initializers of the root graph, visible in
   every body), and CastLike(constant, like-value) next to a value of unknown dtype --: whenever the direct
   reading of the trace (`creplay`: only the taken branch is read, the Loop body is iterated) is defined,
   evaluating the built graph with the shared evaluator gives exactly that result.
   Hypotheses: the names the build defines (values, CastLike outputs, initializers) are pairwise distinct (after
   the repo's fix 3390211 the generated ones are; explicit names are the caller's); literals that share a cache
   key denote the same tensor (C12).
   Not covered: the converse direction for traces with bodies (reading undefined => evaluation fails:
   build_computes_trace_cf_full; proved for straight-line traces above), Scan and other operators with
   graph-valued attributes (the shared evaluator does not interpret them), Loop scan outputs. *)
Theorem C18_build_computes_trace_cf_partial :
  forall V sem truth trip of_nat of_bool lim lit_val cf fuel ins tr outs args r,
  cf_trace tr = true ->
  let sf := fst (build_state cf ins tr) in
  NoDup (all_defined sf) ->
  Forall (lit_ok V lit_val (b_cache sf)) (lits_calls tr) ->
  List.length args = List.length ins ->
  creplay V sem truth trip of_nat of_bool lim lit_val fuel tr args outs = Some r ->
  eval_graph V sem truth trip of_nat of_bool lim (S fuel) (init_env V lit_val (b_cache sf)) (build cf ins tr outs) args = Some r.
Proof. exact build_computes_trace_cf_partial. Qed.
Print Assumptions C18_build_computes_trace_cf_partial.

(* the same with the hypotheses as the boolean the harness evaluates on every generated trace *)
Theorem C18_build_computes_trace_cf_checked :
  forall V sem truth trip of_nat of_bool lim lit_val cf fuel ins tr outs args r,
  cf_hypsb cf ins tr = true ->
  List.length args = List.length ins ->
  creplay V sem truth trip of_nat of_bool lim lit_val fuel tr args outs = Some r ->
  eval_graph V sem truth trip of_nat of_bool lim (S fuel)
             (init_env V lit_val (b_cache (fst (build_state cf ins tr)))) (build cf ins tr outs) args = Some r.
Proof. exact build_computes_trace_cf_checked. Qed.
Print Assumptions C18_build_computes_trace_cf_checked.

(* non-vacuity: an If whose branches capture an outer value (one with a declared output name), a Loop with a
   literal trip count, an omitted condition, a carried tensor and a carried literal whose body captures a graph
   input, a CastLike operand; the reading is defined for both branches and undefined without fuel *)
Example C18_build_computes_trace_cf_hypotheses_satisfiable :
  cf_hypsb bcfg_fixed ["x"; "c"] ex_cf_trace = true /\
  creplay Z zsem ztruth ztrip Z.of_nat zof_bool 100 zlit 1 ex_cf_trace [5; 1]%Z [15; 14; 5] = Some [290; 3; 14]%Z /\
  creplay Z zsem ztruth ztrip Z.of_nat zof_bool 100 zlit 1 ex_cf_trace [5; 0]%Z [15; 14; 5] = Some [80; 3; -7]%Z /\
  creplay Z zsem ztruth ztrip Z.of_nat zof_bool 100 zlit 0 ex_cf_trace [5; 1]%Z [15; 14; 5] = None.
Proof. exact ex_cf_hyps. Qed.

Example C18_build_computes_trace_cf_instance :
  eval_graph Z zsem ztruth ztrip Z.of_nat zof_bool 100 2
             (init_env Z zlit (b_cache (fst (build_state bcfg_fixed ["x"; "c"] ex_cf_trace))))
             (build bcfg_fixed ["x"; "c"] ex_cf_trace [15; 14; 5]) [5; 1]%Z = Some [290; 3; 14]%Z.
Proof. exact ex_cf_computes. Qed.

(* --- "all value names are unique", across the subgraphs of a builder tree (after repo fix 3390211: the counter
   counts the nodes of all graphs of the tree).  For EVERY trace -- any nesting of If / Loop / Scan bodies, CastLike
   operands, explicit and declared output names, nodes added by call_inline -- whose generated names come from
   operator / function names made of letters: if the names the CALLER chose (`user_names`, a function of the trace:
   graph and subgraph inputs, explicit _outputs names, declared output names of bodies, names of inlined values,
   constant names) are pairwise distinct and none has the shape of a generated name ("v_..._<digits>"), then ALL
   names the build defines (values at every depth, CastLike outputs, initializers) are pairwise distinct.  The
   generated names need no hypothesis: each is made from a counter value used once in the whole tree (on the pinned
   tree this is false: C18_names_unique_across_subgraphs_refuted).
   Not covered: function names containing '_' or digits with default output names (the counter cannot be read back
   from "v_f_3_0" if "f_3" may be a function name: hypothesis plain_trace). *)
Theorem C18_names_unique_across_subgraphs_fixed : forall ins tr,
  plain_trace tr = true -> user_okb ins tr = true ->
  NoDup (all_defined (fst (build_state bcfg_fixed ins tr))).
Proof. exact names_unique_across_subgraphs_fixed. Qed.
Print Assumptions C18_names_unique_across_subgraphs_fixed.

(* hence the control-flow theorem needs no hypothesis about the built names: `cf_hyps_fixedb` inspects the trace only *)
Theorem C18_build_computes_trace_cf_fixed :
  forall V sem truth trip of_nat of_bool lim lit_val fuel ins tr outs args r,
  cf_hyps_fixedb ins tr = true ->
  List.length args = List.length ins ->
  creplay V sem truth trip of_nat of_bool lim lit_val fuel tr args outs = Some r ->
  eval_graph V sem truth trip of_nat of_bool lim (S fuel)
             (init_env V lit_val (b_cache (fst (build_state bcfg_fixed ins tr)))) (build bcfg_fixed ins tr outs) args = Some r.
Proof. exact build_computes_trace_cf_fixed. Qed.
Print Assumptions C18_build_computes_trace_cf_fixed.

Example C18_names_unique_fixed_hypotheses_satisfiable : cf_hyps_fixedb ["x"; "c"] ex_cf_trace = true.
Proof. exact ex_cf_fixed_hyps. Qed.

(* the side condition is needed: an explicit output called like a generated name repeats it *)
Example C18_user_name_of_generated_shape :
  let tr := [COp [] "" "Add" [OVal 0; OVal 0] [] [] (ODefault 1);
             COp [] "" "Relu" [OVal 1] [] [] (ONamed ["Add_0"])] in
  user_okb ["x"] tr = false /\
  nodup_strb (all_defined (fst (build_state bcfg_fixed ["x"] tr))) = false.
Proof. exact ex_user_name_of_generated_shape. Qed.

(* --- the FULL control-flow statement (both directions): for every trace of operator / function calls, If and Loop
   calls with bodies (any depth, outer-scope capture, declared output names) and literal operands (promoted
   constants, CastLike), evaluating the built graph EQUALS the direct reading of the trace, failure included: where
   the reading is undefined (a kernel fails, a value is used outside the scope it was made in, a body returns the
   wrong number of values, the condition is not a boolean scalar, the nesting exceeds the fuel) the evaluation fails.
   One hypothesis more than C18_build_computes_trace_cf_partial: "?undefined", the name under which a value id that
   does not exist would be printed, is not a defined name.  Not covered: Scan and Loop scan outputs. *)
Theorem C18_build_computes_trace_cf :
  forall V sem truth trip of_nat of_bool lim lit_val cf fuel ins tr outs args,
  cf_trace tr = true ->
  let sf := fst (build_state cf ins tr) in
  NoDup (all_defined sf) -> ~ In "?undefined" (all_defined sf) ->
  Forall (lit_ok V lit_val (b_cache sf)) (lits_calls tr) ->
  List.length args = List.length ins ->
  eval_graph V sem truth trip of_nat of_bool lim (S fuel) (init_env V lit_val (b_cache sf)) (build cf ins tr outs) args =
  creplay V sem truth trip of_nat of_bool lim lit_val fuel tr args outs.
Proof. exact build_computes_trace_cf_eq. Qed.
Print Assumptions C18_build_computes_trace_cf.

Theorem C18_build_computes_trace_cf_eq_checked :
  forall V sem truth trip of_nat of_bool lim lit_val cf fuel ins tr outs args,
  cf_hyps_eqb cf ins tr = true ->
  List.length args = List.length ins ->
  eval_graph V sem truth trip of_nat of_bool lim (S fuel)
             (init_env V lit_val (b_cache (fst (build_state cf ins tr)))) (build cf ins tr outs) args =
  creplay V sem truth trip of_nat of_bool lim lit_val fuel tr args outs.
Proof. exact build_computes_trace_cf_eq_checked. Qed.
Print Assumptions C18_build_computes_trace_cf_eq_checked.

(* non-vacuity of the failure direction: a value made inside the then-branch leaks into the enclosing trace
   function; the reading is undefined whichever branch is taken, and the graph fails *)
Example C18_build_computes_trace_cf_failure_instance :
  cf_hyps_eqb bcfg_fixed ["x"; "c"] ex_leak_trace = true /\
  creplay Z zsem ztruth ztrip Z.of_nat zof_bool 100 zlit 1 ex_leak_trace [5; 0]%Z [5] = None /\
  eval_graph Z zsem ztruth ztrip Z.of_nat zof_bool 100 2
             (init_env Z zlit (b_cache (fst (build_state bcfg_fixed ["x"; "c"] ex_leak_trace))))
             (build bcfg_fixed ["x"; "c"] ex_leak_trace [5]) [5; 0]%Z = None.
Proof. exact (conj (proj1 ex_leak) (conj (proj1 (proj2 ex_leak)) ex_leak_graph_fails)). Qed.
