"""C03 families (session 6, round 3):

`fuse2`  - two consecutive nodes that a DEFAULT rewrite rule fuses into one, with independently drawn, asymmetric / non-commuting parameters:
           Transpose.Transpose (rank 3-4 random permutations, fixed witness [1,2,0] then [1,0,2]), Unsqueeze.Unsqueeze (axes), Reshape.Reshape
           (0 / -1 entries that refer to the INTERMEDIATE shape), Cast.Cast (narrowing in the middle), Slice.Slice (different axes / steps),
           Clip.Clip (crossing bounds), on non-cubic shapes (all extents different), value_info none / inferred; entries: optimize default,
           rewrite (proto, ir), optimize 1 iteration without shape inference / inlining.  Oracle: original vs optimized on onnxruntime + onnx.reference.
`cast-unknown` - CastLike / Cast whose operands are BOTH computed by nodes and carry no value_info, with really different (or really equal)
           element types: with node-level shape inference off (fold_constants default, optimize(onnx_shape_inference=False)) the folder knows
           neither type; "unknown" is not "equal".  Also fed to the decision-trace correspondence (Opt/Fold.v pe_castlike: target unknown -> keep,
           equal -> Identity, different -> Cast), see c03.run.
Own generator (random.Random derived from the seed) so that the random DAG stream keeps its sequence.
"""
from __future__ import annotations

import numpy as np
import onnx
from onnx import TensorProto, helper, numpy_helper

from harness import c03_gen as G

F32, F64, F16, I64, I32 = TensorProto.FLOAT, TensorProto.DOUBLE, TensorProto.FLOAT16, TensorProto.INT64, TensorProto.INT32
NP = {F32: np.float32, F64: np.float64, F16: np.float16, I64: np.int64, I32: np.int32}
DEFAULT = (2, True, True, True, 8192, 512 * 512)
NO_INFER = (2, False, True, True, 8192, 512 * 512)
ONE_PLAIN = (1, False, False, True, 8192, 512 * 512)


def _vi(name, t, shape):
    return helper.make_tensor_value_info(name, t, list(shape))


def _ints(name, vals):
    return numpy_helper.from_array(np.array(vals, dtype=np.int64), name)


def _data(rng, shape, dtype=np.float32):
    n = int(np.prod(shape))
    a = (np.arange(n, dtype=np.float64) - n // 3)
    b = np.array([rng.choice([0.5, -0.5, 1.0, 2.5, -1.5, 300.75, -7.25, 0.0]) for _ in range(n)], dtype=np.float64)
    return [(a * 1.0).astype(dtype).reshape(shape), (a * -0.5 + 0.25).astype(dtype).reshape(shape), b.astype(dtype).reshape(shape)]


def _model(nodes, ins, outs, inits, opset, infer, name):
    g = helper.make_graph(nodes, name, ins, outs, initializer=inits)
    m = helper.make_model(g, opset_imports=[helper.make_opsetid("", opset)], ir_version=9)
    if infer:
        m = onnx.shape_inference.infer_shapes(m)
    return m


def _perm(rng, r):
    p = list(range(r))
    rng.shuffle(p)
    return p


def _shape(rng, r):
    s = [2, 3, 4, 5][:r] if r <= 4 else list(range(2, 2 + r))
    rng.shuffle(s)
    return s


def fuse_case(rng, kind, idx, fixed=False):
    infer = (idx % 2 == 1)
    opset = rng.choice([18, 21])
    inits = []
    dt = F32
    if kind == "transpose":
        if fixed:
            shape, p1, p2 = [2, 3, 4], [1, 2, 0], [1, 0, 2]
        else:
            r = rng.choice([3, 3, 4])
            shape, p1, p2 = _shape(rng, r), _perm(rng, r), _perm(rng, r)
        out_shape = [shape[p1[p2[i]]] for i in range(len(shape))]
        nodes = [helper.make_node("Transpose", ["x"], ["t"], perm=p1), helper.make_node("Transpose", ["t"], ["y"], perm=p2)]
        feat = f"perms {p1} then {p2} on {shape}"
    elif kind == "transpose3":
        r = rng.choice([3, 4])
        shape = _shape(rng, r)
        ps = [_perm(rng, r) for _ in range(3)]
        cur = list(shape)
        for p in ps:
            cur = [cur[i] for i in p]
        out_shape = cur
        nodes = [helper.make_node("Transpose", ["x"], ["t1"], perm=ps[0]), helper.make_node("Transpose", ["t1"], ["t2"], perm=ps[1]),
                 helper.make_node("Transpose", ["t2"], ["y"], perm=ps[2])]
        feat = f"perms {ps} on {shape}"
    elif kind == "unsqueeze":
        shape = _shape(rng, 2)
        a1 = rng.choice([0, 1, 2, -1, -2, -3]) if not fixed else 0
        a2 = rng.choice([0, 1, 2, 3, -1, -2, -3, -4]) if not fixed else 3
        s1 = list(np.expand_dims(np.zeros(shape), a1).shape)
        out_shape = list(np.expand_dims(np.zeros(s1), a2).shape)
        inits += [_ints("ax1", [a1]), _ints("ax2", [a2])]
        nodes = [helper.make_node("Unsqueeze", ["x", "ax1"], ["t"]), helper.make_node("Unsqueeze", ["t", "ax2"], ["y"])]
        feat = f"axes {a1} then {a2} on {shape}"
    elif kind == "reshape":
        shape = [2, 3, 4]
        s1, s2 = rng.choice([([0, -1], [0, 3, 4]), ([-1, 4], [0, 2, 2]), ([4, 0, -1], [0, 6]), ([6, -1], [-1, 0]), ([0, 0, 2, 2], [0, -1, 2]),
                             ([3, -1], [0, 2, -1]), ([-1], [4, -1]), ([2, -1], [0, 0])]) if not fixed else ([-1, 4], [0, 2, 2])
        ref = np.zeros(shape)

        def rs(a, s):
            s = [a.shape[i] if d == 0 else d for i, d in enumerate(s)]
            return a.reshape(s)
        out_shape = list(rs(rs(ref, s1), s2).shape)
        inits += [_ints("s1", s1), _ints("s2", s2)]
        nodes = [helper.make_node("Reshape", ["x", "s1"], ["t"]), helper.make_node("Reshape", ["t", "s2"], ["y"])]
        feat = f"shapes {s1} then {s2} on {shape}"
    elif kind == "cast":
        shape = _shape(rng, 2)
        dt, mid, last = rng.choice([(F32, I32, F32), (F32, F16, F32), (F64, F32, F64), (F32, I64, F64), (F64, I32, F32), (F32, F16, F64), (I64, I32, F32),
                                    (F32, I32, I64)]) if not fixed else (F32, I32, F32)
        out_shape = shape
        nodes = [helper.make_node("Cast", ["x"], ["t"], to=mid), helper.make_node("Cast", ["t"], ["y"], to=last)]
        outs = [_vi("y", last, out_shape)]
        feat = f"types {dt} -> {mid} -> {last}"
    elif kind == "slice":
        shape = [5, 6, 4]
        ax1, ax2 = (rng.randrange(3), rng.randrange(3)) if not fixed else (0, 1)
        st1, st2 = rng.choice([1, 1, 2]), rng.choice([1, 2, -1])
        b1, e1 = rng.choice([(1, 5), (0, 3), (1, 100), (-4, -1)])
        b2, e2 = rng.choice([(1, 3), (0, 2), (1, 100)]) if st2 > 0 else rng.choice([(3, 0), (100, -100), (2, -100)])
        inits += [_ints("b1", [b1]), _ints("e1", [e1]), _ints("a1", [ax1]), _ints("k1", [st1]),
                  _ints("b2", [b2]), _ints("e2", [e2]), _ints("a2", [ax2]), _ints("k2", [st2])]
        ref = np.zeros(shape)
        sl1 = [slice(None)] * 3
        sl1[ax1] = slice(b1, e1, st1)
        sl2 = [slice(None)] * 3
        sl2[ax2] = slice(b2, e2 if e2 > -50 else None, st2)
        out_shape = list(ref[tuple(sl1)][tuple(sl2)].shape)
        nodes = [helper.make_node("Slice", ["x", "b1", "e1", "a1", "k1"], ["t"]), helper.make_node("Slice", ["t", "b2", "e2", "a2", "k2"], ["y"])]
        feat = f"[{b1}:{e1}:{st1}]@{ax1} then [{b2}:{e2}:{st2}]@{ax2}"
    elif kind == "clip":
        shape = _shape(rng, 2)
        lo1, hi1 = sorted(rng.sample([-8.0, -2.0, -0.5, 0.0, 1.0, 3.0, 6.0], 2)) if not fixed else (0.0, 1.0)
        lo2, hi2 = sorted(rng.sample([-8.0, -2.0, -0.5, 0.0, 1.0, 3.0, 6.0], 2)) if not fixed else (3.0, 6.0)
        for nm, v in (("lo1", lo1), ("hi1", hi1), ("lo2", lo2), ("hi2", hi2)):
            inits.append(numpy_helper.from_array(np.array(v, dtype=np.float32), nm))
        out_shape = shape
        form = rng.randrange(3)
        second = [["t", "lo2", "hi2"], ["t", "lo2"], ["t", "", "hi2"]][form]
        nodes = [helper.make_node("Clip", ["x", "lo1", "hi1"], ["t"]), helper.make_node("Clip", second, ["y"])]
        feat = f"[{lo1},{hi1}] then {second[1:]}=[{lo2},{hi2}]"
    else:
        raise ValueError(kind)
    if kind != "cast":
        outs = [_vi("y", F32, out_shape)]
    m = _model(nodes, [_vi("x", dt, shape)], outs, inits, opset, infer, f"fuse_{kind}_{idx}")
    feeds = [{"x": a} for a in _data(rng, shape, NP[dt])]
    c = G.Case(m, feeds, [f"fuse2:{kind}", feat, "value_info:inferred" if infer else "value_info:none"], [True], "fuse2", f"fuse2-{kind}-{idx}")
    c.plan = [("optimize", None, False), ("rewrite", None, False), ("rewrite", None, True), ("optimize", ONE_PLAIN, True)]
    return c


FUSE_KINDS = ("transpose", "transpose3", "unsqueeze", "reshape", "cast", "slice", "clip")


# --------------------------------------------------------------------------------------------------------------- CastLike / Cast, types unknown
# (source element type, how the source is computed, target element type, how the target is computed); "node": computed by a node from a graph
# input of that type (its type is unknown to the folder without shape inference), "input": a graph input, "init": an initializer
CAST_UNKNOWN = [
    (F32, "node", F16, "node"), (F32, "node", I32, "node"), (F64, "node", F32, "node"), (F32, "node", I64, "node"), (I64, "node", F32, "node"),
    (F32, "node", F64, "node"),
    (F32, "node", F32, "node"), (I64, "node", I64, "node"),                 # really equal, both unknown
    (F32, "node", F16, "input"), (F32, "input", I32, "node"), (F32, "input", F32, "node"), (F32, "node", F32, "input"),
    (F32, "input", I64, "init"), (F32, "node", I32, "init"), (F64, "input", F64, "input"),
]


def cast_unknown_case(rng, idx, spec, tail):
    st, show, tt, thow = spec
    shape = [3]
    ins, nodes, inits = [], [], []
    ins.append(_vi("x", st, shape))
    if show == "node":
        nodes.append(helper.make_node("Mul", ["x", "x"], ["a"]))
        a = "a"
    else:
        a = "x"
    if thow == "init":
        inits.append(numpy_helper.from_array(np.array([1, 2], dtype=NP[tt]), "z"))
        b = "z"
    else:
        ins.append(_vi("z", tt, [2]))
        if thow == "node":
            nodes.append(helper.make_node("Neg" if tt not in () else "Abs", ["z"], ["b"]))
            b = "b"
        else:
            b = "z"
    nodes.append(helper.make_node("CastLike", [a, b], ["y"]))
    out, ot = "y", tt
    if tail == "cast-back":
        nodes.append(helper.make_node("Cast", ["y"], ["w"], to=F64))
        out, ot = "w", F64
    elif tail == "castlike-again":
        # CastLike(y, a): back to the source type through a second CastLike whose operands are unknown as well
        nodes.append(helper.make_node("CastLike", ["y", a], ["w"]))
        out, ot = "w", st
    elif tail == "use":
        nodes.append(helper.make_node("Add", ["y", "y"], ["w"]))
        out, ot = "w", tt
    m = _model(nodes, ins, [_vi(out, ot, shape)], inits, 19 if idx % 2 else 21, False, f"castunk_{idx}")
    xs = [np.array([0.0, 1.0, -1.0]), np.array([17.5, -2.5, 0.1]), np.array([30.0, 1e-3, 3.14159])]
    if st in (I64, I32):
        xs = [np.array([0, 1, -1]), np.array([17, -2, 3]), np.array([30, 5, 100])]
    feeds = []
    for k, xv in enumerate(xs):
        fd = {"x": xv.astype(NP[st])}
        if thow != "init":
            fd["z"] = np.array([k + 1, 2], dtype=NP[tt])
        feeds.append(fd)
    c = G.Case(m, feeds, ["cast-unknown", f"source {st} ({show}) like {tt} ({thow})", f"tail:{tail}", "value_info:none"], [True], "cast-unknown",
               f"cast-unknown-{idx}")
    c.plan = [("fold_constants", None, False), ("fold_constants", None, True), ("optimize", NO_INFER, False), ("optimize", ONE_PLAIN, True),
              ("optimize", None, False)]
    return c


def cast_unknown_cases(rng, quick):
    tails = ["none", "cast-back", "castlike-again", "use"]
    res = []
    k = rng.randrange(4)
    for i, spec in enumerate(CAST_UNKNOWN):
        for j in range(1 if quick and i >= 6 else 2 if quick else 4):
            res.append(cast_unknown_case(rng, len(res), spec, tails[(k + i + j) % 4]))
    return res


def fuse_cases(rng, quick):
    res = []
    for kind in FUSE_KINDS:
        n = 3 if quick else 12
        for j in range(n):
            try:
                res.append(fuse_case(rng, kind, len(res), fixed=(j == 0 and kind != "transpose3")))
            except Exception as e:  # a generator bug must not look like a finding
                res.append(("generator-error", f"{kind}: {type(e).__name__}: {e}"))
    return res


def cases(rng, quick):
    return fuse_cases(rng, quick) + cast_unknown_cases(rng, quick)
