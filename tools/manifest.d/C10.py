reg("C10",
    "Coq proof (induction on fuel over a nested work-list state machine; list algebra of the GroupNormalization expansion; lia) "
    "+ registry table regenerated from the live module + correspondence of final states by vm_compute + onnx.checker / onnx.reference / onnxruntime oracle",
    "Machine-checked theorems (Coq) about a Gallina model of the version converter: a conversion that finishes without a logged skip declares the "
    "target opset consistently on model, functions and every default-domain node (recursively through subgraphs), for every registry whose adapters "
    "build flat nodes and in particular for the shipped one; a target below the model's version raises before anything is touched; the pass with "
    "C-API fallback (oracle) returns a model consistent at the target or leaves it consistent at the source; the ModelProto wrapper as it stands "
    "provably cannot be consistent at the target (refuted, replayed) and the repaired wrapper is; the GroupNormalization 20->21 scale/bias expansion "
    "is 'repeat each element c/g times' for all g, c, vectors, and equals the per-channel reading; DFT axis attribute->input and GridSample mode renaming "
    "preserve meaning (with the DFT default-axis and epsilon repairs; the unrepaired variants are refuted). The model is tied to the Python by regenerating the "
    "adapter registry keys and SUPPORTED bounds from the live module into Coq and by running the real converter (native entry incl. functions, ref attributes, "
    "explicit node versions, adapters patched into the live registry; public API on ir.Model and ModelProto; fallback on/off; s,t in 18..25) and comparing final "
    "opset imports, per-node op/version/attributes/inputs, exception class and number of logged skips with the model inside Coq; the property itself is observed with "
    "onnx.checker, onnx.reference and onnxruntime before/after on every public-API case.",
    "Coq kernel; hand-written Gallina model of the loop/pass/wrapper/adapters tied by correspondence on the generated cases only; onnx_ir passes (inline, clean-up, "
    "serde, NameFixPass) and the ONNX C-API converter are oracles (measured, not modelled); 'an op without adapter means the same at both versions' is assumed "
    "(the list of schema changes in 19..25 without an onnxscript adapter is in the evidence); equivalence of outputs is observed on sampled inputs, not proved; "
    "onnx/onnxruntime as execution oracles.")
