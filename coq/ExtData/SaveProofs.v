(* Proofs about the save model (C20).  Every statement is for all models, all file systems, all fault points. *)
From Coq Require Import ZArith List Bool String Lia Permutation.
Require Import OV.ExtData.Save.
Import ListNotations.
Open Scope Z_scope.
Ltac Zify.zify_post_hook ::= Z.to_euclidean_division_equations.

(* ------------------------------------------------------------------ small facts *)
Lemma path_eqb_eq : forall a b, path_eqb a b = true <-> a = b.
Proof.
  intros [a1 a2] [b1 b2]; unfold path_eqb; cbn [fst snd].
  rewrite andb_true_iff, !String.eqb_eq. split; [intros [-> ->]; reflexivity | intros H; inversion H; auto].
Qed.
Lemma path_eqb_refl : forall a, path_eqb a a = true.
Proof. intro a; apply path_eqb_eq; reflexivity. Qed.
Lemma path_eqb_neq : forall a b, a <> b -> path_eqb a b = false.
Proof. intros a b H; destruct (path_eqb a b) eqn:E; [apply path_eqb_eq in E; contradiction | reflexivity]. Qed.

Lemma append_neq_self : forall (s t : string), t <> EmptyString -> (s ++ t)%string <> s.
Proof.
  intros s t Ht H. assert (L : String.length (s ++ t) = String.length s) by (rewrite H; reflexivity).
  assert (A : forall a b, String.length (a ++ b) = (String.length a + String.length b)%nat).
  { induction a; intros; cbn; [reflexivity | rewrite IHa; reflexivity]. }
  rewrite A in L. destruct t; [contradiction | cbn in L; lia].
Qed.
Lemma data_path_neq : forall mp, data_path mp <> mp.
Proof.
  intros [d n] H; unfold data_path in H; cbn [fst snd] in H. inversion H as [H1].
  revert H1; apply append_neq_self; discriminate.
Qed.

Lemma Zlen_app : forall A (a b : list A), Zlen (a ++ b) = Zlen a + Zlen b.
Proof. intros; unfold Zlen; rewrite app_length; lia. Qed.
Lemma Zlen_nonneg : forall A (a : list A), 0 <= Zlen a.
Proof. intros; unfold Zlen; lia. Qed.
Lemma Zlen_zeros : forall n, 0 <= n -> Zlen (zeros n) = n.
Proof. intros; unfold Zlen, zeros; rewrite repeat_length; lia. Qed.

Lemma skipn_length_app : forall A (a x : list A), skipn (List.length a) (a ++ x) = x.
Proof. induction a; intros; cbn; auto. Qed.
Lemma firstn_length_app : forall A (d r : list A), firstn (List.length d) (d ++ r) = d.
Proof. induction d; intros; cbn; [reflexivity | rewrite IHd; reflexivity]. Qed.

Lemma slice_app : forall a d r off n, Zlen a = off -> Zlen d = n -> slice off n (a ++ d ++ r) = Some d.
Proof.
  intros a d r off n Ha Hd. unfold slice, in_range.
  pose proof (Zlen_nonneg _ a); pose proof (Zlen_nonneg _ d); pose proof (Zlen_nonneg _ r).
  rewrite !Zlen_app.
  replace ((0 <=? off) && (0 <=? n) && (off + n <=? Zlen a + (Zlen d + Zlen r))) with true
    by (symmetry; rewrite !andb_true_iff, !Z.leb_le; lia).
  unfold Zlen in Ha, Hd.
  replace (Z.to_nat off) with (List.length a) by lia.
  replace (Z.to_nat n) with (List.length d) by lia.
  rewrite skipn_length_app, firstn_length_app. reflexivity.
Qed.

Lemma slice_len : forall off len b d, slice off len b = Some d -> Zlen d = len.
Proof.
  unfold slice, in_range; intros off len b d H.
  destruct ((0 <=? off) && (0 <=? len) && (off + len <=? Zlen b)) eqn:E; [|discriminate].
  rewrite !andb_true_iff, !Z.leb_le in E. inversion H; subst d. unfold Zlen in *.
  rewrite firstn_length, skipn_length. lia.
Qed.

Lemma align_up_ge : forall cur n, cur <= align_up cur n.
Proof. intros; unfold align_up, align_factor; destruct (align_threshold <? n); lia. Qed.

(* ------------------------------------------------------------------ restore: the `finally` block *)
Lemma restore_same : forall M M', map fst M' = map fst M -> restore (map s_val M) M' = M.
Proof.
  induction M as [|s M IH]; intros [|s' M'] H; cbn in *; try discriminate; auto.
  inversion H as [[H1 H2]]. rewrite IH by assumption. unfold s_val. rewrite H1. destruct s; reflexivity.
Qed.

Lemma index_from_snd : forall A (l : list A) i, map snd (index_from i l) = l.
Proof. induction l; intros; cbn; [reflexivity | rewrite IHl; reflexivity]. Qed.
Lemma index_from_fst : forall A (l : list A) i, map fst (index_from i l) = seq i (List.length l).
Proof. induction l; intros; cbn; [reflexivity | rewrite IHl; reflexivity]. Qed.

Lemma replaced_fst : forall M mp fs, map fst (replaced M mp fs) = map fst M.
Proof.
  intros; unfold replaced. rewrite map_map; cbn [fst].
  rewrite <- (index_from_snd _ M 0) at 2. rewrite map_map. reflexivity.
Qed.

Theorem save_restores : forall ag M mp fs k, r_mem (run_save ag M mp fs k) = M.
Proof.
  intros; unfold run_save. destruct (guard_fails ag M); [reflexivity|].
  destruct (exec (ops_unload M mp fs) 0 k fs []) as [[[o1 fs1] inv] n1].
  destruct o1; cbn [r_mem].
  - destruct (exec (ops_model (replaced M mp fs) mp) n1 k fs1 []) as [[[o2 fs2] inv2] n2]; cbn [r_mem].
    apply restore_same, replaced_fst.
  - apply restore_same; reflexivity.
  - apply restore_same; reflexivity.
Qed.

(* the replacement really happens before the restore (so the theorem above is not about a no-op):
   a slot over the threshold holds a new object while the model is being serialised *)
Lemma max_tid_ge : forall M s t, In s M -> s_val s = Some t -> (t_id t <= max_tid M)%nat.
Proof.
  induction M as [|x M IH]; intros s t Hin Hs; [contradiction|]. cbn [max_tid fold_right] in *.
  fold (max_tid M). destruct Hin as [->|Hin].
  - rewrite Hs. lia.
  - specialize (IH _ _ Hin Hs). destruct (s_val x); lia.
Qed.

(* ------------------------------------------------------------------ guard before any I/O *)
Definition uninit_in_scope (ag : bool) (M : list slot) : Prop :=
  exists s, In s M /\ s_val s = None /\ (ag = true \/ s_main s = true).

Theorem guard_before_io : forall ag M mp fs k, uninit_in_scope ag M ->
  run_save ag M mp fs k = {| r_out := ErrValue; r_mem := M; r_fs := fs; r_inv := []; r_steps := O |}.
Proof.
  intros ag M mp fs k (s & Hin & Hv & Hsc). unfold run_save.
  assert (G : guard_fails ag M = true).
  { unfold guard_fails. apply existsb_exists. exists s; split; [assumption|]. rewrite Hv.
    destruct Hsc as [->| ->]; [reflexivity | apply orb_true_r]. }
  rewrite G; reflexivity.
Qed.

Lemma guard_ok_no_uninit : forall ag M, guard_fails ag M = false -> ~ uninit_in_scope ag M.
Proof.
  intros ag M G (s & Hin & Hv & Hsc). unfold guard_fails in G.
  assert (E : existsb (fun s0 : slot => match s_val s0 with None => ag || s_main s0 | Some _ => false end) M = true).
  { apply existsb_exists. exists s; split; [assumption|]. rewrite Hv. destruct Hsc as [->| ->]; [reflexivity | apply orb_true_r]. }
  congruence.
Qed.

(* the guard of the source as it is (model.graph only) lets a subgraph initializer without a value through:
   the save "succeeds", writes both files, and the initializer is silently absent from the result *)
Definition witness_M : list slot :=
  [("w"%string, true, Some (InMem 1 (repeat 1 257))); ("u"%string, false, None)].
Lemma guard_subgraph_refuted : exists M mp fs,
  uninit_in_scope true M /\
  r_out (run_save false M mp fs None) = OK /\
  r_fs (run_save false M mp fs None) mp <> fs mp /\
  r_fs (run_save false M mp fs None) (data_path mp) <> fs (data_path mp) /\
  load (r_fs (run_save false M mp fs None)) mp = Some [("w"%string, true, repeat 1 257)].
Proof.
  exists witness_M, ("d"%string, "m.onnx"%string), empty_fs.
  split; [|split; [|split; [|split]]].
  - exists ("u"%string, false, None). cbn; auto.
  - vm_compute; reflexivity.
  - vm_compute; discriminate.
  - vm_compute; discriminate.
  - vm_compute; reflexivity.
Qed.

(* ------------------------------------------------------------------ exec: generic facts *)
Lemma exec_app : forall a b i k fs inv,
  exec (a ++ b) i k fs inv =
  match exec a i k fs inv with
  | (OK, fs', inv', n) => exec b n k fs' inv'
  | r => r
  end.
Proof.
  induction a as [|o a IH]; intros; cbn [app exec]; [reflexivity|].
  destruct (fault_at k i); [reflexivity|]. destruct (step o fs); [apply IH | reflexivity].
Qed.

Lemma exec_out : forall ops i k fs inv, fst (fst (fst (exec ops i k fs inv))) <> ErrValue.
Proof.
  induction ops as [|o ops IH]; intros; cbn [exec]; [discriminate|].
  destruct (fault_at k i); [discriminate|]. destruct (step o fs); [apply IH | discriminate].
Qed.

Lemma exec_ok_steps : forall ops i k fs inv fs' inv' n,
  exec ops i k fs inv = (OK, fs', inv', n) -> n = (i + List.length ops)%nat.
Proof.
  induction ops as [|o ops IH]; intros i k fs inv fs' inv' n H; cbn [exec] in H.
  - inversion H; cbn; lia.
  - destruct (fault_at k i); [discriminate|]. destruct (step o fs); [|discriminate].
    apply IH in H. cbn [List.length]; lia.
Qed.

Lemma exec_fault : forall ops i k fs inv, (i <= k < i + List.length ops)%nat ->
  fst (fst (fst (exec ops i (Some k) fs inv))) = ErrOS.
Proof.
  induction ops as [|o ops IH]; intros i k fs inv H; cbn [List.length] in H; [lia|]. cbn [exec fault_at].
  destruct (Nat.eqb k i) eqn:E; [reflexivity|]. apply Nat.eqb_neq in E.
  destruct (step o fs); [apply IH; lia | reflexivity].
Qed.

(* which paths a call can modify *)
Definition op_target (o : op) : option path :=
  match o with OpenW p | WriteB p _ | WriteM p _ => Some p | _ => None end.

Lemma step_frame : forall o fs fs' q, step o fs = Some fs' ->
  (forall p, op_target o = Some p -> path_eqb p q = false) -> fs' q = fs q.
Proof.
  intros o fs fs' q H T. destruct o; cbn in H.
  - destruct (fs p) as [[b|]|]; try discriminate. destruct (in_range off len b); inversion H; reflexivity.
  - inversion H; unfold upd. rewrite (T p eq_refl). reflexivity.
  - destruct (fs p) as [[b0|]|]; try discriminate. inversion H; unfold upd. rewrite (T p eq_refl). reflexivity.
  - inversion H; unfold upd. rewrite (T p eq_refl). reflexivity.
  - inversion H; reflexivity.
Qed.

Lemma exec_frame : forall ops i k fs inv q,
  (forall o, In o ops -> forall p, op_target o = Some p -> path_eqb p q = false) ->
  snd (fst (fst (exec ops i k fs inv))) q = fs q.
Proof.
  induction ops as [|o ops IH]; intros i k fs inv q T; cbn [exec]; [reflexivity|].
  destruct (fault_at k i); [reflexivity|]. destruct (step o fs) as [fs'|] eqn:S; [|reflexivity].
  rewrite IH by (intros o' Ho'; apply T; right; assumption).
  eapply step_frame; [eassumption | apply T; left; reflexivity].
Qed.

Lemma items_ops_target : forall fs0 dp its cur o p,
  In o (items_ops fs0 dp cur its) -> op_target o = Some p -> p = dp.
Proof.
  induction its as [|it its IH]; intros cur o p Hin Ht; cbn [items_ops] in Hin; [contradiction|].
  apply in_app_or in Hin. destruct Hin as [Hin|Hin]; [|eapply IH; eassumption].
  unfold item_ops in Hin. apply in_app_or in Hin. destruct Hin as [Hin|Hin].
  - destruct (cur <? align_up cur (nbytes (snd it))); [|contradiction].
    destruct Hin as [<-|[]]. cbn in Ht; congruence.
  - destruct (snd it) as [id d|id src o' l].
    + destruct Hin as [<-|[]]. cbn in Ht; congruence.
    + destruct (materialised fs0 dp (Ext id src o' l)).
      * destruct Hin as [<-|[]]. cbn in Ht; congruence.
      * destruct Hin as [<-|Hin]; [cbn in Ht; discriminate|].
        apply in_map_iff in Hin. destruct Hin as (c & <- & _). cbn in Ht; congruence.
Qed.

Lemma ops_unload_target : forall M mp fs0 o p,
  In o (ops_unload M mp fs0) -> op_target o = Some p -> p = data_path mp.
Proof.
  intros M mp fs0 o p Hin Ht. unfold ops_unload in Hin.
  apply in_app_or in Hin. destruct Hin as [Hin|Hin].
  { unfold ops_small in Hin. apply in_flat_map in Hin. destruct Hin as (it & _ & Hin).
    destruct (snd it); [contradiction|]. destruct (0 <? len); [|contradiction].
    destruct Hin as [<-|[]]. discriminate. }
  apply in_app_or in Hin. destruct Hin as [Hin|Hin].
  { unfold ops_mat in Hin. apply in_flat_map in Hin. destruct Hin as (it & _ & Hin).
    destruct (snd it) as [|id src off len] eqn:E; [contradiction|].
    destruct (materialised fs0 (data_path mp) (Ext id src off len)); [|contradiction].
    destruct Hin as [<-|[]]. discriminate. }
  apply in_app_or in Hin. destruct Hin as [Hin|Hin].
  { destruct Hin as [<-|[]]. cbn in Ht; congruence. }
  apply in_app_or in Hin. destruct Hin as [Hin|Hin].
  { eapply items_ops_target; eassumption. }
  destruct Hin as [<-|[]]. discriminate.
Qed.

(* only the two destination files are ever touched, whatever fails *)
Theorem only_destination_files_touched : forall ag M mp fs k q,
  q <> mp -> q <> data_path mp -> r_fs (run_save ag M mp fs k) q = fs q.
Proof.
  intros ag M mp fs k q Hm Hd. unfold run_save. destruct (guard_fails ag M); [reflexivity|].
  pose proof (exec_frame (ops_unload M mp fs) 0 k fs [] q) as F1.
  destruct (exec (ops_unload M mp fs) 0 k fs []) as [[[o1 fs1] inv] n1]. cbn [fst snd] in F1.
  assert (E1 : fs1 q = fs q).
  { apply F1. intros o Ho p Hp. apply path_eqb_neq. intros ->.
    apply Hd. eapply ops_unload_target; eassumption. }
  destruct o1; cbn [r_fs]; try assumption.
  pose proof (exec_frame (ops_model (replaced M mp fs) mp) n1 k fs1 [] q) as F2.
  destruct (exec (ops_model (replaced M mp fs) mp) n1 k fs1 []) as [[[o2 fs2] inv2] n2]. cbn [fst snd r_fs] in *.
  rewrite F2; [assumption|].
  intros o Ho p Hp. apply path_eqb_neq. intros ->. apply Hm.
  unfold ops_model in Ho. destruct Ho as [<-|[<-|[<-|[]]]]; cbn in Hp; congruence.
Qed.

(* a failing file-system call is never swallowed *)
Theorem fault_is_error : forall ag M mp fs k, guard_fails ag M = false ->
  (k < List.length (ops_unload M mp fs) + 3)%nat -> r_out (run_save ag M mp fs (Some k)) = ErrOS.
Proof.
  intros ag M mp fs k G Hk. unfold run_save. rewrite G.
  pose proof (exec_fault (ops_unload M mp fs) 0 k fs []) as F1.
  pose proof (exec_out (ops_unload M mp fs) 0 (Some k) fs []) as O1.
  destruct (exec (ops_unload M mp fs) 0 (Some k) fs []) as [[[o1 fs1] inv] n1] eqn:E1. cbn [fst snd] in *.
  destruct o1; cbn [r_out]; [| contradiction | reflexivity].
  apply exec_ok_steps in E1 as N. cbn in N.
  destruct (Nat.lt_ge_cases k (List.length (ops_unload M mp fs))) as [L|L].
  { assert (OK = ErrOS) by (apply F1; lia). discriminate. }
  pose proof (exec_fault (ops_model (replaced M mp fs) mp) n1 k fs1 []) as F2.
  destruct (exec (ops_model (replaced M mp fs) mp) n1 (Some k) fs1 []) as [[[o2 fs2] inv2] n2]. cbn [fst snd r_out] in *.
  apply F2. cbn [ops_model List.length]. lia.
Qed.

(* ------------------------------------------------------------------ invalidated tensors (the documented exception) *)
Lemma exec_inv_incl : forall ops i k fs inv,
  incl (snd (fst (exec ops i k fs inv))) (inv ++ flat_map inval_of ops).
Proof.
  induction ops as [|o ops IH]; intros; cbn [exec flat_map].
  - cbn. rewrite app_nil_r. apply incl_refl.
  - destruct (fault_at k i); [cbn; apply incl_appl, incl_refl|].
    destruct (step o fs); [|cbn; apply incl_appl, incl_refl].
    eapply incl_tran; [apply IH|]. rewrite app_assoc. apply incl_refl.
Qed.
Lemma exec_inv_ok : forall ops i k fs inv fs' inv' n,
  exec ops i k fs inv = (OK, fs', inv', n) -> inv' = inv ++ flat_map inval_of ops.
Proof.
  induction ops as [|o ops IH]; intros i k fs inv fs' inv' n H; cbn [exec flat_map] in *.
  - inversion H. rewrite app_nil_r. reflexivity.
  - destruct (fault_at k i); [discriminate|]. destruct (step o fs); [|discriminate].
    apply IH in H. rewrite H, app_assoc. reflexivity.
Qed.

Lemma inval_ops_small : forall its, flat_map inval_of (ops_small its) = [].
Proof.
  induction its as [|it its IH]; [reflexivity|]. unfold ops_small in *. cbn [flat_map]. rewrite flat_map_app, IH, app_nil_r.
  destruct (snd it); [reflexivity|]. destruct (0 <? len); reflexivity.
Qed.
Lemma inval_ops_mat : forall fs0 dp its,
  flat_map inval_of (ops_mat fs0 dp its) = flat_map (fun it => if materialised fs0 dp (snd it) then [t_id (snd it)] else []) its.
Proof.
  induction its as [|it its IH]; [reflexivity|]. unfold ops_mat in *. cbn [flat_map]. rewrite flat_map_app, IH. f_equal.
  destruct (snd it) as [id d|id src off len]; [reflexivity|].
  destruct (materialised fs0 dp (Ext id src off len)); reflexivity.
Qed.
Lemma inval_items_ops : forall fs0 dp its cur, flat_map inval_of (items_ops fs0 dp cur its) = [].
Proof.
  induction its as [|it its IH]; intros; [reflexivity|]. cbn [items_ops]. rewrite flat_map_app, IH, app_nil_r.
  unfold item_ops. rewrite flat_map_app.
  replace (flat_map inval_of (if cur <? align_up cur (nbytes (snd it)) then [WriteB dp (zeros (align_up cur (nbytes (snd it)) - cur))] else []))
    with (@nil nat) by (destruct (cur <? align_up cur (nbytes (snd it))); reflexivity).
  destruct (snd it) as [id d|id src o l]; [reflexivity|].
  destruct (materialised fs0 dp (Ext id src o l)); [reflexivity|]. cbn [flat_map inval_of app].
  induction (chunks (data_of fs0 (Ext id src o l))); [reflexivity | cbn; assumption].
Qed.
Lemma inval_ops_unload : forall M mp fs0, flat_map inval_of (ops_unload M mp fs0) = overwritten_sources M mp fs0.
Proof.
  intros; unfold ops_unload, overwritten_sources. rewrite !flat_map_app, inval_ops_small, inval_ops_mat, inval_items_ops.
  cbn. rewrite app_nil_r. reflexivity.
Qed.

Theorem external_source_overwrite : forall ag M mp fs k,
  incl (r_inv (run_save ag M mp fs k)) (overwritten_sources M mp fs) /\
  (r_out (run_save ag M mp fs k) = OK -> r_inv (run_save ag M mp fs k) = overwritten_sources M mp fs).
Proof.
  intros; unfold run_save. destruct (guard_fails ag M); [split; [intros x []| discriminate]|].
  pose proof (exec_inv_incl (ops_unload M mp fs) 0 k fs []) as I.
  pose proof (exec_inv_ok (ops_unload M mp fs) 0 k fs []) as J.
  rewrite inval_ops_unload in I, J.
  destruct (exec (ops_unload M mp fs) 0 k fs []) as [[[o1 fs1] inv] n1]. cbn [fst snd app] in *.
  destruct o1; cbn [r_inv r_out]; try (split; [assumption | discriminate]).
  destruct (exec (ops_model (replaced M mp fs) mp) n1 k fs1 []) as [[[o2 fs2] inv2] n2]; cbn [r_inv r_out].
  split; [assumption|]. intros _. eapply J; reflexivity.
Qed.

Lemma in_index_from : forall A (l : list A) i j x, In (j, x) (index_from i l) -> In x l.
Proof. induction l; intros i j x H; cbn in H; [contradiction|]. destruct H as [H|H]; [inversion H; left; reflexivity | right; eapply IHl; eassumption]. Qed.

Lemma in_ext_items : forall M j t, In (j, t) (ext_items M) ->
  exists s, In (j, s) (index_from 0 M) /\ classify s = Externalize t.
Proof.
  intros M j t H. unfold ext_items in H. apply in_flat_map in H. destruct H as ([j' s] & Hin & H). cbn [fst snd] in H.
  destruct (classify s) eqn:C; try contradiction. destruct H as [H|[]]. inversion H; subst. exists s; auto.
Qed.
Lemma classify_ext : forall s t, classify s = Externalize t -> s_val s = Some t /\ size_threshold < nbytes t.
Proof.
  unfold classify; intros s t H. destruct (s_val s) as [t'|]; [|discriminate].
  destruct (size_threshold <? nbytes t') eqn:E.
  - inversion H; subst. apply Z.ltb_lt in E. auto.
  - destruct t'; discriminate.
Qed.

(* which tensors these are: external, over the threshold, stored in the very file that is being written *)
Theorem overwritten_sources_char : forall M mp fs i, In i (overwritten_sources M mp fs) ->
  exists s src off len, In s M /\ s_val s = Some (Ext i src off len) /\ src = data_path mp /\
                        size_threshold < len /\ fs (data_path mp) <> None.
Proof.
  intros M mp fs i H. unfold overwritten_sources in H. apply in_flat_map in H. destruct H as ([j t] & Hin & H). cbn [snd] in H.
  destruct (materialised fs (data_path mp) t) eqn:Mt; [|contradiction]. destruct H as [<-|[]].
  apply in_ext_items in Hin. destruct Hin as (s & Hs & C). apply classify_ext in C. destruct C as [V Sz].
  destruct t as [|id src off len]; [discriminate|]. cbn in Mt. apply andb_true_iff in Mt. destruct Mt as [Ex Eq].
  apply path_eqb_eq in Eq. exists s, src, off, len. repeat split; auto.
  - eapply in_index_from; eassumption.
  - unfold exists_file in Ex. destruct (fs (data_path mp)); [discriminate | discriminate Ex].
Qed.

(* ------------------------------------------------------------------ round trip *)
Definition readable (fs : fsys) (p : path) (off len : Z) : Prop :=
  exists b, fs p = Some (FData b) /\ in_range off len b = true.
Definition all_readable (fs : fsys) (M : list slot) : Prop :=
  forall s id src off len, In s M -> s_val s = Some (Ext id src off len) -> readable fs src off len.

Lemma readable_data_len : forall fs id src off len, readable fs src off len -> Zlen (data_of fs (Ext id src off len)) = len.
Proof.
  intros fs id src off len (b & Hb & R). cbn [data_of]. unfold read_ext. rewrite Hb.
  unfold slice. rewrite R. eapply slice_len. unfold slice. rewrite R. reflexivity.
Qed.

(* bytes appended to the data file by the write loop, starting at file size cur *)
Fixpoint image (fs0 : fsys) (cur : Z) (its : list item) : bytes :=
  match its with
  | [] => []
  | it :: r => let off := align_up cur (nbytes (snd it)) in
               zeros (off - cur) ++ data_of fs0 (snd it) ++ image fs0 (off + nbytes (snd it)) r
  end.

Definition inv_fs (fs0 : fsys) (dp : path) (fsc : fsys) (acc : bytes) : Prop :=
  fsc dp = Some (FData acc) /\ forall q, path_eqb dp q = false -> fsc q = fs0 q.
Definition good (fs0 : fsys) (dp : path) (o : op) : Prop :=
  match o with
  | WriteB p _ => p = dp
  | OpenR p off len None => p <> dp /\ readable fs0 p off len
  | _ => False
  end.
Definition written (o : op) : bytes := match o with WriteB _ b => b | _ => [] end.

Lemma exec_good : forall fs0 dp ops fsc acc i inv,
  Forall (good fs0 dp) ops -> inv_fs fs0 dp fsc acc ->
  exists fs', exec ops i None fsc inv = (OK, fs', inv, (i + List.length ops)%nat) /\
              inv_fs fs0 dp fs' (acc ++ flat_map written ops).
Proof.
  induction ops as [|o ops IH]; intros fsc acc i inv G I; cbn [exec flat_map List.length].
  - exists fsc. rewrite app_nil_r. split; [f_equal; lia | assumption].
  - inversion G as [|? ? Go Gr]; subst. cbn [fault_at].
    destruct o as [p off len [x|]|p|p b|p es|p]; cbn [good] in Go; try contradiction.
    + destruct Go as [Np (b & Hb & R)]. destruct I as [I1 I2]. cbn [step].
      rewrite (I2 p) by (apply path_eqb_neq; congruence). rewrite Hb, R. cbn [inval_of written app]. rewrite app_nil_r.
      destruct (IH fsc acc (S i) inv Gr (conj I1 I2)) as (fs' & E & I'). exists fs'. split; [|assumption].
      rewrite E. f_equal. lia.
    + subst p. destruct I as [I1 I2]. cbn [step]. rewrite I1. cbn [inval_of written]. rewrite app_nil_r.
      assert (I' : inv_fs fs0 dp (upd fsc dp (FData (acc ++ b))) (acc ++ b)).
      { split; [unfold upd; rewrite path_eqb_refl; reflexivity | intros q Hq; unfold upd; rewrite Hq; apply I2; assumption]. }
      destruct (IH _ _ (S i) inv Gr I') as (fs' & E & I''). exists fs'. rewrite app_assoc. split; [|assumption].
      rewrite E. f_equal. lia.
Qed.

Definition goodr (fs : fsys) (o : op) : Prop :=
  match o with OpenR p off len _ => readable fs p off len | _ => False end.
Lemma exec_reads : forall fs ops i inv, Forall (goodr fs) ops ->
  exec ops i None fs inv = (OK, fs, inv ++ flat_map inval_of ops, (i + List.length ops)%nat).
Proof.
  induction ops as [|o ops IH]; intros i inv G; cbn [exec flat_map List.length].
  - rewrite app_nil_r. f_equal; lia.
  - inversion G as [|? ? Go Gr]; subst. destruct o; cbn [goodr] in Go; try contradiction.
    destruct Go as (b & Hb & R). cbn [fault_at step]. rewrite Hb, R. rewrite IH by assumption.
    rewrite app_assoc. f_equal. lia.
Qed.

Lemma chunks_concat_fuel : forall f b, (List.length b <= f)%nat -> List.concat (chunks_fuel f b) = b.
Proof.
  induction f as [|f IH]; intros b L.
  - destruct b; [reflexivity | cbn in L; lia].
  - destruct b as [|x b]; [reflexivity|]. cbn [chunks_fuel].
    set (n := Z.to_nat (Z.min chunk_size (Zlen (x :: b)))).
    assert (N : (1 <= n)%nat).
    { unfold n, chunk_size, Zlen. cbn [List.length]. lia. }
    cbn [List.concat]. rewrite IH; [apply firstn_skipn|].
    rewrite skipn_length. cbn [List.length] in *. lia.
Qed.
Lemma chunks_concat : forall b, List.concat (chunks b) = b.
Proof. intro b; apply chunks_concat_fuel; lia. Qed.
Lemma written_chunks : forall dp cs, flat_map written (map (WriteB dp) cs) = List.concat cs.
Proof. induction cs; cbn; [reflexivity | rewrite IHcs; reflexivity]. Qed.

Definition item_ok (fs0 : fsys) (it : item) : Prop :=
  match snd it with Ext _ src off len => readable fs0 src off len | InMem _ _ => True end.

Lemma materialised_false_neq : forall fs0 dp id src off len,
  materialised fs0 dp (Ext id src off len) = false -> readable fs0 src off len -> src <> dp.
Proof.
  intros fs0 dp id src off len Mt (b & Hb & _) ->. cbn in Mt. rewrite path_eqb_refl, andb_true_r in Mt.
  unfold exists_file in Mt. rewrite Hb in Mt. discriminate.
Qed.

Lemma items_ops_good : forall fs0 dp its cur, Forall (item_ok fs0) its ->
  Forall (good fs0 dp) (items_ops fs0 dp cur its) /\ flat_map written (items_ops fs0 dp cur its) = image fs0 cur its.
Proof.
  induction its as [|it its IH]; intros cur H; cbn [items_ops image flat_map]; [split; [constructor | reflexivity]|].
  inversion H as [|? ? Hit Hr]; subst.
  destruct (IH (align_up cur (nbytes (snd it)) + nbytes (snd it)) Hr) as [G W].
  rewrite flat_map_app, W. pose proof (align_up_ge cur (nbytes (snd it))) as A.
  assert (P : Forall (good fs0 dp) (if cur <? align_up cur (nbytes (snd it)) then [WriteB dp (zeros (align_up cur (nbytes (snd it)) - cur))] else [])
              /\ flat_map written (if cur <? align_up cur (nbytes (snd it)) then [WriteB dp (zeros (align_up cur (nbytes (snd it)) - cur))] else [])
                 = zeros (align_up cur (nbytes (snd it)) - cur)).
  { destruct (cur <? align_up cur (nbytes (snd it))) eqn:E.
    - split; [repeat constructor | cbn; apply app_nil_r].
    - apply Z.ltb_ge in E. replace (align_up cur (nbytes (snd it)) - cur) with 0 by lia. split; [constructor | reflexivity]. }
  destruct P as [P1 P2].
  assert (B : Forall (good fs0 dp) (match snd it with
                | InMem _ d => [WriteB dp d]
                | Ext _ src o l => if materialised fs0 dp (snd it) then [WriteB dp (data_of fs0 (snd it))]
                                   else OpenR src o l None :: map (WriteB dp) (chunks (data_of fs0 (snd it))) end)
              /\ flat_map written (match snd it with
                | InMem _ d => [WriteB dp d]
                | Ext _ src o l => if materialised fs0 dp (snd it) then [WriteB dp (data_of fs0 (snd it))]
                                   else OpenR src o l None :: map (WriteB dp) (chunks (data_of fs0 (snd it))) end)
                 = data_of fs0 (snd it)).
  { unfold item_ok in Hit. destruct (snd it) as [id d|id src o l] eqn:E.
    - split; [repeat constructor | cbn; apply app_nil_r].
    - destruct (materialised fs0 dp (Ext id src o l)) eqn:Mt.
      + split; [repeat constructor | cbn [flat_map written]; apply app_nil_r].
      + split.
        * constructor; [cbn; split; [eapply materialised_false_neq; eassumption | assumption]|].
          apply Forall_forall. intros x Hx. apply in_map_iff in Hx. destruct Hx as (c & <- & _). reflexivity.
        * cbn [flat_map written app]. rewrite written_chunks. apply chunks_concat. }
  destruct B as [B1 B2].
  split.
  - unfold item_ops. apply Forall_app; split; [apply Forall_app; split; assumption | assumption].
  - unfold item_ops. rewrite flat_map_app, P2, B2, app_assoc. reflexivity.
Qed.

(* every entry of the layout points at the bytes of its tensor inside the data file *)
Lemma layout_find : forall fs0 its cur pre i t,
  Zlen pre = cur -> NoDup (map fst its) -> In (i, t) its ->
  (forall it, In it its -> Zlen (data_of fs0 (snd it)) = nbytes (snd it)) ->
  exists off, find (fun e => Nat.eqb (fst (fst e)) i) (layout cur its) = Some (i, off, nbytes t) /\
              slice off (nbytes t) (pre ++ image fs0 cur its) = Some (data_of fs0 t).
Proof.
  induction its as [|[j u] its IH]; intros cur pre i t Hpre ND Hin Hlen; [contradiction|].
  cbn [layout image find fst snd]. pose proof (align_up_ge cur (nbytes u)) as A.
  assert (Lu : Zlen (data_of fs0 u) = nbytes u) by (apply (Hlen (j, u)); left; reflexivity).
  destruct (Nat.eqb j i) eqn:E.
  - apply Nat.eqb_eq in E; subst j. cbn [map fst] in ND; apply NoDup_cons_iff in ND; destruct ND as [Hnot ND'].
    destruct Hin as [Hin|Hin].
    + inversion Hin; subst u. exists (align_up cur (nbytes t)). split; [reflexivity|].
      rewrite app_assoc. apply slice_app; [|assumption].
      rewrite Zlen_app, Zlen_zeros by lia. lia.
    + exfalso. apply Hnot. apply in_map_iff. exists (i, t); auto.
  - destruct Hin as [Hin|Hin]; [inversion Hin; subst; rewrite Nat.eqb_refl in E; discriminate|].
    cbn [map fst] in ND; apply NoDup_cons_iff in ND; destruct ND as [Hnot ND'].
    destruct (IH (align_up cur (nbytes u) + nbytes u) (pre ++ zeros (align_up cur (nbytes u) - cur) ++ data_of fs0 u) i t) as (off & F & S); auto.
    + rewrite !Zlen_app, Zlen_zeros by lia. lia.
    + intros it Hit. apply Hlen. right; assumption.
    + exists off. split; [assumption|]. rewrite <- S. f_equal. rewrite <- !app_assoc. reflexivity.
Qed.

Lemma insert_perm : forall x l, Permutation (x :: l) (insert x l).
Proof.
  induction l as [|y l IH]; cbn [insert]; [apply Permutation_refl|].
  destruct (nbytes (snd x) <=? nbytes (snd y)); [apply Permutation_refl|].
  eapply Permutation_trans; [apply perm_swap | apply perm_skip; assumption].
Qed.
Lemma sort_perm : forall l, Permutation l (sort_items l).
Proof.
  induction l as [|x l IH]; [apply Permutation_refl|]. unfold sort_items in *. cbn [fold_right].
  eapply Permutation_trans; [apply perm_skip; eassumption | apply insert_perm].
Qed.

Lemma ext_items_nodup_gen : forall (L : list (nat * slot)), NoDup (map fst L) ->
  NoDup (map fst (flat_map (fun p => match classify (snd p) with Externalize t => [(fst p, t)] | _ => [] end) L)).
Proof.
  induction L as [|[j s] L IH]; intros ND; [constructor|]. cbn [flat_map map fst snd] in *.
  inversion ND as [|? ? Hnot ND']; subst. specialize (IH ND').
  destruct (classify s); cbn [app map fst]; try assumption.
  constructor; [|assumption]. intro H. apply Hnot.
  apply in_map_iff in H. destruct H as ([j' t'] & Ej & H). cbn in Ej; subst j'.
  apply in_flat_map in H. destruct H as ([j2 s2] & Hin & H). cbn [fst snd] in H.
  destruct (classify s2); try contradiction. destruct H as [H|[]]. inversion H; subst.
  apply in_map_iff. exists (j, s2); auto.
Qed.
Lemma ext_items_nodup : forall M, NoDup (map fst (ext_items M)).
Proof. intro M. apply ext_items_nodup_gen. rewrite index_from_fst. apply seq_NoDup. Qed.

Lemma map_opt_app : forall A B (f : A -> option B) a b,
  map_opt f (a ++ b) = match map_opt f a, map_opt f b with Some x, Some y => Some (x ++ y) | _, _ => None end.
Proof.
  induction a as [|x a IH]; intros b; cbn [app map_opt].
  - destruct (map_opt f b); reflexivity.
  - rewrite IH. destruct (f x); [|reflexivity]. destruct (map_opt f a); [|reflexivity]. destruct (map_opt f b); reflexivity.
Qed.

Definition load_entry (fs : fsys) (mp : path) (e : pentry) : option (string * bool * bytes) :=
  match snd e with
  | PInline d => Some (fst e, d)
  | PExt loc off len => match read_ext fs (fst mp, loc) off len with Some d => Some (fst e, d) | None => None end
  end.

Theorem save_load_roundtrip : forall ag M mp fs,
  guard_fails ag M = false -> all_readable fs M ->
  r_out (run_save ag M mp fs None) = OK /\
  load (r_fs (run_save ag M mp fs None)) mp = Some (expected fs M).
Proof.
  intros ag M mp fs G R. unfold run_save. rewrite G.
  set (dp := data_path mp). set (sorted := sort_items (ext_items M)).
  (* every item is readable and has the length it claims *)
  assert (OKi : forall it, In it (ext_items M) -> item_ok fs it /\ Zlen (data_of fs (snd it)) = nbytes (snd it)).
  { intros [j t] Hin. apply in_ext_items in Hin. destruct Hin as (s & Hs & C). apply classify_ext in C. destruct C as [V _].
    apply in_index_from in Hs. unfold item_ok. cbn [snd]. destruct t as [id d|id src off len].
    - split; [exact I | reflexivity].
    - pose proof (R s id src off len Hs V) as Rd. split; [assumption | apply readable_data_len; assumption]. }
  assert (OKs : forall it, In it sorted -> item_ok fs it /\ Zlen (data_of fs (snd it)) = nbytes (snd it)).
  { intros it Hin. apply OKi. eapply Permutation_in; [apply Permutation_sym, sort_perm | exact Hin]. }
  (* phase A/B: reads *)
  assert (GA : Forall (goodr fs) (ops_small (small_items M))).
  { apply Forall_forall. intros o Ho. unfold ops_small in Ho. apply in_flat_map in Ho. destruct Ho as ([j t] & Hin & Ho). cbn [snd] in Ho.
    destruct t as [|id src off len]; [contradiction|]. destruct (0 <? len); [|contradiction]. destruct Ho as [<-|[]]. cbn.
    unfold small_items in Hin. apply in_flat_map in Hin. destruct Hin as ([j' s] & Hs & Hin). cbn [fst snd] in Hin.
    destruct (classify s) eqn:C; try contradiction. destruct Hin as [Hin|[]]. inversion Hin; subst.
    apply in_index_from in Hs. unfold classify in C. destruct (s_val s) as [t'|] eqn:V; [|discriminate].
    destruct (size_threshold <? nbytes t'); [discriminate|]. destruct t'; [discriminate|]. inversion C; subst.
    eapply R; eassumption. }
  assert (GB : Forall (goodr fs) (ops_mat fs dp (ext_items M))).
  { apply Forall_forall. intros o Ho. unfold ops_mat in Ho. apply in_flat_map in Ho. destruct Ho as ([j t] & Hin & Ho). cbn [snd] in Ho.
    destruct t as [|id src off len]; [contradiction|]. destruct (materialised fs dp (Ext id src off len)); [|contradiction].
    destruct Ho as [<-|[]]. cbn. apply (OKi _ Hin). }
  (* phase C: writes *)
  assert (GS : Forall (item_ok fs) sorted) by (apply Forall_forall; intros it Hit; apply (OKs it Hit)).
  destruct (items_ops_good fs dp sorted 0 GS) as [GC WC].
  unfold ops_unload. fold dp. fold sorted.
  rewrite exec_app, (exec_reads fs _ 0%nat [] GA).
  rewrite exec_app, (exec_reads fs _ _ _ GB).
  rewrite exec_app. cbn [exec fault_at step].
  assert (I0 : inv_fs fs dp (upd fs dp (FData [])) []).
  { split; [unfold upd; rewrite path_eqb_refl; reflexivity | intros q Hq; unfold upd; rewrite Hq; reflexivity]. }
  rewrite exec_app.
  match goal with |- context [exec (items_ops fs dp 0 sorted) ?i None ?f ?v] =>
    destruct (exec_good fs dp (items_ops fs dp 0 sorted) f [] i v GC I0) as (fs1 & E1 & [I1 I2]) end.
  rewrite E1. cbn [exec fault_at step]. cbn [app] in I1. rewrite WC in I1.
  cbn [ops_model exec fault_at step r_out r_fs]. split; [reflexivity|].
  (* load *)
  unfold load, upd at 1. rewrite path_eqb_refl.
  set (fs2 := upd (upd fs1 mp (FData [])) mp (FModel (ser (replaced M mp fs)))).
  assert (Fdp : fs2 dp = Some (FData (image fs 0 sorted))).
  { unfold fs2, upd. rewrite (path_eqb_neq mp dp) by (intro H; symmetry in H; revert H; apply data_path_neq). assumption. }
  change (map_opt (load_entry fs2 mp) (ser (replaced M mp fs)) = Some (expected fs M)).
  unfold replaced, ser, expected. fold sorted.
  set (lay := layout 0 sorted). set (base := S (max_tid M)).
  assert (SLOT : forall j s, In (j, s) (index_from 0 M) ->
     map_opt (load_entry fs2 mp) (slot_entries (fst s, new_val fs mp lay base j s)) = Some (expected_of fs s)).
  { intros j s Hjs. unfold slot_entries, expected_of, s_val at 1, s_name, s_main. cbn [fst snd]. unfold new_val.
    destruct (classify s) eqn:C.
    - (* Keep *) unfold classify in C. destruct (s_val s) as [t|] eqn:V; [|reflexivity].
      destruct (size_threshold <? nbytes t); [discriminate|]. destruct t as [id d|]; [|discriminate].
      cbn. destruct s as [[n m] v]; reflexivity.
    - (* Externalize *) pose proof C as C'. apply classify_ext in C'. destruct C' as [V _]. rewrite V.
      assert (Hin : In (j, t) sorted).
      { eapply Permutation_in; [apply sort_perm|]. unfold ext_items. apply in_flat_map. exists (j, s). split; [assumption|].
        cbn [fst snd]. rewrite C. left; reflexivity. }
      assert (ND : NoDup (map fst sorted)).
      { eapply Permutation_NoDup; [apply Permutation_map, sort_perm | apply ext_items_nodup]. }
      destruct (layout_find fs sorted 0 [] j t eq_refl ND Hin (fun it H => proj2 (OKs it H))) as (off & F & S).
      unfold lay. rewrite F. cbn [map_opt load_entry snd fst]. unfold read_ext.
      change (fst mp, snd (data_path mp)) with dp. rewrite Fdp. cbn [app] in S. rewrite S.
      destruct s as [[n m] v]; reflexivity.
    - (* LoadSmall *) unfold classify in C. destruct (s_val s) as [t'|] eqn:V; [|discriminate].
      destruct (size_threshold <? nbytes t'); [discriminate|]. destruct t'; [discriminate|]. inversion C; subst.
      cbn. destruct s as [[n m] v]; reflexivity. }
  rewrite <- (index_from_snd _ M 0) at 2.
  remember (index_from 0 M) as L eqn:EL. clear EL. revert SLOT.
  induction L as [|[j s] L IH]; intros SLOT; [reflexivity|].
  cbn [map flat_map fst snd]. rewrite map_opt_app.
  rewrite (SLOT j s) by (left; reflexivity). rewrite IH by (intros; apply SLOT; right; assumption).
  reflexivity.
Qed.

(* ------------------------------------------------------------------ non-vacuity: the hypotheses are met by a real case *)
Definition ex_fs : fsys := mkfs [(("d", "other.bin")%string, FData [9;8;7;6;5;4;3;2;1;0])].
Definition ex_M : list slot :=
  [("a"%string, true, Some (InMem 1 (repeat 7 300)));
   ("z"%string, true, Some (InMem 2 []));
   ("e"%string, false, Some (Ext 3 ("d", "other.bin")%string 2 5));
   ("b"%string, false, Some (InMem 4 (repeat 5 257)))].
Example ex_hypotheses : guard_fails true ex_M = false /\ all_readable ex_fs ex_M.
Proof.
  split; [reflexivity|]. intros s id src off len Hin Hs. cbn in Hin.
  destruct Hin as [<-|[<-|[<-|[<-|[]]]]]; cbn in Hs; try discriminate.
  inversion Hs; subst. exists [9;8;7;6;5;4;3;2;1;0]. split; reflexivity.
Qed.
Example ex_roundtrip :
  load (r_fs (run_save true ex_M ("d", "m.onnx")%string ex_fs None)) ("d", "m.onnx")%string
  = Some [("a"%string, true, repeat 7 300); ("z"%string, true, []); ("e"%string, false, [7;6;5;4;3]); ("b"%string, false, repeat 5 257)]
  /\ r_steps (run_save true ex_M ("d", "m.onnx")%string ex_fs None) = 8%nat
  /\ r_out (run_save true ex_M ("d", "m.onnx")%string ex_fs (Some 3%nat)) = ErrOS
  /\ r_mem (run_save true ex_M ("d", "m.onnx")%string ex_fs (Some 3%nat)) = ex_M.
Proof. vm_compute. repeat split; reflexivity. Qed.
