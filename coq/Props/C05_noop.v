(* C05, family no-op (_no_op.py: mul_by_1, add_0, sub_0, div_by_1 and commuted forms): statements only. *)
From Coq Require Import ZArith List Bool.
Require Import OV.Rules.BShape OV.Rules.NoOp OV.Rules.NoOpProofs OV.Rules.Cast OV.Rules.Dropout OV.Rules.DropoutProofs.
Import ListNotations.
Open Scope Z_scope.

(* with an exact constant test (rel_tol = abs_tol = 0, the proposed fix) all six forms are identities on exact numbers *)
Theorem C05_noop_exact_sound : forall o r c x,
  0 < snd c -> 0 < snd x -> check_exact o r c = true -> req (lhs o c x) x.
Proof. exact noop_exact_sound. Qed.
Print Assumptions C05_noop_exact_sound.

(* the shipped isclose test is exact on integer constants: the rules are sound on integer tensors (x/1 truncating) *)
Theorem C05_noop_int_sound : forall o r c x, check o r (of_int c) = true -> lhs_int o c x = x.
Proof. exact noop_int_sound. Qed.
Print Assumptions C05_noop_int_sound.

(* on float constants it is not: for each of the six forms a constant only approximately equal to 0 / 1 is accepted
   and the result changes (finding C05:noop:approximately-equal-constant; replayed on the real code by the harness) *)
Theorem C05_noop_isclose_refuted : forall o, exists c x,
  0 < snd c /\ 0 < snd x /\ check o 0 c = true /\ ~ req (lhs o c x) x.
Proof. exact noop_isclose_refuted_all. Qed.
Print Assumptions C05_noop_isclose_refuted.

(* a 0-d constant never changes the broadcast result shape (either operand position) *)
Theorem C05_noop_shape_sound : forall xs, bcast xs [] = Some xs /\ bcast [] xs = Some xs.
Proof. exact noop_shape_sound. Qed.
Print Assumptions C05_noop_shape_sound.

(* dropout_inference_rule / dropout_zero_rule (Section hypotheses of the proof, listed as assumptions by the harness:
   1 * v = v and 1 / (1 - 0) = 1 in the scalar type) *)
Theorem C05_noop_dropout_inference : forall (F : Type) (zero : F) (mul : F -> F -> F) (scale_of : F -> F) ratio mask x,
  OV.Rules.Dropout.dropout F zero mul scale_of false ratio mask x = x.
Proof. exact OV.Rules.DropoutProofs.dropout_inference_sound. Qed.
Print Assumptions C05_noop_dropout_inference.

Theorem C05_noop_dropout_zero : forall (F : Type) (zero one : F) (mul : F -> F -> F) (scale_of : F -> F),
  (forall v, mul one v = v) -> scale_of zero = one ->
  forall training mask x, length mask = length x -> (forall m, In m mask -> m = true) ->
  OV.Rules.Dropout.dropout F zero mul scale_of training zero mask x = x.
Proof. exact OV.Rules.DropoutProofs.dropout_zero_sound. Qed.
Print Assumptions C05_noop_dropout_zero.

Theorem C05_noop_dropout_small_ratio_refuted : exists (scale_of : Z -> Z) mask x,
  OV.Rules.Dropout.dropout Z 0%Z Z.mul scale_of true 1%Z mask x <> x.
Proof. exact OV.Rules.DropoutProofs.dropout_small_ratio_refuted. Qed.
Print Assumptions C05_noop_dropout_small_ratio_refuted.

(* no_op_cast_rule (CastIdentity) *)
Theorem C05_noop_cast_identity : forall (V : Type) (cast : Z -> Z -> V -> V), (forall d v, cast d d v = v) ->
  forall xd to v, OV.Rules.Cast.ci_check (Some xd) to = true -> OV.Rules.Dropout.cast_node V cast xd to v = v.
Proof. exact OV.Rules.DropoutProofs.cast_identity_sound. Qed.
Print Assumptions C05_noop_cast_identity.

Theorem C05_noop_cast_identity_unknown_dtype : forall to, OV.Rules.Cast.ci_check None to = false.
Proof. exact OV.Rules.DropoutProofs.cast_identity_unknown_dtype. Qed.
Print Assumptions C05_noop_cast_identity_unknown_dtype.
