(* C13 (session 6): every Loop node is either printed in one of three forms -- each of them inside the soundness theorem
   C13_export_nested_sound_partial (Props/C13_nested.v: `while`, `for`, and with brk = true `for` + `if not c: break`) --
   or REFUSED, and the refusal is exactly characterised.  Statements only.

   Export/EmitCF.v emit_loop is the model of _translate_loop; `None` = the exporter raises (tied by the correspondence
   check of harness/c13_cf.py: exporter raising <-> model refusing, on every compared (case, option tuple) pair).
   C13_emit_loop_refuses_iff: for a Loop node without further attributes whose body was translated by `sub`,
     emit_loop = None  <->  loop_refused \/ the body itself is refused,
   where loop_refused (Export/EmitOpts.v) holds iff the node mentions neither stop mechanism ("no stop condition",
   C13_loop_refused_no_stop) or it is a counted loop outside a remapping scope (infun = false: the exporter before
   4b585b4; the harness passes what the probe of harness/c13_variants.py finds).
   C13_loop_form_cases: refused, or exactly one of FWhile / FFor (inside a scope) / FForBreak.
   C13_refuse_hazard_iff: the descriptive refusal C13_12 (a body returning one of its own inputs at a later position).
   NOT covered: bodies that READ their condition input (wf_while / wf_forbreak run the body without cond_in among the
   visible names; such a body is printed -- reading the Python variable of the condition -- and compared by the
   correspondence check and the round-trip oracle only); scan outputs (the exporter ignores them: DESIGN known gap). *)
From Coq Require Import List String Bool.
Import ListNotations.
Require Import OV.Graph.Syntax OV.Graph.Names OV.Script.Syntax OV.Export.Cleanup OV.Export.Emit OV.Export.EmitCF OV.Export.EmitOpts OV.Export.EmitOptsProofs.
Local Open Scope string_scope.

Theorem C13_emit_loop_refuses_iff : forall rename infun inline rm consts sub ins outs bn body t,
  emit_loop rename infun inline rm consts sub ins outs [] ((bn, body) :: t) = None <->
  (loop_refused infun ins body = true \/ sub body = None).
Proof. exact emit_loop_refuses_iff. Qed.
Print Assumptions C13_emit_loop_refuses_iff.

Theorem C13_loop_form_cases : forall infun ins body,
  loop_refused infun ins body = true \/
  loop_form_of ins body = Some FWhile \/ (loop_form_of ins body = Some FFor /\ infun = true) \/ loop_form_of ins body = Some FForBreak.
Proof. exact loop_form_cases. Qed.
Print Assumptions C13_loop_form_cases.

Theorem C13_loop_refused_no_stop : forall ins body iv cin fins cout fouts,
  g_ins body = iv :: cin :: fins -> g_outs body = cout :: fouts ->
  (loop_refused true ins body = true <->
   has_in ins 0 = false /\ memb iv (names_nodes (g_nodes body)) = false /\ has_in ins 1 = false /\ cond_used cin cout (g_nodes body) = false).
Proof. exact loop_refused_no_stop. Qed.
Print Assumptions C13_loop_refused_no_stop.

Theorem C13_refuse_hazard_iff : forall A flag g (m : option A),
  refuse_hazard flag g m = None <-> ((flag = true /\ hazard_nodes (depth_graph g) (g_nodes g) = true) \/ m = None).
Proof. exact refuse_hazard_iff. Qed.
Print Assumptions C13_refuse_hazard_iff.
