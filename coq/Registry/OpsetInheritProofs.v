(* C17 -- inheritance on the extracted classes (Registry/OpsetInherit.v): Python's lookup along the method
   resolution order finds the nearest definition; when the computable test passes, that definition sits in the
   class whose version is the since_version get_schema selects, and names exactly that schema. *)
From Coq Require Import List String ZArith Bool Lia Arith.
Import ListNotations.
Require Import OV.Registry.OpsetMethod OV.Registry.OpsetMethodProofs OV.Registry.OpsetEmit OV.Registry.OpsetEmitProofs
               OV.Registry.OpsetChain OV.Registry.OpsetChainProofs OV.Registry.OpsetInherit.
Local Open Scope string_scope.
Local Open Scope list_scope.

(* the nearest definition: nothing before it defines the name *)
Lemma defining_spec : forall l op d m, defining l op = Some (d, m) ->
  exists pre post, l = pre ++ d :: post /\
    (forall k, In k pre -> lookup_in (c_methods k) op = None) /\ lookup_in (c_methods d) op = Some m.
Proof.
  induction l as [|c t IH]; cbn; intros op d m E; [discriminate|].
  destruct (lookup_in (c_methods c) op) as [m0|] eqn:L.
  - inversion E; subst. exists [], t. cbn. repeat split; auto. intros k [].
  - destruct (IH _ _ _ E) as [pre [post [-> [H1 H2]]]]. exists (c :: pre), post. cbn. repeat split; auto.
    intros k [<-|I]; auto.
Qed.

Lemma defining_none : forall l op, defining l op = None -> forall k, In k l -> lookup_in (c_methods k) op = None.
Proof.
  induction l as [|c t IH]; cbn; intros op E k I; [tauto|].
  destruct (lookup_in (c_methods c) op) eqn:L; [discriminate|]. destruct I as [<-|I]; auto.
Qed.

Lemma lookup_concat : forall l op,
  lookup_in (List.concat (map c_methods l)) op = option_map snd (defining l op).
Proof.
  induction l as [|c t IH]; intros op; [reflexivity|].
  cbn [map List.concat defining]. unfold lookup_in at 1. rewrite find_app'.
  fold (lookup_in (c_methods c) op). fold (lookup_in (List.concat (map c_methods t)) op).
  destruct (lookup_in (c_methods c) op); cbn; auto.
Qed.

(* getattr(opsetN, Op) on the class = the nearest definition along its resolution order *)
Lemma static_lookup_defining : forall cs c op l, mro_of cs c = Some l ->
  static_lookup cs c op = option_map snd (defining l op).
Proof.
  intros cs c op l H. unfold static_lookup, all_methods. unfold mro_of in H. rewrite H. cbn [option_map].
  apply lookup_concat.
Qed.

Lemma mro_head : forall fuel cs c l, mro fuel cs c = Some l -> exists t, l = c :: t.
Proof.
  intros fuel cs c l H. destruct fuel as [|f]; cbn in H; destruct (c_base c); try discriminate;
    try (inversion H; eauto; fail).
  destruct (find_class cs s); try discriminate. destruct (mro f cs c0); cbn in H; inversion H; eauto.
Qed.

(* THE INHERITANCE THEOREM, for every registry with unique keys and every set of classes passing the test *)
Theorem inherit_sound : forall reg cs, inherit_ok reg cs = true -> uniq_keysb reg = true ->
  forall c, In c cs -> forall op s, dyn_getitem reg c op = Some s ->
    (covered c = true -> exists m, static_lookup cs c op = Some m) /\
    forall m, static_lookup cs c op = Some m ->
      exists l pre d post, mro_of cs c = Some l /\ l = pre ++ d :: post /\
        (forall k, In k pre -> lookup_in (c_methods k) op = None) /\
        lookup_in (c_methods d) op = Some m /\
        c_domain d = c_domain c /\ c_version d = s_since s /\ m_since m = s_since s /\
        static_schema reg m = Some s /\
        (lookup_in (c_methods c) op = None -> exists pre', pre = c :: pre').
Proof.
  intros reg cs OK U c I op s R.
  unfold inherit_ok in OK. rewrite forallb_forall in OK. specialize (OK c I). unfold inherit_class_ok in OK.
  destruct (mro_of cs c) as [l|] eqn:M; [|discriminate].
  rewrite forallb_forall in OK. specialize (OK op (class_ops_complete _ _ _ _ _ R)).
  unfold inherit_pair_ok in OK. rewrite R in OK.
  rewrite (static_lookup_defining cs c op l M).
  destruct (defining l op) as [[d m']|] eqn:D.
  - split; [intros _; exists m'; reflexivity|].
    intros m E. cbn in E. inversion E; subst m'; clear E.
    rewrite !andb_true_iff in OK. destruct OK as [[[[O1 O2] O3] O4] O5].
    apply String.eqb_eq in O1, O4, O5. apply Z.eqb_eq in O2, O3.
    destruct (defining_spec _ _ _ _ D) as [pre [post [El [H1 H2]]]].
    exists l, pre, d, post. repeat split; auto.
    + unfold dyn_getitem in R. destruct (resolve_spec _ _ _ _ _ R) as [Is [E1 [E2 _]]].
      unfold static_schema. rewrite O3, O4, O5, <- E1, <- E2. apply resolve_exact; auto.
    + intros NL. destruct pre as [|k pre']; [|].
      * exfalso. unfold mro_of in M. destruct (mro_head _ _ _ _ M) as [t Et].
        rewrite Et in El. cbn in El. inversion El; subst d. congruence.
      * unfold mro_of in M. destruct (mro_head _ _ _ _ M) as [t Et].
        rewrite Et in El. cbn in El. inversion El; subst k. eauto.
  - split.
    + intro C. rewrite C in OK. discriminate.
    + intros m E. discriminate.
Qed.

(* ------------------------------------------------------------------ the shape of the chains *)

Lemma nth_map_seq {A} (f : nat -> A) : forall n i dflt, (i < n)%nat -> nth i (map f (seq 0 n)) dflt = f i.
Proof.
  intros n i dflt L. rewrite (nth_indep _ dflt (f 0%nat)); [|rewrite map_length, seq_length; auto].
  rewrite map_nth. rewrite seq_nth; auto.
Qed.

Lemma shape_versions : forall c l, chain_shape_ok c l = true ->
  map c_version l = map (fun i => (c_version c - Z.of_nat i)%Z) (seq 0 (List.length l)) /\
  c_version c = Z.of_nat (List.length l) /\ forall k, In k l -> c_domain k = c_domain c.
Proof.
  intros c l H. unfold chain_shape_ok in H. rewrite !andb_true_iff in H. destruct H as [[H1 H2] H3].
  split; [|split].
  - apply (list_eqb_eq Z.eqb (fun a b => proj1 (Z.eqb_eq a b))); auto.
  - apply Z.eqb_eq; auto.
  - intros k I. rewrite forallb_forall in H1. apply String.eqb_eq. auto.
Qed.

(* the class found after `pre` along the chain of (domain, N) is the class of version N - |pre| *)
Lemma shape_version_at : forall c pre d post, chain_shape_ok c (pre ++ d :: post) = true ->
  c_version d = (c_version c - Z.of_nat (List.length pre))%Z /\ (1 <= c_version d)%Z.
Proof.
  intros c pre d post H. destruct (shape_versions _ _ H) as [E [N _]].
  assert (nth (List.length pre) (map c_version (pre ++ d :: post)) 0%Z = c_version d) as X.
  { rewrite map_app. rewrite app_nth2; rewrite map_length; [|lia]. rewrite Nat.sub_diag. reflexivity. }
  rewrite E in X. rewrite nth_map_seq in X; [|rewrite app_length; cbn; lia].
  split; [auto|]. rewrite <- X, N. rewrite app_length. cbn [List.length]. lia.
Qed.
