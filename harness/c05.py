"""C05 -- each shipped rewrite rule preserves semantics wherever it fires (DESIGN.md section 5, C05).

Per rule family: a Coq model of check/rewrite (coq/Rules/*.v), soundness theorems (Props/C05.v),
a correspondence check (real rule applied to generated hosts; what it produced is compared with the
model inside Coq) and a direct oracle (host vs rewritten host executed).  Families register
themselves in FAMILIES; each is `fam(ctx)`.
"""
from __future__ import annotations

import importlib
import itertools
import pkgutil

import numpy as np

from harness import common
from harness.common import clist, copt, cz

PROPERTY = "C05"
LEVEL = "proof"


# ----------------------------------------------------------------------------- helpers (shared by families)

def ref_run(model_proto, feeds):
    """Execute with onnx's reference evaluator (deterministic, no graph optimisation)."""
    import onnx.reference
    sess = onnx.reference.ReferenceEvaluator(model_proto)
    return sess.run(None, feeds)


def ort_run(model_proto, feeds):
    import onnxruntime as ort
    so = ort.SessionOptions()
    so.graph_optimization_level = ort.GraphOptimizationLevel.ORT_DISABLE_ALL
    so.log_severity_level = 4
    so.intra_op_num_threads = 1
    so.inter_op_num_threads = 1
    sess = ort.InferenceSession(model_proto.SerializeToString(), so, providers=["CPUExecutionProvider"])
    return sess.run(None, feeds)


def same_outputs(a, b, exact=True):
    if len(a) != len(b):
        return False
    for x, y in zip(a, b):
        x = np.asarray(x)
        y = np.asarray(y)
        if x.dtype != y.dtype or x.shape != y.shape:
            return False
        if exact or x.dtype.kind in "iub":
            if not np.array_equal(x, y, equal_nan=x.dtype.kind == "f"):
                return False
        elif not np.allclose(x, y, rtol=1e-4, atol=1e-5, equal_nan=True):
            return False
    return True


# ----------------------------------------------------------------------------- family: relu/clip fusions

def _clip_host(kind, l1, h1, l2, h2, dtype, const_kind="init", with_value_info=True):
    """Build the host model for one instance; bounds are python ints or None."""
    import onnx
    from onnx import TensorProto, helper, numpy_helper

    T = {"float32": TensorProto.FLOAT, "int64": TensorProto.INT64, "int32": TensorProto.INT32,
         "float64": TensorProto.DOUBLE}[dtype]
    nodes, inits = [], []

    def const(name, v):
        arr = np.array(v, dtype=dtype)
        if const_kind == "init":
            inits.append(numpy_helper.from_array(arr, name))
        else:
            nodes.append(helper.make_node("Constant", [], [name], value=numpy_helper.from_array(arr, name)))
        return name

    def clip(inp, out, lo, hi, tag):
        ins = [inp]
        if lo is not None or hi is not None:
            ins.append(const(f"{tag}_lo", lo) if lo is not None else "")
        if hi is not None:
            ins.append(const(f"{tag}_hi", hi))
        return helper.make_node("Clip", ins, [out])

    if kind == "ClipClip":
        n1 = clip("x", "t", l1, h1, "c1")
        n2 = clip("t", "y", l2, h2, "c2")
        nodes += [n1, n2]
    elif kind == "ClipRelu":  # Clip(Relu(x))
        nodes.append(helper.make_node("Relu", ["x"], ["t"]))
        nodes.append(clip("t", "y", l1, h1, "c1"))
    elif kind == "ReluClip":  # Relu(Clip(x))
        nodes.append(clip("x", "t", l1, h1, "c1"))
        nodes.append(helper.make_node("Relu", ["t"], ["y"]))
    elif kind == "ReluRelu":
        nodes.append(helper.make_node("Relu", ["x"], ["t"]))
        nodes.append(helper.make_node("Relu", ["t"], ["y"]))
    # Constant nodes must precede their consumers
    nodes.sort(key=lambda n: 0 if n.op_type == "Constant" else 1)
    vi = [helper.make_tensor_value_info("t", T, ["N"])] if with_value_info else []
    g = helper.make_graph(nodes, "g", [helper.make_tensor_value_info("x", T, ["N"])],
                          [helper.make_tensor_value_info("y", T, ["N"])], initializer=inits, value_info=vi)
    m = helper.make_model(g, opset_imports=[helper.make_opsetid("", 18)], ir_version=9)
    onnx.checker.check_model(m)
    return m


def _read_bounds(model_proto):
    """After rewriting: (fired?, lo, hi) of the single Clip node (values as python numbers)."""
    from onnx import numpy_helper
    ops = [n.op_type for n in model_proto.graph.node if n.op_type != "Constant"]
    consts = {i.name: numpy_helper.to_array(i) for i in model_proto.graph.initializer}
    for n in model_proto.graph.node:
        if n.op_type == "Constant":
            consts[n.output[0]] = numpy_helper.to_array(n.attribute[0].t)
    if ops != ["Clip"]:
        return False, None, None, ops
    n = [n for n in model_proto.graph.node if n.op_type == "Clip"][0]
    vals = []
    for k in (1, 2):
        if len(n.input) > k and n.input[k] != "":
            a = consts[n.input[k]]
            vals.append((a.item(), a.shape, str(a.dtype)))
        else:
            vals.append(None)
    return True, vals[0], vals[1], ops


def fam_clip(ctx):
    from onnxscript import rewriter
    from onnxscript.rewriter.rules.common import _fuse_relus_clips as mod

    rng = ctx.rng
    vals = [None, -5, -1, 0, 1, 2, 3, 6]
    xs = {dt: np.array([-7, -5, -2, -1, 0, 1, 2, 3, 4, 6, 9], dtype=dt) for dt in ("float32", "int64", "int32", "float64")}
    combos = []
    for l1, h1 in itertools.product(vals, vals):
        combos.append(("ClipRelu", l1, h1, None, None))
        combos.append(("ReluClip", l1, h1, None, None))
    cc = list(itertools.product(vals, vals, vals, vals))
    if ctx.tier == "quick":
        rng.shuffle(cc)
        # always keep the known-delicate region (second min above first max) in the sample
        keep = [c for c in cc if c[1] is not None and c[2] is not None and c[2] > c[1]][:60]
        cc = keep + cc[:400]
    combos += [("ClipClip",) + c for c in cc]
    combos.append(("ReluRelu", None, None, None, None))
    cases = []       # coq case text
    meta = []
    fired = not_fired = 0
    for i, (kind, l1, h1, l2, h2) in enumerate(combos):
        dtype = ("float32", "int64", "int32", "float64")[i % 4] if ctx.tier == "thorough" else ("float32", "int64")[i % 2]
        const_kind = ("init", "node")[(i // 2) % 2]
        host = _clip_host(kind, l1, h1, l2, h2, dtype, const_kind)
        try:
            new = rewriter.rewrite(host, pattern_rewrite_rules=mod.rules)
        except Exception as e:  # C04 territory, but a rule that raises is reported here too
            ctx.violation(f"C05:clip:{kind}:raises:{type(e).__name__}", f"rule set raised {e!r}",
                          {"family": "clip", "kind": kind, "bounds": [l1, h1, l2, h2], "dtype": dtype})
            continue
        ok, lo, hi, ops = _read_bounds(new)
        ctx.case((kind, l1 is None, h1 is None, l2 is None, h2 is None,
                  (l2 is not None and h1 is not None and l2 > h1), (h1 is not None and h1 < 0)))
        # direct oracle: the property itself on the real code
        want = ref_run(host, {"x": xs[dtype]})
        got = ref_run(new, {"x": xs[dtype]})
        got_ort = ort_run(new, {"x": xs[dtype]})
        want_ort = ort_run(host, {"x": xs[dtype]})
        if not (same_outputs(want, got) and same_outputs(want_ort, got_ort)):
            cls = "second-min-above-first-max" if (kind == "ClipClip" and l2 is not None and h1 is not None and l2 > h1) else \
                  ("negative-max" if (kind == "ReluClip" and h1 is not None and h1 < 0) else "other")
            ctx.violation(f"C05:clip:{kind}:{cls}", f"{kind} bounds {(l1, h1, l2, h2)} {dtype}: rewritten model differs from original",
                          {"family": "clip", "kind": kind, "bounds": [l1, h1, l2, h2], "dtype": dtype, "const_kind": const_kind,
                           "x": xs[dtype].tolist(), "original": np.asarray(want[0]).tolist(), "rewritten": np.asarray(got[0]).tolist()})
        if kind == "ReluRelu":
            if ops != ["Relu"]:
                ctx.tie_broken("correspondence", "clip:ReluRelu", f"expected single Relu, got {ops}")
            continue
        if not ok:
            not_fired += 1
            ctx.tie_broken("correspondence", f"clip:{kind}", f"rule did not fire on {(l1, h1, l2, h2)}: ops {ops}")
            continue
        fired += 1
        for b in (lo, hi):
            if b is not None and (b[1] != () or b[2] != dtype):
                ctx.violation(f"C05:clip:{kind}:bound-shape-dtype", f"fused bound has shape {b[1]} dtype {b[2]}, expected 0-d {dtype}",
                              {"family": "clip", "kind": kind, "bounds": [l1, h1, l2, h2], "dtype": dtype})
        obs = (None if lo is None else int(lo[0]), None if hi is None else int(hi[0]))
        cases.append(f"({kind}, ({copt(l1, cz)}, {copt(h1, cz)}, {copt(l2, cz)}, {copt(h2, cz)}), ({copt(obs[0], cz)}, {copt(obs[1], cz)}))")
        meta.append((kind, l1, h1, l2, h2, dtype, obs))
    ctx.sample({"family": "clip", "case": meta[len(meta) // 2]})
    ok, vals_, raw = ctx.coq_eval(["OV.Rules.Clip"], f"Definition cases : list case := {clist(cases)}.\nEval vm_compute in (disagreeing 0 cases).")
    if not ok:
        ctx.tie_broken("correspondence", "clip:model-evaluation", raw[-800:])
        return
    bad = common.parse_nat_list(vals_[0])
    for i in bad:
        kind, l1, h1, l2, h2, dtype, obs = meta[i]
        ctx.tie_broken("correspondence", f"clip:{kind}", f"bounds {(l1, h1, l2, h2)}: implementation produced {obs}, model differs")
    ctx.cover(clip_instances=len(combos), clip_fired=fired, clip_model_disagreements=len(bad))
    ctx.obligation("correspondence clip: fused bounds produced by the real rules = Rules/Clip.v model on every instance", not bad and not_fired == 0)

    # near misses: a bound that is a graph input or not constant -> must not fire
    import onnx
    from onnx import TensorProto, helper
    for kind in ("input", "computed"):
        nodes = []
        inputs = [helper.make_tensor_value_info("x", TensorProto.FLOAT, ["N"])]
        if kind == "input":
            inputs.append(helper.make_tensor_value_info("lo", TensorProto.FLOAT, []))
        else:
            inputs.append(helper.make_tensor_value_info("z", TensorProto.FLOAT, []))
            nodes.append(helper.make_node("Neg", ["z"], ["lo"]))
        nodes += [helper.make_node("Clip", ["x", "lo"], ["t"]), helper.make_node("Relu", ["t"], ["y"])]
        g = helper.make_graph(nodes, "g", inputs, [helper.make_tensor_value_info("y", TensorProto.FLOAT, ["N"])])
        m = helper.make_model(g, opset_imports=[helper.make_opsetid("", 18)], ir_version=9)
        new = rewriter.rewrite(m, pattern_rewrite_rules=mod.rules)
        still = [n.op_type for n in new.graph.node]
        ctx.case(("near-miss", kind))
        if "Relu" not in still:
            ctx.violation(f"C05:clip:near-miss:{kind}", "rule fired although the bound is not a constant of the model",
                          {"family": "clip", "near_miss": kind, "ops_after": still})


FAMILIES = [fam_clip]


def _load_extra_families():
    """Families contributed as harness/c05_fam_*.py, each exposing `family(ctx)`."""
    import harness
    fams = []
    for m in sorted(pkgutil.iter_modules(harness.__path__), key=lambda m: m.name):
        if m.name.startswith("c05_fam_"):
            fams.append(importlib.import_module("harness." + m.name).family)
    return fams


# ----------------------------------------------------------------------------- per-rule fired counts (inventory obligation)
FIRED = {}          # rule signature -> number of successful try_rewrite calls during this run, all families together


def rule_sig(rule):
    """Identity of a rule that survives re-instantiation (factories, .commute() clones): (name, target pattern text with the
    run-specific ids of anonymous pattern values removed)."""
    import re
    return (getattr(rule, "name", None), re.sub(r"anonymous:\d+", "anonymous", str(rule._target_pattern)))


def install_fired_counter():
    """Observation hook: counts, per rule signature, the calls of RewriteRule.try_rewrite that returned a replacement.
    The wrapped method's arguments and result are passed through unchanged."""
    from onnxscript.rewriter import _rewrite_rule as rr
    if getattr(rr.RewriteRule.try_rewrite, "_c05_counter", False):
        return
    orig = rr.RewriteRule.try_rewrite

    def try_rewrite(self, *args, **kwargs):
        res = orig(self, *args, **kwargs)
        if res is not None:
            try:
                k = rule_sig(self)
                FIRED[k] = FIRED.get(k, 0) + 1
            except Exception:  # noqa: BLE001  (never disturb the implementation under test)
                pass
        return res
    try_rewrite._c05_counter = True
    rr.RewriteRule.try_rewrite = try_rewrite


def regenerate(ctx):
    """translator: the table of matched constants with their tolerances (coq/Gen/C05Consts.v), see c05_consts_py2v.py"""
    from harness import c05_consts_py2v
    ctx.c05_consts = c05_consts_py2v.regenerate(ctx)


def run(ctx):
    ctx.assume("float tensors are exercised on exactly representable values; NaN ordering and rounding are outside the Coq model (DESIGN 3.1)")
    ctx.assume("ONNX Clip/Relu/Min/Max kernel semantics: operator documents; measured on onnx.reference and onnxruntime for every instance")
    ctx.check_props()
    install_fired_counter()
    for fam in FAMILIES + _load_extra_families():
        fam(ctx)
    ctx.cover(rule="per rule family: grid/random instances of the rule's parameter space (bounds incl. None, negative, inverted; dtypes; "
                   "initializer vs Constant operands) + near misses; non-trivial key = structural class of the instance",
              families=[f.__module__ + "." + f.__name__ for f in FAMILIES + _load_extra_families()])
    if ctx.tier == "thorough":
        ctx.coqchk(["Props.C05"])
