(* C13 (session 6): export options inside the semantic theorems.  Statements only.

   skip_initializers -- C13_export_skip_sound_partial.  The generated module is
       def make_model(<skipped initializers>):  @script() def g(<inputs>): <body reading the skipped names>;  return g.to_model_proto()
   Reading: a free variable of the inner function that the inner function never assigns is bound when make_model is
   called, i.e. it is a leading parameter (`closure_params f sk`).  Theorem: calling make_model with the VALUES of the
   skipped initializers and then the function on xs = evaluating the graph on xs over ALL its initializers -- for plain
   nodes, If and the three Loop forms nested to any depth, every kernel semantics, under the executable side conditions
   nested_skip_ops_okb (those of C13_export_nested_ops_sound_partial for the graph whose skipped initializers are lifted
   to inputs, no repeated input / initializer name), with use_operators on or off (use_ops).  C13_export_skip_is_lift: the program printed with the option is
   literally the program printed without it for the lifted graph, plus the make_model parameter list.
   NOT covered: make_model_with_random_weights (random values by construction), value_infos.

   rename -- C13_export_nested_sound_partial and the theorem below quantify over the renamer (`rename`, `prename` are
   arbitrary functions; nested_okb asks for injectivity on the names of the graph): rename=True is the instance
   rename := the short-name map of Export/Emit.v short_map (injective on cleaned names: Props/C13.v).

   use_operators -- the TEXT `out = a <sym> b` and its reading by Python's grammar (Export/OpText.v, a precedence parser
   tied to ast.parse by the harness): C13_operator_text_parses (the expression of the emission model is what the printed
   tokens parse to, for both variants of the exporter), C13_operator_text_parenthesized_exact (with the parentheses of
   C13_11: `a <op> b` with both operands intact, for every symbol of the table and every operand text: names, negative
   and non-negative INT64 / FLOAT literals, list displays, -inf), C13_operator_text_unparenthesized_exact /
   C13_power_text_unparenthesized_negates (without them: exact iff not a power with a base starting with `-`),
   C13_operator_table_injective (operator <-> symbol is one-to-one on the table regenerated from the source),
   C13_operator_table_in_grammar.  What `a <op> b` then DENOTES: Props/C13_options.v C13_operator_expression_denotes_call.
   Operand ORDER: op_text puts the text of input 0 left of the symbol and that of input 1 right of it, and the parse
   keeps them as first and second operand.
   NOT covered: nested operator expressions are never printed (one node per line; operands are atoms), so the grammar's
   nested cases are exercised by the correspondence check only (generated expressions against ast.parse). *)
From Coq Require Import List String ZArith Bool.
Import ListNotations.
Require Import OV.Gen.ExportTables OV.Export.Cleanup OV.Graph.Syntax OV.Graph.Names OV.Graph.Sem OV.Script.Syntax OV.Script.PySem
               OV.Export.Emit OV.Export.EmitCF OV.Export.EmitCFProofs OV.Export.EmitOpts OV.Export.EmitOptsProofs OV.Export.OpText OV.Export.OpTextProofs.
Local Open Scope string_scope.

Theorem C13_export_skip_sound_partial :
  forall (V : Type) sem truth trip of_nat of_bool limit globals kw prename rename infun,
    (forall v, sem "" "Identity" [] [Some v] = Some [v]) -> (forall b, truth (of_bool b) = Some b) ->
    forall brk,
    (forall v b, truth v = Some b -> exists r, sem "" "Not" [] [Some v] = Some [r] /\ truth r = Some (negb b)) ->
    (brk = true -> forall v, exists b, truth v = Some b) ->
    forall use_ops fname ivals g f sk senv,
    export_cf kw prename rename infun use_ops None true fname ivals g = Some (f, sk) ->
    nested_skip_ops_okb kw prename rename infun brk use_ops ivals g = true ->
    init_env V sem (skipped_ivals ivals) = Some senv ->
    forall fp fg xs, depth_graph g <= S fp -> depth_graph g <= S fg ->
      eval_script V sem truth trip of_nat limit globals (S (S fp)) (closure_params f sk) (map snd senv ++ xs)%list =
      match init_env V sem ivals with
      | Some outer => eval_graph V sem truth trip of_nat of_bool limit (S (S fg)) outer g xs
      | None => None
      end.
Proof. exact export_cf_skip_sound. Qed.
Print Assumptions C13_export_skip_sound_partial.

Theorem C13_export_skip_is_lift : forall kw prename rename infun use_ops fname ivals g f sk,
  export_cf kw prename rename infun use_ops None true fname ivals g = Some (f, sk) ->
  let rm := fst (scan rename infun None true ivals g) in
  export_cf kw prename rename infun use_ops None false fname (kept_ivals ivals) (lift_skipped ivals g) =
    Some ({| f_name := f_name f; f_tparams := (map prename (map fst (skipped_ivals ivals)) ++ f_tparams f)%list;
             f_aparams := f_aparams f; f_body := f_body f |}, []) /\
  sk = map (tr_with rename rm) (map fst (skipped_ivals ivals)).
Proof. exact export_skip_is_lift. Qed.
Print Assumptions C13_export_skip_is_lift.

(* non-vacuity: a large initializer read at top level and inside an If branch, a small one kept as a Constant line *)
Theorem C13_export_skip_example :
  nested_skip_okb kwlist (cleanup kwlist) (cleanup kwlist) false false iv_skip g_skip = true /\
  export_cf kwlist (cleanup kwlist) (cleanup kwlist) false None None true "g" iv_skip g_skip = Some (f_skip, ["big_w"]) /\
  init_env Z zsem2 (skipped_ivals iv_skip) = Some [("big.w", 40%Z)] /\
  zscript2 (closure_params f_skip ["big_w"]) [40%Z; 5%Z] = Some [43%Z] /\
  zscript2 (closure_params f_skip ["big_w"]) [40%Z; (-1)%Z] = Some [42%Z] /\
  option_map (fun outer => zgraph2 outer g_skip [5%Z]) (init_env Z zsem2 iv_skip) = Some (Some [43%Z]) /\
  option_map (fun outer => zgraph2 outer g_skip [(-1)%Z]) (init_env Z zsem2 iv_skip) = Some (Some [42%Z]).
Proof. exact export_skip_example. Qed.
Print Assumptions C13_export_skip_example.

(* ---- use_operators: the printed text ----------------------------------------------------------------------- *)
Theorem C13_operator_text_parses : forall paren sym a b ts e,
  op_text paren sym a b = Some ts -> operator_expr paren sym a b = Some e -> parse_text ts = Some e.
Proof. exact op_text_parses. Qed.
Print Assumptions C13_operator_text_parses.

Theorem C13_operator_line_parses : forall rename paren rm consts sym a b o os x e ts,
  emit_operator rename (Some paren) rm consts sym [a; b] (o :: os) = Some [SAssign x e] ->
  op_text paren sym (ref_e rename rm consts a) (ref_e rename rm consts b) = Some ts ->
  parse_text ts = Some e.
Proof. exact operator_line_parses. Qed.
Print Assumptions C13_operator_line_parses.

Theorem C13_operator_text_parenthesized_exact : forall sym cmp cls a b ts,
  pyop sym = Some (cmp, cls) -> op_text true sym a b = Some ts ->
  parse_text ts = Some ((if cmp then ECmp else EBin) cls a b).
Proof. exact op_text_parenthesized_exact. Qed.
Print Assumptions C13_operator_text_parenthesized_exact.

Theorem C13_operator_text_unparenthesized_exact : forall sym cmp cls a b ts,
  pyop sym = Some (cmp, cls) -> op_text false sym a b = Some ts ->
  String.eqb sym "**" = false \/ neg_operand a = None ->
  parse_text ts = Some ((if cmp then ECmp else EBin) cls a b).
Proof. exact op_text_unparenthesized_exact. Qed.
Print Assumptions C13_operator_text_unparenthesized_exact.

Theorem C13_power_text_unparenthesized_negates : forall a pa b ts,
  neg_operand a = Some pa -> op_text false "**" a b = Some ts -> parse_text ts = Some (EUn "USub" (EBin "Pow" pa b)).
Proof. exact pow_text_unparenthesized_negates. Qed.
Print Assumptions C13_power_text_unparenthesized_negates.

Theorem C13_power_text_as_read_refuted :
  exists a b ts, op_text false "**" a b = Some ts /\ parse_text ts = Some (EUn "USub" (EBin "Pow" (ELit (LInt 2)) b)) /\ a = ELit (LInt (-2)) /\
                 op_text true "**" a b = Some [TSym "("; TSym "-"; TInt 2; TSym ")"; TSym "**"; TName "x"] /\
                 parse_text [TSym "("; TSym "-"; TInt 2; TSym ")"; TSym "**"; TName "x"] = Some (EBin "Pow" a b).
Proof. exact pow_text_as_read_refuted. Qed.
Print Assumptions C13_power_text_as_read_refuted.

Theorem C13_operator_table_injective : table_injectiveb use_operators_table = true.
Proof. exact operator_table_injective. Qed.
Print Assumptions C13_operator_table_injective.

Theorem C13_operator_table_in_grammar : forallb sym_in_grammarb use_operators_table = true.
Proof. exact operator_table_in_grammar. Qed.
Print Assumptions C13_operator_table_in_grammar.
