(* C11 -- the converter's Slice / Squeeze / Gather chain (ConverterIdx.conv_ops, Gather numbering of 9cf507a) computes
   the per-axis view for EVERY index tuple: any number of constant ints, slices, tensor-valued indices. *)
From Coq Require Import ZArith List Bool Lia Arith Permutation.
Import ListNotations.
Require Import OV.Index.NumpySpec OV.Index.OnnxSlice OV.Index.ConverterIdx OV.Index.EagerIdx OV.Index.SliceProofs
               OV.Index.ViewProofs OV.Index.AdvChain.
Open Scope Z_scope.

Lemma run_ops_app : forall a b v,
  run_ops (a ++ b) v = match run_ops a v with Some v' => run_ops b v' | None => None end.
Proof.
  induction a as [|o a IH]; intros b v; [reflexivity|]. cbn [app run_ops]. destruct (run_op o v); [apply IH|reflexivity].
Qed.

Lemma nth_error_full : forall shape m d, nth_error shape m = Some d -> nth_error (full shape) m = Some (Keep (zrange d)).
Proof. intros. unfold full. apply (map_nth_error (fun d0 : Z => Keep (zrange d0))). assumption. Qed.

Lemma knum_full : forall shape a, (a <= length shape)%nat -> knum (full shape) a = a.
Proof.
  induction shape as [|d shape IH]; intros a H; [destruct a; [reflexivity|cbn in H; lia]|].
  destruct a as [|a]; [reflexivity|]. unfold knum in *. cbn [full map firstn nkeeps]. fold (full shape).
  f_equal. apply IH. cbn in H. lia.
Qed.

Lemma in_filter_enum (Q : comp -> bool) : forall idx p,
  In p (filter (fun q : nat * comp => Q (snd q)) (enum_from 0 idx)) -> nth_error idx (fst p) = Some (snd p) /\ Q (snd p) = true.
Proof.
  intros idx [a c] Hin.
  pose proof (find_axis_in _ a c (NoDup_keys_filter _ _ (NoDup_keys_enum idx 0%nat)) Hin) as F.
  rewrite find_axis_enum0 in F. cbn [fst snd]. destruct (nth_error idx a) as [c'|]; [|discriminate].
  destruct (Q c') eqn:E; [|discriminate]. injection F as <-. split; [reflexivity|assumption].
Qed.

Lemma filter_enum_flag (Q : comp -> bool) : forall idx m c,
  find_axis m (filter (fun q : nat * comp => Q (snd q)) (enum_from 0 idx)) = None -> nth_error idx m = Some c -> Q c = false.
Proof.
  intros idx m c F Hc. rewrite find_axis_enum0 in F. rewrite Hc in F. destruct (Q c); [discriminate|reflexivity].
Qed.

Lemma find_axis_app {A} : forall (l1 l2 : list (nat * A)) m,
  find_axis m (l1 ++ l2) = match find_axis m l1 with Some c => Some c | None => find_axis m l2 end.
Proof.
  induction l1 as [|[a c] l1 IH]; intros l2 m; [reflexivity|]. cbn. destruct (Nat.eqb a m); [reflexivity|apply IH].
Qed.

Lemma np_pt_trivial : forall idx m d, 0 <= d ->
  (forall c, nth_error idx m = Some c -> is_sliced c = false /\ is_cint c = false /\ is_tensor c = false) ->
  np_pt idx m (zrange d) = Some (Keep (zrange d)).
Proof.
  intros idx m d Hd H. unfold np_pt. destruct (nth_error idx m) as [c|]; [|reflexivity].
  destruct (H c eq_refl) as [H1 [H2 H3]]. rewrite (trivial_of_flags c H1 H2 H3).
  rewrite zrange_length by assumption. reflexivity.
Qed.

Lemma tensor_not_cint : forall c, is_tensor c = true -> is_cint c = false.
Proof. intros [| | |]; cbn; congruence. Qed.

Lemma NoDup_tens_scalars : forall idx, NoDup (map fst (c_tens idx ++ c_scalars idx)).
Proof.
  intros. unfold c_tens, c_scalars. apply NoDup_keys_two_filters; [|apply NoDup_keys_enum].
  intros p Hp. apply tensor_not_cint. assumption.
Qed.

Lemma in_range_shape : forall (idx : list comp) (shape : list Z) a c, (length idx <= length shape)%nat ->
  nth_error idx a = Some c -> exists d, nth_error shape a = Some d.
Proof.
  intros idx shape a c Hlen Ha. assert (a < length idx)%nat by (apply nth_error_Some; congruence).
  destruct (nth_error shape a) as [d|] eqn:E; [eexists; reflexivity|]. apply nth_error_None in E. lia.
Qed.

(* what the Slice(+Squeeze) stage leaves at a position, by the kind of the component *)
Lemma conv_pt_kind : forall idx m d c s, nth_error idx m = Some c -> conv_pt idx m d = Some s -> is_pickb s = is_cint c.
Proof.
  intros idx m d c s Hc H. unfold conv_pt in H. rewrite Hc in H. destruct c as [i|a b st|i|l].
  - destruct (i =? -1); [discriminate|]. cbn in H. destruct (py_int d i); [|discriminate]. injection H as <-. reflexivity.
  - destruct (is_trivial (CSlice a b st)).
    + injection H as <-. reflexivity.
    + destruct (conv_slice d a b st); [|discriminate]. injection H as <-. reflexivity.
  - injection H as <-. reflexivity.
  - injection H as <-. reflexivity.
Qed.

Lemma conv_pt_tensor : forall idx m d c, nth_error idx m = Some c -> is_tensor c = true -> conv_pt idx m d = Some (Keep (zrange d)).
Proof. intros idx m d c Hc Ht. unfold conv_pt. rewrite Hc. destruct c; try discriminate; reflexivity. Qed.

Section SlicePath.
  Variable shape : list Z.
  Variable idx : list comp.
  Variable v1 : view.
  Hypothesis Hd : dims_ok shape.
  Hypothesis Hlen : (length idx <= length shape)%nat.
  Hypothesis Hv1 : build (fun m d => conv_pt idx m (zlen (zrange d))) 0 shape = Some v1.

  Let sq := map fst (c_scalars idx).
  Let adj := fun a : nat => (a - count_below a sq)%nat.

  Lemma v1_at : forall m d, nth_error shape m = Some d -> exists s, conv_pt idx m d = Some s /\ nth_error v1 m = Some s.
  Proof.
    intros m d Hm. destruct (build_nth _ _ _ _ Hv1) as [_ P]. destruct (P m d Hm) as [s [H1 H2]]. cbn [Nat.add] in H1.
    rewrite zrange_length in H1 by (apply (dims_ok_nth _ _ _ Hd Hm)). exists s. split; assumption.
  Qed.

  Lemma slice_stage_ok : stage_ok shape idx adj (sort_desc (c_tens idx)) v1.
  Proof.
    intros p Hp. apply (proj1 (in_sort_desc _ _)) in Hp. apply in_filter_enum in Hp. destruct Hp as [Ha Ht].
    destruct (in_range_shape idx shape _ _ Hlen Ha) as [d Hm]. exists d.
    destruct (v1_at _ _ Hm) as [s [Hs1 Hs2]]. rewrite (conv_pt_tensor idx _ d _ Ha Ht) in Hs1. injection Hs1 as <-.
    repeat split; try assumption.
    - unfold is_advc. rewrite Ht. reflexivity.
    - unfold adj, sq, c_scalars. rewrite (count_below_enum is_cint idx 0%nat). rewrite Nat.sub_0_r.
      assert (Hal : (fst p < length idx)%nat) by (apply nth_error_Some; congruence).
      pose proof (knum_count is_cint (fst p) v1 idx ltac:(lia)) as K.
      rewrite <- K at 1; [lia|].
      intros m c Hlt Hc. destruct (in_range_shape idx shape _ _ Hlen Hc) as [dm Hdm].
      destruct (v1_at _ _ Hdm) as [s [Hs1 Hs2']]. exists s. split; [assumption|]. eapply conv_pt_kind; eassumption.
  Qed.
End SlicePath.

Lemma desc_tens : forall idx, desc (sort_desc (c_tens idx)).
Proof. intros. apply sort_desc_desc. unfold c_tens. apply NoDup_keys_filter. apply NoDup_keys_enum. Qed.

Lemma find_tens_none : forall idx m c, find_axis m (sort_desc (c_tens idx)) = None -> nth_error idx m = Some c -> is_tensor c = false.
Proof.
  intros idx m c F Hc. rewrite find_axis_sort in F by (unfold c_tens; apply NoDup_keys_filter; apply NoDup_keys_enum).
  eapply filter_enum_flag; eassumption.
Qed.

Lemma gathers_true_eq : forall sq l, gathers true sq l = gather_ops (fun a => (a - count_below a sq)%nat) (sort_desc l).
Proof. reflexivity. Qed.

Lemma slice_stage_ops : forall S sq, (OSlice S :: match sq with [] => [] | _ => [OSqueeze sq] end)%list
  = (OSlice S :: match sq with [] => [] | _ :: _ => [OSqueeze sq] end)%list.
Proof. reflexivity. Qed.

(* soundness, every index tuple *)
Theorem conv_view_sound_all : forall shape idx v,
  dims_ok shape -> (length idx <= length shape)%nat -> hazard_free shape idx = true ->
  run_conv true shape idx = Some v -> np_index shape idx = Some v.
Proof.
  intros shape idx v Hd Hlen Hhz H. pose proof (dims_ok_nonneg _ Hd) as Hnn.
  unfold run_conv in H. rewrite conv_ops_cases in H.
  destruct (is_nil (c_sliced idx) && is_nil (c_scalars idx) && is_nil (c_tens idx)) eqn:Hnil.
  - (* nothing but ':' *)
    cbn in H. injection H as <-.
    destruct (c_sliced idx) eqn:Hsl; [|discriminate]. destruct (c_scalars idx) eqn:Hsc; [|discriminate].
    destruct (c_tens idx) eqn:Hte; [|discriminate].
    rewrite np_index_build by assumption. apply build_of_nth; [unfold full; apply map_length|].
    intros m d Hm. cbn [Nat.add]. exists (Keep (zrange d)). split; [|apply nth_error_full; assumption].
    apply np_pt_trivial; [eapply Hnn; eassumption|]. intros c Hc. repeat split.
    + apply (filter_enum_flag is_sliced idx m c); [fold (c_sliced idx); rewrite Hsl; reflexivity|assumption].
    + apply (filter_enum_flag is_cint idx m c); [fold (c_scalars idx); rewrite Hsc; reflexivity|assumption].
    + apply (filter_enum_flag is_tensor idx m c); [fold (c_tens idx); rewrite Hte; reflexivity|assumption].
  - destruct (negb (Nat.eqb (length (c_sliced idx)) 0) || Nat.ltb 1 (length (c_scalars idx))) eqn:Hpath.
    + (* Slice (+ Squeeze), then Gathers *)
      destruct (mapM slice_spec (c_sliced idx)) as [specs|] eqn:Hspecs; [|discriminate].
      rewrite app_comm_cons in H. rewrite run_ops_app in H.
      pose proof (conv_slice_path_run true shape idx specs Hd Hlen Hspecs) as S1.
      rewrite gathers_nil, app_nil_r in S1. rewrite S1 in H. clear S1.
      rewrite map_keeps_full_build in H.
      destruct (build (fun m d => conv_pt idx m (zlen (zrange d))) 0 shape) as [v1|] eqn:Hv1; [|discriminate].
      rewrite gathers_true_eq in H.
      eapply chain_sound; try exact H; try assumption.
      * destruct (build_nth _ _ _ _ Hv1) as [L _]. exact L.
      * apply desc_tens.
      * apply slice_stage_ok; assumption.
      * intros m d s Hm Hf Hs. destruct (v1_at shape idx v1 Hd Hv1 m d Hm) as [s' [Hs1 Hs2]].
        rewrite Hs in Hs2. injection Hs2 as <-.
        apply conv_pt_sound; [apply (dims_ok_nth _ _ _ Hd Hm)| |assumption].
        intros c Hc. split; [eapply find_tens_none; eassumption|eapply hazard_free_nth; eassumption].
    + (* Gathers only: no slice, at most one constant int *)
      apply orb_false_iff in Hpath. destruct Hpath as [P1 P2].
      assert (Hsl : c_sliced idx = []) by (destruct (c_sliced idx); [reflexivity|discriminate]).
      rewrite gathers_true_eq in H.
      eapply chain_sound; try exact H; try assumption.
      * unfold full. apply map_length.
      * apply sort_desc_desc. apply NoDup_tens_scalars.
      * intros p Hp. apply (proj1 (in_sort_desc _ _)) in Hp.
        assert (Hq : nth_error idx (fst p) = Some (snd p) /\ is_advc (snd p) = true).
        { apply in_app_or in Hp. destruct Hp as [Hp|Hp]; apply in_filter_enum in Hp; destruct Hp as [Ha Hq]; (split; [assumption|]);
            unfold is_advc; rewrite Hq; [reflexivity|apply orb_true_r]. }
        destruct Hq as [Ha Hq]. destruct (in_range_shape idx shape _ _ Hlen Ha) as [d Hm]. exists d.
        repeat split; try assumption.
        -- apply nth_error_full. assumption.
        -- unfold count_below. cbn [filter length]. rewrite Nat.sub_0_r. symmetry. apply knum_full.
           assert (fst p < length shape)%nat by (apply nth_error_Some; congruence). lia.
      * intros m d s Hm Hf Hs. rewrite (nth_error_full _ _ _ Hm) in Hs. injection Hs as <-.
        rewrite find_axis_sort in Hf by apply NoDup_tens_scalars. rewrite find_axis_app in Hf.
        destruct (find_axis m (c_tens idx)) eqn:Ft; [discriminate|].
        apply np_pt_trivial; [eapply Hnn; eassumption|]. intros c Hc. repeat split.
        -- apply (filter_enum_flag is_sliced idx m c); [fold (c_sliced idx); rewrite Hsl; reflexivity|assumption].
        -- apply (filter_enum_flag is_cint idx m c); assumption.
        -- apply (filter_enum_flag is_tensor idx m c); assumption.
Qed.

(* completeness, every index tuple: where NumPy's per-axis view exists the chain returns it, unless the converter refuses
   a slice (tensor-valued step with an omitted bound) or the constant -1 goes through Slice + Squeeze *)
Theorem conv_view_complete_all : forall shape idx v,
  dims_ok shape -> hazard_free shape idx = true -> conv_accepts idx = true -> conv_minus1_ok idx = true ->
  np_index shape idx = Some v -> run_conv true shape idx = Some v.
Proof.
  intros shape idx v Hd Hhz Hacc Hm1 H. pose proof (dims_ok_nonneg _ Hd) as Hnn.
  pose proof (np_index_length _ _ _ H) as Hlen.
  unfold run_conv. rewrite conv_ops_cases.
  pose proof H as Hb. rewrite np_index_build in Hb by assumption. destruct (build_nth _ _ _ _ Hb) as [Lv Pv].
  destruct (is_nil (c_sliced idx) && is_nil (c_scalars idx) && is_nil (c_tens idx)) eqn:Hnil.
  - cbn. f_equal. symmetry.
    destruct (c_sliced idx) eqn:Hsl; [|discriminate]. destruct (c_scalars idx) eqn:Hsc; [|discriminate].
    destruct (c_tens idx) eqn:Hte; [|discriminate].
    apply nth_error_ext'. intros m. destruct (nth_error shape m) as [d|] eqn:Hm.
    + destruct (Pv m d Hm) as [s [H1 H2]]. cbn [Nat.add] in H1. rewrite H2, (nth_error_full _ _ _ Hm). rewrite <- H1.
      apply np_pt_trivial; [eapply Hnn; eassumption|]. intros c Hc. repeat split.
      * apply (filter_enum_flag is_sliced idx m c); [fold (c_sliced idx); rewrite Hsl; reflexivity|assumption].
      * apply (filter_enum_flag is_cint idx m c); [fold (c_scalars idx); rewrite Hsc; reflexivity|assumption].
      * apply (filter_enum_flag is_tensor idx m c); [fold (c_tens idx); rewrite Hte; reflexivity|assumption].
    + assert (length shape <= m)%nat by (apply nth_error_None; assumption).
      assert (nth_error v m = None) as -> by (apply nth_error_None; lia).
      symmetry. apply nth_error_None. unfold full. rewrite map_length. assumption.
  - destruct (negb (Nat.eqb (length (c_sliced idx)) 0) || Nat.ltb 1 (length (c_scalars idx))) eqn:Hpath.
    + destruct (conv_accepts_mapM idx Hacc) as [specs Hspecs]. rewrite Hspecs.
      rewrite app_comm_cons. rewrite run_ops_app.
      pose proof (conv_slice_path_run true shape idx specs Hd Hlen Hspecs) as S1.
      rewrite gathers_nil, app_nil_r in S1. rewrite S1. clear S1. rewrite map_keeps_full_build.
      assert (Hm1' : forall m c, nth_error idx m = Some c -> is_minus1 c = false).
      { intros m c Hc. unfold conv_minus1_ok in Hm1. rewrite <- conv_slice_path_eq in Hm1. rewrite Hpath in Hm1. cbn in Hm1.
        pose proof (forallb_nth _ idx m c Hm1 Hc) as Hx. cbn beta in Hx. destruct (is_minus1 c); [discriminate|reflexivity]. }
      assert (Hpt : forall m d s, nth_error shape m = Some d ->
                (forall c, nth_error idx m = Some c -> is_tensor c = false) ->
                np_pt idx m (zrange d) = Some s -> conv_pt idx m d = Some s).
      { intros m d s Hm Hnt Hs. apply conv_pt_complete; [apply (dims_ok_nth _ _ _ Hd Hm)| |assumption].
        intros c Hc. repeat split.
        - apply Hnt. assumption.
        - eapply hazard_free_nth; eassumption.
        - eapply Hm1'. eassumption.
        - pose proof (forallb_nth _ idx m c Hacc Hc) as Hx. cbn beta in Hx. destruct c; try exact I.
          destruct (conv_bounds a b s0); [discriminate|discriminate]. }
      destruct (build_total (fun m d => conv_pt idx m (zlen (zrange d))) shape 0%nat) as [v1 Hv1].
      { intros m d Hm. cbn [Nat.add]. rewrite zrange_length by (eapply Hnn; eassumption).
        destruct (nth_error idx m) as [c|] eqn:Hc.
        - destruct (is_tensor c) eqn:Ht.
          + eexists. eapply conv_pt_tensor; eassumption.
          + destruct (Pv m d Hm) as [s [H1 H2]]. cbn [Nat.add] in H1. exists s. apply Hpt; try assumption.
            intros c' Hc'. congruence.
        - unfold conv_pt. rewrite Hc. eexists. reflexivity. }
      rewrite Hv1. rewrite gathers_true_eq.
      apply chain_complete with (shape := shape) (idx := idx); try assumption.
      * destruct (build_nth _ _ _ _ Hv1) as [L _]. exact L.
      * apply desc_tens.
      * apply slice_stage_ok; assumption.
      * intros m d s Hm Hf Hs. destruct (v1_at shape idx v1 Hd Hv1 m d Hm) as [s' [Hs1 Hs2]].
        rewrite Hs2. f_equal. rewrite (Hpt m d s Hm) in Hs1; [congruence| |assumption].
        intros c Hc. eapply find_tens_none; eassumption.
    + apply orb_false_iff in Hpath. destruct Hpath as [P1 P2].
      assert (Hsl : c_sliced idx = []) by (destruct (c_sliced idx); [reflexivity|discriminate]).
      rewrite gathers_true_eq.
      apply chain_complete with (shape := shape) (idx := idx); try assumption.
      * unfold full. apply map_length.
      * apply sort_desc_desc. apply NoDup_tens_scalars.
      * intros p Hp. apply (proj1 (in_sort_desc _ _)) in Hp.
        assert (Hq : nth_error idx (fst p) = Some (snd p) /\ is_advc (snd p) = true).
        { apply in_app_or in Hp. destruct Hp as [Hp|Hp]; apply in_filter_enum in Hp; destruct Hp as [Ha Hq]; (split; [assumption|]);
            unfold is_advc; rewrite Hq; [reflexivity|apply orb_true_r]. }
        destruct Hq as [Ha Hq]. destruct (in_range_shape idx shape _ _ Hlen Ha) as [d Hm]. exists d.
        repeat split; try assumption.
        -- apply nth_error_full. assumption.
        -- unfold count_below. cbn [filter length]. rewrite Nat.sub_0_r. symmetry. apply knum_full.
           assert (fst p < length shape)%nat by (apply nth_error_Some; congruence). lia.
      * intros m d s Hm Hf Hs. rewrite (nth_error_full _ _ _ Hm). rewrite <- Hs. symmetry.
        rewrite find_axis_sort in Hf by apply NoDup_tens_scalars. rewrite find_axis_app in Hf.
        destruct (find_axis m (c_tens idx)) eqn:Ft; [discriminate|].
        apply np_pt_trivial; [eapply Hnn; eassumption|]. intros c Hc. repeat split.
        -- apply (filter_enum_flag is_sliced idx m c); [fold (c_sliced idx); rewrite Hsl; reflexivity|assumption].
        -- apply (filter_enum_flag is_cint idx m c); assumption.
        -- apply (filter_enum_flag is_tensor idx m c); assumption.
Qed.
