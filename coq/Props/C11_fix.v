(* C11 property theorems for the repaired eager slicing (proposed_fixes/ready/C11_01_eager_negative_step_start_below_minus_dim.diff):
   statements only.  Model: Index/EagerFix.v; cl = false is the unrepaired code (as-read behaviour, kept as the witness of
   C11_eager_slice_axis_corner in Props/C11.v), cl = true the repaired one; the harness determines on every run which of the
   two /repo is. *)
From Coq Require Import ZArith List Bool.
Import ListNotations.
Require Import OV.Index.NumpySpec OV.Index.OnnxSlice OV.Index.ConverterIdx OV.Index.EagerIdx OV.Index.EagerFix
               OV.Index.EagerFixProofs.
Open Scope Z_scope.

(* repaired: on one axis eager slicing selects exactly Python's positions, for every d >= 0 and every start/stop/step
   (any integers, omitted, tensor-valued; step 0: both fail) -- the corner of C11_eager_slice_axis_corner is gone *)
Theorem C11_eager_slice_axis_fixed : forall d a b s, 0 <= d ->
  eager_slice_c true d a b s = py_slice d (bval a) (bval b) (bval s).
Proof. exact eager_slice_fixed_eq_python. Qed.
Print Assumptions C11_eager_slice_axis_fixed.

(* the flag off is the model of the unrepaired code *)
Theorem C11_eager_unrepaired_variant : forall shape idx, eager_ops_c false shape idx = eager_ops true shape idx.
Proof. exact eager_ops_c_false. Qed.
Print Assumptions C11_eager_unrepaired_variant.
