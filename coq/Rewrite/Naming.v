(* C07 model, names: (1) what onnx_ir.convenience.replace_nodes_and_values does to the NAMES of value objects
   (`new_value.name = old_value.name`), at the level of objects -- OV.Rewrite.Apply identifies a value with its name and
   therefore cannot express a replacement output that is an already existing value; (2) how values created by
   replacements get their names: by the name authority of the graph they are inserted in (val_<counter of that graph>), as
   the code is, or from one model-wide set (proposed_fixes/C07_fresh_names_unique_in_model.diff).
   No proofs in this file. *)
From Coq Require Import List String Bool Arith.
Require Import OV.Graph.Syntax OV.Rewrite.State.
Import ListNotations.
Local Open Scope string_scope.
Local Open Scope list_scope.

(* value objects are numbers; the table gives their current names *)
Definition vals := list (nat * string).
Definition name_of (o : nat) (vs : vals) : string := match dget Nat.eqb o vs with Some n => n | None => "" end.

(* for old_value, new_value in zip(old_values, new_values): new_value.name = old_value.name *)
Fixpoint take_names (olds news : list nat) (vs : vals) : vals :=
  match olds, news with
  | o :: ot, n :: nt => take_names ot nt (dset Nat.eqb n (name_of o vs) vs)
  | _, _ => vs
  end.

Definition names_of_objects (objs : list nat) (vs : vals) : list string := map (fun o => name_of o vs) objs.

(* names given by a graph-local authority whose counter stands at c to k new values *)
Definition local_names (c k : nat) : list string := map (fun j => ("val_" ++ nat_to_string j)%string) (seq c k).

(* the repair: every new value is named rewritten_val_<j>, j least such that the name is in use nowhere in the model *)
Fixpoint fresh_seq (used : list string) (k : nat) : list string :=
  match k with
  | O => []
  | S k' =>
    match first_free (fun j => ("rewritten_val_" ++ nat_to_string j)%string) used (S (List.length used)) 1 with
    | Some j => let nm := ("rewritten_val_" ++ nat_to_string j)%string in nm :: fresh_seq (nm :: used) k'
    | None => []
    end
  end.

(* witness of the finding C07:fresh-name-clash: Neg(Abs(v)) re-emitted inside the then-branch and, later in the node
   list, in the main graph; both graphs called their first new value val_0 *)
Definition ex_shadow_after : graph :=
  Graph ["x"; "cond"] []
    [Node "" "If" [Some "cond"] ["o1"] []
       [("else_branch", Graph [] [] [Node "" "Relu" [Some "x"] ["e"] [] []] ["e"]);
        ("then_branch", Graph [] [] [Node "" "Abs" [Some "x"] ["val_0"] [] []; Node "" "Neg" [Some "val_0"] ["t"] [] []] ["t"])];
     Node "" "Abs" [Some "o1"] ["val_0"] [] [];
     Node "" "Neg" [Some "val_0"] ["o"] [] []]
    ["o"].
