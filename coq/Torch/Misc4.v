(* C08 (fourth group) -- small bookkeeping families: aten_baddbmm / aten_addmm alpha-beta handling (core.py), aten_embedding
   (Gather on axis 0), aten_native_layer_norm axis and statistics shapes.  No proofs in this file. *)
From Coq Require Import ZArith List Bool.
Require Import OV.Torch.Onnx OV.Torch.Spec.
Import ListNotations.
Local Open Scope Z_scope.

(* ------------------------------------------------------------------ baddbmm / addmm: beta * self + alpha * (batch1 @ batch2), per element.
   Elements are integers or NaN (standing for any non-finite float: 0 * nan = nan in IEEE arithmetic) *)
Inductive xval := XFin (z : Z) | XNaN.
Definition xmul (a : xval) (k : Z) : xval := match a with XFin z => XFin (z * k) | XNaN => XNaN end.
Definition xadd (a b : xval) : xval := match a, b with XFin x, XFin y => XFin (x + y) | _, _ => XNaN end.
(* PyTorch: "If beta is 0, then input will be ignored, and nan and inf in it will not be propagated" *)
Definition torch_baddbmm (self mm : xval) (beta alpha : Z) : xval :=
  if beta =? 0 then xmul mm alpha else xadd (xmul self beta) (xmul mm alpha).
(* aten_baddbmm: Mul by alpha unless alpha is None or 1; Mul of self by beta unless beta is None or 1; Add.
   zf = proposed_fixes/ready/C08_21: beta == 0 returns the product term alone *)
Definition aten_baddbmm (zf : bool) (self mm : xval) (beta alpha : Z) : xval :=
  let a := if alpha =? 1 then mm else xmul mm alpha in
  if zf && (beta =? 0) then a
  else xadd a (if beta =? 1 then self else xmul self beta).
(* Gemm-13: Y = alpha * A' * B' + beta * C; onnxruntime skips C when beta == 0 (measured), as PyTorch does *)
Definition aten_addmm (self mm : xval) (beta alpha : Z) : xval :=
  if beta =? 0 then xmul mm alpha else xadd (xmul mm alpha) (xmul self beta).

(* ------------------------------------------------------------------ embedding(weight, indices) = Gather(weight, indices) on axis 0: rows of weight *)
Definition aten_embedding {A} (rows : list A) (idx : list Z) : option (list A) := gather_axis rows idx.
(* PyTorch: indices in [0, num_embeddings) *)
Definition torch_embedding {A} (rows : list A) (idx : list Z) : option (list A) := torch_index_select rows idx.

(* ------------------------------------------------------------------ native_layer_norm(input, normalized_shape, ...): axis = - len(normalized_shape);
   LayerNormalization-17: Mean / InvStdDev have shape input.shape[:axis] ++ [1] * (rank - axis) *)
Definition ln_stats_shape (s : list Z) (axis : Z) : option (list Z) :=
  obind (norm_axis (zlen s) axis) (fun a => Some (take a s ++ repeat 1 (Z.to_nat (zlen s - a)))).
Definition aten_layer_norm_stats (s normalized : list Z) : option (list Z) := ln_stats_shape s (- zlen normalized).
(* PyTorch (layer_norm.h, _check_layer_norm_inputs): normalized_shape is a non-empty suffix of input's shape;
   mean / rstd have shape input.shape[:rank - k] ++ [1] * k *)
Fixpoint shape_eqz (a b : list Z) : bool :=
  match a, b with [], [] => true | x :: a', y :: b' => (x =? y) && shape_eqz a' b' | _, _ => false end.
Definition torch_layer_norm_stats (s normalized : list Z) : option (list Z) :=
  let k := zlen normalized in
  if (1 <=? k) && (k <=? zlen s) && shape_eqz (drop (zlen s - k) s) normalized
  then Some (take (zlen s - k) s ++ repeat 1 (Z.to_nat k)) else None.

(* ------------------------------------------------------------------ arange(start, end, step, dtype = int64) with python float arguments.
   PyTorch (RangeFactories.cpp): size = ceil((end - start) / step) computed in double from the arguments as given (modelled over the
   rationals: exact for the small arguments in question), an inconsistent sign is an error.
   aten_arange_start_step, branch `dtype == INT64`: Cast(start / end / step, INT64) -- truncation toward zero -- then Range-11:
   max(ceil((limit - start) / delta), 0) elements, delta = 0 refused. *)
From Coq Require Import QArith.
Local Open Scope Z_scope.
Definition qtrunc (q : Q) : Z := Z.quot (Qnum q) (Zpos (Qden q)).
Definition qceil (q : Q) : Z := - ((- Qnum q) / Zpos (Qden q)).
Definition torch_arange_count (s e st : Q) : option Z :=
  if (Qnum st =? 0)%Z then None
  else let c := qceil ((e - s) / st)%Q in if (c <? 0)%Z then None else Some c.
Definition aten_arange_int64_count (s e st : Q) : option Z :=
  let st' := qtrunc st in
  if (st' =? 0)%Z then None else Some (range_count (qtrunc s) (qtrunc e) st').
