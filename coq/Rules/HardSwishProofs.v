(* Proofs about coq/Rules/HardSwish.v (C05, _fuse_hardswish.py). *)
From Coq Require Import ZArith QArith Qabs Qfield List Bool Lia Lqa.
Require Import OV.Rules.HardSwish.
Local Open Scope Q_scope.

Lemma qle_bool_false : forall a b, Qle_bool a b = false -> b < a.
Proof.
  intros a b H. apply Qnot_le_lt. intro L. apply Qle_bool_iff in L. congruence.
Qed.

Ltac cases :=
  repeat match goal with
  | |- context [Qle_bool ?a ?b] =>
      let E := fresh "E" in destruct (Qle_bool a b) eqn:E; [apply Qle_bool_iff in E | apply qle_bool_false in E]
  end.

Ltac cases_h :=
  repeat match goal with
  | H : context [Qle_bool ?a ?b] |- _ =>
      let E := fresh "E" in destruct (Qle_bool a b) eqn:E; [apply Qle_bool_iff in E | apply qle_bool_false in E]
  end.
(* at a kink (x = -3 or x = 3) both branches of the piecewise function meet *)
Ltac pin x := let P := fresh "P" in first [assert (P : x == -3) by lra | assert (P : x == 3) by lra]; rewrite P; field.
Ltac unf := unfold host_hardswish, host_hardsigmoid, hardswish, hardsigmoid, clip, qmax, qmin.

(* the identity behind HardSwishFusion, for the exact constants 3, 0, 6, 6 *)
Theorem hardswish_exact : forall x, host_hardswish 3 0 6 6 x == hardswish x.
Proof. intro x. unf. cases; cases_h; first [lra | field | pin x]. Qed.

(* HardSigmoidFusion *)
Theorem hardsigmoid_exact : forall x, host_hardsigmoid 3 0 6 6 x == hardsigmoid (1 # 6) (1 # 2) x.
Proof. intro x. unf. cases; cases_h; first [lra | field | pin x]. Qed.

(* HardSwishFusionFromHardSigmoid (Mul is commutative; the rule set is built with commute=True) *)
Theorem hardswish_from_hardsigmoid : forall x, hardsigmoid (1 # 6) (1 # 2) x * x == hardswish x.
Proof. intro x. unfold hardswish. ring. Qed.

(* constants equal to the targets as rationals (not merely syntactically) *)
Lemma host_hardswish_congr : forall b lo hi d x, b == 3 -> lo == 0 -> hi == 6 -> d == 6 ->
  host_hardswish b lo hi d x == host_hardswish 3 0 6 6 x.
Proof.
  intros b lo hi d x Hb Hlo Hhi Hd. unf.
  assert (Hi : / d == / 6) by (rewrite Hd; reflexivity).
  unfold Qdiv. rewrite Hi.
  cases; cases_h; try lra; try (rewrite ?Hb, ?Hlo, ?Hhi; reflexivity).
Qed.

Lemma host_hardsigmoid_congr : forall b lo hi d x, b == 3 -> lo == 0 -> hi == 6 -> d == 6 ->
  host_hardsigmoid b lo hi d x == host_hardsigmoid 3 0 6 6 x.
Proof.
  intros b lo hi d x Hb Hlo Hhi Hd. unf.
  assert (Hi : / d == / 6) by (rewrite Hd; reflexivity).
  unfold Qdiv. rewrite Hi.
  cases; cases_h; try lra; try (rewrite ?Hb, ?Hlo, ?Hhi; reflexivity).
Qed.

(* soundness of the repaired check: same values and same rank *)
Theorem hs_check_fixed_sound : forall c, hs_check_fixed c = true ->
  (forall x, host_hardswish (c_bias c) (c_min c) (c_max c) (c_div c) x == hardswish x) /\
  (forall x, host_hardsigmoid (c_bias c) (c_min c) (c_max c) (c_div c) x == hardsigmoid (1 # 6) (1 # 2) x) /\
  host_rank c = x_rank c.
Proof.
  intros c H. unfold hs_check_fixed in H.
  repeat (apply andb_prop in H; destruct H as [H ?]).
  repeat match goal with Hq : Qeq_bool _ _ = true |- _ => apply Qeq_bool_iff in Hq end.
  repeat match goal with Hn : (_ <=? _)%nat = true |- _ => apply Nat.leb_le in Hn end.
  repeat split.
  - intro x. rewrite host_hardswish_congr by assumption. apply hardswish_exact.
  - intro x. rewrite host_hardsigmoid_congr by assumption. apply hardsigmoid_exact.
  - unfold host_rank. lia.
Qed.

(* rank: the host's output has the rank of x exactly when neither `bias` nor `divisor` out-ranks x *)
Theorem host_rank_preserved_iff : forall c, host_rank c = x_rank c <-> (r_bias c <= x_rank c /\ r_div c <= x_rank c)%nat.
Proof. intro c. unfold host_rank. lia. Qed.

(* the check as read accepts rank-increasing one-element constants: x rank 1, bias/divisor of shape [1,1] *)
Theorem hs_check_impl_rank_refuted : exists c, hs_check_impl c = true /\ host_rank c <> x_rank c.
Proof.
  exists {| c_bias := 3; c_min := 0; c_max := 6; c_div := 6; r_bias := 2; r_div := 2; x_rank := 1; all_const_singletons := true |}.
  split; [reflexivity|discriminate].
Qed.

(* the check as read accepts approximately equal constants, for which the fused node is a different function *)
Theorem hs_check_impl_approx_refuted : exists c x, hs_check_impl c = true /\ host_rank c = x_rank c /\
  ~ host_hardswish (c_bias c) (c_min c) (c_max c) (c_div c) x == hardswish x.
Proof.
  exists {| c_bias := 30003 # 10000; c_min := 0; c_max := 6; c_div := 6; r_bias := 0; r_div := 0; x_rank := 1; all_const_singletons := true |},
         (- (29999 # 10000)).
  split; [reflexivity|]. split; [reflexivity|].
  vm_compute. discriminate.
Qed.

(* the repaired check is stronger than the one as read *)
Theorem hs_check_fixed_implies_impl : forall c, hs_check_fixed c = true -> hs_check_impl c = true.
Proof.
  intros c H. unfold hs_check_fixed in H. unfold hs_check_impl.
  repeat (apply andb_prop in H; destruct H as [H ?]).
  repeat match goal with Hq : Qeq_bool _ _ = true |- _ => apply Qeq_bool_iff in Hq end.
  assert (Z : forall a e, a == e -> isclose a e rtol4 = true).
  { intros a e E. unfold isclose. apply Qle_bool_iff.
    assert (A : Qabs (a - e) == 0) by (rewrite E; unfold Qminus; rewrite Qplus_opp_r; reflexivity).
    rewrite A. apply Qmult_le_0_compat; [unfold rtol4; discriminate|].
    unfold qmax. destruct (Qle_bool (Qabs a) (Qabs e)); apply Qabs_nonneg. }
  rewrite H, !Z by assumption. reflexivity.
Qed.

Example hardswish_values : hardswish (-4) == 0 /\ hardswish 4 == 4 /\ hardswish 1 == 2 # 3 /\ host_hardswish 3 0 6 6 1 == 2 # 3.
Proof. repeat split; vm_compute; reflexivity. Qed.
