(* Model of how onnx_export.py turns an ONNX Loop back into Python assignments (C13, model 2).
   _translate_loop (lines 481-556) emits, for a Loop without scan outputs,

       [cond_in = <condition input>]                    if the node has a condition input
       formal_in_k = actual_in_k          (k = 0..)     one assignment per line, in order
       for i in range(n):                               (trip count only)
     | while cond_in:                                   (condition only)
           <body nodes>
           [cond_in = cond_out]                         while-form only
           formal_in_k = formal_out_k     (k = 0..)     one assignment per line, in order
       actual_out_k = formal_in_k         (k = 0..)

   Values are abstract; an environment maps Python variable names to values; the translated body
   statements are an abstract state transformer [body] (its specification is a hypothesis of the
   theorems in UnssaProofs.v).  No proofs in this file. *)
From Coq Require Import List String Bool Arith.
Import ListNotations.
Local Open Scope string_scope.

Section Unssa.
Variable V : Type.
Variable truth : V -> bool.     (* truthiness of a BOOL scalar *)
Variable of_nat : nat -> V.     (* the iteration number as an INT64 scalar *)

Definition env := string -> option V.
Definition upd (e : env) (x : string) (v : V) : env :=
  fun y => if String.eqb y x then Some v else e y.

(* `_emit_assign(lhs, rhs)`: the lines "x = y", executed top to bottom; zip truncates *)
Fixpoint assign_seq (lhs rhs : list string) (e : env) : option env :=
  match lhs, rhs with
  | x :: l, y :: r => match e y with Some v => assign_seq l r (upd e x v) | None => None end
  | _, _ => Some e
  end.

Fixpoint lookups (xs : list string) (e : env) : option (list V) :=
  match xs with
  | [] => Some []
  | x :: t => match e x, lookups t e with Some v, Some vs => Some (v :: vs) | _, _ => None end
  end.

(* the names of one exported Loop *)
Record loop_names := {
  ivar : string;                  (* body.input[0] *)
  cond_in : string;               (* body.input[1] *)
  cond_out : string;              (* body.output[0] *)
  formal_ins : list string;       (* body.input[2:] *)
  formal_outs : list string;      (* body.output[1:] *)
  actual_ins : list string;       (* node.input[2:] *)
  actual_outs : list string       (* node.output *)
}.

Variable L : loop_names.
Variable body : env -> option env.   (* the translated body statements *)

Definition bind {A B} (o : option A) (f : A -> option B) : option B :=
  match o with Some a => f a | None => None end.

(* ---- counted loop: "for i in range(n):" ------------------------------------------------------ *)
Definition for_step (i : nat) (e : env) : option env :=
  bind (body (upd e (ivar L) (of_nat i))) (assign_seq (formal_ins L) (formal_outs L)).

Fixpoint py_for (k i : nat) (e : env) : option env :=
  match k with
  | 0 => Some e
  | S k' => bind (for_step i e) (py_for k' (S i))
  end.

Definition export_for (n : nat) (e : env) : option env :=
  bind (assign_seq (formal_ins L) (actual_ins L) e) (fun e1 =>
  bind (py_for n 0 e1) (assign_seq (actual_outs L) (formal_ins L))).

(* ---- conditional loop: "while cond_in:" (fuel bounds the number of iterations; running out of
   fuel is the error value None, like a failing kernel) ----------------------------------------- *)
Definition while_step (e : env) : option env :=
  bind (body e) (fun e1 =>
  bind (assign_seq [cond_in L] [cond_out L] e1) (assign_seq (formal_ins L) (formal_outs L))).

Fixpoint py_while (fuel : nat) (e : env) : option env :=
  match e (cond_in L) with
  | None => None
  | Some c =>
      if truth c then
        match fuel with
        | 0 => None
        | S f => bind (while_step e) (py_while f)
        end
      else Some e
  end.

Definition export_while (actual_cond : string) (fuel : nat) (e : env) : option env :=
  bind (assign_seq [cond_in L] [actual_cond] e) (fun e0 =>
  bind (assign_seq (formal_ins L) (actual_ins L) e0) (fun e1 =>
  bind (py_while fuel e1) (assign_seq (actual_outs L) (formal_ins L)))).

(* ---- ONNX Loop semantics (operator document), no scan outputs --------------------------------- *)
(* counted: v_{i+1} = F i v_i, n times *)
Variable Ffor : nat -> list V -> option (list V).
Fixpoint onnx_for (k i : nat) (vs : list V) : option (list V) :=
  match k with
  | 0 => Some vs
  | S k' => bind (Ffor i vs) (onnx_for k' (S i))
  end.

(* conditional: while the condition holds, (cond, state) := F (cond, state) *)
Variable Fwhile : V -> list V -> option (V * list V).
Fixpoint onnx_while (fuel : nat) (c : V) (vs : list V) : option (list V) :=
  if truth c then
    match fuel with
    | 0 => None
    | S f => match Fwhile c vs with Some (c', vs') => onnx_while f c' vs' | None => None end
    end
  else Some vs.

End Unssa.

(* ---- a concrete instance for the refutation: the body returns its two inputs swapped ---------- *)
Definition swap_names : loop_names :=
  {| ivar := "i"; cond_in := "c"; cond_out := "c2";
     formal_ins := ["a"; "b"]; formal_outs := ["b"; "a"];
     actual_ins := ["x"; "y"]; actual_outs := ["p"; "q"] |}.
Definition swap_body (e : string -> option nat) : option (string -> option nat) := Some e.   (* no node at all *)
Definition swap_F (i : nat) (vs : list nat) : option (list nat) :=
  match vs with [a; b] => Some [b; a] | _ => None end.
Definition swap_env0 : string -> option nat :=
  fun y => if String.eqb y "x" then Some 1 else if String.eqb y "y" then Some 2 else None.
