(* Semantic round trip of the exporter's statement emission for straight-line graphs (C13):
   the program printed for a graph means what the graph means, for every kernel semantics.
   Models: Export/Emit.v (emission), Graph/Sem.v (graphs), Script/PySem.v (the Python subset). *)
From Coq Require Import List String Ascii Bool Arith ZArith Lia.
Require Import OV.Export.Cleanup OV.Export.CleanupProofs.
Require Import OV.Graph.Syntax OV.Graph.Names OV.Graph.Sem OV.Script.Syntax OV.Script.Translate OV.Gen.ScriptTables
               OV.Script.PySem OV.Export.Emit.
Import ListNotations.
Local Open Scope string_scope.

(* ---- small facts ------------------------------------------------------------------------------------ *)
Lemma is_empty_true : forall s, is_empty s = true -> s = "".
Proof. intros s H. apply String.eqb_eq. exact H. Qed.
Lemma is_empty_false : forall s, is_empty s = false -> s <> "".
Proof. intros s H. apply String.eqb_neq. exact H. Qed.
Lemma nonempty_true : forall s, nonempty s = true <-> s <> "".
Proof.
  intros s. unfold nonempty. rewrite negb_true_iff. split.
  - apply is_empty_false.
  - intros H. apply String.eqb_neq. exact H.
Qed.
Lemma in_filter_nonempty : forall x l, In x (filter nonempty l) <-> In x l /\ x <> "".
Proof. intros. rewrite filter_In, nonempty_true. tauto. Qed.

Lemma kw_attr_of_attr : forall a, kw_attr (kw_of_attr a) = a.
Proof. intros [k v]. destruct v; reflexivity. Qed.
Lemma map_kw_attr_of_attr : forall l, map kw_attr (map kw_of_attr l) = l.
Proof. induction l as [|a t IH]; cbn [map]; [reflexivity|]. rewrite kw_attr_of_attr, IH. reflexivity. Qed.

Lemma nodupb_cons : forall x l, nodupb (x :: l) = true -> ~ In x l /\ nodupb l = true.
Proof.
  intros x l H. cbn [nodupb] in H. apply andb_true_iff in H. destruct H as [H1 H2].
  apply negb_true_iff in H1. apply memb_false_In in H1. split; assumption.
Qed.
Lemma nodupb_app_l : forall a b, nodupb (a ++ b)%list = true -> nodupb a = true.
Proof.
  induction a as [|x t IH]; intros b H; [reflexivity|].
  cbn [app] in H. apply nodupb_cons in H. destruct H as [H1 H2].
  cbn [nodupb]. apply andb_true_iff. split.
  - apply negb_true_iff. apply memb_false_In. intros C. apply H1. apply in_or_app. left. exact C.
  - eapply IH. exact H2.
Qed.
Lemma nodupb_app_r : forall a b, nodupb (a ++ b)%list = true -> nodupb b = true.
Proof.
  induction a as [|x t IH]; intros b H; [exact H|].
  cbn [app] in H. apply nodupb_cons in H. apply IH. apply H.
Qed.
Lemma nodupb_app_disj : forall a b x, nodupb (a ++ b)%list = true -> In x a -> ~ In x b.
Proof.
  induction a as [|y t IH]; intros b x H Hx; [contradiction|].
  cbn [app] in H. apply nodupb_cons in H. destruct H as [H1 H2].
  destruct Hx as [->|Hx].
  - intros C. apply H1. apply in_or_app. right. exact C.
  - eapply IH; eassumption.
Qed.
Lemma list_eqb_eq : forall a b, list_eqb a b = true -> a = b.
Proof.
  induction a as [|x t IH]; intros [|y u] H; cbn [list_eqb] in H; try discriminate; [reflexivity|].
  apply andb_true_iff in H. destruct H as [H1 H2]. apply String.eqb_eq in H1. rewrite H1, (IH u H2). reflexivity.
Qed.

Section Sound.
  Variable V : Type.
  Variable sem : string -> string -> list (string * attrv) -> list (option V) -> option (list V).
  Variable truth : V -> option bool.
  Variable trip : V -> option nat.
  Variable of_nat : nat -> V.
  Variable of_bool : bool -> V.
  Variable loop_limit while_limit : nat.
  Variable globals : list (string * lit).
  Variable kw : list string.
  Variable prename rename : vname -> string.

  Notation exec_block := (exec_block V sem truth trip of_nat while_limit globals).
  Notation eval_expr := (eval_expr V sem globals).
  Notation eval_node := (eval_node V sem truth trip of_nat of_bool loop_limit).
  Notation run := (run V sem truth trip of_nat of_bool loop_limit).
  Notation penv := (penv V).
  Notation pval := (pval V).

  (* ---- the Python reading, unfolded once ------------------------------------------------------------- *)
  Lemma exec_block_nil : forall fu pe, exec_block (S fu) [] pe = Some (ONormal V pe).
  Proof. reflexivity. Qed.

  Lemma exec_block_assign : forall fu x e rest pe,
    exec_block (S fu) (SAssign x e :: rest) pe =
    match eval_expr pe e with Some v => exec_block (S fu) rest ((x, v) :: pe) | None => None end.
  Proof. intros. cbn [PySem.exec_block]. destruct (eval_expr pe e); reflexivity. Qed.

  Lemma exec_block_tuple : forall fu xs e rest pe,
    exec_block (S fu) (STuple xs e :: rest) pe =
    match eval_call_multi V sem globals pe e with
    | Some vs => match pbind V xs vs pe with Some pe' => exec_block (S fu) rest pe' | None => None end
    | None => None
    end.
  Proof.
    intros. cbn [PySem.exec_block]. destruct (eval_call_multi V sem globals pe e) as [vs|]; [|reflexivity].
    destruct (pbind V xs vs pe); reflexivity.
  Qed.

  Definition eval_rets (pe : penv) : list expr -> option (list V) :=
    fix go (l : list expr) : option (list V) :=
      match l with
      | [] => Some []
      | e :: t => match eval_expr pe e, go t with
                  | Some v, Some vs => Some (tensor_of V v :: vs)
                  | _, _ => None
                  end
      end.

  Lemma exec_block_return : forall fu es rest pe,
    exec_block (S fu) (SReturn es :: rest) pe =
    match eval_rets pe es with Some vs => Some (OReturn V vs) | None => None end.
  Proof. intros. cbn [PySem.exec_block]. fold (eval_rets pe). destruct (eval_rets pe es); reflexivity. Qed.

  Definition eval_args (pe : penv) : list (option expr) -> option (list (option pval)) :=
    fix go (l : list (option expr)) : option (list (option pval)) :=
      match l with
      | [] => Some []
      | None :: t => option_map (cons None) (go t)
      | Some a :: t => match eval_expr pe a, go t with
                       | Some v, Some vs => Some (Some v :: vs)
                       | _, _ => None
                       end
      end.

  Lemma eval_expr_op_eq : forall pe name args kws,
    eval_expr pe (ECall (COp name) args kws) =
    match eval_args pe args with
    | None => None
    | Some vals => match promoted V sem name vals with
                   | Some args' => option_map (PT V) (sem1 V sem "" name (map kw_attr kws) args')
                   | None => None
                   end
    end.
  Proof. reflexivity. Qed.

  Lemma eval_call_multi_op_eq : forall pe name args kws,
    eval_call_multi V sem globals pe (ECall (COp name) args kws) =
    match eval_args pe args with
    | None => None
    | Some vals => match promoted V sem name vals with
                   | Some args' => sem "" name (map kw_attr kws) args'
                   | None => None
                   end
    end.
  Proof. reflexivity. Qed.

  (* ---- calls on tensors only need no promotion -------------------------------------------------------- *)
  Lemma promote_args_none : forall (args : list (option pval)) plan all,
    (forall p, In p plan -> p = None) ->
    promote_args V sem args plan all = Some (map (option_map (tensor_of V)) args).
  Proof.
    induction args as [|a t IH]; intros plan all Hp.
    - destruct plan; reflexivity.
    - destruct plan as [|p pt].
      + cbn [promote_args map]. rewrite (IH [] all) by (intros ? []). reflexivity.
      + cbn [promote_args map]. rewrite (IH pt all) by (intros q Hq; apply Hp; right; exact Hq).
        assert (p = None) as -> by (apply Hp; left; reflexivity).
        destruct a; reflexivity.
  Qed.

  Lemma plan_casts_none : forall tvs bnd flags i,
    (forall fl, In fl flags -> fl <> Some true) ->
    forall p, In p (plan_casts tvs bnd i flags) -> p = None.
  Proof.
    intros tvs bnd flags. induction flags as [|fl t IH]; intros i Hf p Hp; [contradiction|].
    cbn [plan_casts] in Hp. destruct Hp as [Hp|Hp].
    - subst p. destruct fl as [[|]|]; try reflexivity. exfalso. apply (Hf (Some true)); [left|]; reflexivity.
    - eapply IH; [|exact Hp]. intros f Hin. apply Hf. right. exact Hin.
  Qed.

  Lemma promoted_tensors : forall op (vs : list (option V)),
    match lookup_assoc op op_typevars with
    | None => True
    | Some tvs => cast_plan tvs (map (option_map (fun _ : V => false)) vs) <> None
    end ->
    promoted V sem op (map (option_map (PT V)) vs) = Some vs.
  Proof.
    intros op vs H. unfold promoted.
    assert (Ht : map (option_map (tensor_of V)) (map (option_map (PT V)) vs) = vs).
    { rewrite map_map. rewrite <- (map_id vs) at 2. apply map_ext. intros [v|]; reflexivity. }
    destruct (lookup_assoc op op_typevars) as [tvs|]; [|rewrite Ht; reflexivity].
    assert (Hf : map (option_map (is_scalar V)) (map (option_map (PT V)) vs) = map (option_map (fun _ : V => false)) vs).
    { rewrite map_map. apply map_ext. intros [v|]; reflexivity. }
    rewrite Hf. unfold cast_plan in *.
    destruct (plan_bindings tvs 0 (map (option_map (fun _ : V => false)) vs) []) as [bnd|]; [|contradiction H; reflexivity].
    rewrite promote_args_none; [rewrite Ht; reflexivity|].
    apply plan_casts_none. intros fl Hin. apply in_map_iff in Hin. destruct Hin as [[v|] [E _]]; subst fl; discriminate.
  Qed.

  (* ---- environments ----------------------------------------------------------------------------------- *)
  Lemma bind_lookup_other : forall xs (vs : list V) e e' y,
    Sem.bind xs vs e = Some e' -> ~ In y xs -> lookup e' y = lookup e y.
  Proof.
    induction xs as [|x t IH]; intros [|v vt] e e' y H Hn; cbn [Sem.bind] in H; try discriminate.
    - inversion H; subst. reflexivity.
    - destruct (Sem.bind t vt e) as [e1|] eqn:E; [|discriminate]. cbn [option_map] in H. inversion H; subst.
      cbn [lookup]. destruct (String.eqb y x) eqn:Exy.
      + apply String.eqb_eq in Exy. subst. exfalso. apply Hn. left. reflexivity.
      + eapply IH; [exact E|]. intros C. apply Hn. right. exact C.
  Qed.

  Lemma pbind_lookup_other : forall ys (vs : list V) (pe pe' : penv) y,
    pbind V ys vs pe = Some pe' -> ~ In y ys -> plookup V pe' y = plookup V pe y.
  Proof.
    induction ys as [|x t IH]; intros [|v vt] pe pe' y H Hn; cbn [pbind] in H; try discriminate.
    - inversion H; subst. reflexivity.
    - rewrite (IH vt _ pe' y H) by (intros C; apply Hn; right; exact C).
      cbn [plookup]. destruct (String.eqb y x) eqn:Exy; [|reflexivity].
      apply String.eqb_eq in Exy. subst. exfalso. apply Hn. left. reflexivity.
  Qed.

  (* both bindings succeed together *)
  Lemma bind_pbind_defined : forall outs i (rs : list V) e (pe : penv),
    match Sem.bind outs rs e with
    | None => pbind V (out_names rename i outs) rs pe = None
    | Some _ => exists pe', pbind V (out_names rename i outs) rs pe = Some pe'
    end.
  Proof.
    induction outs as [|o t IH]; intros i [|r rt] e pe; cbn [Sem.bind out_names pbind]; try reflexivity.
    - eexists. reflexivity.
    - specialize (IH (S i) rt e ((if is_empty o then placeholder i else rename o, PT V r) :: pe)).
      destruct (Sem.bind t rt e); cbn [option_map]; exact IH.
  Qed.

  (* the printed name of a named output is not printed again for a later output of the same node *)
  Fixpoint sep (i : nat) (outs : list vname) : Prop :=
    match outs with
    | [] => True
    | o :: t => (o <> "" -> ~ In (rename o) (out_names rename (S i) t)) /\ sep (S i) t
    end.

  Lemma bind_pbind_new : forall outs i (rs : list V) e e' (pe pe' : penv),
    Sem.bind outs rs e = Some e' -> pbind V (out_names rename i outs) rs pe = Some pe' ->
    sep i outs -> nodupb (filter nonempty outs) = true ->
    forall x, In x outs -> x <> "" ->
    exists v, lookup e' x = Some v /\ plookup V pe' (rename x) = Some (PT V v).
  Proof.
    induction outs as [|o t IH]; intros i rs e e' pe pe' Hb Hp Hs Hn x Hx Hne; [contradiction|].
    destruct rs as [|r rt]; cbn [Sem.bind] in Hb; [discriminate|].
    destruct (Sem.bind t rt e) as [e1|] eqn:E1; [|discriminate]. cbn [option_map] in Hb. inversion Hb; subst e'. clear Hb.
    cbn [out_names pbind] in Hp. destruct Hs as [Hs1 Hs2].
    destruct (String.eqb x o) eqn:Exo.
    - apply String.eqb_eq in Exo. subst o. exists r. split; [cbn [lookup]; rewrite String.eqb_refl; reflexivity|].
      rewrite (pbind_lookup_other _ _ _ _ _ Hp (Hs1 Hne)).
      assert (is_empty x = false) as -> by (apply String.eqb_neq; exact Hne).
      cbn [plookup]. rewrite String.eqb_refl. reflexivity.
    - destruct Hx as [Hx|Hx]; [subst o; rewrite String.eqb_refl in Exo; discriminate|].
      assert (Hn' : nodupb (filter nonempty t) = true).
      { cbn [filter] in Hn. destruct (nonempty o); [apply nodupb_cons in Hn; apply Hn | exact Hn]. }
      destruct (IH (S i) rt e e1 _ pe' E1 Hp Hs2 Hn' x Hx Hne) as (v & L1 & L2).
      exists v. split; [|exact L2]. cbn [lookup]. rewrite Exo. exact L1.
  Qed.

  Lemma in_out_names : forall outs i s, In s (out_names rename i outs) ->
    (exists o, In o outs /\ o <> "" /\ s = rename o) \/ In s (ph_names i outs).
  Proof.
    induction outs as [|o t IH]; intros i s H; [contradiction|].
    cbn [out_names ph_names] in *. destruct H as [H|H].
    - destruct (is_empty o) eqn:E.
      + right. apply in_or_app. left. left. exact H.
      + left. exists o. split; [left; reflexivity|]. split; [apply is_empty_false; exact E | symmetry; exact H].
    - destruct (IH (S i) s H) as [(o' & Ho & Hne & ->)|Hph].
      + left. exists o'. split; [right; exact Ho|]. split; [exact Hne | reflexivity].
      + right. apply in_or_app. right. exact Hph.
  Qed.

  Lemma out_names_length : forall outs i, List.length (out_names rename i outs) = List.length outs.
  Proof. induction outs as [|o t IH]; intros i; cbn [out_names List.length]; [reflexivity|]. rewrite IH. reflexivity. Qed.

  Lemma out_names_named : forall xs i, ~ In "" xs -> out_names rename i xs = map rename xs.
  Proof.
    induction xs as [|x t IH]; intros i H; [reflexivity|]. cbn [out_names map].
    assert (is_empty x = false) as -> by (apply String.eqb_neq; intros C; apply H; left; exact C).
    rewrite IH by (intros C; apply H; right; exact C). reflexivity.
  Qed.
  Lemma ph_names_named : forall xs i, ~ In "" xs -> ph_names i xs = [].
  Proof.
    induction xs as [|x t IH]; intros i H; [reflexivity|]. cbn [ph_names].
    assert (is_empty x = false) as -> by (apply String.eqb_neq; intros C; apply H; left; exact C).
    rewrite IH by (intros C; apply H; right; exact C). reflexivity.
  Qed.

  (* ---- the invariant: every value defined so far is the same tensor under its Python name ------------- *)
  Variable N : list vname.                       (* the names of the graph *)
  Hypothesis rename_inj : forall a b, In a N -> In b N -> a <> "" -> b <> "" -> rename a = rename b -> a = b.

  Definition Inv (D : list vname) (e : env V) (pe : penv) : Prop :=
    forall x, In x D -> exists v, lookup e x = Some v /\ plookup V pe (rename x) = Some (PT V v).
  Definition scoped (D : list vname) : Prop := forall x, In x D -> In x N /\ x <> "".
  (* no placeholder printed for these outputs is the Python name of a value *)
  Definition ph_free (i : nat) (outs : list vname) : Prop :=
    forall p, In p (ph_names i outs) -> forall x, In x N -> x <> "" -> rename x <> p.

  Lemma sep_from : forall outs i,
    nodupb (filter nonempty outs) = true -> (forall o, In o outs -> o <> "" -> In o N) -> ph_free i outs -> sep i outs.
  Proof.
    induction outs as [|o t IH]; intros i Hn HN Hph; cbn [sep]; [exact I|]. split.
    - intros Hne C. apply in_out_names in C. destruct C as [(o' & Ho' & Hne' & E)|C].
      + assert (o = o') by (apply rename_inj; [apply HN; [left; reflexivity|exact Hne] | apply HN; [right; exact Ho'|exact Hne'] | exact Hne | exact Hne' | exact E]).
        subst o'. cbn [filter] in Hn. assert (nonempty o = true) as Eo by (apply nonempty_true; exact Hne). rewrite Eo in Hn.
        apply nodupb_cons in Hn. apply (proj1 Hn). apply in_filter_nonempty. split; assumption.
      + apply (Hph (rename o)) with (x := o); [|apply HN; [left; reflexivity|exact Hne] | exact Hne | reflexivity].
        cbn [ph_names]. apply in_or_app. right. exact C.
    - apply IH.
      + cbn [filter] in Hn. destruct (nonempty o); [apply nodupb_cons in Hn; apply Hn | exact Hn].
      + intros o' Ho'. apply HN. right. exact Ho'.
      + intros p Hp. apply Hph. cbn [ph_names]. apply in_or_app. right. exact Hp.
  Qed.

  (* binding the outputs of one node on both sides keeps the invariant *)
  Lemma bind_pbind_inv : forall outs i (rs : list V) D e e' (pe pe' : penv),
    Sem.bind outs rs e = Some e' -> pbind V (out_names rename i outs) rs pe = Some pe' ->
    Inv D e pe -> scoped D ->
    nodupb (filter nonempty outs) = true ->
    (forall o, In o outs -> o <> "" -> ~ In o D /\ In o N) ->
    ph_free i outs ->
    Inv (filter nonempty outs ++ D)%list e' pe'.
  Proof.
    intros outs i rs D e e' pe pe' Hb Hp HI HD Hn Ho Hph x Hx.
    apply in_app_or in Hx. destruct Hx as [Hx|Hx].
    - apply in_filter_nonempty in Hx. destruct Hx as [Hx Hne].
      eapply bind_pbind_new; try eassumption.
      apply sep_from; [exact Hn | intros o Hin Hne'; apply (Ho o Hin Hne') | exact Hph].
    - destruct (HI x Hx) as (v & L1 & L2). destruct (HD x Hx) as [HxN Hxne]. exists v. split.
      + rewrite (bind_lookup_other _ _ _ _ x Hb); [exact L1|]. intros C. apply (proj1 (Ho x C Hxne)). exact Hx.
      + rewrite (pbind_lookup_other _ _ _ _ (rename x) Hp); [exact L2|].
        intros C. apply in_out_names in C. destruct C as [(o & Hin & Hne & E)|C].
        * destruct (Ho o Hin Hne) as [HoD HoN].
          assert (x = o) by (apply rename_inj; assumption). subst o. contradiction.
        * apply (Hph _ C x HxN Hxne). reflexivity.
  Qed.

  (* the arguments of a call *)
  Lemma args_ok : forall D e (pe : penv) ins,
    Inv D e pe -> (forall x, In x (present ins) -> In x D) ->
    exists vs, lookup_opts e ins = Some vs /\
               eval_args pe (map (in_expr rename) ins) = Some (map (option_map (PT V)) vs) /\
               map (option_map (fun _ : V => false)) vs = map (option_map (fun _ : vname => false)) ins.
  Proof.
    intros D e pe ins HI. induction ins as [|[x|] t IH]; intros Hin.
    - exists []. repeat split; reflexivity.
    - destruct IH as (vs & L1 & L2 & L3); [intros y Hy; apply Hin; right; exact Hy|].
      destruct (HI x (Hin x (or_introl eq_refl))) as (v & Lx & Px).
      exists (Some v :: vs). cbn [lookup_opts map in_expr option_map eval_args].
      rewrite Lx, L1. split; [reflexivity|]. split.
      + change (PySem.eval_expr V sem globals pe (EVar (rename x))) with
          (match plookup V pe (rename x) with
           | Some v0 => Some v0
           | None => match lookup_assoc (rename x) globals with
                     | Some l => option_map (PS V l) (const_val V sem l)
                     | None => None
                     end
           end).
        rewrite Px. fold (eval_args pe). cbn [map option_map] in L2. rewrite L2. reflexivity.
      + cbn [map option_map] in *. rewrite L3. reflexivity.
    - destruct IH as (vs & L1 & L2 & L3); [intros y Hy; apply Hin; exact Hy|].
      exists (None :: vs). cbn [lookup_opts map in_expr option_map eval_args]. rewrite L1. split; [reflexivity|]. split.
      + fold (eval_args pe). cbn [map option_map] in L2. rewrite L2. reflexivity.
      + cbn [map option_map] in *. rewrite L3. reflexivity.
  Qed.

  Lemma rets_ok : forall D e (pe : penv) outs,
    Inv D e pe -> (forall o, In o outs -> In o D) ->
    exists vs, lookups e outs = Some vs /\ eval_rets pe (map (fun o => EVar (rename o)) outs) = Some vs.
  Proof.
    intros D e pe outs HI. induction outs as [|o t IH]; intros Hin.
    - exists []. split; reflexivity.
    - destruct IH as (vs & L1 & L2); [intros y Hy; apply Hin; right; exact Hy|].
      destruct (HI o (Hin o (or_introl eq_refl))) as (v & Lo & Po).
      exists (v :: vs). cbn [lookups map eval_rets]. rewrite Lo, L1. split; [reflexivity|].
      change (PySem.eval_expr V sem globals pe (EVar (rename o))) with
        (match plookup V pe (rename o) with
         | Some v0 => Some v0
         | None => match lookup_assoc (rename o) globals with
                   | Some l => option_map (PS V l) (const_val V sem l)
                   | None => None
                   end
         end).
      rewrite Po. fold (eval_rets pe). rewrite L2. reflexivity.
  Qed.

  (* ---- one emitted statement -------------------------------------------------------------------------- *)
  Lemma exec_emitted : forall fu os name args kws rest (pe : penv), os <> [] ->
    exec_block (S fu)
      ((match os with
        | [o] => [SAssign o (ECall (COp name) args kws)]
        | _ => [STuple os (ECall (COp name) args kws)]
        end) ++ rest)%list pe =
    match eval_call_multi V sem globals pe (ECall (COp name) args kws) with
    | Some rs => match pbind V os rs pe with Some pe' => exec_block (S fu) rest pe' | None => None end
    | None => None
    end.
  Proof.
    intros fu os name args kws rest pe Hne. destruct os as [|o [|o2 t]]; [contradiction Hne; reflexivity| |].
    - cbn [app]. rewrite exec_block_assign, eval_expr_op_eq, eval_call_multi_op_eq.
      destruct (eval_args pe args) as [vals|]; [|reflexivity].
      destruct (promoted V sem name vals) as [args'|]; [|reflexivity].
      unfold sem1. destruct (sem "" name (map kw_attr kws) args') as [[|r [|r2 rt]]|]; reflexivity.
    - cbn [app]. rewrite exec_block_tuple. reflexivity.
  Qed.

  Lemma is_cf_not_ctl : forall op, is_cf op = false -> is_if "" op = false /\ is_loop "" op = false.
  Proof.
    intros op H. unfold is_cf in H. apply orb_false_iff in H. destruct H as [H H3].
    apply orb_false_iff in H. destruct H as [H1 H2]. unfold is_if, is_loop. rewrite H1, H2. split; reflexivity.
  Qed.

  Variable ev : env V -> graph -> list V -> option (list V).
  Hypothesis none_free : forall x, In x N -> x <> "" -> rename x <> "None".

  Lemma node_step : forall n ss D e (pe : penv),
    emit_node kw rename n = Some ss ->
    Inv D e pe -> scoped D ->
    (forall x, In x (present (n_ins n)) -> In x D) ->
    (forall o, In o (n_outs n) -> o <> "" -> ~ In o D /\ In o N) ->
    nodupb (filter nonempty (n_outs n)) = true ->
    ph_free 0 (n_outs n) ->
    call_okb kw (n_op n) (n_ins n) = true ->
    forall fu rest,
    match eval_node ev e n with
    | None => exec_block (S fu) (ss ++ rest)%list pe = None
    | Some e' => exists pe', exec_block (S fu) (ss ++ rest)%list pe = exec_block (S fu) rest pe' /\
                             Inv (filter nonempty (n_outs n) ++ D)%list e' pe'
    end.
  Proof.
    intros [dom op ins outs attrs subs] ss D e pe He HI HD Hins Houts Hn Hph Hc fu rest.
    cbn [n_ins n_outs n_op] in *. unfold emit_node in He.
    destruct (negb (String.eqb dom "") || is_cf op || negb (is_nil subs) || existsb is_other attrs) eqn:G; [discriminate|].
    apply orb_false_iff in G. destruct G as [G G4]. apply orb_false_iff in G. destruct G as [G G3].
    apply orb_false_iff in G. destruct G as [G1 G2]. apply negb_false_iff in G1. apply String.eqb_eq in G1. subst dom.
    destruct (is_cf_not_ctl op G2) as [Hif Hloop].
    unfold Sem.eval_node. rewrite Hif, Hloop.
    destruct (args_ok D e pe ins HI Hins) as (vs & L1 & L2 & L3). rewrite L1.
    destruct (suppressed_identity rename op ins outs) eqn:Sup.
    { exfalso. unfold suppressed_identity in Sup. apply andb_true_iff in Sup. destruct Sup as [_ S2].
      destruct ins as [|i [|]]; try discriminate S2.
      destruct outs as [|o [|]]; cbn [out_names] in S2; try discriminate S2.
      apply String.eqb_eq in S2. destruct i as [x|]; cbn [in_name] in S2.
      - assert (HxD : In x D) by (apply Hins; left; reflexivity). destruct (HD x HxD) as [HxN Hxne].
        destruct (is_empty o) eqn:Eo.
        + apply (Hph (placeholder 0)) with (x := x); [cbn [ph_names]; rewrite Eo; left; reflexivity | exact HxN | exact Hxne | symmetry; exact S2].
        + apply is_empty_false in Eo. destruct (Houts o (or_introl eq_refl) Eo) as [HoD HoN].
          assert (o = x) by (apply rename_inj; assumption). subst o. contradiction.
      - destruct (is_empty o) eqn:Eo.
        + vm_compute in S2. discriminate S2.
        + apply is_empty_false in Eo. destruct (Houts o (or_introl eq_refl) Eo) as [_ HoN]. exact (none_free o HoN Eo S2). }
    remember (out_names rename 0 outs) as os eqn:Eos.
    assert (Hss : os <> [] /\ ss = match os with
                                   | [o] => [SAssign o (ECall (COp (cleanup kw op)) (map (in_expr rename) ins) (map kw_of_attr attrs))]
                                   | _ => [STuple os (ECall (COp (cleanup kw op)) (map (in_expr rename) ins) (map kw_of_attr attrs))]
                                   end).
    { destruct os as [|o1 [|o2 t]]; [discriminate He | |]; inversion He; split; try reflexivity; discriminate. }
    destruct Hss as [Hne ->]. rewrite exec_emitted by exact Hne. rewrite eval_call_multi_op_eq, L2.
    unfold call_okb in Hc. apply andb_true_iff in Hc. destruct Hc as [C1 C2]. apply String.eqb_eq in C1. rewrite C1.
    rewrite promoted_tensors.
    2:{ destruct (lookup_assoc op op_typevars) as [tvs|]; [|exact I]. rewrite L3.
        destruct (cast_plan tvs (map (option_map (fun _ : vname => false)) ins)); [discriminate|discriminate C2]. }
    rewrite map_kw_attr_of_attr.
    destruct (sem "" op attrs vs) as [rs|]; [|reflexivity].
    pose proof (bind_pbind_defined outs 0 rs e pe) as BD. rewrite <- Eos in BD.
    destruct (Sem.bind outs rs e) as [e'|] eqn:Eb.
    - destruct BD as [pe' Hp]. rewrite Hp. exists pe'. split; [reflexivity|].
      rewrite Eos in Hp. eapply bind_pbind_inv; eassumption.
    - rewrite BD. reflexivity.
  Qed.

  Lemma nodes_run : forall ns sn D Dfin e (pe : penv),
    emit_all (emit_node kw rename) ns = Some sn -> wf_nodes D ns = Some Dfin ->
    Inv D e pe -> scoped D ->
    (forall n, In n ns -> (forall o, In o (n_outs n) -> o <> "" -> In o N) /\ ph_free 0 (n_outs n) /\
                          call_okb kw (n_op n) (n_ins n) = true) ->
    forall fu rest,
    match run ev e ns with
    | None => exec_block (S fu) (sn ++ rest)%list pe = None
    | Some e' => exists pe', exec_block (S fu) (sn ++ rest)%list pe = exec_block (S fu) rest pe' /\ Inv Dfin e' pe'
    end.
  Proof.
    induction ns as [|n t IH]; intros sn D Dfin e pe He Hwf HI HD Hall fu rest.
    - cbn [emit_all] in He. inversion He; subst sn. cbn [wf_nodes] in Hwf. inversion Hwf; subst Dfin.
      cbn [Sem.run app]. exists pe. split; [reflexivity | exact HI].
    - cbn [emit_all] in He. destruct (emit_node kw rename n) as [s|] eqn:En; [|discriminate].
      destruct (emit_all (emit_node kw rename) t) as [r|] eqn:Et; [|discriminate]. inversion He; subst sn. clear He.
      cbn [wf_nodes] in Hwf.
      destruct (forallb (fun x => memb x D) (present (n_ins n)) && forallb (fun x => negb (memb x D)) (filter nonempty (n_outs n))
                && nodupb (filter nonempty (n_outs n))) eqn:W; [|discriminate].
      apply andb_true_iff in W. destruct W as [W W3]. apply andb_true_iff in W. destruct W as [W1 W2].
      rewrite forallb_forall in W1, W2.
      destruct (Hall n (or_introl eq_refl)) as (HoN & Hph & Hc).
      assert (Hins : forall x, In x (present (n_ins n)) -> In x D) by (intros x Hx; apply memb_In; apply W1; exact Hx).
      assert (Houts : forall o, In o (n_outs n) -> o <> "" -> ~ In o D /\ In o N).
      { intros o Ho Hne. split; [|apply HoN; assumption]. apply memb_false_In. apply negb_true_iff. apply W2.
        apply in_filter_nonempty. split; assumption. }
      cbn [Sem.run]. rewrite <- app_assoc.
      pose proof (node_step n s D e pe En HI HD Hins Houts W3 Hph Hc fu (r ++ rest)%list) as St.
      destruct (eval_node ev e n) as [e1|]; [|exact St].
      destruct St as (pe1 & X1 & I1). rewrite X1.
      apply (IH r _ Dfin e1 pe1 eq_refl Hwf I1).
      + intros x Hx. apply in_app_or in Hx. destruct Hx as [Hx|Hx]; [|apply HD; exact Hx].
        apply in_filter_nonempty in Hx. destruct Hx as [Hx Hne]. split; [apply HoN; assumption | exact Hne].
      + intros n' Hn'. apply Hall. right. exact Hn'.
  Qed.

  (* ---- the initializers: `x = opset.Constant(value=t)` for each, after the parameters are bound ------- *)
  Fixpoint rev_bind (outer : env V) (pe : penv) : penv :=
    match outer with
    | [] => pe
    | (y, w) :: t => rev_bind t ((rename y, PT V w) :: pe)
    end.

  Lemma promoted_nil : forall op, promoted V sem op [] = Some [].
  Proof. intros op. unfold promoted. destruct (lookup_assoc op op_typevars); reflexivity. Qed.

  Lemma init_run : forall ivals si,
    emit_all (emit_init kw rename) ivals = Some si ->
    (ivals <> [] -> cleanup kw "Constant" = "Constant") ->
    (forall x, In x (map fst ivals) -> rename (rename x) = rename x /\ rename x <> "") ->
    forall fu rest (pe : penv),
    match init_env V sem ivals with
    | None => exec_block (S fu) (si ++ rest)%list pe = None
    | Some outer => exec_block (S fu) (si ++ rest)%list pe = exec_block (S fu) rest (rev_bind outer pe) /\
                    map fst outer = map fst ivals
    end.
  Proof.
    induction ivals as [|[x a] t IH]; intros si He Hc Hst fu rest pe.
    - cbn [emit_all] in He. inversion He; subst si. cbn [init_env rev_bind app map]. split; reflexivity.
    - cbn [emit_all] in He. destruct (emit_init kw rename (x, a)) as [s|] eqn:E1; [|discriminate].
      destruct (emit_all (emit_init kw rename) t) as [r|] eqn:Et; [|discriminate]. inversion He; subst si. clear He.
      destruct (Hst x (or_introl eq_refl)) as [Hs1 Hs2].
      unfold emit_init, emit_node in E1. cbn [fst snd] in E1.
      change (negb (String.eqb "" "") || is_cf "Constant" || negb (is_nil (@nil (string * graph)))) with false in E1.
      cbn [orb existsb] in E1. destruct (is_other ("value", a)); [discriminate E1|]. cbn [orb] in E1.
      change (suppressed_identity rename "Constant" [] [rename x]) with false in E1.
      cbn [out_names map] in E1.
      assert (is_empty (rename x) = false) as Ene by (apply String.eqb_neq; exact Hs2).
      rewrite Ene, Hs1, (Hc ltac:(discriminate)) in E1. inversion E1; subst s. clear E1.
      cbn [app]. rewrite exec_block_assign, eval_expr_op_eq. cbn [eval_args]. rewrite promoted_nil.
      unfold sem1. cbn [map]. assert (K : kw_attr (kw_of_attr ("value", a)) = ("value", a)) by apply kw_attr_of_attr.
      unfold kw_of_attr in K. rewrite K. clear K. cbn [init_env].
      assert (Ht : forall x0, In x0 (map fst t) -> rename (rename x0) = rename x0 /\ rename x0 <> "")
        by (intros y Hy; apply Hst; right; exact Hy).
      destruct (sem "" "Constant" [("value", a)] []) as [[|v [|v2 vt]]|]; try reflexivity.
      cbn [option_map].
      specialize (IH r eq_refl (fun _ => Hc ltac:(discriminate)) Ht fu rest ((rename x, PT V v) :: pe)).
      destruct (init_env V sem t) as [outer|].
      + destruct IH as [IH1 IH2]. cbn [rev_bind map fst]. rewrite IH2. split; [exact IH1 | reflexivity].
      + exact IH.
  Qed.

  Lemma rev_bind_other : forall (outer : env V) (pe : penv) s,
    ~ In s (map rename (map fst outer)) -> plookup V (rev_bind outer pe) s = plookup V pe s.
  Proof.
    induction outer as [|[y w] t IH]; intros pe s H; [reflexivity|].
    cbn [rev_bind]. rewrite IH by (intros C; apply H; right; exact C).
    cbn [plookup]. destruct (String.eqb s (rename y)) eqn:E; [|reflexivity].
    apply String.eqb_eq in E. exfalso. apply H. left. symmetry. exact E.
  Qed.

  Lemma rev_bind_lookup : forall (outer : env V) (pe : penv),
    nodupb (map fst outer) = true -> (forall y, In y (map fst outer) -> In y N /\ y <> "") ->
    forall x, In x (map fst outer) ->
    exists v, lookup outer x = Some v /\ plookup V (rev_bind outer pe) (rename x) = Some (PT V v).
  Proof.
    induction outer as [|[y w] t IH]; intros pe Hn HN x Hx; [contradiction|].
    cbn [map fst] in *. apply nodupb_cons in Hn. destruct Hn as [Hn1 Hn2].
    destruct (String.eqb x y) eqn:E.
    - apply String.eqb_eq in E. subst y. exists w. split; [cbn [lookup]; rewrite String.eqb_refl; reflexivity|].
      cbn [rev_bind]. rewrite rev_bind_other.
      + cbn [plookup]. rewrite String.eqb_refl. reflexivity.
      + intros C. apply in_map_iff in C. destruct C as (z & Ez & Hz).
        destruct (HN x (or_introl eq_refl)) as [A1 A2]. destruct (HN z (or_intror Hz)) as [B1 B2].
        assert (z = x) by (apply rename_inj; assumption). subst z. contradiction.
    - destruct Hx as [Hx|Hx]; [subst y; rewrite String.eqb_refl in E; discriminate|].
      destruct (IH ((rename y, PT V w) :: pe) Hn2 (fun z Hz => HN z (or_intror Hz)) x Hx) as (v & L1 & L2).
      exists v. split; [cbn [lookup]; rewrite E; exact L1 | exact L2].
  Qed.

  Lemma filter_nonempty_id : forall l, ~ In "" l -> filter nonempty l = l.
  Proof.
    induction l as [|x t IH]; intros H; [reflexivity|]. cbn [filter].
    assert (nonempty x = true) as -> by (apply nonempty_true; intros C; apply H; left; exact C).
    rewrite IH by (intros C; apply H; right; exact C). reflexivity.
  Qed.

  Lemma start_inv : forall (ins inits : list vname) (xs : list V) (outer : env V) e0 (pe1 : penv),
    nodupb (ins ++ inits)%list = true -> ~ In "" (ins ++ inits)%list -> (forall x, In x (ins ++ inits)%list -> In x N) ->
    map fst outer = inits ->
    Sem.bind ins xs outer = Some e0 -> pbind V (map rename ins) xs [] = Some pe1 ->
    Inv (ins ++ inits)%list e0 (rev_bind outer pe1).
  Proof.
    intros ins inits xs outer e0 pe1 Hn Hne HN Hout Hb Hp x Hx.
    assert (Hne_ins : ~ In "" ins) by (intros C; apply Hne; apply in_or_app; left; exact C).
    assert (Hsc : forall y, In y (ins ++ inits)%list -> In y N /\ y <> "").
    { intros y Hy. split; [apply HN; exact Hy | intros C; subst y; contradiction]. }
    apply in_app_or in Hx. destruct Hx as [Hx|Hx].
    - rewrite <- (out_names_named ins 0 Hne_ins) in Hp.
      destruct (bind_pbind_new ins 0 xs outer e0 [] pe1 Hb Hp) with (x := x) as (v & L1 & L2).
      + apply sep_from.
        * rewrite filter_nonempty_id by exact Hne_ins. eapply nodupb_app_l. exact Hn.
        * intros o Ho _. apply HN. apply in_or_app. left. exact Ho.
        * intros p Hp'. rewrite ph_names_named in Hp' by exact Hne_ins. contradiction.
      + rewrite filter_nonempty_id by exact Hne_ins. eapply nodupb_app_l. exact Hn.
      + exact Hx.
      + intros C. subst x. contradiction.
      + exists v. split; [exact L1|]. rewrite rev_bind_other; [exact L2|].
        rewrite Hout. intros C. apply in_map_iff in C. destruct C as (z & Ez & Hz).
        destruct (Hsc x (in_or_app _ _ _ (or_introl Hx))) as [A1 A2].
        destruct (Hsc z (in_or_app _ _ _ (or_intror Hz))) as [B1 B2].
        assert (z = x) by (apply rename_inj; assumption). subst z.
        exact (nodupb_app_disj _ _ _ Hn Hx Hz).
    - destruct (rev_bind_lookup outer pe1) with (x := x) as (v & L1 & L2).
      + rewrite Hout. eapply nodupb_app_r. exact Hn.
      + rewrite Hout. intros y Hy. apply Hsc. apply in_or_app. right. exact Hy.
      + rewrite Hout. exact Hx.
      + exists v. split; [|exact L2].
        rewrite (bind_lookup_other _ _ _ _ x Hb); [exact L1|]. intros C. exact (nodupb_app_disj _ _ _ Hn C Hx).
  Qed.
End Sound.

(* ---- names of a straight-line graph --------------------------------------------------------------------- *)
Lemma names_graph_eq : forall ins inits nodes outs,
  names_graph (Graph ins inits nodes outs) = (ins ++ inits ++ outs ++ names_nodes nodes)%list.
Proof.
  intros. reflexivity.
Qed.

Lemma in_names_nodes : forall nodes n x, In n nodes -> In x (n_outs n) -> In x (names_nodes nodes).
Proof.
  induction nodes as [|m t IH]; intros n x Hn Hx; [contradiction|]. cbn [names_nodes]. apply in_or_app.
  destruct Hn as [->|Hn]; [left | right; eapply IH; eassumption].
  destruct n as [d o i ou a s]. cbn [n_outs] in Hx. cbn [names_node]. apply in_or_app. right. apply in_or_app. left. exact Hx.
Qed.

Lemma in_gnames : forall g x, In x (gnames g) <-> In x (names_graph g) /\ x <> "".
Proof. intros g x. unfold gnames. rewrite dedup_In, in_filter_nonempty. tauto. Qed.

(* ---- the theorem ---------------------------------------------------------------------------------------- *)
Section Main.
  Variable V : Type.
  Variable sem : string -> string -> list (string * attrv) -> list (option V) -> option (list V).
  Variable truth : V -> option bool.
  Variable trip : V -> option nat.
  Variable of_nat : nat -> V.
  Variable of_bool : bool -> V.
  Variable loop_limit while_limit : nat.
  Variable globals : list (string * lit).
  Variable kw : list string.
  Variable prename rename : vname -> string.

  Theorem export_sound : forall fname ivals g f,
    export_graph kw prename rename fname ivals g = Some f ->
    emit_okb kw prename rename ivals g = true ->
    forall fu1 fu2 xs,
      eval_script V sem truth trip of_nat while_limit globals (S fu1) f xs =
      match init_env V sem ivals with
      | Some outer => eval_graph V sem truth trip of_nat of_bool loop_limit (S fu2) outer g xs
      | None => None
      end.
  Proof.
    intros fname ivals g f He Hok fu1 fu2 xs.
    unfold export_graph in He.
    destruct (emit_all (emit_init kw rename) ivals) as [si|] eqn:Ei; [|discriminate].
    destruct (emit_all (emit_node kw rename) (g_nodes g)) as [sn|] eqn:En; [|discriminate].
    inversion He; subst f. clear He.
    unfold emit_okb in Hok.
    apply andb_true_iff in Hok. destruct Hok as [Hok Hcalls]. apply andb_true_iff in Hok. destruct Hok as [Hok Hstable].
    apply andb_true_iff in Hok. destruct Hok as [Hok Hparams]. apply andb_true_iff in Hok. destruct Hok as [Hok Hres].
    apply andb_true_iff in Hok. destruct Hok as [Hok Hph]. apply andb_true_iff in Hok. destruct Hok as [Hwf Hinj].
    set (N := gnames g).
    assert (rename_inj : forall a b, In a N -> In b N -> a <> "" -> b <> "" -> rename a = rename b -> a = b).
    { intros a b Ha Hb _ _ E. exact (nodupb_map_inj rename (gnames g) Hinj a b Ha Hb E). }
    unfold reserved_freeb in Hres. apply andb_true_iff in Hres. destruct Hres as [HresN HresE].
    apply negb_true_iff in HresN. apply memb_false_In in HresN. apply negb_true_iff in HresE. apply memb_false_In in HresE.
    assert (none_free : forall x, In x N -> x <> "" -> rename x <> "None").
    { intros x Hx _ C. apply HresN. rewrite <- C. apply in_map. exact Hx. }
    assert (empty_free : forall x, In x N -> rename x <> "").
    { intros x Hx C. apply HresE. rewrite <- C. apply in_map. exact Hx. }
    destruct g as [ins inits nodes outs]. cbn [g_ins g_inits g_nodes g_outs] in *.
    unfold straight_wfb in Hwf. cbn [g_ins g_inits g_nodes g_outs] in Hwf.
    apply andb_true_iff in Hwf. destruct Hwf as [Hwf Hwn]. apply andb_true_iff in Hwf. destruct Hwf as [Hwf Hw3].
    apply andb_true_iff in Hwf. destruct Hwf as [Hw1 Hw2]. apply list_eqb_eq in Hw1.
    apply negb_true_iff in Hw3. apply memb_false_In in Hw3.
    destruct (wf_nodes (ins ++ inits)%list nodes) as [Dfin|] eqn:Ewf; [|discriminate].
    rewrite forallb_forall in Hwn.
    assert (HD0N : forall x, In x (ins ++ inits)%list -> In x N).
    { intros x Hx. apply in_gnames. split; [|intros C; subst x; contradiction].
      rewrite names_graph_eq. apply in_app_or in Hx. destruct Hx as [Hx|Hx]; apply in_or_app; [left; exact Hx|].
      right. apply in_or_app. left. exact Hx. }
    assert (Hpar : map prename ins = map rename ins).
    { unfold params_agreeb in Hparams. cbn [g_ins] in Hparams. rewrite forallb_forall in Hparams.
      apply map_ext_in. intros x Hx. apply String.eqb_eq. apply Hparams. exact Hx. }
    assert (Hne_ins : ~ In "" ins) by (intros C; apply Hw3; apply in_or_app; left; exact C).
    unfold eval_script. cbn [f_tparams f_body]. rewrite Hpar.
    (* the initializer statements *)
    assert (Hinit : forall x, In x (map fst ivals) -> rename (rename x) = rename x /\ rename x <> "").
    { intros x Hx. rewrite Hw1 in Hx. split.
      - unfold inits_stableb in Hstable. cbn [g_inits] in Hstable. rewrite forallb_forall in Hstable.
        apply String.eqb_eq. apply Hstable. exact Hx.
      - apply empty_free. apply HD0N. apply in_or_app. right. exact Hx. }
    assert (Hconst : ivals <> [] -> cleanup kw "Constant" = "Constant").
    { intros Hnn. unfold calls_okb in Hcalls. apply andb_true_iff in Hcalls. destruct Hcalls as [_ Hc].
      apply orb_true_iff in Hc. destruct Hc as [Hc|Hc]; [destruct ivals; [contradiction Hnn; reflexivity | discriminate Hc]|].
      unfold call_okb in Hc. apply andb_true_iff in Hc. apply String.eqb_eq. apply Hc. }
    pose proof (fun pe => init_run V sem truth trip of_nat while_limit globals kw rename ivals si Ei Hconst Hinit fu1
                            (sn ++ [SReturn (map (fun o => EVar (rename o)) outs)])%list pe) as IR.
    destruct (init_env V sem ivals) as [outer|].
    2:{ destruct (pbind V (map rename ins) xs []) as [pe1|]; [|reflexivity]. rewrite (IR pe1). reflexivity. }
    cbn [eval_graph]. unfold eval_body. cbn [g_ins g_nodes g_outs].
    pose proof (bind_pbind_defined V rename ins 0 xs outer []) as BD. rewrite (out_names_named rename ins 0 Hne_ins) in BD.
    destruct (Sem.bind ins xs outer) as [e0|] eqn:Eb; [|rewrite BD; reflexivity].
    destruct BD as [pe1 Hp]. rewrite Hp. destruct (IR pe1) as [IR1 IR2]. rewrite IR1. rewrite Hw1 in IR2.
    pose proof (start_inv V rename N rename_inj ins inits xs outer e0 pe1 Hw2 Hw3 HD0N IR2 Eb Hp) as I0.
    assert (Hall : forall n, In n nodes -> (forall o, In o (n_outs n) -> o <> "" -> In o N) /\ ph_free rename N 0 (n_outs n) /\
                                           call_okb kw (n_op n) (n_ins n) = true).
    { intros n Hn. split; [|split].
      - intros o Ho Hne. apply in_gnames. split; [|exact Hne]. rewrite names_graph_eq.
        apply in_or_app. right. apply in_or_app. right. apply in_or_app. right. eapply in_names_nodes; eassumption.
      - unfold placeholders_freeb in Hph. cbn [g_nodes] in Hph. rewrite forallb_forall in Hph. specialize (Hph n Hn).
        rewrite forallb_forall in Hph. intros p Hp' x Hx _ C. specialize (Hph p Hp').
        apply negb_true_iff in Hph. apply memb_false_In in Hph. apply Hph. rewrite <- C. apply in_map. exact Hx.
      - unfold calls_okb in Hcalls. apply andb_true_iff in Hcalls. destruct Hcalls as [Hc _]. cbn [g_nodes] in Hc.
        rewrite forallb_forall in Hc. apply Hc. exact Hn. }
    assert (HD0 : scoped N (ins ++ inits)%list).
    { intros x Hx. split; [apply HD0N; exact Hx | intros C; subst x; contradiction]. }
    pose proof (nodes_run V sem truth trip of_nat of_bool loop_limit while_limit globals kw rename N rename_inj
                  (eval_graph V sem truth trip of_nat of_bool loop_limit fu2) none_free
                  nodes sn (ins ++ inits)%list Dfin e0 (rev_bind V rename outer pe1) En Ewf I0 HD0 Hall fu1
                  [SReturn (map (fun o => EVar (rename o)) outs)]) as NR.
    destruct (Sem.run V sem truth trip of_nat of_bool loop_limit (eval_graph V sem truth trip of_nat of_bool loop_limit fu2) e0 nodes)
      as [e'|]; [|rewrite NR; reflexivity].
    destruct NR as (pe' & X & I'). rewrite X. rewrite exec_block_return.
    destruct (rets_ok V sem globals rename Dfin e' pe' outs I') as (vs & L1 & L2).
    { intros o Ho. apply memb_In. apply Hwn. exact Ho. }
    rewrite L1, L2. reflexivity.
  Qed.

End Main.

  (* the injectivity condition is exactly injectivity of the renamer on the graph's value names *)
  Theorem rename_injb_sound : forall (rename : vname -> string) g, rename_injb rename g = true ->
    forall a b, In a (names_graph g) -> In b (names_graph g) -> a <> "" -> b <> "" -> rename a = rename b -> a = b.
  Proof.
    intros rename g H a b Ha Hb Hna Hnb E. apply (nodupb_map_inj rename (gnames g) H); [apply in_gnames | apply in_gnames | exact E]; tauto.
  Qed.
  Theorem rename_injb_complete : forall (rename : vname -> string) g, rename_injb rename g = false ->
    exists a b, In a (names_graph g) /\ In b (names_graph g) /\ a <> "" /\ b <> "" /\ a <> b /\ rename a = rename b.
  Proof.
    intros rename g H. destruct (nodupb_map_complete rename (gnames g) (dedup_nodup _) H) as (a & b & Ha & Hb & Hab & E).
    apply in_gnames in Ha. apply in_gnames in Hb. exists a, b. tauto.
  Qed.

(* with the exporter's own clean-up as renamer the condition is the collision check of Export/Cleanup.v *)
Lemma rename_injb_cleanup : forall kw g,
  rename_injb (cleanup kw) g = collision_freeb kw (filter nonempty (names_graph g)).
Proof. reflexivity. Qed.

Require Import OV.Gen.ExportTables.

(* ---- concrete witnesses (integers as tensors, a few kernels) ------------------------------------------- *)
Definition zsem (dom op : string) (attrs : list (string * attrv)) (args : list (option Z)) : option (list Z) :=
  if negb (String.eqb dom "") then None else
  if String.eqb op "Neg" then match args with [Some a] => Some [Z.opp a] | _ => None end else
  if String.eqb op "Abs" then match args with [Some a] => Some [Z.abs a] | _ => None end else
  if String.eqb op "Sub" then match args with [Some a; Some b] => Some [Z.sub a b] | _ => None end else
  if String.eqb op "Add" then match args with [Some a; Some b] => Some [Z.add a b] | _ => None end else
  if String.eqb op "Dropout" then match args with [Some a] => Some [a; 0%Z] | _ => None end else
  if String.eqb op "Split" then match args with [Some a] => Some [a; Z.succ a] | _ => None end else
  if String.eqb op "Clip" then
    match args with
    | [Some a; lo; hi] =>
      let a1 := match lo with Some l => Z.max a l | None => a end in
      Some [match hi with Some h => Z.min a1 h | None => a1 end]
    | _ => None
    end else
  if String.eqb op "Constant" then match attrs with [(_, ATensor _ _ [z])] => Some [z] | _ => None end else
  None.
Definition zscript (f : func) (xs : list Z) : option (list Z) :=
  eval_script Z zsem (fun _ => None) (fun _ => None) Z.of_nat 0 [] 1 f xs.
Definition zgraph (outer : list (vname * Z)) (g : graph) (xs : list Z) : option (list Z) :=
  eval_graph Z zsem (fun _ => None) (fun _ => None) Z.of_nat (fun b : bool => if b then 1%Z else 0%Z) 0 1 outer g xs.

(* every side condition but the one named *)
Definition okb_but_inj kw pre ren ivals g :=
  straight_wfb ivals g && placeholders_freeb ren g && reserved_freeb ren g && params_agreeb pre ren g && inits_stableb ren g && calls_okb kw ivals g.
Definition okb_but_params kw ren ivals g :=
  straight_wfb ivals g && rename_injb ren g && placeholders_freeb ren g && reserved_freeb ren g && inits_stableb ren g && calls_okb kw ivals g.
Definition okb_but_placeholders kw pre ren ivals g :=
  straight_wfb ivals g && rename_injb ren g && reserved_freeb ren g && params_agreeb pre ren g && inits_stableb ren g && calls_okb kw ivals g.

(* 1. two values whose names coincide after the clean-up are merged: the program computes something else *)
Definition g_collide : graph :=
  Graph ["x"] []
    [Node "" "Neg" [Some "x"] ["a.b"] [] [];
     Node "" "Abs" [Some "x"] ["a_b"] [] [];
     Node "" "Sub" [Some "a.b"; Some "a_b"] ["y"] [] []] ["y"].

Theorem export_collision_refuted :
  exists g f xs a b,
    okb_but_inj kwlist (cleanup kwlist) (cleanup kwlist) [] g = true /\
    rename_injb (cleanup kwlist) g = false /\
    export_graph kwlist (cleanup kwlist) (cleanup kwlist) "g" [] g = Some f /\
    zscript f xs = Some a /\ zgraph [] g xs = Some b /\ a <> b.
Proof.
  exists g_collide.
  eexists. exists [1%Z], [0%Z], [(-2)%Z].
  split; [vm_compute; reflexivity|]. split; [vm_compute; reflexivity|]. split; [vm_compute; reflexivity|].
  split; [vm_compute; reflexivity|]. split; [vm_compute; reflexivity|]. discriminate.
Qed.

(* 2. rename=True on a model graph: the def line keeps the cleaned names, the body uses the short names *)
Definition g_neg : graph := Graph ["x"] [] [Node "" "Neg" [Some "x"] ["y"] [] []] ["y"].
Theorem export_model_signature_refuted :
  exists g seq f xs b,
    okb_but_params kwlist (short_map kwlist seq) [] g = true /\
    params_agreeb (cleanup kwlist) (short_map kwlist seq) g = false /\
    export_graph kwlist (cleanup kwlist) (short_map kwlist seq) "g" [] g = Some f /\
    zscript f xs = None /\ zgraph [] g xs = Some b.
Proof.
  exists g_neg, ["y"; "x"]. eexists. exists [1%Z], [(-1)%Z].
  split; [vm_compute; reflexivity|]. split; [vm_compute; reflexivity|]. split; [vm_compute; reflexivity|].
  split; vm_compute; reflexivity.
Qed.

(* 3. the placeholder `_1` printed for an omitted second output overwrites a value called `_1` *)
Definition g_placeholder : graph :=
  Graph ["x"] []
    [Node "" "Neg" [Some "x"] ["_1"] [] [];
     Node "" "Dropout" [Some "x"] ["d"; ""] [] [];
     Node "" "Add" [Some "_1"; Some "d"] ["y"] [] []] ["y"].
Theorem export_placeholder_refuted :
  exists g f xs a b,
    okb_but_placeholders kwlist (cleanup kwlist) (cleanup kwlist) [] g = true /\
    placeholders_freeb (cleanup kwlist) g = false /\
    export_graph kwlist (cleanup kwlist) (cleanup kwlist) "g" [] g = Some f /\
    zscript f xs = Some a /\ zgraph [] g xs = Some b /\ a <> b.
Proof.
  exists g_placeholder. eexists. exists [1%Z], [1%Z], [0%Z].
  split; [vm_compute; reflexivity|]. split; [vm_compute; reflexivity|]. split; [vm_compute; reflexivity|].
  split; [vm_compute; reflexivity|]. split; [vm_compute; reflexivity|]. discriminate.
Qed.

(* non-vacuity: an initializer, an omitted middle input, an omitted output, a two-output node, a keyword and a
   dotted name, an attribute -- all side conditions hold, the export is the expected program, both sides run *)
Definition g_example : graph :=
  Graph ["x"] ["w"]
    [Node "" "Clip" [Some "x"; None; Some "w"] ["c.1"] [] [];
     Node "" "Dropout" [Some "c.1"] ["d"; ""] [("seed", AInt 3)] [];
     Node "" "Split" [Some "d"] ["if"; "p"] [("axis", AInt 0)] [];
     Node "" "Add" [Some "if"; Some "p"] ["y"] [] []] ["y"; "d"].
Definition iv_example : list (vname * attrv) := [("w", ATensor 7 [] [5%Z])].
Definition f_example : func :=
  {| f_name := "g"; f_tparams := ["x"]; f_aparams := [];
     f_body :=
       [SAssign "w" (ECall (COp "Constant") [] [("value", KLit (ATensor 7 [] [5%Z]))]);
        SAssign "c_1" (ECall (COp "Clip") [Some (EVar "x"); None; Some (EVar "w")] []);
        STuple ["d"; "_1"] (ECall (COp "Dropout") [Some (EVar "c_1")] [("seed", KLit (AInt 3))]);
        STuple ["r_if"; "p"] (ECall (COp "Split") [Some (EVar "d")] [("axis", KLit (AInt 0))]);
        SAssign "y" (ECall (COp "Add") [Some (EVar "r_if"); Some (EVar "p")] []);
        SReturn [EVar "y"; EVar "d"]] |}.
Theorem export_example :
  emit_okb kwlist (cleanup kwlist) (cleanup kwlist) iv_example g_example = true /\
  export_graph kwlist (cleanup kwlist) (cleanup kwlist) "g" iv_example g_example = Some f_example /\
  zscript f_example [9%Z] = Some [11%Z; 5%Z] /\
  option_map (fun outer => zgraph outer g_example [9%Z]) (init_env Z zsem iv_example) = Some (Some [11%Z; 5%Z]).
Proof. vm_compute. repeat split. Qed.
