(* C02: the graph the converter model (Script/Translate.v) produces is well formed -- for EVERY program the model
   accepts: if/else, for, while, a trailing conditional break, nested to any depth, tuple assignment, attribute
   parameters, module constants, sub-function calls.  Well formed = wf_graph of Graph/WfProofs.v (the declarative
   meaning of the verified checker wf_graphb: definition before use with scoping, every subgraph output produced by a
   node of that subgraph, outputs distinct, every name defined exactly once across the graph and all nested
   subgraphs) and no graph input returned directly.

   Invariant of every translation step that emits nodes `ns` from state st to st' where W is visible (ngood):
   the nodes are scoped w.r.t. W; all names they define -- nested subgraphs included -- are pairwise distinct, were
   not used before the step and are used after it.  Expression-level steps reuse the lemmas of TranslateWfProofs.v
   twice: once with D = W (scoping) and once with D = ts_used st (freshness).  Subgraph outputs: block_outputs /
   loop_outputs list a value only when a node of the block defines it and it is not listed yet, and otherwise copy it
   with Identity under a fresh name (the Identity-copy rule, including the repaired alias / duplicate cases). *)
From Coq Require Import List String ZArith Bool Arith Lia.
Require Import OV.Graph.Syntax OV.Graph.Wf OV.Graph.WfProofs.
Require Import OV.Script.Syntax OV.Script.Sets OV.Gen.Analysis OV.Gen.ScriptTables OV.Script.Translate
               OV.Script.TranslateProofs OV.Script.TranslateExamples OV.Script.TranslateWfProofs OV.Script.LivenessProofs
               OV.Script.TranslateIfProofs OV.Script.TranslateForDefs OV.Script.TranslateForProofs OV.Script.TranslateNestDefs.
Import ListNotations.
Local Open Scope string_scope.
Local Open Scope list_scope.

(* ------------------------------------------------------------------ scoping is monotone in what is visible *)

Scheme scoped_graph_min := Minimality for scoped_graph Sort Prop
  with scoped_nodes_min := Minimality for scoped_nodes Sort Prop
  with scoped_subs_min := Minimality for scoped_subs Sort Prop.
Combined Scheme scoped_mutind from scoped_graph_min, scoped_nodes_min, scoped_subs_min.

Lemma scoped_mono :
  (forall sub vis g, scoped_graph sub vis g -> forall vis', incl vis vis' -> scoped_graph sub vis' g) /\
  (forall local vis ns, scoped_nodes local vis ns -> forall local' vis', incl (local ++ vis) (local' ++ vis') -> scoped_nodes local' vis' ns) /\
  (forall vis l, scoped_subs vis l -> forall vis', incl vis vis' -> scoped_subs vis' l).
Proof.
  apply scoped_mutind.
  - intros sub vis ins inits nodes outs Hi _ IHn Ho Hout vis' Hv. constructor; try assumption.
    apply IHn. intros x Hx. apply in_app_or in Hx. apply in_or_app. destruct Hx as [Hx|Hx]; [left; exact Hx | right; apply Hv; exact Hx].
  - intros local vis local' vis' _. constructor.
  - intros local vis d o nins nouts attrs subs t Hin _ IHs _ IHt local' vis' Hv. constructor.
    + intros x Hx. apply Hv. apply Hin. exact Hx.
    + apply IHs. exact Hv.
    + apply IHt. intros x Hx. rewrite <- app_assoc in Hx. apply in_app_or in Hx. rewrite <- app_assoc. apply in_or_app.
      destruct Hx as [Hx|Hx]; [left; exact Hx | right; apply Hv; exact Hx].
  - intros vis vis' _. constructor.
  - intros vis k g t _ IHg _ IHt vis' Hv. constructor; [apply IHg | apply IHt]; exact Hv.
Qed.

Lemma scoped_nodes_mono : forall W W' ns, scoped_nodes W [] ns -> incl W W' -> scoped_nodes W' [] ns.
Proof. intros W W' ns H Hi. eapply (proj1 (proj2 scoped_mono)); [exact H|]. rewrite !app_nil_r. exact Hi. Qed.

Lemma scoped_nodes_app : forall a W b, scoped_nodes W [] a -> scoped_nodes (ext_by W a) [] b -> scoped_nodes W [] (a ++ b).
Proof.
  induction a as [|[d o nins nouts attrs subs] t IH]; intros W b Ha Hb; [exact Hb|].
  inversion Ha as [|l v d' o' ni no at' su t' H1 H2 H3]; subst. cbn [app]. constructor; [exact H1 | exact H2|].
  apply IH; [exact H3|]. eapply scoped_nodes_mono; [exact Hb|].
  intros x. unfold ext_by, defs_of. cbn [flat_map n_outs]. rewrite !in_app_iff. tauto.
Qed.

Lemma flat_scoped : forall ns W, flat_chain W ns -> scoped_nodes W [] ns.
Proof.
  induction ns as [|[d o nins nouts attrs subs] t IH]; intros W H; [constructor|].
  cbn [flat_chain] in H. destruct H as (-> & H2 & _ & _ & H5). constructor.
  - rewrite app_nil_r. exact H2.
  - constructor.
  - apply IH. exact H5.
Qed.

Lemma flat_defs_all : forall ns D, flat_chain D ns -> defs_nodes_all ns = defs_of ns.
Proof.
  induction ns as [|[d o nins nouts attrs subs] t IH]; intros D H; [reflexivity|].
  cbn [flat_chain] in H. destruct H as (-> & _ & _ & _ & H5).
  cbn [defs_nodes_all]. rewrite defs_node_eq. cbn [defs_subs app]. unfold defs_of. cbn [flat_map n_outs].
  fold (defs_of t). rewrite (IH _ H5). reflexivity.
Qed.

Lemma flat_chain_fresh : forall ns U, flat_chain U ns -> NoDup (defs_of ns) /\ (forall x, In x (defs_of ns) -> ~ In x U).
Proof.
  induction ns as [|[d o nins nouts attrs subs] t IH]; intros U H; [split; [constructor | intros x []]|].
  cbn [flat_chain] in H. destruct H as (_ & _ & H3 & H4 & H5). destruct (IH _ H5) as [N F].
  unfold defs_of in *. cbn [flat_map n_outs]. split.
  - apply NoDup_app_intro; [exact H3 | exact N|]. intros x Hx Ht. apply (F x Ht). apply in_or_app. left. exact Hx.
  - intros x Hx. apply in_app_or in Hx. destruct Hx as [Hx|Hx]; [apply H4; exact Hx|].
    intros Hu. apply (F x Hx). apply in_or_app. right. exact Hu.
Qed.

Lemma defs_nodes_all_app : forall a b, defs_nodes_all (a ++ b) = defs_nodes_all a ++ defs_nodes_all b.
Proof. induction a as [|n t IH]; intros b; [reflexivity|]. cbn [app defs_nodes_all]. rewrite IH, app_assoc. reflexivity. Qed.

(* ------------------------------------------------------------------ the invariant of a translation step *)

Definition ngood (W : list vname) (st : tstate) (ns : list node) (st' : tstate) : Prop :=
  scoped_nodes W [] ns /\ NoDup (defs_nodes_all ns) /\
  (forall x, In x (defs_nodes_all ns) -> ~ In x (ts_used st)) /\
  incl (defs_nodes_all ns ++ ts_used st) (ts_used st').

Lemma ngood_nil : forall W st st', incl (ts_used st) (ts_used st') -> ngood W st [] st'.
Proof. intros W st st' H. split; [constructor|]. split; [constructor|]. split; [intros x []|]. exact H. Qed.

Lemma ngood_used : forall W st ns st', ngood W st ns st' -> incl (ts_used st) (ts_used st').
Proof. intros W st ns st' (_ & _ & _ & H) x Hx. apply H. apply in_or_app. right. exact Hx. Qed.

Lemma ngood_app : forall W st a st1 b st2, ngood W st a st1 -> ngood (ext_by W a) st1 b st2 -> ngood W st (a ++ b) st2.
Proof.
  intros W st a st1 b st2 (A1 & A2 & A3 & A4) (B1 & B2 & B3 & B4).
  split; [apply scoped_nodes_app; assumption|]. rewrite defs_nodes_all_app. split; [|split].
  - apply NoDup_app_intro; [exact A2 | exact B2|]. intros x Hx Hb. apply (B3 x Hb). apply A4. apply in_or_app. left. exact Hx.
  - intros x Hx Hu. apply in_app_or in Hx. destruct Hx as [Hx|Hx]; [exact (A3 x Hx Hu)|].
    apply (B3 x Hx). apply A4. apply in_or_app. right. exact Hu.
  - intros x Hx. apply B4. rewrite <- app_assoc in Hx. apply in_app_or in Hx. apply in_or_app.
    destruct Hx as [Hx|Hx]; [right; apply A4; apply in_or_app; left; exact Hx|].
    apply in_app_or in Hx. destruct Hx as [Hx|Hx]; [left; exact Hx | right; apply A4; apply in_or_app; right; exact Hx].
Qed.

Lemma ngood_mono : forall W W' st ns st', ngood W st ns st' -> incl W W' -> ngood W' st ns st'.
Proof. intros W W' st ns st' (A1 & A) H. split; [eapply scoped_nodes_mono; eassumption | exact A]. Qed.

(* an expression-level step: flat nodes, analysed once for scoping (D = W) and once for freshness (D = used names) *)
Lemma ngood_of_flat : forall W st ns st',
  good W ns st' -> good (ts_used st) ns st' -> ngood W st ns st'.
Proof.
  intros W st ns st' [F1 _] [F2 I2]. destruct (flat_chain_fresh _ _ F2) as [N Fr].
  unfold ngood. rewrite (flat_defs_all ns _ F1). split; [apply flat_scoped; exact F1|]. split; [exact N|]. split; [exact Fr | exact I2].
Qed.

Lemma scope_ok_used : forall sc W U, scope_ok sc W -> incl W U -> scope_ok sc U.
Proof. exact scope_ok_mono. Qed.

(* ------------------------------------------------------------------ groups of fresh names *)

Definition fresh_group (U l U' : list vname) : Prop :=
  NoDup l /\ (forall x, In x l -> ~ In x U) /\ incl (l ++ U) U'.

Lemma ngood_split : forall W st ns st', ngood W st ns st' <->
  scoped_nodes W [] ns /\ fresh_group (ts_used st) (defs_nodes_all ns) (ts_used st').
Proof. intros. unfold ngood, fresh_group. tauto. Qed.

Lemma fresh_group_nil : forall U U', incl U U' -> fresh_group U [] U'.
Proof. intros U U' H. split; [constructor|]. split; [intros x []| exact H]. Qed.

Lemma fresh_group_app : forall U a U1 b U2, fresh_group U a U1 -> fresh_group U1 b U2 -> fresh_group U (a ++ b) U2.
Proof.
  intros U a U1 b U2 (A2 & A3 & A4) (B2 & B3 & B4). split; [|split].
  - apply NoDup_app_intro; [exact A2 | exact B2|]. intros x Hx Hb. apply (B3 x Hb). apply A4. apply in_or_app. left. exact Hx.
  - intros x Hx Hu. apply in_app_or in Hx. destruct Hx as [Hx|Hx]; [exact (A3 x Hx Hu)|].
    apply (B3 x Hx). apply A4. apply in_or_app. right. exact Hu.
  - intros x Hx. apply B4. rewrite <- app_assoc in Hx. apply in_app_or in Hx. apply in_or_app.
    destruct Hx as [Hx|Hx]; [right; apply A4; apply in_or_app; left; exact Hx|].
    apply in_app_or in Hx. destruct Hx as [Hx|Hx]; [left; exact Hx | right; apply A4; apply in_or_app; right; exact Hx].
Qed.

Lemma fresh_group_perm : forall U l l' U', Permutation.Permutation l l' -> fresh_group U l U' -> fresh_group U l' U'.
Proof.
  intros U l l' U' P (A & B & C). split; [eapply Permutation.Permutation_NoDup; eassumption|]. split.
  - intros x Hx. apply B. eapply Permutation.Permutation_in; [apply Permutation.Permutation_sym; exact P | exact Hx].
  - intros x Hx. apply C. apply in_app_or in Hx. apply in_or_app. destruct Hx as [Hx|Hx]; [left|right; exact Hx].
    eapply Permutation.Permutation_in; [apply Permutation.Permutation_sym; exact P | exact Hx].
Qed.

Lemma fresh_group_used : forall U l U', fresh_group U l U' -> incl U U'.
Proof. intros U l U' (_ & _ & H) x Hx. apply H. apply in_or_app. right. exact Hx. Qed.

Lemma fresh_group_in : forall U l U' x, fresh_group U l U' -> In x l -> In x U'.
Proof. intros U l U' x (_ & _ & H) Hx. apply H. apply in_or_app. left. exact Hx. Qed.

Lemma fresh_one : forall c st r st', gen_unique c st = Some (r, st') -> fresh_group (ts_used st) [r] (ts_used st').
Proof.
  intros c st r st' H. apply gen_unique_fresh in H. destruct H as (F1 & F2 & _). split; [repeat constructor; intros []|].
  split; [intros x [<-|[]]; exact F1|]. rewrite F2. intros x Hx. exact Hx.
Qed.

Lemma fresh_mapM_uniq : forall xs st names st' ns, mapM uniq xs st = Some (names, st', ns) ->
  ns = [] /\ fresh_group (ts_used st) names (ts_used st').
Proof. intros xs st names st' ns H. apply mapM_uniq_wf in H. destruct H as (E & A & B & C). split; [exact E|]. split; [exact A|]. split; assumption. Qed.

Lemma defs_of_sub_all : forall ns, incl (defs_of ns) (defs_nodes_all ns).
Proof.
  induction ns as [|[d o nins nouts attrs subs] t IH]; intros x Hx; [exact Hx|].
  unfold defs_of in Hx. cbn [flat_map n_outs] in Hx. cbn [defs_nodes_all]. rewrite defs_node_eq.
  apply in_app_or in Hx. apply in_or_app. destruct Hx as [Hx|Hx]; [left; apply in_or_app; right; exact Hx | right; apply IH; exact Hx].
Qed.

Lemma ngood_ext_used : forall W st0 acc st, ngood W st0 acc st -> incl W (ts_used st0) -> incl (ext_by W acc) (ts_used st).
Proof.
  intros W st0 acc st (_ & _ & _ & H) HW x Hx. unfold ext_by in Hx. apply in_app_or in Hx. apply H. apply in_or_app.
  destruct Hx as [Hx|Hx]; [left; apply defs_of_sub_all; exact Hx | right; apply HW; exact Hx].
Qed.

Lemma defs_of_app' : forall a b, defs_of (a ++ b) = defs_of a ++ defs_of b.
Proof. exact defs_of_app. Qed.

Section WfNest.
  Variable globals : list (string * lit).
  Variable cic : expr -> option bool.
  Variable afuel : nat.
  Variable inputs : list vname.
  Notation tr_stmts := (Translate.tr_stmts globals cic afuel false inputs).

  (* ---- expression-level steps *)
  Lemma expr_step : forall e sc target st n st' ns W,
    tr_expr globals sc target e st = Some (n, st', ns) -> incl W (ts_used st) -> scope_ok sc W ->
    ngood W st ns st' /\ In n (ext_by W ns).
  Proof.
    intros e sc target st n st' ns W H HW Hsc.
    destruct (tr_expr_wf globals e sc target st n st' ns W H HW Hsc) as [G1 Hn].
    destruct (tr_expr_wf globals e sc target st n st' ns (ts_used st) H (incl_refl _) (scope_ok_mono _ _ _ Hsc HW)) as [G2 _].
    split; [apply ngood_of_flat; assumption | exact Hn].
  Qed.

  Lemma call_multi_step : forall e sc xs st names st' ns W,
    tr_call_multi globals sc e xs st = Some (names, st', ns) -> incl W (ts_used st) -> scope_ok sc W ->
    ngood W st ns st' /\ incl names (ext_by W ns).
  Proof.
    intros e sc xs st names st' ns W H HW Hsc. destruct e as [| | | | |f args kws]; try discriminate H.
    destruct (tr_call_multi_wf globals f args kws sc xs st names st' ns W H HW Hsc) as [G1 Hn].
    destruct (tr_call_multi_wf globals f args kws sc xs st names st' ns (ts_used st) H (incl_refl _) (scope_ok_mono _ _ _ Hsc HW)) as [G2 _].
    split; [apply ngood_of_flat; assumption | exact Hn].
  Qed.

  Lemma py_var_step : forall sc x st n st' ns W,
    py_var globals sc x st = Some (n, st', ns) -> incl W (ts_used st) -> scope_ok sc W ->
    ngood W st ns st' /\ In n (ext_by W ns).
  Proof.
    intros sc x st n st' ns W H HW Hsc.
    destruct (py_var_wf globals sc x st n st' ns W H HW Hsc) as [G1 Hn].
    destruct (py_var_wf globals sc x st n st' ns (ts_used st) H (incl_refl _) (scope_ok_mono _ _ _ Hsc HW)) as [G2 _].
    split; [apply ngood_of_flat; assumption | exact Hn].
  Qed.

  Lemma to_onnx_var_step : forall b x st n st' ns W,
    to_onnx_var b x st = Some (n, st', ns) -> incl W (ts_used st) -> (forall m, b = BV m -> In m W) ->
    ngood W st ns st' /\ In n (ext_by W ns).
  Proof.
    intros b x st n st' ns W H HW Hb.
    destruct (to_onnx_var_wf b x st n st' ns W H HW Hb) as [G1 Hn].
    destruct (to_onnx_var_wf b x st n st' ns (ts_used st) H (incl_refl _) (fun m E => HW m (Hb m E))) as [G2 _].
    split; [apply ngood_of_flat; assumption | exact Hn].
  Qed.

  Lemma one_node_step : forall W dom op args r attrs c st st',
    gen_unique c st = Some (r, st') -> incl W (ts_used st) -> incl (present args) W ->
    ngood W st [Node dom op args [r] attrs []] st'.
  Proof.
    intros W dom op args r attrs c st st' Hu HW Ha.
    destruct (one_node W dom op args r attrs c st st' Hu HW Ha) as [G1 _].
    destruct (one_node (ts_used st) dom op args r attrs c st st' Hu (incl_refl _) (fun x Hx => HW x (Ha x Hx))) as [G2 _].
    apply ngood_of_flat; assumption.
  Qed.

  Lemma mapM_py_var_step : forall sc xs st ins st' ns W,
    mapM (py_var globals sc) xs st = Some (ins, st', ns) -> incl W (ts_used st) -> scope_ok sc W ->
    ngood W st ns st' /\ incl ins (ext_by W ns).
  Proof.
    intros sc. induction xs as [|x t IH]; intros st ins st' ns W H HW Hsc; cbn [mapM] in H.
    - apply ret_some in H. destruct H as (-> & -> & ->). split; [apply ngood_nil; apply incl_refl | intros y []].
    - apply bind_some in H. destruct H as (n & st1 & n1 & n2 & Hx & H & ->).
      apply bind_some in H. destruct H as (ns' & st2 & n3 & n4 & Ht & Hr & ->).
      apply ret_some in Hr. destruct Hr as (-> & -> & ->). rewrite app_nil_r.
      destruct (py_var_step sc x st n st1 n1 W Hx HW Hsc) as [G1 Hn].
      destruct (IH st1 ns' st2 n3 (ext_by W n1) Ht (ngood_ext_used _ _ _ _ G1 HW) (scope_ok_ext _ _ _ Hsc)) as [G2 Hns].
      split; [eapply ngood_app; eassumption|].
      intros y [<-|Hy]; [apply in_ext_l; exact Hn | apply in_ext_r; apply Hns; exact Hy].
  Qed.

  (* ---- one output of a block: list the value when a node of the block defines it and it is not listed yet,
     otherwise copy it with Identity under a fresh name *)
  Lemma out_one : forall W st0 acc st v prev pv acc2 o st2 (k : bool),
    ngood W st0 acc st -> incl W (ts_used st0) -> In v (ext_by W acc) -> NoDup prev -> incl prev (defs_of acc) ->
    (k = true -> keep_as_output false v acc prev = true) ->
    (if k then acc2 = acc /\ o = v /\ st2 = st
     else gen_unique pv st = Some (o, st2) /\ acc2 = acc ++ [identity v o]) ->
    ngood W st0 acc2 st2 /\ NoDup (prev ++ [o]) /\ incl (prev ++ [o]) (defs_of acc2) /\ incl (ext_by W acc) (ext_by W acc2).
  Proof.
    intros W st0 acc st v prev pv acc2 o st2 k G HW Hv Nd Hp Hkeep Hk.
    destruct k.
    - destruct Hk as (-> & -> & ->). specialize (Hkeep eq_refl). unfold keep_as_output in Hkeep. cbn [orb] in Hkeep.
      apply andb_true_iff in Hkeep. destruct Hkeep as [E1 E2].
      apply mem_In in E1. apply negb_true_iff in E2. apply mem_false_not_In in E2.
      split; [exact G|]. split; [|split; [|apply incl_refl]].
      + apply NoDup_app_intro; [exact Nd | repeat constructor; intros [] |]. intros x Hx [<-|[]]. exact (E2 Hx).
      + intros x Hx. apply in_app_or in Hx. destruct Hx as [Hx|[<-|[]]]; [apply Hp; exact Hx | exact E1].
    - destruct Hk as (Hu & ->).
      pose proof (ngood_ext_used _ _ _ _ G HW) as HWa.
      assert (G1 : ngood (ext_by W acc) st [identity v o] st2).
      { unfold identity, node1. eapply one_node_step; [exact Hu | exact HWa|]. intros x [<-|[]]. exact Hv. }
      split; [eapply ngood_app; eassumption|].
      pose proof (gen_unique_fresh _ _ _ _ Hu) as (F1 & _).
      split; [|split].
      + apply NoDup_app_intro; [exact Nd | repeat constructor; intros [] |]. intros x Hx [<-|[]].
        apply F1. apply HWa. unfold ext_by. apply in_or_app. left. apply Hp. exact Hx.
      + rewrite defs_of_app. intros x Hx. apply in_app_or in Hx. apply in_or_app.
        destruct Hx as [Hx|[<-|[]]]; [left; apply Hp; exact Hx | right; left; reflexivity].
      + intros x Hx. apply in_ext_l. exact Hx.
  Qed.

  (* a value obtained by an expression-level step from the accumulator, then listed or copied, then the rest *)
  Lemma out_step : forall W st0 acc st v n0 st1 prev pv acc2 o st2 (k : bool),
    ngood W st0 acc st -> incl W (ts_used st0) -> NoDup prev -> incl prev (defs_of acc) ->
    ngood (ext_by W acc) st n0 st1 -> In v (ext_by (ext_by W acc) n0) ->
    (k = true -> keep_as_output false v (acc ++ n0) prev = true) ->
    (if k then acc2 = acc ++ n0 /\ o = v /\ st2 = st1
     else gen_unique pv st1 = Some (o, st2) /\ acc2 = (acc ++ n0) ++ [identity v o]) ->
    ngood W st0 acc2 st2 /\ NoDup (prev ++ [o]) /\ incl (prev ++ [o]) (defs_of acc2) /\ incl (ext_by W acc) (ext_by W acc2).
  Proof.
    intros W st0 acc st v n0 st1 prev pv acc2 o st2 k G HW Nd Hp G0 Hv Hkeep Hk.
    assert (G1 : ngood W st0 (acc ++ n0) st1) by (eapply ngood_app; eassumption).
    destruct (out_one W st0 (acc ++ n0) st1 v prev pv acc2 o st2 k G1 HW (in_ext_r _ _ _ _ Hv) Nd) as (A & B & C & D); try assumption.
    - intros x Hx. rewrite defs_of_app. apply in_or_app. left. apply Hp. exact Hx.
    - split; [exact A|]. split; [exact B|]. split; [exact C|]. intros x Hx. apply D. apply in_ext_l. exact Hx.
  Qed.

  Lemma block_outputs_wf : forall live_defs sc_b acc prev st outs nodes st' ns W st0,
    block_outputs false sc_b live_defs acc prev st = Some ((outs, nodes), st', ns) ->
    incl W (ts_used st0) -> ngood W st0 acc st -> scope_ok sc_b (ext_by W acc) ->
    NoDup prev -> incl prev (defs_of acc) ->
    ngood W st0 nodes st' /\ NoDup (prev ++ outs) /\ incl (prev ++ outs) (defs_of nodes).
  Proof.
    induction live_defs as [|pv t IH]; intros sc_b acc prev st outs nodes st' ns W st0 H HW G Hsc Nd Hp; cbn [block_outputs] in H.
    - apply ret_some in H. destruct H as (E & -> & ->). inversion E; subst. rewrite app_nil_r. auto.
    - destruct (scope_find pv (cur_scope sc_b)) as [b|] eqn:Ecur.
      + assert (Hbv : forall m, b = BV m -> In m (ext_by W acc)).
        { intros m ->. eapply Hsc. apply scopes_find_cur. exact Ecur. }
        apply bind_some in H. destruct H as (vn & st1 & n1 & n2 & Hcap & H & ->).
        apply capture_some in Hcap. destruct Hcap as (v & n0 & Hto & -> & ->). cbn [fst snd] in H. cbv zeta in H.
        destruct (to_onnx_var_step b pv st v st1 n0 (ext_by W acc) Hto (ngood_ext_used _ _ _ _ G HW) Hbv) as [G0 Hv].
        destruct (keep_as_output false v (acc ++ n0) prev) eqn:Ek.
        * apply bind_some in H. destruct H as (r & st3 & n3 & n4 & Hr & Hret & ->).
          apply ret_some in Hret. destruct Hret as (E1 & -> & ->). inversion E1; subst outs nodes. destruct r as [ro rn]. cbn [fst snd] in *.
          destruct (out_step W st0 acc st v n0 st1 prev pv (acc ++ n0) v st1 true G HW Nd Hp G0 Hv (fun _ => Ek)
                      (conj eq_refl (conj eq_refl eq_refl))) as (A & B & C & D).
          destruct (IH sc_b _ _ st1 ro rn st3 n3 W st0 Hr HW A (scope_ok_mono _ _ _ Hsc D) B C) as (A' & B' & C').
          split; [exact A'|]. rewrite <- app_assoc in B', C'. split; assumption.
        * apply bind_some in H. destruct H as (c & st2 & n5 & n6 & Hu & H & ->).
          apply uniq_some in Hu. destruct Hu as (Hu & ->).
          apply bind_some in H. destruct H as (r & st3 & n3 & n4 & Hr & Hret & ->).
          apply ret_some in Hret. destruct Hret as (E1 & -> & ->). inversion E1; subst outs nodes. destruct r as [ro rn]. cbn [fst snd] in *.
          destruct (out_step W st0 acc st v n0 st1 prev pv _ c st2 false G HW Nd Hp G0 Hv ltac:(discriminate)
                      (conj Hu eq_refl)) as (A & B & C & D).
          destruct (IH sc_b _ _ st2 ro rn st3 n3 W st0 Hr HW A (scope_ok_mono _ _ _ Hsc D) B C) as (A' & B' & C').
          split; [exact A'|]. rewrite <- app_assoc in B', C'. split; assumption.
      + destruct (scopes_find pv (tl sc_b)) as [b|] eqn:Etl; [|discriminate H].
        assert (Hbv : forall m, b = BV m -> In m (ext_by W acc)).
        { intros m ->. eapply Hsc. rewrite (scopes_find_outer _ _ Ecur). exact Etl. }
        apply bind_some in H. destruct H as (vn & st1 & n1 & n2 & Hcap & H & ->).
        apply capture_some in Hcap. destruct Hcap as (v & n0 & Hto & -> & ->). cbn [fst snd] in H.
        destruct (to_onnx_var_step b pv st v st1 n0 (ext_by W acc) Hto (ngood_ext_used _ _ _ _ G HW) Hbv) as [G0 Hv].
        apply bind_some in H. destruct H as (c & st2 & n5 & n6 & Hu & H & ->).
        apply uniq_some in Hu. destruct Hu as (Hu & ->).
        apply bind_some in H. destruct H as (r & st3 & n3 & n4 & Hr & Hret & ->).
        apply ret_some in Hret. destruct Hret as (E1 & -> & ->). inversion E1; subst outs nodes. destruct r as [ro rn]. cbn [fst snd] in *.
        destruct (out_step W st0 acc st v n0 st1 prev pv _ c st2 false G HW Nd Hp G0 Hv ltac:(discriminate)
                    (conj Hu eq_refl)) as (A & B & C & D).
        rewrite app_assoc in Hr.
        destruct (IH sc_b _ _ st2 ro rn st3 n3 W st0 Hr HW A (scope_ok_mono _ _ _ Hsc D) B C) as (A' & B' & C').
        split; [exact A'|]. rewrite <- app_assoc in B', C'. split; assumption.
  Qed.

  Lemma loop_outputs_wf : forall state sc_b acc prev st outs nodes st' ns W st0,
    loop_outputs globals false sc_b state acc prev st = Some ((outs, nodes), st', ns) ->
    incl W (ts_used st0) -> ngood W st0 acc st -> scope_ok sc_b (ext_by W acc) ->
    NoDup prev -> incl prev (defs_of acc) ->
    ngood W st0 nodes st' /\ NoDup (prev ++ outs) /\ incl (prev ++ outs) (defs_of nodes).
  Proof.
    induction state as [|pv t IH]; intros sc_b acc prev st outs nodes st' ns W st0 H HW G Hsc Nd Hp; cbn [loop_outputs] in H.
    - apply ret_some in H. destruct H as (E & -> & ->). inversion E; subst. rewrite app_nil_r. auto.
    - apply bind_some in H. destruct H as (vn & st1 & n1 & n2 & Hcap & H & ->).
      apply capture_some in Hcap. destruct Hcap as (v & n0 & Hto & -> & ->). cbn [fst snd] in H. cbv zeta in H.
      destruct (py_var_step sc_b pv st v st1 n0 (ext_by W acc) Hto (ngood_ext_used _ _ _ _ G HW) Hsc) as [G0 Hv].
      destruct (keep_as_output false v (acc ++ n0) prev) eqn:Ek.
      + apply bind_some in H. destruct H as (r & st3 & n3 & n4 & Hr & Hret & ->).
        apply ret_some in Hret. destruct Hret as (E1 & -> & ->). inversion E1; subst outs nodes. destruct r as [ro rn]. cbn [fst snd] in *.
        destruct (out_step W st0 acc st v n0 st1 prev pv (acc ++ n0) v st1 true G HW Nd Hp G0 Hv (fun _ => Ek)
                    (conj eq_refl (conj eq_refl eq_refl))) as (A & B & C & D).
        destruct (IH sc_b _ _ st1 ro rn st3 n3 W st0 Hr HW A (scope_ok_mono _ _ _ Hsc D) B C) as (A' & B' & C').
        split; [exact A'|]. rewrite <- app_assoc in B', C'. split; assumption.
      + apply bind_some in H. destruct H as (c & st2 & n5 & n6 & Hu & H & ->).
        apply uniq_some in Hu. destruct Hu as (Hu & ->).
        apply bind_some in H. destruct H as (r & st3 & n3 & n4 & Hr & Hret & ->).
        apply ret_some in Hret. destruct Hret as (E1 & -> & ->). inversion E1; subst outs nodes. destruct r as [ro rn]. cbn [fst snd] in *.
        destruct (out_step W st0 acc st v n0 st1 prev pv _ c st2 false G HW Nd Hp G0 Hv ltac:(discriminate)
                    (conj Hu eq_refl)) as (A & B & C & D).
        destruct (IH sc_b _ _ st2 ro rn st3 n3 W st0 Hr HW A (scope_ok_mono _ _ _ Hsc D) B C) as (A' & B' & C').
        split; [exact A'|]. rewrite <- app_assoc in B', C'. split; assumption.
  Qed.

  (* ---- subgraphs *)
  Lemma sub_graph_scoped : forall ins W nodes outs vis,
    scoped_nodes (ins ++ W) [] nodes -> NoDup outs -> incl outs (defs_of nodes) -> incl W vis ->
    scoped_graph true vis (Graph ins [] nodes outs).
  Proof.
    intros ins W nodes outs vis Hs Nd Ho Hv. constructor; [constructor | | exact Nd | exact Ho].
    cbn [pure_inits filter]. eapply (proj1 (proj2 scoped_mono)); [exact Hs|].
    intros x Hx. rewrite app_nil_r in Hx. apply in_app_or in Hx. apply in_or_app.
    destruct Hx as [Hx|Hx]; [left; apply in_or_app; left; exact Hx | right; apply Hv; exact Hx].
  Qed.

  Lemma defs_graph_sub : forall ins nodes outs, defs_graph (Graph ins [] nodes outs) = ins ++ defs_nodes_all nodes.
  Proof. intros. rewrite defs_graph_eq. cbn [pure_inits filter]. rewrite app_nil_r. reflexivity. Qed.

  Lemma present_map_some' : forall l : list vname, present (map Some l) = l.
  Proof. induction l as [|x t IH]; cbn; [reflexivity | rewrite IH; reflexivity]. Qed.

  Lemma scope_ok_push : forall sc W, scope_ok sc W -> scope_ok ([] :: sc) W.
  Proof. intros sc W H x n Hx. eapply H. exact Hx. Qed.

  (* ---- the condition a loop body returns *)
  Lemma tr_cond_wf : forall brk wc cp st co st' ns D,
    tr_cond brk wc cp st = Some (co, st', ns) -> incl D (ts_used st) ->
    (forall bv, brk = Some bv -> In bv D) -> (forall wv, wc = Some wv -> In wv D) -> In cp D ->
    good D ns st' /\ In co (defs_of ns).
  Proof.
    intros brk wc cp st co st' ns D H HD Hb Hw Hc. unfold tr_cond, identity, node1 in H.
    destruct brk as [bv|], wc as [wv|].
    - apply bind_some in H. destruct H as (nb & sta & na & na' & Hnb & H & ->). apply uniq_some in Hnb. destruct Hnb as (Hnb & ->).
      apply bind_some in H. destruct H as (u & sta' & na2 & na2' & Hem & H & ->). apply emit_some in Hem. destruct Hem as (-> & ->).
      destruct (one_node D "" "Not" [Some bv] nb [] _ st sta Hnb HD) as [[G1 G2] Hin]; [intros x [<-|[]]; apply Hb; reflexivity|].
      pose proof H as H'. apply finish_inv in H'. destruct H' as (Hco & ->).
      destruct (finish_wf _ _ _ _ _ _ _ _ _ (ext_by D [Node "" "Not" [Some bv] [nb] [] []]) H G2) as [G3 _].
      { intros x [<-|[<-|[]]]; [apply in_ext_base; apply Hw; reflexivity | exact Hin]. }
      cbn [app]. split; [|right; left; reflexivity].
      change [Node "" "Not" [Some bv] [nb] [] []; Node "" "And" [Some wv; Some nb] [co] [] []]
        with ([Node "" "Not" [Some bv] [nb] [] []] ++ [Node "" "And" [Some wv; Some nb] [co] [] []]).
      apply good_app; [exact G1 | exact G3].
    - pose proof H as H'. apply finish_inv in H'. destruct H' as (Hco & ->).
      destruct (finish_wf _ _ _ _ _ _ _ _ _ D H HD) as [G _]; [intros x [<-|[]]; apply Hb; reflexivity|].
      split; [exact G | left; reflexivity].
    - pose proof H as H'. apply finish_inv in H'. destruct H' as (Hco & ->).
      destruct (finish_wf _ _ _ _ _ _ _ _ _ D H HD) as [G _]; [intros x [<-|[]]; apply Hw; reflexivity|].
      split; [exact G | left; reflexivity].
    - pose proof H as H'. apply finish_inv in H'. destruct H' as (Hco & ->).
      destruct (finish_wf _ _ _ _ _ _ _ _ _ D H HD) as [G _]; [intros x [<-|[]]; exact Hc|].
      split; [exact G | left; reflexivity].
  Qed.

  (* ---- statements, by induction on the nesting fuel *)
  Definition stmts_wf (n : nat) : Prop := forall top ss lo sc outs st sc' outs' st' ns W,
    tr_stmts n top ss lo sc outs st = Some ((sc', outs'), st', ns) ->
    incl W (ts_used st) -> scope_ok sc W -> incl inputs W ->
    NoDup outs -> incl outs W -> (forall o, In o outs -> ~ In o inputs) ->
    ngood W st ns st' /\ scope_ok sc' (ext_by W ns) /\ NoDup outs' /\ incl outs' (ext_by W ns) /\
    (forall o, In o outs' -> ~ In o inputs) /\ (top = false -> outs' = outs).

  Lemma if_wf : forall fu, stmts_wf fu -> forall c t f lo_s sc outs st sc1 outs1 st6 ns W,
    tr_if globals cic afuel inputs fu c t f lo_s sc outs st = Some ((sc1, outs1), st6, ns) ->
    incl W (ts_used st) -> scope_ok sc W -> incl inputs W ->
    ngood W st ns st6 /\ scope_ok sc1 (ext_by W ns) /\ outs1 = outs.
  Proof.
    intros fu IH c t f lo_s sc outs st sc1 outs1 st6 ns W Htr HW Hsc Hin.
    unfold tr_if in Htr.
    apply bind_some in Htr. destruct Htr as (live_defs & sta & n0 & n0' & Hls & Htr & ->).
    apply list_set_some in Hls. destruct Hls as (Eu & _ & -> & Hnd & _).
    apply bind_some in Htr. destruct Htr as (test & st1 & nc & n1' & Htest & Htr & ->).
    apply bind_some in Htr. destruct Htr as (g_then & st3 & n2 & n2' & Hthen & Htr & ->).
    apply bind_some in Htr. destruct Htr as (g_else & st5 & n3 & n3' & Helse & Htr & ->).
    apply bind_some in Htr. destruct Htr as (renamed & st6' & n4 & n4' & Hren & Htr & ->).
    apply bind_some in Htr. destruct Htr as (u1 & st7 & n5 & n5' & Hg1 & Htr & ->).
    apply guard_some in Hg1. destruct Hg1 as (_ & -> & ->).
    apply bind_some in Htr. destruct Htr as (u2 & st8 & n6 & n6' & Hg2 & Htr & ->).
    apply guard_some in Hg2. destruct Hg2 as (_ & -> & ->).
    apply bind_some in Htr. destruct Htr as (u3 & st9 & n7 & n7' & Hem & Hret & ->).
    apply emit_some in Hem. destruct Hem as (-> & ->).
    apply ret_some in Hret. destruct Hret as (E & -> & ->). inversion E; subst sc1 outs1. clear E.
    apply tr_branch_some in Hthen. destruct Hthen as (sc_t & outs_t & st2 & ns_t & bo_t & bn_t & Htt & Hbt & -> & ->).
    apply tr_branch_some in Helse. destruct Helse as (sc_f & outs_f & st4 & ns_f & bo_f & bn_f & Htf & Hbf & -> & ->).
    apply fresh_mapM_uniq in Hren. destruct Hren as (-> & Fren).
    assert (HWa : incl W (ts_used sta)) by (rewrite Eu; exact HW).
    destruct (expr_step c sc (Some "cond") sta test st1 nc W Htest HWa Hsc) as [Gc Htst].
    set (W1 := ext_by W nc) in *.
    assert (HW1 : incl W1 (ts_used st1)) by (eapply ngood_ext_used; eassumption).
    assert (Hsc1 : scope_ok ([] :: sc) W1) by (apply scope_ok_push; apply scope_ok_ext; exact Hsc).
    assert (Hin1 : incl inputs W1) by (intros x Hx; apply in_ext_base; apply Hin; exact Hx).
    (* then *)
    destruct (IH false t lo_s ([] :: sc) [] st1 sc_t outs_t st2 ns_t W1 Htt HW1 Hsc1 Hin1 ltac:(constructor) ltac:(intros x []) ltac:(intros o []))
      as (Gt & Hsct & _).
    destruct (block_outputs_wf live_defs sc_t ns_t [] st2 bo_t bn_t st3 [] W1 st1 Hbt HW1 Gt Hsct ltac:(constructor) ltac:(intros x []))
      as (Gt' & Ndt & Hot). cbn [app] in Ndt, Hot.
    pose proof (ngood_used _ _ _ _ Gt') as U13.
    assert (HW3 : incl W1 (ts_used st3)) by (intros x Hx; apply U13; apply HW1; exact Hx).
    (* else *)
    destruct (IH false f lo_s ([] :: sc) [] st3 sc_f outs_f st4 ns_f W1 Htf HW3 Hsc1 Hin1 ltac:(constructor) ltac:(intros x []) ltac:(intros o []))
      as (Gf & Hscf & _).
    destruct (block_outputs_wf live_defs sc_f ns_f [] st4 bo_f bn_f st5 [] W1 st3 Hbf HW3 Gf Hscf ltac:(constructor) ltac:(intros x []))
      as (Gf' & Ndf & Hof). cbn [app] in Ndf, Hof.
    (* the If node *)
    assert (GIf : ngood W1 st1 [Node "" "If" [Some test] renamed [] [("then_branch", Graph [] [] bn_t bo_t); ("else_branch", Graph [] [] bn_f bo_f)]] st6').
    { apply ngood_split. split.
      - constructor.
        + intros x [<-|[]]. rewrite app_nil_r. exact Htst.
        + rewrite app_nil_r. constructor; [|constructor; [|constructor]].
          * apply (sub_graph_scoped [] W1 bn_t bo_t W1); [apply Gt' | exact Ndt | exact Hot | apply incl_refl].
          * apply (sub_graph_scoped [] W1 bn_f bo_f W1); [apply Gf' | exact Ndf | exact Hof | apply incl_refl].
        + constructor.
      - cbn [defs_nodes_all]. rewrite defs_node_eq. cbn [defs_subs]. rewrite !defs_graph_sub. cbn [app]. rewrite !app_nil_r.
        rewrite <- app_assoc.
        eapply fresh_group_app; [apply (proj2 (proj1 (ngood_split _ _ _ _) Gt'))|].
        eapply fresh_group_app; [apply (proj2 (proj1 (ngood_split _ _ _ _) Gf')) | exact Fren]. }
    assert (Gall : ngood W st (nc ++ [Node "" "If" [Some test] renamed [] [("then_branch", Graph [] [] bn_t bo_t); ("else_branch", Graph [] [] bn_f bo_f)]]) st6').
    { eapply ngood_app; [|exact GIf]. destruct Gc as (A & B & C & D). split; [exact A|]. split; [exact B|]. rewrite <- Eu. split; assumption. }
    cbn [app]. rewrite ?app_nil_r. cbn [fst snd].
    split; [exact Gall|]. split; [|reflexivity].
    apply scope_ok_bind_all; [apply scope_ok_ext; exact Hsc|].
    intros x Hx. unfold ext_by. apply in_or_app. left. rewrite defs_of_app. apply in_or_app. right.
    unfold defs_of. cbn [flat_map n_outs]. rewrite app_nil_r. exact Hx.
  Qed.

  (* ---- the statements of a loop body *)
  Lemma loop_body_wf : forall fu lo_body, stmts_wf fu -> forall body sc_b st sc_b' brk st' ns W,
    tr_loop_body globals cic afuel inputs fu lo_body body sc_b st = Some ((sc_b', brk), st', ns) ->
    incl W (ts_used st) -> scope_ok sc_b W -> incl inputs W ->
    ngood W st ns st' /\ scope_ok sc_b' (ext_by W ns) /\ (forall bv, brk = Some bv -> In bv (ext_by W ns)).
  Proof.
    intros fu lo_body IH. induction body as [|s0 rest IHb]; intros sc_b st sc_b' brk st' ns W H HW Hsc Hin.
    - rewrite tr_loop_body_nil in H. apply ret_some in H. destruct H as (E & -> & ->). inversion E; subst.
      split; [apply ngood_nil; apply incl_refl|]. split; [exact Hsc | intros bv Hb; discriminate Hb].
    - rewrite tr_loop_body_cons in H.
      destruct (is_break_if s0) as [[cn|l|op a|op a b|op a b|f args kws]|] eqn:Ebrk; try discriminate H.
      + apply bind_some in H. destruct H as (u & st0 & n0 & n0' & Hg & H & ->).
        apply guard_some in Hg. destruct Hg as (_ & -> & ->).
        destruct (scope_find cn (cur_scope sc_b)) as [[bvn|kk]|] eqn:Esf; try discriminate H.
        apply ret_some in H. destruct H as (E & -> & ->). inversion E; subst sc_b' brk.
        split; [apply ngood_nil; apply incl_refl|]. split; [exact Hsc|].
        intros bv Hb. inversion Hb; subst bv. eapply Hsc. apply scopes_find_cur. exact Esf.
      + apply bind_some in H. destruct H as (lo0 & st0 & n0 & n0' & Hlift & H & ->).
        apply lift_some in Hlift. destruct Hlift as (_ & -> & ->).
        apply bind_some in H. destruct H as (r0 & st1 & n1 & n2 & Hr0 & H & ->).
        assert (Hstep : ngood W st n1 st1 /\ scope_ok (fst r0) (ext_by W n1)).
        { destruct s0 as [x e|xs e|c t f|i b body|c body| |es].
          - apply bind_some in Hr0. destruct Hr0 as (v & st2 & n3 & n4 & Hte & Hret & ->).
            apply ret_some in Hret. destruct Hret as (-> & -> & ->). rewrite app_nil_r. cbn [fst].
            destruct (expr_step e sc_b (Some x) st v st2 n3 W Hte HW Hsc) as [G Hv].
            split; [exact G|]. apply scope_ok_bind; [apply scope_ok_ext; exact Hsc | exact Hv].
          - apply bind_some in Hr0. destruct Hr0 as (nm & st2 & n3 & n4 & Htm & Hret & ->).
            apply ret_some in Hret. destruct Hret as (-> & -> & ->). rewrite app_nil_r. cbn [fst].
            destruct (call_multi_step e sc_b xs st nm st2 n3 W Htm HW Hsc) as [G Hnm].
            split; [exact G|]. apply scope_ok_bind_all; [apply scope_ok_ext; exact Hsc | exact Hnm].
          - destruct r0 as [sc1 o1]. destruct (IH false _ lo0 sc_b [] st sc1 o1 st1 n1 W Hr0 HW Hsc Hin ltac:(constructor) ltac:(intros y []) ltac:(intros o []))
              as (G & Hs & _). split; assumption.
          - destruct r0 as [sc1 o1]. destruct (IH false _ lo0 sc_b [] st sc1 o1 st1 n1 W Hr0 HW Hsc Hin ltac:(constructor) ltac:(intros y []) ltac:(intros o []))
              as (G & Hs & _). split; assumption.
          - destruct r0 as [sc1 o1]. destruct (IH false _ lo0 sc_b [] st sc1 o1 st1 n1 W Hr0 HW Hsc Hin ltac:(constructor) ltac:(intros y []) ltac:(intros o []))
              as (G & Hs & _). split; assumption.
          - destruct r0 as [sc1 o1]. destruct (IH false _ lo0 sc_b [] st sc1 o1 st1 n1 W Hr0 HW Hsc Hin ltac:(constructor) ltac:(intros y []) ltac:(intros o []))
              as (G & Hs & _). split; assumption.
          - destruct r0 as [sc1 o1]. destruct (IH false _ lo0 sc_b [] st sc1 o1 st1 n1 W Hr0 HW Hsc Hin ltac:(constructor) ltac:(intros y []) ltac:(intros o []))
              as (G & Hs & _). split; assumption. }
        destruct Hstep as [G1 Hs1].
        destruct (IHb (fst r0) st1 sc_b' brk st' n2 (ext_by W n1) H (ngood_ext_used _ _ _ _ G1 HW) Hs1
                    ltac:(intros y Hy; apply in_ext_base; apply Hin; exact Hy)) as (G2 & Hs2 & Hb2).
        cbn [app]. split; [eapply ngood_app; eassumption|].
        split; [eapply scope_ok_mono; [exact Hs2 | intros y Hy; apply in_ext_r; exact Hy]|].
        intros bv Hb. apply in_ext_r. apply Hb2. exact Hb.
  Qed.

  (* ---- a loop after its header; cin = the body's condition parameter, generated by the header *)
  Lemma loop_core_wf : forall fu, stmts_wf fu ->
    forall s body lo_s sc outs iv cin ob oc wcn stc sc1 outs1 st' ns W,
    tr_loop_core globals cic afuel inputs fu s body lo_s sc outs iv cin ob oc wcn stc = Some ((sc1, outs1), st', ns) ->
    incl W (ts_used stc) -> scope_ok sc W -> incl inputs W -> In cin (ts_used stc) ->
    (forall b, ob = Some b -> In b W) -> (forall c, oc = Some c -> In c W) ->
    exists rest, scoped_nodes W [] ns /\ Permutation.Permutation (defs_nodes_all ns) (cin :: rest) /\
                 fresh_group (ts_used stc) rest (ts_used st') /\ scope_ok sc1 (ext_by W ns) /\ outs1 = outs.
  Proof.
    intros fu IH s body lo_s sc outs iv cin ob oc wcn stc sc1 outs1 st' ns W Hcore HW Hsc Hin Hcin Hob Hoc.
    unfold tr_loop_core in Hcore.
    apply bind_some in Hcore. destruct Hcore as (state & std & ns1 & ns1' & Hls & Hcore & ->).
    apply list_set_some in Hls. destruct Hls as (Eu & _ & -> & Hnd & _).
    apply bind_some in Hcore. destruct Hcore as (u1 & st_g & ng & ng' & Hg & Hcore & ->).
    apply guard_some in Hg. destruct Hg as (_ & -> & ->).
    apply bind_some in Hcore. destruct Hcore as (lo_body & st_l & nl & nl' & Hlb & Hcore & ->).
    apply lift_some in Hlb. destruct Hlb as (_ & -> & ->).
    apply bind_some in Hcore. destruct Hcore as (lv & ste & nlv & nlv' & Hlv & Hcore & ->).
    apply uniq_some in Hlv. destruct Hlv as (Hlv & ->).
    apply bind_some in Hcore. destruct Hcore as (ps & stf & nps & nps' & Hps & Hcore & ->).
    cbv zeta in Hcore.
    apply bind_some in Hcore. destruct Hcore as (r & stg & nr & nr' & Hcap & Hcore & ->).
    apply capture_some in Hcap. destruct Hcap as ([sc_b brk] & ns0 & Hbody & -> & ->). cbn [fst snd] in Hcore.
    apply bind_some in Hcore. destruct Hcore as (wc & st_w & nw & nw' & Hwc & Hcore & ->).
    assert (Hwc' : st_w = stg /\ nw = [] /\ forall wv, wc = Some wv -> exists c, scope_find c (cur_scope sc_b) = Some (BV wv)).
    { destruct wcn as [c|].
      - destruct (scope_find c (cur_scope sc_b)) as [[wvn|kk]|] eqn:Ew; try discriminate Hwc.
        apply ret_some in Hwc. destruct Hwc as (-> & -> & ->). split; [reflexivity|]. split; [reflexivity|].
        intros wv E. inversion E; subst. exists c. exact Ew.
      - apply ret_some in Hwc. destruct Hwc as (-> & -> & ->). split; [reflexivity|]. split; [reflexivity|]. intros wv E. discriminate E. }
    clear Hwc. destruct Hwc' as (-> & -> & Hwc).
    apply bind_some in Hcore. destruct Hcore as (cn & sth & ncn & ncn' & Hcn & Hcore & ->).
    apply capture_some in Hcn. destruct Hcn as (co & ncond & Hcond & -> & ->). cbn [fst snd] in Hcore.
    apply bind_some in Hcore. destruct Hcore as ([ro rn] & sti & nlo & nlo' & Hlo & Hcore & ->). cbn [fst snd] in Hcore.
    pose proof (quiet_loop_outputs _ _ _ _ _ _ _ _ _ _ Hlo) as Enlo.
    apply bind_some in Hcore. destruct Hcore as (ins & stj & nins & nins' & Hins & Hcore & ->).
    apply bind_some in Hcore. destruct Hcore as (so & st_so & nso & nso' & Hso & Hcore & ->).
    apply ret_some in Hso. destruct Hso as (-> & -> & ->).
    apply bind_some in Hcore. destruct Hcore as (names & stk & nnm & nnm' & Hnm & Hcore & ->).
    apply bind_some in Hcore. destruct Hcore as (u2 & st_e & ne & ne' & Hem & Hret2 & ->).
    apply emit_some in Hem. destruct Hem as (-> & ->).
    apply ret_some in Hret2. destruct Hret2 as (E2 & -> & ->). inversion E2; subst sc1 outs1. clear E2.
    apply fresh_mapM_uniq in Hps. destruct Hps as (-> & Fps).
    apply fresh_mapM_uniq in Hnm. destruct Hnm as (-> & Fnm).
    pose proof (fresh_one _ _ _ _ Hlv) as Flv. rewrite Eu in Flv.
    (* the body graph *)
    set (Wb := (lv :: cin :: ps) ++ W).
    assert (Ucf : incl (ts_used stc) (ts_used stf)).
    { intros x Hx. eapply fresh_group_used; [exact Fps|]. eapply fresh_group_used; [exact Flv | exact Hx]. }
    assert (HWb : incl Wb (ts_used stf)).
    { intros x Hx. unfold Wb in Hx. cbn [app] in Hx. destruct Hx as [<-|[<-|Hx]].
      - eapply fresh_group_used; [exact Fps|]. eapply fresh_group_in; [exact Flv | left; reflexivity].
      - apply Ucf. exact Hcin.
      - apply in_app_or in Hx. destruct Hx as [Hx|Hx]; [eapply fresh_group_in; [exact Fps | exact Hx] | apply Ucf; apply HW; exact Hx]. }
    assert (Hscb0 : scope_ok (bind_all state ps (bind_var iv (BV lv) ([] :: sc))) Wb).
    { apply scope_ok_bind_all; [apply scope_ok_bind; [apply scope_ok_push; eapply scope_ok_mono; [exact Hsc|] | left; reflexivity]|].
      - intros x Hx. unfold Wb. apply in_or_app. right. exact Hx.
      - intros x Hx. unfold Wb. cbn [app]. right. right. apply in_or_app. left. exact Hx. }
    assert (Hinb : incl inputs Wb) by (intros x Hx; unfold Wb; apply in_or_app; right; apply Hin; exact Hx).
    destruct (loop_body_wf fu lo_body IH body _ stf sc_b brk stg ns0 Wb Hbody HWb Hscb0 Hinb) as (Gb & Hscb & Hbrk).
    pose proof (ngood_ext_used _ _ _ _ Gb HWb) as HWb1.
    assert (Gcond : ngood (ext_by Wb ns0) stg ncond sth /\ In co (defs_of ncond)).
    { assert (Hwv : forall wv, wc = Some wv -> In wv (ext_by Wb ns0)).
      { intros wv E. destruct (Hwc wv E) as (c & Ec). eapply Hscb. apply scopes_find_cur. exact Ec. }
      assert (Hcp : In cin (ext_by Wb ns0)) by (apply in_ext_base; unfold Wb; cbn [app]; right; left; reflexivity).
      destruct (tr_cond_wf brk wc cin stg co sth ncond (ext_by Wb ns0) Hcond HWb1 Hbrk Hwv Hcp) as [G1 Hco].
      destruct (tr_cond_wf brk wc cin stg co sth ncond (ts_used stg) Hcond (incl_refl _)
                  (fun bv E => HWb1 _ (Hbrk bv E)) (fun wv E => HWb1 _ (Hwv wv E)) (HWb1 _ Hcp)) as [G2 _].
      split; [apply ngood_of_flat; assumption | exact Hco]. }
    destruct Gcond as [Gcond Hco].
    assert (Gacc : ngood Wb stf (ns0 ++ ncond) sth) by (eapply ngood_app; eassumption).
    destruct (loop_outputs_wf state sc_b (ns0 ++ ncond) [co] sth ro rn sti nlo Wb stf Hlo HWb Gacc) as (Grn & Ndo & Hoo).
    { eapply scope_ok_mono; [exact Hscb | intros x Hx; apply in_ext_l; exact Hx]. }
    { repeat constructor. intros []. }
    { intros x [<-|[]]. rewrite defs_of_app. apply in_or_app. right. exact Hco. }
    cbn [app] in Ndo, Hoo.
    (* the initial values and the Loop node *)
    assert (Uci : incl (ts_used stc) (ts_used sti)).
    { intros x Hx. eapply ngood_used; [exact Grn|]. apply Ucf. exact Hx. }
    destruct (mapM_py_var_step sc state sti ins stj nins W Hins (fun x Hx => Uci x (HW x Hx)) Hsc) as [Gins Hinsv].
    set (W2 := ext_by W nins) in *.
    set (G := Graph (lv :: cin :: ps) [] rn (co :: ro)).
    exists ([lv] ++ ps ++ defs_nodes_all rn ++ defs_nodes_all nins ++ names).
    subst nlo. cbn [app]. rewrite ?app_nil_r. cbn [app].
    split; [|split; [|split; [|split; [|reflexivity]]]].
    - apply scoped_nodes_app; [apply Gins|]. fold W2. constructor.
      + rewrite app_nil_r. intros x Hx.
        destruct ob as [b|], oc as [c|]; cbn [present] in Hx; rewrite present_map_some' in Hx.
        * destruct Hx as [<-|[<-|Hx]]; [apply in_ext_base; apply Hob; reflexivity | apply in_ext_base; apply Hoc; reflexivity | apply Hinsv; exact Hx].
        * destruct Hx as [<-|Hx]; [apply in_ext_base; apply Hob; reflexivity | apply Hinsv; exact Hx].
        * destruct Hx as [<-|Hx]; [apply in_ext_base; apply Hoc; reflexivity | apply Hinsv; exact Hx].
        * apply Hinsv. exact Hx.
      + rewrite app_nil_r. constructor; [|constructor].
        apply (sub_graph_scoped (lv :: cin :: ps) W rn (co :: ro) W2); [apply Grn | exact Ndo | exact Hoo|].
        intros x Hx. apply in_ext_base. exact Hx.
      + constructor.
    - rewrite defs_nodes_all_app. cbn [defs_nodes_all]. rewrite defs_node_eq. cbn [defs_subs]. unfold G. rewrite defs_graph_sub.
      rewrite !app_nil_r. cbn [app].
      eapply Permutation.Permutation_trans;
        [exact (Permutation.Permutation_app_swap_app (defs_nodes_all nins) (lv :: cin :: ps ++ defs_nodes_all rn) names)|].
      cbn [app]. eapply Permutation.Permutation_trans; [apply Permutation.perm_swap|].
      rewrite <- !app_assoc. apply Permutation.Permutation_refl.
    - apply (fresh_group_app _ [lv] _ _ _ Flv). eapply fresh_group_app; [exact Fps|].
      eapply fresh_group_app; [apply (proj2 (proj1 (ngood_split _ _ _ _) Grn))|].
      eapply fresh_group_app; [apply (proj2 (proj1 (ngood_split _ _ _ _) Gins)) | exact Fnm].
    - apply scope_ok_bind_all; [apply scope_ok_ext; exact Hsc|].
      intros x Hx. unfold ext_by. apply in_or_app. left. rewrite defs_of_app. apply in_or_app. right.
      unfold defs_of. cbn [flat_map n_outs]. rewrite app_nil_r. exact Hx.
  Qed.

  Lemma ngood_fresh : forall W st ns st', ngood W st ns st' -> fresh_group (ts_used st) (defs_nodes_all ns) (ts_used st').
  Proof. intros W st ns st' H. apply (proj1 (ngood_split _ _ _ _) H). Qed.

  (* ---- every statement list *)
  Theorem stmts_wf_all : forall n, stmts_wf n.
  Proof.
    induction n as [|fu IH]; intros top ss lo sc outs st sc' outs' st' ns W H HW Hsc Hin Nd Ho Hni; [discriminate H|].
    revert sc outs st ns W H HW Hsc Hin Nd Ho Hni.
    induction ss as [|s rest IHs]; intros sc outs st ns W H HW Hsc Hin Nd Ho Hni.
    - rewrite tr_stmts_nil in H. apply ret_some in H. destruct H as (E & -> & ->). inversion E; subst sc' outs'.
      split; [apply ngood_nil; apply incl_refl|]. split; [exact Hsc|]. split; [exact Nd|]. split; [exact Ho|]. split; [exact Hni | reflexivity].
    - (* one statement: nodes n1, then the rest *)
      assert (Hstep : exists sc1 outs1 st1 n1 n2,
                ns = n1 ++ n2 /\ tr_stmts (S fu) top rest lo sc1 outs1 st1 = Some ((sc', outs'), st', n2) /\
                ngood W st n1 st1 /\ scope_ok sc1 (ext_by W n1) /\ NoDup outs1 /\ incl outs1 (ext_by W n1) /\
                (forall o, In o outs1 -> ~ In o inputs) /\ (top = false -> outs1 = outs)).
      { destruct s as [x e|xs e|c t f|i b body|c body| |es].
        - rewrite tr_stmts_assign in H.
          apply bind_some in H. destruct H as (lo_s & st0 & n0 & n0' & Hlift & H & ->).
          apply lift_some in Hlift. destruct Hlift as (_ & -> & ->).
          apply bind_some in H. destruct H as (r & stB & n1 & n2 & Has & H & ->).
          apply bind_some in Has. destruct Has as (v & st1 & n3 & n4 & Hte & Hret & ->).
          apply ret_some in Hret. destruct Hret as (-> & -> & ->). cbn [fst snd] in H.
          destruct (expr_step e sc (Some x) st v st1 n3 W Hte HW Hsc) as [G Hv].
          exists (bind_var x (BV v) sc), outs, st1, (n3 ++ []), n2. rewrite app_nil_r.
          split; [reflexivity|]. split; [exact H|]. split; [exact G|].
          split; [apply scope_ok_bind; [apply scope_ok_ext; exact Hsc | exact Hv]|].
          split; [exact Nd|]. split; [intros y Hy; apply in_ext_base; apply Ho; exact Hy|]. split; [exact Hni | reflexivity].
        - rewrite tr_stmts_tuple in H.
          apply bind_some in H. destruct H as (lo_s & st0 & n0 & n0' & Hlift & H & ->).
          apply lift_some in Hlift. destruct Hlift as (_ & -> & ->).
          apply bind_some in H. destruct H as (r & stB & n1 & n2 & Has & H & ->).
          apply bind_some in Has. destruct Has as (nm & st1 & n3 & n4 & Htm & Hret & ->).
          apply ret_some in Hret. destruct Hret as (-> & -> & ->). cbn [fst snd] in H.
          destruct (call_multi_step e sc xs st nm st1 n3 W Htm HW Hsc) as [G Hnm].
          exists (bind_all xs nm sc), outs, st1, (n3 ++ []), n2. rewrite app_nil_r.
          split; [reflexivity|]. split; [exact H|]. split; [exact G|].
          split; [apply scope_ok_bind_all; [apply scope_ok_ext; exact Hsc | exact Hnm]|].
          split; [exact Nd|]. split; [intros y Hy; apply in_ext_base; apply Ho; exact Hy|]. split; [exact Hni | reflexivity].
        - rewrite tr_stmts_if in H.
          apply bind_some in H. destruct H as (lo_s & st0 & n0 & n0' & Hlift & H & ->).
          apply lift_some in Hlift. destruct Hlift as (_ & -> & ->).
          apply bind_some in H. destruct H as ([sc1 outs1] & st1 & n1 & n2 & Hif & H & ->). cbn [fst snd] in H.
          destruct (cic c) as [[|]|].
          + destruct (IH false t lo_s sc outs st sc1 outs1 st1 n1 W Hif HW Hsc Hin Nd Ho Hni) as (G & Hs & Nd1 & Ho1 & Hni1 & Eo).
            exists sc1, outs1, st1, n1, n2. rewrite (Eo eq_refl) in *. auto 10.
          + destruct (IH false f lo_s sc outs st sc1 outs1 st1 n1 W Hif HW Hsc Hin Nd Ho Hni) as (G & Hs & Nd1 & Ho1 & Hni1 & Eo).
            exists sc1, outs1, st1, n1, n2. rewrite (Eo eq_refl) in *. auto 10.
          + destruct (if_wf fu IH c t f lo_s sc outs st sc1 outs1 st1 n1 W Hif HW Hsc Hin) as (G & Hs & ->).
            exists sc1, outs, st1, n1, n2. split; [reflexivity|]. split; [exact H|]. split; [exact G|]. split; [exact Hs|].
            split; [exact Nd|]. split; [intros y Hy; apply in_ext_base; apply Ho; exact Hy|]. split; [exact Hni | reflexivity].
        - (* for *)
          rewrite tr_stmts_for' in H.
          apply bind_some in H. destruct H as (lo_s & st0 & n0 & n0' & Hlift & H & ->).
          apply lift_some in Hlift. destruct Hlift as (_ & -> & ->).
          apply bind_some in H. destruct H as ([sc1 outs1] & st1 & n1 & n2 & Hfor & H & ->). cbn [fst snd] in H.
          apply bind_some in Hfor. destruct Hfor as (hdr & stH & nh & nh' & Hhdr & Hfor & ->).
          apply bind_some in Hhdr. destruct Hhdr as (b0 & stb & nb & nb' & Hb & Hhdr & ->).
          apply bind_some in Hhdr. destruct Hhdr as (cin & stc & nc & nc' & Hcin & Hret & ->).
          apply uniq_some in Hcin. destruct Hcin as (Hcin & ->).
          apply ret_some in Hret. destruct Hret as (-> & -> & ->).
          unfold unpack_hdr in Hfor.
          destruct (expr_step b sc (Some "loop_bound") st b0 stb nb W Hb HW Hsc) as [Gb Hb0].
          pose proof (fresh_one _ _ _ _ Hcin) as Fcin.
          pose proof (ngood_ext_used _ _ _ _ Gb HW) as HW1.
          destruct (loop_core_wf fu IH (SFor i b body) body lo_s sc outs i cin (Some b0) None None stc sc1 outs1 st1 nh' (ext_by W nb) Hfor)
            as (rest0 & Sc & Pm & Fr & Hs1 & ->).
          { intros x Hx. eapply fresh_group_used; [exact Fcin | apply HW1; exact Hx]. }
          { apply scope_ok_ext. exact Hsc. }
          { intros x Hx. apply in_ext_base. apply Hin. exact Hx. }
          { eapply fresh_group_in; [exact Fcin | left; reflexivity]. }
          { intros b1 E. inversion E; subst b1. exact Hb0. }
          { intros c E. discriminate E. }
          exists sc1, outs, st1, (nb ++ nh'), n2. cbn [app]. rewrite ?app_nil_r.
          split; [reflexivity|]. split; [exact H|]. split.
          { apply ngood_split. split; [apply scoped_nodes_app; [apply Gb | exact Sc]|].
            rewrite defs_nodes_all_app. eapply fresh_group_perm.
            - apply Permutation.Permutation_app_head. apply Permutation.Permutation_sym. exact Pm.
            - eapply fresh_group_app; [apply (ngood_fresh _ _ _ _ Gb)|].
              apply (fresh_group_app _ [cin] _ _ _ Fcin). exact Fr. }
          split; [eapply scope_ok_mono; [exact Hs1 | intros y Hy; apply in_ext_r; exact Hy]|].
          split; [exact Nd|]. split; [intros y Hy; apply in_ext_base; apply Ho; exact Hy|]. split; [exact Hni | reflexivity].
        - (* while *)
          rewrite tr_stmts_while' in H.
          apply bind_some in H. destruct H as (lo_s & st0 & n0 & n0' & Hlift & H & ->).
          apply lift_some in Hlift. destruct Hlift as (_ & -> & ->).
          apply bind_some in H. destruct H as ([sc1 outs1] & st1 & n1 & n2 & Hwh & H & ->). cbn [fst snd] in H.
          apply bind_some in Hwh. destruct Hwh as (hdr & stH & nh & nh' & Hhdr & Hwh & ->).
          apply bind_some in Hhdr. destruct Hhdr as (cp & stc & nc & nc' & Hcp & Hhdr & ->).
          apply uniq_some in Hcp. destruct Hcp as (Hcp & ->).
          apply bind_some in Hhdr. destruct Hhdr as (oc & stc' & no & no' & Hoc & Hret & ->).
          apply ret_some in Hret. destruct Hret as (-> & -> & ->).
          unfold unpack_hdr in Hwh.
          pose proof (fresh_one _ _ _ _ Hcp) as Fcp.
          assert (HWc : incl W (ts_used stc)) by (intros x Hx; eapply fresh_group_used; [exact Fcp | apply HW; exact Hx]).
          destruct (py_var_step sc c stc oc stc' no W Hoc HWc Hsc) as [Go Hocv].
          pose proof (ngood_ext_used _ _ _ _ Go HWc) as HW1.
          destruct (loop_core_wf fu IH (SWhile c body) body lo_s sc outs "infinite_loop" cp None (Some oc) (Some c) stc' sc1 outs1 st1 nh' (ext_by W no) Hwh)
            as (rest0 & Sc & Pm & Fr & Hs1 & ->).
          { exact HW1. }
          { apply scope_ok_ext. exact Hsc. }
          { intros x Hx. apply in_ext_base. apply Hin. exact Hx. }
          { eapply ngood_used; [exact Go|]. eapply fresh_group_in; [exact Fcp | left; reflexivity]. }
          { intros b1 E. discriminate E. }
          { intros c1 E. inversion E; subst c1. exact Hocv. }
          exists sc1, outs, st1, (no ++ nh'), n2. cbn [app]. rewrite ?app_nil_r.
          split; [reflexivity|]. split; [exact H|]. split.
          { apply ngood_split. split; [apply scoped_nodes_app; [apply Go | exact Sc]|].
            rewrite defs_nodes_all_app. eapply fresh_group_perm.
            - eapply Permutation.Permutation_trans; [apply Permutation.Permutation_middle|].
              apply Permutation.Permutation_app_head. apply Permutation.Permutation_sym. exact Pm.
            - apply (fresh_group_app _ [cp] _ _ _ Fcp). eapply fresh_group_app; [apply (ngood_fresh _ _ _ _ Go) | exact Fr]. }
          split; [eapply scope_ok_mono; [exact Hs1 | intros y Hy; apply in_ext_r; exact Hy]|].
          split; [exact Nd|]. split; [intros y Hy; apply in_ext_base; apply Ho; exact Hy|]. split; [exact Hni | reflexivity].
        - rewrite tr_stmts_break in H.
          apply bind_some in H. destruct H as (lo_s & st0 & n0 & n0' & Hlift & H & ->).
          apply bind_some in H. destruct H as (r & st1 & n1 & n2 & Hf & _). discriminate Hf.
        - rewrite tr_stmts_return_any in H.
          apply bind_some in H. destruct H as (lo_s & st0 & n0 & n0' & Hlift & H & ->).
          apply lift_some in Hlift. destruct Hlift as (_ & -> & ->).
          apply bind_some in H. destruct H as (r & st1 & n1 & n2 & Hret & H & ->).
          destruct top; [|discriminate Hret].
          apply bind_some in Hret. destruct Hret as (u & st3 & n5 & n6 & Hg & Hret & ->).
          apply guard_some in Hg. destruct Hg as (_ & -> & ->).
          apply bind_some in Hret. destruct Hret as (o & st4 & n7 & n8 & Hrs & Hret & ->).
          apply ret_some in Hret. destruct Hret as (-> & -> & ->). cbn [fst snd] in H.
          destruct (tr_returns_wf globals inputs _ _ _ _ _ _ _ _ _ W Hrs HW Hsc Hin Nd Ho Hni) as (G1 & Nd1 & Ho1 & Hni1).
          destruct (tr_returns_wf globals inputs _ _ _ _ _ _ _ _ _ (ts_used st) Hrs (incl_refl _) (scope_ok_mono _ _ _ Hsc HW)
                      (fun x Hx => HW x (Hin x Hx)) Nd (fun x Hx => HW x (Ho x Hx)) Hni) as (G2 & _).
          exists sc, o, st4, (n7 ++ []), n2. cbn [app]. rewrite ?app_nil_r.
          split; [reflexivity|]. split; [exact H|]. split; [apply ngood_of_flat; assumption|].
          split; [apply scope_ok_ext; exact Hsc|]. split; [exact Nd1|]. split; [exact Ho1|]. split; [exact Hni1 | intros E; discriminate E]. }
      destruct Hstep as (sc1 & outs1 & st1 & n1 & n2 & -> & Hrest & G1 & Hs1 & Nd1 & Ho1 & Hni1 & Eo1).
      destruct (IHs sc1 outs1 st1 n2 (ext_by W n1) Hrest (ngood_ext_used _ _ _ _ G1 HW) Hs1
                  ltac:(intros y Hy; apply in_ext_base; apply Hin; exact Hy) Nd1 Ho1 Hni1) as (G2 & Hs2 & Nd2 & Ho2 & Hni2 & Eo2).
      split; [eapply ngood_app; eassumption|].
      split; [eapply scope_ok_mono; [exact Hs2 | intros y Hy; apply in_ext_r; exact Hy]|].
      split; [exact Nd2|]. split; [intros y Hy; apply in_ext_r; apply Ho2; exact Hy|]. split; [exact Hni2|].
      intros E. rewrite (Eo2 E). apply Eo1. exact E.
  Qed.
End WfNest.

(* ------------------------------------------------------------------ the theorem: every program the model accepts *)

Theorem translate_wf_all : forall globals cic afuel orders f g,
  NoDup (f_tparams f) ->
  translate false globals cic afuel orders f = Some g ->
  wf_graph g /\ no_input_returned g = true.
Proof.
  intros globals cic afuel orders f g Hnd Htr. rewrite (translate_eq globals) in Htr.
  destruct (Translate.tr_stmts globals cic afuel false (f_tparams f) (S 11) true (f_body f) [] [rev (init_scope f)] [] (init_state f orders))
    as [[[[sc' outs] st'] nodes]|] eqn:Et; [|discriminate Htr]. inversion Htr; subst g. clear Htr.
  destruct (stmts_wf_all globals cic afuel (f_tparams f) (S 11) true (f_body f) [] _ [] _ sc' outs st' nodes (f_tparams f) Et)
    as (G & _ & Nd & Ho & Hni & _).
  - cbn [init_state ts_used]. intros x Hx. apply -> in_rev. exact Hx.
  - apply init_scope_ok.
  - apply incl_refl.
  - constructor.
  - intros x [].
  - intros o [].
  - destruct G as (Sc & N & Fr & _). split; [split|].
    + constructor; [constructor | | exact Nd |].
      * cbn [pure_inits filter]. eapply (proj1 (proj2 scoped_mono)); [exact Sc|]. rewrite !app_nil_r. apply incl_refl.
      * cbn [pure_inits filter]. rewrite app_nil_r. intros x Hx. apply Ho in Hx. exact Hx.
    + rewrite defs_graph_eq. cbn [pure_inits filter]. rewrite app_nil_r.
      apply NoDup_app_intro; [exact Hnd | exact N|]. intros x Hx Hd. apply (Fr x Hd).
      cbn [init_state ts_used]. apply -> in_rev. exact Hx.
    + apply no_input_returned_spec. cbn [g_outs g_ins]. exact Hni.
Qed.

(* non-vacuity: a `for` loop whose body holds an if/else; the then branch aliases a value computed before the loop
   (`y = t`: the branch graph must copy it with Identity), the else branch updates y; y is loop carried.  The model's
   graph also passes the executable checker. *)
Definition exwf_f : func :=
  {| f_name := "w"; f_tparams := ["x"; "c"]; f_aparams := [];
     f_body := [SAssign "t" (EUn "USub" (EVar "x"));
                SAssign "y" (EVar "x");
                SFor "i" (ELit (LInt 2))
                     [SIf (EVar "c") [SAssign "y" (EVar "t")] [SAssign "y" (EBin "Add" (EVar "y") (EVar "t"))]];
                SReturn [EVar "y"]] |}.

Lemma exwf_hyps :
  exists g, NoDup (f_tparams exwf_f) /\ translate false [] (fun _ => None) 6 [] exwf_f = Some g /\
            depth_graph g = 6 /\ wf_graphb g = true /\ no_input_returned g = true.
Proof.
  eexists. split; [repeat constructor; cbn; intuition discriminate|]. split; [vm_compute; reflexivity|].
  repeat split; vm_compute; reflexivity.
Qed.
