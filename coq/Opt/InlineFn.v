(* Model of onnx_ir's InlinePass as optimize_ir uses it (criteria = None) on the main graph, and of the meaning of a model that
   has model-local functions (C03 / C04).

   Source modelled (onnx_ir/passes/common/inliner.py, onnx_ir/_cloner.py, onnx_ir/_convenience replace_nodes_and_values):
     _inline_calls_in      the nodes of a graph are visited in order; a node whose (domain, op_type) names a function of the
                           model is replaced by the instantiated body, which is visited NEXT (calls inside it are inlined in
                           turn, its nested graphs are entered), then the rest of the list; any other node has its If / Loop
                           bodies visited
     _instantiate_call     value_map = formals -> actuals, formals without actual -> None; attributes of the call, then the
                           declared defaults; Cloner(resolve_ref_attrs=True): reference attributes bound or dropped, nested graphs
                           cloned (their inputs keep their names), every cloned node's outputs renamed by `rename`
     replace_nodes_and_values   the value returned for the i-th output takes the NAME of the i-th output of the call
   The cloner and the call side are C18's (Builder/Inline.v: clone_node / clone_graph / attr_map / call_graph / call_sem, whose
   theorem eval_graph_rel says that cloning commutes with evaluation under executable side conditions).
   Naming: `rename` asks a stateful set of used names; the model takes the chosen names as an ORACLE (one entry per instantiated
   call, in instantiation order: top-level definitions, nested definitions) and CHECKS what soundness needs of them
   (site_okb: no capture inside the clone; fresh: the new top-level names other than the call's outputs occur nowhere so far).
   A function that returns one of its formals, or the same value twice, is refused (None): the real pass then renames a value
   of the caller.  Overloads are not modelled (the identifier is (domain, name)).  No proofs in this file. *)
From Coq Require Import List String ZArith Bool Arith.
Require Import OV.Graph.Syntax OV.Graph.Sem OV.Graph.Names OV.Builder.Inline.
Import ListNotations.
Local Open Scope string_scope.

Definition ftab := list func.
Definition is_fn (d o : string) (f : func) : bool := String.eqb (f_dom f) d && String.eqb (f_name f) o.
Definition find_fn (ft : ftab) (d o : string) : option func := find (is_fn d o) ft.

(* ---------------------------------------------------------------- every (domain, op) used, nested graphs included *)
Fixpoint ops_node (n : node) : list (string * string) :=
  let 'Node d o _ _ _ subs := n in
  (d, o) :: (fix go (l : list (string * graph)) : list (string * string) :=
               match l with [] => [] | (_, g) :: t => (ops_graph g ++ go t)%list end) subs
with ops_graph (g : graph) : list (string * string) :=
  let 'Graph _ _ nodes _ := g in
  (fix go (l : list node) : list (string * string) :=
     match l with [] => [] | n :: t => (ops_node n ++ go t)%list end) nodes.
Fixpoint ops_subs (l : list (string * graph)) : list (string * string) :=
  match l with [] => [] | (_, g) :: t => (ops_graph g ++ ops_subs t)%list end.
Fixpoint ops_nodes (l : list node) : list (string * string) :=
  match l with [] => [] | n :: t => (ops_node n ++ ops_nodes t)%list end.

(* ---------------------------------------------------------------- the meaning of a call: the body of the function *)
Section FSem.
  Variable V : Type.
  Variable sem : string -> string -> list (string * attrv) -> list (option V) -> option (list V).
  Variable truth : V -> option bool.
  Variable trip : V -> option nat.
  Variable of_nat : nat -> V.
  Variable of_bool : bool -> V.
  Variable limit : nat.
  Variable N : nat.                (* nesting fuel for the evaluation of a function body *)

  (* kernels of a model with function table ft: a node that names a function evaluates the body (formals bound to the present
     actuals, reference attributes bound to the attributes of the call or the declared defaults, no outer scope), calls inside
     the body one level down; k bounds the depth of the call chain (a recursive function set has no meaning at any k) *)
  Fixpoint fsem (ft : ftab) (k : nat) (d o : string) (attrs : list (string * attrv)) (vs : list (option V)) {struct k}
    : option (list V) :=
    match find_fn ft d o with
    | Some f => match k with
                | O => None
                | S k' => call_sem V (fsem ft k') truth trip of_nat of_bool limit N f attrs vs
                end
    | None => sem d o attrs vs
    end.
End FSem.

(* ---------------------------------------------------------------- one call site *)
Record names := Names { nm_top : list (vname * vname); nm_nested : list (vname * vname) }.
Definition rn_of (l : list (vname * vname)) (x : vname) : vname := match alookup x l with Some y => y | None => x end.
(* the value returned at position i is called like the i-th output of the call; every other top-level definition as the oracle says *)
Definition rh_of (f : func) (outs : list vname) (top : list (vname * vname)) (x : vname) : vname :=
  match last_named x (f_outs f) outs with Some nm => nm | None => rn_of top x end.

Definition site_map (f : func) (acts : list (option vname)) : vmap := combine (f_ins f) (pad_actuals f acts).
Definition site_nodes (f : func) (acts : list (option vname)) (attrs : list (string * attrv)) (outs : list vname) (nm : names) : list node :=
  clone_nodes_with (clone_node same (rh_of f outs (nm_top nm)) (rn_of (nm_nested nm)) (attr_map f attrs))
                   (rh_of f outs (nm_top nm)) (site_map f acts) (f_body f).
Definition site_outs (f : func) (acts : list (option vname)) (outs : list vname) (nm : names) : list vname :=
  map (clone_out (map_after (rh_of f outs (nm_top nm)) (site_map f acts) (f_body f))) (f_outs f).

Definition site_okb (f : func) (acts : list (option vname)) (outs : list vname) (nm : names) : bool :=
  let om := omitted (f_ins f) (pad_actuals f acts) in
  nodupb (f_ins f) && Nat.leb (List.length acts) (List.length (f_ins f))
  && nodupb (f_outs f) && nodupb outs && Nat.eqb (List.length outs) (List.length (f_outs f))
  && ok_nodes_with (ok_node same (rh_of f outs (nm_top nm)) (rn_of (nm_nested nm)) om) (rh_of f outs (nm_top nm))
                   (map fst (site_map f acts)) (site_map f acts) (f_body f)
  && forallb (fun o => mem o (defs_nodes (f_body f)) && negb (mem o om)) (f_outs f)
  && str_list_eqb (site_outs f acts outs nm) outs.

(* ---------------------------------------------------------------- the pass over a graph *)
Record ist := IState { oracle : list names; avoid : list vname }.

Fixpoint inl_nodes (fu : nat) (ft : ftab) (ns : list node) (st : ist) {struct fu} : option (list node * ist) :=
  match fu with
  | O => None
  | S fu' =>
    match ns with
    | [] => Some ([], st)
    | Node d o ins outs attrs subs :: t =>
      match find_fn ft d o with
      | Some f =>
        match oracle st with
        | [] => None
        | nm :: rest =>
          let body := site_nodes f ins attrs outs nm in
          if site_okb f ins outs nm
             && match subs with [] => true | _ => false end && negb (is_if d o) && negb (is_loop d o)
             && forallb (fun y => mem y outs || negb (mem y (avoid st))) (defs_nodes body)
          then match inl_nodes fu' ft body (IState rest (names_nodes body ++ avoid st)%list) with
               | Some (body', st1) =>
                 match inl_nodes fu' ft t st1 with
                 | Some (t', st2) => Some ((body' ++ t')%list, st2)
                 | None => None
                 end
               | None => None
               end
          else None
        end
      | None =>
        match inl_subs fu' ft subs st with
        | Some (subs', st1) =>
          match inl_nodes fu' ft t st1 with
          | Some (t', st2) => Some (Node d o ins outs attrs subs' :: t', st2)
          | None => None
          end
        | None => None
        end
      end
    end
  end
with inl_subs (fu : nat) (ft : ftab) (l : list (string * graph)) (st : ist) {struct fu} : option (list (string * graph) * ist) :=
  match fu with
  | O => None
  | S fu' =>
    match l with
    | [] => Some ([], st)
    | (k, g) :: t =>
      match inl_graph fu' ft g st with
      | Some (g', st1) =>
        match inl_subs fu' ft t st1 with
        | Some (t', st2) => Some ((k, g') :: t', st2)
        | None => None
        end
      | None => None
      end
    end
  end
with inl_graph (fu : nat) (ft : ftab) (g : graph) (st : ist) {struct fu} : option (graph * ist) :=
  match fu with
  | O => None
  | S fu' =>
    let 'Graph gi ii ns go := g in
    match inl_nodes fu' ft ns st with
    | Some (ns', st1) => Some (Graph gi ii ns' go, st1)
    | None => None
    end
  end.

Definition no_calls (ft : ftab) (g : graph) : bool :=
  forallb (fun p => match find_fn ft (fst p) (snd p) with Some _ => false | None => true end) (ops_graph g).

(* InlinePass on the main graph: every call is gone afterwards, the oracle is used up *)
Definition inline_model (fu : nat) (ft : ftab) (names_oracle : list names) (g : graph) : option graph :=
  match inl_graph fu ft g (IState names_oracle (names_graph g)) with
  | Some (g', st) => if no_calls ft g' && match oracle st with [] => true | _ => false end then Some g' else None
  | None => None
  end.

(* ---------------------------------------------------------------- RemoveUnusedFunctionsPass / RemoveUnusedOpsetsPass *)
(* identifiers called from a node list (by what the table says) *)
Definition called (ft : ftab) (l : list (string * string)) : list (string * string) :=
  filter (fun p => match find_fn ft (fst p) (snd p) with Some _ => true | None => false end) l.
Definition id_mem (p : string * string) (l : list (string * string)) : bool :=
  existsb (fun q => String.eqb (fst p) (fst q) && String.eqb (snd p) (snd q)) l.
(* work-list closure of the identifiers called from the main graph *)
Fixpoint reach_fn (fuel : nat) (ft : ftab) (used work : list (string * string)) : list (string * string) :=
  match fuel with
  | O => used
  | S k =>
    match work with
    | [] => used
    | c :: w =>
      if id_mem c used then reach_fn k ft used w
      else match find_fn ft (fst c) (snd c) with
           | Some f => reach_fn k ft (c :: used) (called ft (ops_nodes (f_body f)) ++ w)%list
           | None => reach_fn k ft used w
           end
    end
  end.
Definition keep_fn (used : list (string * string)) (f : func) : bool := id_mem (f_dom f, f_name f) used.
(* the closure check that makes the result independent of the fuel: everything a kept function or the graph calls is kept *)
Definition closed_fnb (ft : ftab) (used : list (string * string)) (g : graph) : bool :=
  forallb (fun p => id_mem p used) (called ft (ops_graph g))
  && forallb (fun f => negb (keep_fn used f) || forallb (fun p => id_mem p used) (called ft (ops_nodes (f_body f)))) ft.
Definition remove_unused_functions_fn (g : graph) (ft : ftab) : ftab :=
  let work := called ft (ops_graph g) in
  let used := reach_fn (S (List.length ft) * S (List.length work + List.length (flat_map (fun f => ops_nodes (f_body f)) ft))) ft [] work in
  if closed_fnb ft used g then filter (keep_fn used) ft else ft.

(* RemoveUnusedOpsetsPass on one container: an import stays iff its domain is used by a node of the container (nested graphs
   included); the default domain is always kept.  (The real pass, process_functions=True, does this for the model - main graph
   plus, for the model's list, the domains of the function identifiers - and for every function.) *)
Definition remove_unused_opsets (imports : list string) (used : list string) : list string :=
  filter (fun d => String.eqb d "" || mem d used) imports.

(* ---------------------------------------------------------------- a non-trivial instance: f (reference attribute k, an If whose
   else-branch calls g) called from the main graph with k overridden, g called again inside an If of the main graph *)
Definition ex_f : func := Func "local" "f" ["a"; "b"] [("k", Some (AInt 5))]
  [ Node "" "Add" [Some "a"; Some "b"] ["t"] [] [];
    Node "" "Const" [] ["c"] [("value", ARef "k")] [];
    Node "" "If" [Some "t"] ["r"] []
      [("then_branch", Graph [] [] [Node "" "Add" [Some "t"; Some "a"] ["t1"] [] []] ["t1"]);
       ("else_branch", Graph [] [] [Node "local" "g" [Some "c"; Some "b"] ["t2"] [] []] ["t2"])] ]
  ["r"].
Definition ex_g : func := Func "local" "g" ["x"; "y"] [] [Node "" "Add" [Some "x"; Some "y"] ["z"] [] []] ["z"].
Definition ex_unused : func := Func "local" "h" ["x"] [] [Node "" "Identity" [Some "x"] ["z"] [] []] ["z"].
Definition ex_ft : ftab := [ex_f; ex_unused; ex_g].
Definition ex_main : graph := Graph ["p"; "q"] []
  [ Node "local" "f" [Some "p"; Some "q"] ["u"] [("k", AInt 9)] [];
    Node "" "If" [Some "u"] ["v"] []
      [("then_branch", Graph [] [] [Node "local" "g" [Some "u"; Some "p"] ["s"] [] []] ["s"]);
       ("else_branch", Graph [] [] [Node "" "Identity" [Some "q"] ["s2"] [] []] ["s2"])];
    Node "" "Add" [Some "u"; Some "v"] ["out"] [] [] ]
  ["out"].
Definition ex_oracle : list names := [Names [] []; Names [] []; Names [] []].
Definition ex_fsem := fsem Z toy_sem toy_truth toy_trip toy_of_nat toy_of_bool 10 5.
