(* C08 property theorems, reductions (core.py): aten_all / aten_any (+ .dim, .dims), aten_argmax / aten_argmin, aten_prod /
   aten_prod_dim_int, aten_logsumexp, prims_var (prims.py, the registered variance) and the aten_var / aten_std helper family of core.py
   (NOT registered with torch_op: modelled as code, outside the property's quantifier, not exercised by the harness).  Statements only.
   `_fixed` theorems: the repaired code of proposed_fixes/ready/C08_*.diff, for every input PyTorch accepts.

   Shapes: the shape produced by the emitted Cast / Reshape / Reduce* / ArgMax / Squeeze composition (operator documents, Onnx.v /
   Onnx3.v) = ATen's result shape.  Values: all / any along one fiber (Cast BOOL, Cast INT64, ReduceMin | ReduceMax, Cast BOOL,
   empty reductions as the operator document defines them); var: the count the code computes (Gather(Shape, dims), ReduceProd) and
   the adjustment var * N / (N - correction) over the rationals with IEEE division by zero.
   NOT covered: float rounding, the kernels' tie-breaking (argmax of equal values), dtype handling other than prod's,
   multi-dim values of all.dims / any.dims (shape only; values: direct oracle), rank-0 inputs of all.dim / any.dim / var with a
   dim (the operator document refuses axes on a 0-d tensor; onnxruntime accepts them for some operators). *)
From Coq Require Import ZArith List Bool QArith.
Require Import OV.Torch.Onnx OV.Torch.Onnx2 OV.Torch.Onnx3 OV.Torch.Spec OV.Torch.Spec2 OV.Torch.Spec3 OV.Torch.Aten OV.Torch.Aten2
               OV.Torch.Aten3 OV.Torch.ReduceProofs OV.Torch.Examples3.
Import ListNotations.
Local Open Scope Z_scope.

Theorem C08_all_fiber : forall l, aten_all_fiber l = torch_all_fiber l.
Proof. exact all_fiber_correct. Qed.
Print Assumptions C08_all_fiber.

(* full statement (false of the code, see _refuted): forall l, aten_any_fiber l = torch_any_fiber l *)
Definition C08_any_fiber_full : Prop := forall l, aten_any_fiber l = torch_any_fiber l.
Theorem C08_any_fiber_partial : forall l, l <> [] -> aten_any_fiber l = torch_any_fiber l.
Proof. exact any_fiber_correct. Qed.
Print Assumptions C08_any_fiber_partial.
(* genuine defect: any over an extent-0 dimension is True (ReduceMax of nothing = INT64_MIN, cast to BOOL), PyTorch: False *)
Theorem C08_any_empty_reduction_refuted : exists l, torch_any_fiber l = false /\ aten_any_fiber l = true.
Proof. exact any_fiber_empty_refuted. Qed.
Print Assumptions C08_any_empty_reduction_refuted.
Theorem C08_any_fiber_fixed : forall l, aten_any_fiber_fixed l = torch_any_fiber l.
Proof. exact any_fiber_fixed_correct. Qed.
Print Assumptions C08_any_fiber_fixed.

Theorem C08_allany_dim_shape : forall s dim keepdim out,
  0 < zlen s -> torch_allany_shape s (Some [dim]) keepdim = Some out -> aten_allany_dim_shape s dim keepdim = Some out.
Proof. exact allany_dim_shape_correct. Qed.
Print Assumptions C08_allany_dim_shape.

(* all.dims / any.dims with a non-empty dim list: one keepdim reduction per entry, then Squeeze of all of them *)
Theorem C08_allany_dims_shape_partial : forall s ds keepdim out,
  0 < zlen s -> ds <> [] -> torch_allany_shape s (Some ds) keepdim = Some out -> aten_allany_dims_shape s (Some ds) keepdim = Some out.
Proof. exact allany_dims_shape_correct. Qed.
Print Assumptions C08_allany_dims_shape_partial.
Theorem C08_allany_nodim_shape : forall s keepdim out,
  torch_allany_shape s None keepdim = Some out -> aten_allany_dims_shape s None keepdim = Some out.
Proof. exact allany_nodim_shape_correct. Qed.
Print Assumptions C08_allany_nodim_shape.
(* genuine defects: dim = [] (PyTorch: no reduction) is read as "all dimensions"; a 0-d input with a dim *)
Theorem C08_allany_dims_empty_list_refuted : exists s keepdim out,
  torch_allany_shape s (Some []) keepdim = Some out /\ aten_allany_dims_shape s (Some []) keepdim <> Some out.
Proof. exact allany_dims_empty_list_refuted. Qed.
Print Assumptions C08_allany_dims_empty_list_refuted.
Theorem C08_allany_dims_rank0_refuted : exists dims keepdim out,
  torch_allany_shape [] (Some dims) keepdim = Some out /\ aten_allany_dims_shape [] (Some dims) keepdim = None.
Proof. exact allany_dims_rank0_refuted. Qed.
Print Assumptions C08_allany_dims_rank0_refuted.

Theorem C08_argmax_dim_shape : forall s d keepdim out,
  torch_argmax_shape s (Some d) keepdim = Some out -> aten_argmax_shape s (Some d) keepdim = Some out.
Proof. exact argmax_dim_correct. Qed.
Print Assumptions C08_argmax_dim_shape.
Definition C08_argmax_nodim_shape_full : Prop := forall s keepdim out,
  torch_argmax_shape s None keepdim = Some out -> aten_argmax_shape s None keepdim = Some out.
(* missing: keepdim = true on a tensor of rank >= 2 (false of the code, next theorem) *)
Theorem C08_argmax_nodim_shape_partial : forall s keepdim out,
  (keepdim = false \/ (length s <= 1)%nat) ->
  torch_argmax_shape s None keepdim = Some out -> aten_argmax_shape s None keepdim = Some out.
Proof. exact argmax_nodim_partial. Qed.
Print Assumptions C08_argmax_nodim_shape_partial.
Theorem C08_argmax_nodim_keepdim_refuted : exists s out,
  torch_argmax_shape s None true = Some out /\ aten_argmax_shape s None true <> Some out.
Proof. exact argmax_nodim_keepdim_refuted. Qed.
Print Assumptions C08_argmax_nodim_keepdim_refuted.

Theorem C08_prod_dim_shape : forall s dim keepdim out,
  0 < zlen s -> torch_reduce1_shape s dim keepdim = Some out -> aten_prod_dim_shape s dim keepdim = Some out.
Proof. exact prod_dim_shape_correct. Qed.
Print Assumptions C08_prod_dim_shape.
Theorem C08_prod_dim_rank0_refuted : exists dim keepdim out,
  torch_reduce1_shape [] dim keepdim = Some out /\ aten_prod_dim_shape [] dim keepdim = None.
Proof. exact prod_dim_rank0_refuted. Qed.
Print Assumptions C08_prod_dim_rank0_refuted.
Theorem C08_prod_dim_dtype_partial : forall t dtype,
  (dtype <> None \/ is_integral t = false) -> (dtype <> Some 9) -> aten_prod_dim_dtype t dtype = Some (torch_prod_dtype t dtype).
Proof. exact prod_dim_dtype_correct. Qed.
Print Assumptions C08_prod_dim_dtype_partial.
(* genuine defect: prod.dim_int keeps an integer input's type (PyTorch: int64) *)
Theorem C08_prod_dim_dtype_refuted : exists t, aten_prod_dim_dtype t None <> Some (torch_prod_dtype t None).
Proof. exact prod_dim_dtype_int32_refuted. Qed.
Print Assumptions C08_prod_dim_dtype_refuted.
Theorem C08_prod_dtype : forall t dtype, t <> 9 -> dtype <> Some 9 -> aten_prod_dtype t dtype = Some (torch_prod_dtype t dtype).
Proof. exact prod_dtype_correct. Qed.
Print Assumptions C08_prod_dtype.

Theorem C08_logsumexp_shape : forall s dims keepdim out,
  torch_logsumexp_shape s dims keepdim = Some out -> aten_logsumexp_shape s dims keepdim = Some out.
Proof. exact logsumexp_shape_correct. Qed.
Print Assumptions C08_logsumexp_shape.

Theorem C08_var_shape : forall s dims keepdim out,
  0 < zlen s -> torch_reduce_shape s dims keepdim = Some out -> aten_var_shape s dims keepdim = Some out.
Proof. exact var_shape_correct. Qed.
Print Assumptions C08_var_shape.
Theorem C08_var_count_partial : forall s ds n,
  0 < zlen s -> ds <> [] -> torch_var_count s (Some ds) = Some n -> aten_var_count s (Some ds) = Some n.
Proof. exact var_count_correct. Qed.
Print Assumptions C08_var_count_partial.
Theorem C08_var_count_empty_list_refuted : exists s n, torch_var_count s (Some []) = Some n /\ aten_var_count s (Some []) <> Some n.
Proof. exact var_count_empty_list_refuted. Qed.
Print Assumptions C08_var_count_empty_list_refuted.
(* 0 < N, 0 <= correction <= N: mean((x - mean)^2) * N / (N - correction) = sum((x - mean)^2) / max(0, N - correction), inf / nan included *)
Theorem C08_var_value_partial : forall ssd n c,
  0 < n -> (0 <= c)%Q -> (c <= inject_Z n)%Q -> fval_eq (aten_var_val ssd n n c) (torch_var_val ssd n c).
Proof. exact var_val_correct. Qed.
Print Assumptions C08_var_value_partial.
Theorem C08_var_correction_exceeds_count_refuted : exists ssd n c,
  0 < n /\ (0 <= c)%Q /\ torch_var_val ssd n c = Inf false /\ exists q, aten_var_val ssd n n c = Fin q /\ (q < 0)%Q.
Proof. exact var_correction_exceeds_count_refuted. Qed.
Print Assumptions C08_var_correction_exceeds_count_refuted.
Theorem C08_var_negative_correction_refuted : exists ssd n c, 0 < n /\ ~ fval_eq (aten_var_val ssd n n c) (torch_var_val ssd n c).
Proof. exact var_negative_correction_refuted. Qed.
Print Assumptions C08_var_negative_correction_refuted.
(* the repaired code (proposed_fixes/C08_var_count_and_clamp.diff) *)
Theorem C08_var_value_fixed : forall ssd n c, 0 < n -> (0 <= c)%Q -> fval_eq (aten_var_val_fixed ssd n n c) (torch_var_val ssd n c).
Proof. exact var_val_fixed_correct. Qed.
Print Assumptions C08_var_value_fixed.
Theorem C08_var_count_fixed : forall s dims n, 0 < zlen s -> torch_var_count s dims = Some n -> aten_var_count_fixed s dims = Some n.
Proof. exact var_count_fixed_correct. Qed.
Print Assumptions C08_var_count_fixed.

(* ------------------------------------------------------------------ repaired code (proposed_fixes/ready) *)
Theorem C08_allany_dims_shape_fixed : forall s dims keepdim out,
  torch_allany_shape s dims keepdim = Some out -> aten_allany_dims_shape_fixed s dims keepdim = Some out.
Proof. exact allany_dims_shape_fixed_correct. Qed.
Print Assumptions C08_allany_dims_shape_fixed.
Theorem C08_argmax_shape_fixed : forall s dim keepdim out,
  torch_argmax_shape s dim keepdim = Some out -> aten_argmax_shape_fixed s dim keepdim = Some out.
Proof. exact argmax_fixed_correct. Qed.
Print Assumptions C08_argmax_shape_fixed.
Theorem C08_prod_dtype_fixed : forall t dtype, dtype <> Some 9 -> aten_prod_dtype_fixed t dtype = Some (torch_prod_dtype t dtype).
Proof. exact prod_dtype_fixed_correct. Qed.
Print Assumptions C08_prod_dtype_fixed.
Theorem C08_prod_dim_shape_fixed : forall s dim keepdim out,
  torch_reduce1_shape s dim keepdim = Some out -> aten_prod_dim_shape_fixed s dim keepdim = Some out.
Proof. exact prod_dim_shape_fixed_correct. Qed.
Print Assumptions C08_prod_dim_shape_fixed.

(* ------------------------------------------------------------------ prims::var (registered) *)
Theorem C08_prims_var_shape : forall s dims out, torch_prims_var_shape s dims = Some out -> prims_var_shape s dims = Some out.
Proof. exact prims_var_shape_correct. Qed.
Print Assumptions C08_prims_var_shape.
Theorem C08_prims_var_count_partial : forall cf s dims n,
  dims <> [] -> torch_prims_var_count s dims = Some n -> prims_var_count cf s dims = Some n.
Proof. exact prims_var_count_partial. Qed.
Print Assumptions C08_prims_var_count_partial.
(* genuine defect: with dims = [] (e.g. torch.var of a 0-d tensor) and correction <> 0 the count is Gather(Shape(inp), None): tracing fails *)
Theorem C08_prims_var_count_empty_dims_refuted : exists s n, torch_prims_var_count s [] = Some n /\ prims_var_count false s [] = None.
Proof. exact prims_var_count_empty_dims_refuted. Qed.
Print Assumptions C08_prims_var_count_empty_dims_refuted.
Theorem C08_prims_var_count_fixed : forall s dims n, torch_prims_var_count s dims = Some n -> prims_var_count true s dims = Some n.
Proof. exact prims_var_count_fixed_correct. Qed.
Print Assumptions C08_prims_var_count_fixed.
Theorem C08_prims_var_value_partial : forall ssd n c,
  0 < n -> (c <= inject_Z n)%Q -> fval_eq (prims_var_val false ssd n n c) (torch_var_val ssd n c).
Proof. exact prims_var_val_partial. Qed.
Print Assumptions C08_prims_var_value_partial.
Theorem C08_prims_var_correction_exceeds_count_refuted : exists ssd n c,
  0 < n /\ torch_var_val ssd n c = Inf false /\ exists q, prims_var_val false ssd n n c = Fin q /\ (q < 0)%Q.
Proof. exact prims_var_correction_exceeds_count_refuted. Qed.
Print Assumptions C08_prims_var_correction_exceeds_count_refuted.
Theorem C08_prims_var_value_fixed : forall ssd n c, 0 < n -> fval_eq (prims_var_val true ssd n n c) (torch_var_val ssd n c).
Proof. exact prims_var_val_fixed_correct. Qed.
Print Assumptions C08_prims_var_value_fixed.
