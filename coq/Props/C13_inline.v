(* C13 (session 6): inline_const -- the printed literal and the line it is printed in.  Statements only.

   TEXT.  _get_const_repr prints str(numpy scalar) for rank 0 and repr(list) for rank 1 (Export/InlineText.v text_of);
   the converter reads a NUMBER that is all digits as an int and anything else as a float (read_lit).
   C13_int_literal_text_exact: for every integer the printed decimal text is read back as that integer (no hypothesis).
   C13_literal_text_reads_back_partial: for all four literal kinds _get_const_repr handles (INT64 / FLOAT scalar,
   INT64 / FLOAT vector) that are finite and not the empty vector, the printed text is read back as the same literal
   (same kind, same values bit for bit) -- for FLOAT under two hypotheses about the float printer that the harness
   MEASURES on every sampled FLOAT constant (corr_const_repr: float32(float(text)) has the bits of the constant and the
   text is not an integer's): Section hypotheses, not axioms.
   C13_repaired_literals_in_domain: the repaired _get_const_repr (finite only, non-empty only: what the probe of
   harness/c13_variants.py finds in the tree) prints only literals in the domain of that theorem.
   Rank and element type of the re-read literal: Props/C13_constrepr.v.

   LINE.  C13_inline_call_denotes_partial: a call `opset.Op(e1, .., en, attrs)` whose operands are variables holding
   tensors or literals evaluates to the kernel of Op applied to the tensors the operands DENOTE -- under the kernel law
   that CastLike returns its first operand (all operands sharing a type variable of a type-correct node have the same
   element type; a literal is cast like its sibling) and when the converter's cast plan exists for the operand pattern
   (plan_ok: decidable from the node and the set of inlined operands).  With C13_inline_literal_denotes_partial
   (Props/C13_options.v: the literal denotes the tensor of the dropped Constant): the line printed for a node with
   inlined operands has the value of the node.  C13_inline_call_same: ... and equals the line printed without the option
   in any environment where the variables hold the same tensors.
   NOT proved: a whole-program theorem with inline_const on (the dropped Constant nodes change which names are bound;
   the emission model and its correspondence with the exporter cover it, and the round-trip oracle under all option
   tuples); FLOAT vectors in Script/PySem.v (Script.Syntax has no float-list literal). *)
From Coq Require Import List String ZArith Bool.
Import ListNotations.
Require Import OV.Graph.Syntax OV.Script.Syntax OV.Script.Translate OV.Script.PySem OV.Export.Emit OV.Export.EmitProofs OV.Export.EmitCF
               OV.Export.InlineText OV.Export.InlineProofs.
Local Open Scope string_scope.

Theorem C13_int_literal_text_exact : forall z, int_of_text (int_text z) = Some z.
Proof. exact int_text_exact. Qed.
Print Assumptions C13_int_literal_text_exact.

Theorem C13_literal_text_reads_back_partial :
  forall (float_text : Z -> string) (float_of_text : string -> option Z),
    (forall b, nonfinite_b b = false -> float_of_text (float_text b) = Some b) ->
    (forall b, nonfinite_b b = false -> int_of_text (float_text b) = None) ->
    forall l, lit_finiteb l = true -> lit_nonemptyb l = true -> read_lit float_of_text (text_of float_text l) = Some l.
Proof. exact literal_text_reads_back. Qed.
Print Assumptions C13_literal_text_reads_back_partial.

Theorem C13_repaired_literals_in_domain : forall fx a l,
  fx_finite fx = true -> fx_nonempty fx = true -> const_lit_fx fx a = Some l -> lit_finiteb l = true /\ lit_nonemptyb l = true.
Proof. exact repaired_literals_in_domain. Qed.
Print Assumptions C13_repaired_literals_in_domain.

Example C13_literal_text_instances :
  int_text 0 = "0" /\ int_text (-12) = "-12" /\ int_text 9223372036854775807 = "9223372036854775807" /\
  int_of_text "1.5" = None /\ int_of_text "1e-05" = None /\ int_of_text "-7" = Some (-7)%Z.
Proof. exact literal_text_instances. Qed.

Theorem C13_inline_call_denotes_partial : forall (V : Type) sem globals,
  (forall v y, sem "" "CastLike" [] [Some v; Some y] = Some [v]) ->
  forall (pe : penv V) op args kws vals,
    eval_args V sem globals pe args = Some vals -> plan_ok V op vals ->
    eval_expr V sem globals pe (ECall (COp op) args kws) =
    option_map (PT V) (sem1 V sem "" op (map kw_attr kws) (map (option_map (tensor_of V)) vals)).
Proof. exact inline_call_denotes. Qed.
Print Assumptions C13_inline_call_denotes_partial.

Theorem C13_inline_call_same : forall (V : Type) sem globals,
  (forall v y, sem "" "CastLike" [] [Some v; Some y] = Some [v]) ->
  forall (pe pe' : penv V) op args args' kws vals vals',
    eval_args V sem globals pe args = Some vals -> eval_args V sem globals pe' args' = Some vals' ->
    map (option_map (tensor_of V)) vals = map (option_map (tensor_of V)) vals' ->
    plan_ok V op vals -> plan_ok V op vals' ->
    eval_expr V sem globals pe (ECall (COp op) args kws) = eval_expr V sem globals pe' (ECall (COp op) args' kws).
Proof. exact inline_call_same. Qed.
Print Assumptions C13_inline_call_same.
