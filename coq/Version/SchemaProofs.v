(* C10 -- proofs about Schema.v: upward_compatb is sound for every node view; chains of schema versions;
   nodes the conversion loop only re-stamps stay valid. *)
From Coq Require Import ZArith List Bool String Lia.
Import ListNotations.
Require Import OV.Version.Model OV.Version.Schema OV.Version.ConvertProofs.
Local Open Scope Z_scope.

(* ---------------------------------------------------------------- small facts *)
Lemma smem_In : forall x l, smem x l = true <-> In x l.
Proof.
  intros x l. unfold smem. rewrite existsb_exists. split.
  - intros (y & Hy & E). apply String.eqb_eq in E. now subst.
  - intros H. exists x. split; [exact H|apply String.eqb_refl].
Qed.

Lemma subset_smem : forall a b x, subset a b = true -> smem x a = true -> smem x b = true.
Proof.
  intros a b x Hs Hx. unfold subset in Hs. rewrite forallb_forall in Hs.
  apply Hs. now apply smem_In.
Qed.

Lemma Forall2_in_r : forall {A B} (R : A -> B -> Prop) l l' y,
  Forall2 R l l' -> In y l' -> exists x, In x l /\ R x y.
Proof.
  intros A B R l l' y H. induction H as [|a b l l' Hab _ IH]; intros Hy; [contradiction|].
  destruct Hy as [<-|Hy]; [exists a; split; [now left|exact Hab]|].
  destruct (IH Hy) as (x & Hx & Hr). exists x. split; [now right|exact Hr].
Qed.

Lemma Forall2_weaken : forall {A B} (R R' : A -> B -> Prop) l l',
  (forall a b, R a b -> R' a b) -> Forall2 R l l' -> Forall2 R' l l'.
Proof. intros A B R R' l l' Hw H. induction H; constructor; auto. Qed.

(* ---------------------------------------------------------------- formals *)
Definition rel (PL : list (formal * formal)) (p p' : formal * string) : Prop :=
  snd p = snd p' /\ In (fst p, fst p') PL /\ formal_compat (fst p) (fst p') = true.

Lemma rel_weaken : forall PL x a a', Forall2 (rel PL) a a' -> Forall2 (rel (x :: PL)) a a'.
Proof.
  intros PL x a a'. apply Forall2_weaken. intros p p' (H1 & H2 & H3). repeat split; auto. now right.
Qed.

Lemma assign_all_optional : forall fn, forallb (fun f => fopt_eqb (fm_opt f) FOptional) fn = true -> assign fn [] = Some [].
Proof.
  induction fn as [|f fn IH]; intros H; [reflexivity|].
  cbn [forallb] in H. apply andb_true_iff in H as [Hf Hr].
  cbn [assign]. destruct (fm_opt f); try discriminate. now apply IH.
Qed.

Lemma variadic_pairs : forall (o n : formal) xs,
  Forall2 (fun p p' : formal * string => snd p = snd p' /\ fst p = o /\ fst p' = n)
    (flat_map (fun x => match x with Some ty => [(o, ty)] | None => [] end) xs)
    (flat_map (fun x => match x with Some ty => [(n, ty)] | None => [] end) xs).
Proof.
  intros o n xs. induction xs as [|[ty|] xs IH]; cbn; [constructor| |exact IH].
  constructor; [cbn; auto|exact IH].
Qed.

Lemma assign_compat : forall fo fn xs a,
  formals_compat fo fn = true -> assign fo xs = Some a ->
  exists a', assign fn xs = Some a' /\ Forall2 (rel (combine fo fn)) a a'.
Proof.
  induction fo as [|o fo IH]; intros fn xs a Hc Ha.
  - cbn in Ha. destruct xs; [|discriminate]. inversion Ha; subst.
    exists []. split; [now apply assign_all_optional|constructor].
  - destruct fn as [|n fn]; [discriminate|]. cbn [formals_compat] in Hc.
    apply andb_true_iff in Hc as [Hf Hrest].
    assert (Hf' := Hf). unfold formal_compat in Hf'.
    apply andb_true_iff in Hf' as [Hf' Hmin]. apply andb_true_iff in Hf' as [Hopt Hsub].
    cbn [assign] in Ha. cbn [assign combine].
    destruct (fm_opt o) eqn:Eo.
    + (* single: new is single or optional *)
      cbn [is_variadic fopt_eqb] in Hrest. unfold is_variadic in Hrest. rewrite Eo in Hrest. cbn in Hrest.
      destruct xs as [|[ty|] xr]; try discriminate.
      destruct (assign fo xr) as [a0|] eqn:Ea0; [|discriminate]. inversion Ha; subst.
      destruct (IH fn xr a0 Hrest Ea0) as (a1 & E1 & R1).
      exists ((n, ty) :: a1).
      split.
      * destruct (fm_opt n); cbn in Hopt; try discriminate; now rewrite E1.
      * constructor; [repeat split; cbn; auto|now apply rel_weaken].
    + (* optional *)
      unfold is_variadic in Hrest. rewrite Eo in Hrest. cbn in Hrest.
      destruct (fm_opt n) eqn:En; cbn in Hopt; try discriminate.
      destruct xs as [|[ty|] xr].
      * destruct (IH fn [] a Hrest Ha) as (a1 & E1 & R1). exists a1. split; [exact E1|now apply rel_weaken].
      * destruct (assign fo xr) as [a0|] eqn:Ea0; [|discriminate]. inversion Ha; subst.
        destruct (IH fn xr a0 Hrest Ea0) as (a1 & E1 & R1).
        exists ((n, ty) :: a1). rewrite E1. split; [reflexivity|].
        constructor; [repeat split; cbn; auto|now apply rel_weaken].
      * destruct (IH fn xr a Hrest Ha) as (a1 & E1 & R1). exists a1. split; [exact E1|now apply rel_weaken].
    + (* variadic: last in both *)
      unfold is_variadic in Hrest. rewrite Eo in Hrest. cbn in Hrest.
      destruct fo; [|discriminate]. destruct fn; [|discriminate].
      destruct (fm_opt n) eqn:En; cbn in Hopt; try discriminate.
      destruct ((fm_min o <=? List.length xs)%nat && forallb (fun x => match x with Some _ => true | None => false end) xs) eqn:Eg;
        [|discriminate].
      inversion Ha; subst. apply andb_true_iff in Eg as [Eg1 Eg2].
      assert (Eg1' : (fm_min n <=? List.length xs)%nat = true).
      { apply Nat.leb_le. apply Nat.leb_le in Eg1. apply Nat.leb_le in Hmin. lia. }
      rewrite Eg1', Eg2. cbn.
      eexists. split; [reflexivity|].
      eapply Forall2_weaken; [|apply variadic_pairs].
      intros p p' (H1 & H2 & H3). unfold rel. rewrite H2, H3. repeat split; auto. now left.
Qed.

Lemma rel_app_l : forall P1 P2 a a', Forall2 (rel P1) a a' -> Forall2 (rel (P1 ++ P2)) a a'.
Proof.
  intros P1 P2 a a'. apply Forall2_weaken. intros p p' (H1 & H2 & H3). repeat split; auto.
  apply in_or_app. now left.
Qed.
Lemma rel_app_r : forall P1 P2 a a', Forall2 (rel P2) a a' -> Forall2 (rel (P1 ++ P2)) a a'.
Proof.
  intros P1 P2 a a'. apply Forall2_weaken. intros p p' (H1 & H2 & H3). repeat split; auto.
  apply in_or_app. now right.
Qed.

Lemma typed_compat : forall PL a a', Forall2 (rel PL) a a' -> typed a = true -> typed a' = true.
Proof.
  intros PL a a' HR Ht. unfold typed in *. rewrite forallb_forall in *. intros p' Hp'.
  destruct (Forall2_in_r _ _ _ _ HR Hp') as (p & Hp & (E & _ & Hc)).
  specialize (Ht p Hp). rewrite <- E.
  unfold formal_compat in Hc. apply andb_true_iff in Hc as [Hc _]. apply andb_true_iff in Hc as [_ Hsub].
  eapply subset_smem; eauto.
Qed.

Lemma tv_consistent_compat : forall PL a a',
  tv_compat PL = true -> Forall2 (rel PL) a a' -> tv_consistent a = true -> tv_consistent a' = true.
Proof.
  intros PL a a' Htv HR Hc. unfold tv_consistent in *. rewrite forallb_forall in *. intros p' Hp'.
  rewrite forallb_forall. intros q' Hq'.
  destruct (Forall2_in_r _ _ _ _ HR Hp') as (p & Hp & (Ep & Ip & _)).
  destruct (Forall2_in_r _ _ _ _ HR Hq') as (q & Hq & (Eq & Iq & _)).
  destruct (shares (fst p') (fst q')) eqn:Es; [|reflexivity]. cbn.
  unfold tv_compat in Htv. rewrite forallb_forall in Htv. specialize (Htv _ Ip).
  rewrite forallb_forall in Htv. specialize (Htv _ Iq). cbn [fst snd] in Htv. rewrite Es in Htv. cbn in Htv.
  specialize (Hc p Hp). rewrite forallb_forall in Hc. specialize (Hc q Hq). rewrite Htv in Hc. cbn in Hc.
  now rewrite <- Ep, <- Eq.
Qed.

(* ---------------------------------------------------------------- attributes *)
Lemma find_decl_some : forall name ds d, find_decl name ds = Some d -> In d ds /\ ad_name d = name.
Proof.
  intros name ds d H. unfold find_decl in H. apply find_some in H as [Hi He].
  apply String.eqb_eq in He. auto.
Qed.

Lemma attrs_ok_compat : forall dold dn attrs,
  attrs_compat dold dn = true -> attrs_ok dold attrs = true -> attrs_ok dn attrs = true.
Proof.
  intros dold dn attrs Hc Ho. unfold attrs_compat in Hc. apply andb_true_iff in Hc as [Hc1 Hc2].
  unfold attrs_ok in *. apply andb_true_iff in Ho as [Ho1 Ho2]. apply andb_true_iff. split.
  - rewrite forallb_forall in *. intros a Ha. specialize (Ho1 a Ha).
    unfold attr_declared in *. rewrite existsb_exists in *. destruct Ho1 as (d & Hd & E).
    apply andb_true_iff in E as [En Ek]. apply String.eqb_eq in En. apply Z.eqb_eq in Ek.
    specialize (Hc1 d Hd). unfold decl_compat in Hc1.
    destruct (find_decl (ad_name d) dn) as [n|] eqn:Ef; [|discriminate].
    apply find_decl_some in Ef as [Hn Hname]. apply andb_true_iff in Hc1 as [Hk _]. apply Z.eqb_eq in Hk.
    exists n. split; [exact Hn|]. rewrite Hname, En, String.eqb_refl. cbn. apply Z.eqb_eq. congruence.
  - rewrite forallb_forall in *. intros n Hn. specialize (Hc2 n Hn). unfold new_decl_optional in Hc2.
    destruct (ad_req n) eqn:Er; [|reflexivity]. cbn.
    destruct (find_decl (ad_name n) dold) as [o|] eqn:Ef; [|discriminate].
    apply find_decl_some in Ef as [Hoin Hname]. cbn in Hc2.
    specialize (Ho2 o Hoin). rewrite Hc2 in Ho2. cbn in Ho2. now rewrite <- Hname.
Qed.

(* ---------------------------------------------------------------- upward_compat_sound *)
Theorem upward_compat_sound : forall o n, upward_compatb o n = true ->
  forall x, node_valid o x = true -> node_valid n x = true.
Proof.
  intros o n Hc x Hv. unfold upward_compatb in Hc.
  apply andb_true_iff in Hc as [Hc Hattr]. apply andb_true_iff in Hc as [Hc Htv].
  apply andb_true_iff in Hc as [Hc Hout]. apply andb_true_iff in Hc as [Hdep Hin].
  unfold node_valid in *. apply andb_true_iff in Hv as [Hv Hva]. apply andb_true_iff in Hv as [_ Hv].
  rewrite Hdep. cbn [andb].
  destruct (assign (sc_ins o) (vn_ins x)) as [ai|] eqn:Ei; [|discriminate].
  destruct (assign (sc_outs o) (vn_outs x)) as [ao|] eqn:Eo; [|discriminate].
  destruct (assign_compat _ _ _ _ Hin Ei) as (ai' & Ei' & Ri).
  destruct (assign_compat _ _ _ _ Hout Eo) as (ao' & Eo' & Ro).
  rewrite Ei', Eo'. apply andb_true_iff in Hv as [Ht Hcst].
  set (PL := (combine (sc_ins o) (sc_ins n) ++ combine (sc_outs o) (sc_outs n))%list) in *.
  assert (R : Forall2 (rel PL) (ai ++ ao) (ai' ++ ao')).
  { apply Forall2_app; [now apply rel_app_l|now apply rel_app_r]. }
  rewrite (typed_compat _ _ _ R Ht), (tv_consistent_compat _ _ _ Htv R Hcst). cbn.
  eapply attrs_ok_compat; eauto.
Qed.

(* omitted attributes keep their meaning, nothing the old node could spell is gone *)
Theorem upward_compat_attrs : forall o n, upward_compatb o n = true ->
  (forall d, In d (sc_attrs o) -> exists d', In d' (sc_attrs n) /\ ad_name d' = ad_name d /\
                                             ad_kind d' = ad_kind d /\ ad_default d' = ad_default d) /\
  (forall d', In d' (sc_attrs n) -> ad_req d' = true ->
              exists d, In d (sc_attrs o) /\ ad_name d = ad_name d' /\ ad_req d = true).
Proof.
  intros o n Hc. unfold upward_compatb in Hc. apply andb_true_iff in Hc as [_ Hattr].
  unfold attrs_compat in Hattr. apply andb_true_iff in Hattr as [H1 H2]. rewrite forallb_forall in H1, H2. split.
  - intros d Hd. specialize (H1 d Hd). unfold decl_compat in H1.
    destruct (find_decl (ad_name d) (sc_attrs n)) as [d'|] eqn:Ef; [|discriminate].
    apply find_decl_some in Ef as [Hi Hn]. apply andb_true_iff in H1 as [Hk Hd'].
    apply Z.eqb_eq in Hk. exists d'. repeat split; auto.
    destruct (ad_default d) as [a|], (ad_default d') as [b|]; cbn in Hd'; try discriminate; auto.
    apply String.eqb_eq in Hd'. now subst.
  - intros d' Hd' Hr. specialize (H2 d' Hd'). unfold new_decl_optional in H2. rewrite Hr in H2.
    destruct (find_decl (ad_name d') (sc_attrs o)) as [d|] eqn:Ef; [|discriminate].
    apply find_decl_some in Ef as [Hi Hn]. exists d. auto.
Qed.

(* no input or output position is removed, and the added ones are optional *)
Theorem upward_compat_formals : forall o n, upward_compatb o n = true ->
  (List.length (sc_ins o) <= List.length (sc_ins n))%nat /\ (List.length (sc_outs o) <= List.length (sc_outs n))%nat /\
  Forall (fun f => fm_opt f = FOptional) (skipn (List.length (sc_ins o)) (sc_ins n)).
Proof.
  intros o n Hc. unfold upward_compatb in Hc.
  apply andb_true_iff in Hc as [Hc _]. apply andb_true_iff in Hc as [Hc _].
  apply andb_true_iff in Hc as [Hc Hout]. apply andb_true_iff in Hc as [_ Hin].
  assert (L : forall fo fn, formals_compat fo fn = true ->
              (List.length fo <= List.length fn)%nat /\ Forall (fun f => fm_opt f = FOptional) (skipn (List.length fo) fn)).
  { induction fo as [|a fo IH]; intros fn H.
    - cbn. split; [lia|]. cbn in H. apply Forall_forall. intros f Hf. rewrite forallb_forall in H.
      specialize (H f Hf). destruct (fm_opt f); cbn in H; try discriminate; reflexivity.
    - destruct fn as [|b fn]; [discriminate|]. cbn [formals_compat] in H. apply andb_true_iff in H as [_ H].
      destruct (is_variadic a).
      + destruct fo; [|discriminate]. destruct fn; [|discriminate]. cbn. split; [lia|constructor].
      + destruct (IH fn H) as [Hl Hf]. cbn. split; [lia|exact Hf]. }
  destruct (L _ _ Hin) as [H1 H2]. destruct (L _ _ Hout) as [H3 _]. auto.
Qed.

(* ---------------------------------------------------------------- chains of versions *)
Section Chain.
  Variable ad : Z -> bool.     (* steps excluded: an adapter is registered / a listed exception *)

  Lemma chainb_tail : forall a r, chainb ad (a :: r) = true -> chainb ad r = true.
  Proof.
    intros a [|b r] H; [reflexivity|]. cbn [chainb] in H. apply andb_true_iff in H as [_ H]. exact H.
  Qed.

  Lemma sch_at_mono : forall h s t a, sch_at h s = Some a -> s <= t -> exists b, sch_at h t = Some b.
  Proof.
    intros [|a0 r] s t a H Hst; [discriminate|]. cbn in *.
    destruct (sc_since a0 <=? s) eqn:E; [|discriminate]. apply Z.leb_le in E.
    assert (E' : (sc_since a0 <=? t) = true) by (apply Z.leb_le; lia). rewrite E'.
    destruct (sch_at r t); eauto.
  Qed.

  (* from the head of a chain: every step crossed lies in (lo, t] *)
  Lemma chain_head : forall r a b lo t x,
    chainb ad (a :: r) = true -> sch_at r lo = None -> lo <= t -> sc_since a <= lo ->
    (forall k, lo <= k < t -> ad k = false) ->
    sch_at (a :: r) t = Some b -> node_valid a x = true -> node_valid b x = true.
  Proof.
    induction r as [|a1 r IH]; intros a b lo t x Hch Hlo Hlt Hsa Had Hb Hv.
    - cbn in Hb. destruct (sc_since a <=? t); inversion Hb; subst; exact Hv.
    - assert (Hb' : sch_at (a :: a1 :: r) t =
                    (if sc_since a <=? t then match sch_at (a1 :: r) t with Some b => Some b | None => Some a end else None))
        by reflexivity.
      rewrite Hb' in Hb. clear Hb'.
      destruct (sc_since a <=? t) eqn:Ea; [|discriminate].
      destruct (sch_at (a1 :: r) t) as [b'|] eqn:Eb'; [|inversion Hb; subst; exact Hv].
      inversion Hb; subst b'. clear Hb.
      assert (Hch' := Hch). cbn [chainb] in Hch'. apply andb_true_iff in Hch' as [Hch' Hrest].
      apply andb_true_iff in Hch' as [Hasc Hstep]. apply Z.ltb_lt in Hasc.
      assert (H1t : sc_since a1 <= t).
      { cbn [sch_at] in Eb'. destruct (sc_since a1 <=? t) eqn:E; [now apply Z.leb_le|discriminate]. }
      assert (Hlo1 : lo < sc_since a1).
      { cbn [sch_at] in Hlo. destruct (sc_since a1 <=? lo) eqn:E; [destruct (sch_at r lo); discriminate|].
        apply Z.leb_gt in E. exact E. }
      rewrite (Had (sc_since a1 - 1)) in Hstep by lia. cbn in Hstep.
      pose proof (upward_compat_sound _ _ Hstep x Hv) as Hv1.
      apply (IH a1 b (sc_since a1) t x Hrest); auto; try lia.
      + (* the rest starts above a1 *)
        destruct r as [|a2 r']; [reflexivity|]. cbn [chainb] in Hrest.
        apply andb_true_iff in Hrest as [Hr _]. apply andb_true_iff in Hr as [Hr _]. apply Z.ltb_lt in Hr.
        cbn [sch_at]. destruct (sc_since a2 <=? sc_since a1) eqn:E; [apply Z.leb_le in E; lia|reflexivity].
      + intros k Hk. apply Had. lia.
  Qed.

  (* valid under the schema in force at s => valid under the schema in force at t, when no step in
     (s, t] is an adapted or excepted one *)
  Theorem chain_valid : forall h s t a b x,
    chainb ad h = true -> s <= t -> (forall k, s <= k < t -> ad k = false) ->
    sch_at h s = Some a -> sch_at h t = Some b -> node_valid a x = true -> node_valid b x = true.
  Proof.
    induction h as [|a0 r IH]; intros s t a b x Hch Hst Had Ha Hb Hv; [discriminate|].
    cbn [sch_at] in Ha. destruct (sc_since a0 <=? s) eqn:E0; [|discriminate]. apply Z.leb_le in E0.
    destruct (sch_at r s) as [a'|] eqn:Er.
    - inversion Ha; subst a'. destruct (sch_at_mono r s t a Er Hst) as (b' & Eb').
      cbn [sch_at] in Hb. destruct (sc_since a0 <=? t); [|discriminate]. rewrite Eb' in Hb. inversion Hb; subst b'.
      eapply (IH s t a b x); eauto. eapply chainb_tail; eauto.
    - inversion Ha; subst a0. eapply (chain_head r a b s t x); eauto.
  Qed.
End Chain.

(* ---------------------------------------------------------------- the table *)
Lemma hist_of_In : forall tbl op h, hist_of tbl op = Some h -> In (op, h) tbl.
Proof.
  induction tbl as [|[o h0] r IH]; intros op h H; [discriminate|]. cbn in H.
  destruct (String.eqb o op) eqn:E.
  - apply String.eqb_eq in E. inversion H; subst. now left.
  - right. now apply IH.
Qed.


Lemma clear_of_excepted : forall ex op s t k, clear_of ex op s t = true -> s <= k < t -> excepted ex op k = false.
Proof.
  intros ex op s t k H Hk. unfold excepted. apply not_true_iff_false. intros Hx.
  apply existsb_exists in Hx as (e & He & E). apply andb_true_iff in E as [E1 E2]. apply Z.eqb_eq in E2.
  unfold clear_of in H. rewrite forallb_forall in H. specialize (H e He). rewrite E1 in H. cbn in H.
  assert (A : (s <? snd e) = true) by (apply Z.ltb_lt; lia).
  assert (B : (snd e <=? t) = true) by (apply Z.leb_le; lia). rewrite A, B in H. discriminate.
Qed.

Lemma no_adapter_adapted : forall keys op k, no_adapter keys op = true -> adapted_at keys op k = false.
Proof.
  intros keys op k H. unfold no_adapter in H. apply negb_true_iff in H.
  unfold adapted_at. apply not_true_iff_false. intros Hx. apply existsb_exists in Hx as ([[[d o] v] up] & Hin & E).
  apply andb_true_iff in E as [E Eup]. apply andb_true_iff in E as [E _]. apply andb_true_iff in E as [Ed Eo].
  assert (C : existsb (fun key => let '(d, o, _, up) := key in String.eqb d "" && String.eqb o op && up) keys = true).
  { apply existsb_exists. exists (d, o, v, up). split; [exact Hin|]. now rewrite Ed, Eo, Eup. }
  congruence.
Qed.

Lemma no_adapter_from_adapted : forall keys lo op k, no_adapter_from keys lo op = true -> lo <= k -> adapted_at keys op k = false.
Proof.
  intros keys lo op k H Hk. unfold no_adapter_from in H. apply negb_true_iff in H.
  unfold adapted_at. apply not_true_iff_false. intros Hx. apply existsb_exists in Hx as ([[[d o] v] up] & Hin & E).
  apply andb_true_iff in E as [E Eup]. apply andb_true_iff in E as [E Ev]. apply andb_true_iff in E as [Ed Eo].
  apply Z.eqb_eq in Ev. subst v.
  assert (C : existsb (fun key => let '(d, o, v, up) := key in String.eqb d "" && String.eqb o op && (lo <=? v) && up) keys = true).
  { apply existsb_exists. exists (d, o, k, up). split; [exact Hin|]. rewrite Ed, Eo, Eup.
    assert (L : (lo <=? k) = true) by (apply Z.leb_le; lia). now rewrite L. }
  congruence.
Qed.

(* an operator without any adapter: valid at s => valid at t, provided no listed exception lies in (s, t] *)
Theorem table_valid_transfer : forall keys ex tbl op s t x,
  table_okb keys ex tbl = true -> no_adapter_from keys s op = true -> clear_of ex op s t = true -> s <= t ->
  valid_at tbl op s x = true -> (exists sc, hist_of tbl op = Some sc /\ sch_at sc t <> None) ->
  valid_at tbl op t x = true.
Proof.
  intros keys ex tbl op s t x Htbl Hna Hcl Hst Hv (h & Hh & Ht). unfold valid_at in *. rewrite Hh in *.
  destruct (sch_at h s) as [a|] eqn:Ea; [|discriminate].
  destruct (sch_at h t) as [b|] eqn:Eb; [|congruence].
  unfold table_okb in Htbl. rewrite forallb_forall in Htbl.
  specialize (Htbl _ (hist_of_In _ _ _ Hh)). cbn [fst snd] in Htbl.
  eapply chain_valid; [exact Htbl|exact Hst| |exact Ea|exact Eb|exact Hv].
  intros k Hk. cbv beta. cbn [fst]. rewrite (no_adapter_from_adapted keys s op k Hna) by lia. cbn. eapply clear_of_excepted; eauto.
Qed.

(* ---------------------------------------------------------------- the conversion loop only re-stamps quiet nodes *)
Lemma strip_set_ver : forall n v, strip (set_ver n v) = strip n.
Proof. intros [] v; reflexivity. Qed.
Lemma strip_unfold : forall n, strip n = Node (n_op n) (n_dflt n) None (n_ref n) (n_attrs n) (n_ins n) (n_shp n) (map strip (n_subs n)).
Proof. intros []; reflexivity. Qed.
Lemma strip_set_subs : forall n sb, map strip sb = map strip (n_subs n) -> strip (set_subs n sb) = strip n.
Proof. intros [] sb H; cbn in *. now rewrite H. Qed.
Lemma set_subs_op : forall n sb, n_op (set_subs n sb) = n_op n. Proof. intros []; reflexivity. Qed.
Lemma set_ver_op : forall n v, n_op (set_ver n v) = n_op n. Proof. intros []; reflexivity. Qed.

Lemma quietb_unfold : forall q n, quietb q n = (negb (n_dflt n) || q (n_op n)) && forallb (quietb q) (n_subs n).
Proof. intros q []; reflexivity. Qed.

Definition gout (r : gres) : list node := match r with GFin o _ | GAbort _ o _ => o end.
Lemma gout_cons : forall n l r, gout (g_cons n l r) = n :: gout r.
Proof. intros n l []; reflexivity. Qed.

(* quietb depends on the stripped node only *)
Lemma quietb_strip : forall q a b, strip a = strip b -> quietb q a = quietb q b.
Proof.
  intros q. fix G 1. intros [o d v r at_ i sh sb0] [o' d' v' r' at' i' sh' sb0'] E. cbn in E.
  injection E as -> -> -> -> -> -> Esb. cbn [quietb]. f_equal.
  revert sb0' Esb. induction sb0 as [|c cs IHc]; intros [|c' cs'] Esb; try discriminate; [reflexivity|].
  cbn in Esb. injection Esb as Ec Ecs. cbn [forallb]. rewrite (G c c' Ec), (IHc cs' Ecs). reflexivity.
Qed.
Lemma quietb_strip_list : forall q l l', map strip l' = map strip l -> forallb (quietb q) l' = forallb (quietb q) l.
Proof.
  intros q. induction l as [|m ms IH]; intros [|m' ms'] H; try discriminate; [reflexivity|].
  cbn in H. injection H as Hm Hms. cbn [forallb]. now rewrite (quietb_strip q m' m Hm), (IH ms' Hms).
Qed.

Lemma vergeb_unfold : forall lo n, vergeb lo n =
  negb (n_dflt n) || ((match n_ver n with Some x => lo <=? x | None => true end) && forallb (vergeb lo) (n_subs n)).
Proof. intros lo []; reflexivity. Qed.

Lemma at_version_vergeb : forall s n, at_version s n = true -> vergeb s n = true.
Proof.
  intros s. fix G 1. intros [o d v r a i sh sb] H. cbn [at_version vergeb] in *.
  destruct d; cbn in *; [|reflexivity]. apply andb_true_iff in H as [Hv Hs]. apply andb_true_iff. split.
  - destruct v as [x|]; [|reflexivity]. cbn in Hv. apply Z.eqb_eq in Hv. subst. apply Z.leb_refl.
  - clear Hv. induction sb as [|m ms IH]; [reflexivity|]. cbn [forallb] in *. apply andb_true_iff in Hs as [Hm Hms].
    now rewrite (G m Hm), (IH Hms).
Qed.

Section Quiet.
  Variable adapt : adapter.
  Variable q : string -> bool.
  Variable lo : Z.
  (* q: no adapter answers for this op at any from_version >= lo *)
  Hypothesis q_quiet : forall op, q op = true -> forall k n, lo <= k -> adapt op k n = ANone.
  Variable t : Z.
  Variable dv : option Z.
  Hypothesis dv_ok : match dv with Some v => lo <= v | None => True end.

  (* whatever the outcome (finished, aborted, out of fuel) the node list left behind is the input re-stamped *)
  Definition PQ (f : nat) : Prop := forall todo,
    forallb (quietb q) todo = true -> forallb (vergeb lo) todo = true ->
    map strip (gout (conv adapt t dv f todo)) = map strip todo /\ forallb (vergeb lo) (gout (conv adapt t dv f todo)) = true.
  Definition QQ (f : nat) : Prop := forall n k cnt log,
    n_dflt n = true -> quietb q n = true -> vergeb lo n = true -> lo <= k ->
    match steps adapt t dv f n k cnt log with
    | SKept n' _ | SAbortKept _ n' _ => strip n' = strip n /\ vergeb lo n' = true
    | SRepl _ _ | SAbortRepl _ _ _ => False
    end.

  Lemma quiet_main : forall f, PQ f /\ QQ f.
  Proof.
    induction f as [|f [IHP IHQ]].
    { split; [intros todo _ Hv; split; [reflexivity|exact Hv]|intros n k cnt log _ _ Hv _; split; [reflexivity|exact Hv]]. }
    assert (HQ : QQ (S f)).
    { intros n k cnt log Hd Hq Hv Hk. rewrite steps_S. destruct cnt as [|c]; [split; [reflexivity|exact Hv]|].
      assert (Hq' := Hq). rewrite quietb_unfold, Hd in Hq'. cbn in Hq'. apply andb_true_iff in Hq' as [Hop Hsub].
      assert (Hv' := Hv). rewrite vergeb_unfold, Hd in Hv'. cbn in Hv'. apply andb_true_iff in Hv' as [Hvn Hvsub].
      rewrite (q_quiet _ Hop k n Hk).
      destruct (IHP _ Hsub Hvsub) as [Hs Hvs].
      assert (Hq2 : forall sb, map strip sb = map strip (n_subs n) -> forallb (quietb q) sb = true).
      { intros sb E. now rewrite (quietb_strip_list q _ _ E). }
      assert (Lk : (lo <=? k + 1) = true) by (apply Z.leb_le; lia).
      destruct (conv adapt t dv f (n_subs n)) as [sb l|e sb l] eqn:Ec; cbn [gout] in Hs, Hvs.
      - specialize (IHQ (set_ver (set_subs n sb) (k + 1)) (k + 1) c (log ++ l)%list).
        rewrite set_ver_dflt, set_subs_dflt in IHQ.
        assert (A : quietb q (set_ver (set_subs n sb) (k + 1)) = true).
        { rewrite quietb_unfold, set_ver_op, set_subs_op, set_ver_subs, set_subs_subs, Hop, orb_true_r. cbn. now apply Hq2. }
        assert (B : vergeb lo (set_ver (set_subs n sb) (k + 1)) = true).
        { rewrite vergeb_unfold, set_ver_dflt, set_subs_dflt, Hd, set_ver_ver, set_ver_subs, set_subs_subs. cbn. now rewrite Lk, Hvs. }
        specialize (IHQ Hd A B ltac:(lia)).
        destruct (steps adapt t dv f (set_ver (set_subs n sb) (k + 1)) (k + 1) c (log ++ l)%list); auto;
          destruct IHQ as [IHQ1 IHQ2]; (split; [|exact IHQ2]); rewrite IHQ1, strip_set_ver; now apply strip_set_subs.
      - assert (A : quietb q (set_subs n sb) = true).
        { rewrite quietb_unfold, set_subs_op, set_subs_subs, Hop, orb_true_r. cbn. now apply Hq2. }
        assert (B : vergeb lo (set_subs n sb) = true).
        { rewrite vergeb_unfold, set_subs_dflt, Hd, set_subs_ver, set_subs_subs. cbn. now rewrite Hvn, Hvs. }
        destruct (is_vce e); [|split; [now apply strip_set_subs|exact B]].
        specialize (IHQ (set_subs n sb) (k + 1) c (log ++ l ++ [n_op n])%list).
        rewrite set_subs_dflt in IHQ. specialize (IHQ Hd A B ltac:(lia)).
        destruct (steps adapt t dv f (set_subs n sb) (k + 1) c (log ++ l ++ [n_op n])%list); auto;
          destruct IHQ as [IHQ1 IHQ2]; (split; [|exact IHQ2]); rewrite IHQ1; now apply strip_set_subs. }
    split; [|exact HQ].
    intros todo Hq Hv. rewrite conv_S.
    destruct todo as [|n rest]; [split; reflexivity|].
    cbn [forallb] in Hq, Hv. apply andb_true_iff in Hq as [Hqn Hqr]. apply andb_true_iff in Hv as [Hvn Hvr].
    destruct (IHP rest Hqr Hvr) as [Hr1 Hr2].
    assert (Same : map strip (n :: rest) = map strip (n :: rest) /\ forallb (vergeb lo) (n :: rest) = true).
    { split; [reflexivity|]. cbn [forallb]. now rewrite Hvn, Hvr. }
    destruct (negb (n_dflt n)) eqn:Ed.
    - rewrite gout_cons. cbn [map forallb]. rewrite Hr1, Hr2, Hvn. auto.
    - apply negb_false_iff in Ed.
      assert (Hv' := Hvn). rewrite vergeb_unfold, Ed in Hv'. cbn in Hv'. apply andb_true_iff in Hv' as [Hvv _].
      destruct (match n_ver n with Some v => Some v | None => dv end) as [v|] eqn:Ev; [|exact Same].
      assert (Hlo : lo <= v).
      { destruct (n_ver n) as [x|]; [inversion Ev; subst x; now apply Z.leb_le|]. pose proof dv_ok as D. rewrite Ev in D. exact D. }
      destruct (n_ref n); [exact Same|]. destruct (t <? v); [exact Same|].
      pose proof (IHQ n v (Z.to_nat (t - v)) [] Ed Hqn Hvn Hlo) as Hn.
      destruct (steps adapt t dv f n v (Z.to_nat (t - v)) []) as [n' l1|news l1|? n' ?|? ? ?]; try contradiction;
        destruct Hn as [Hn1 Hn2].
      + rewrite gout_cons. cbn [map forallb]. now rewrite Hn1, Hn2, Hr1, Hr2.
      + cbn [gout map forallb]. now rewrite Hn1, Hn2, Hvr.
  Qed.

  Lemma conv_quiet_strip : forall f todo out l,
    forallb (quietb q) todo = true -> forallb (vergeb lo) todo = true ->
    conv adapt t dv f todo = GFin out l -> map strip out = map strip todo.
  Proof. intros f todo out l Hq Hv H. destruct (proj1 (quiet_main f) todo Hq Hv) as [E _]. now rewrite H in E. Qed.
End Quiet.

(* the schema's view of a node does not look at versions or at the contents of subgraphs *)
Lemma vnode_of_strip : forall n n' info, strip n' = strip n -> vnode_of n' info = vnode_of n info /\ n_op n' = n_op n.
Proof.
  intros n n' info E. rewrite !strip_unfold in E. injection E as Eo _ _ Ea Ei _ _.
  unfold vnode_of, graph_attrs. now rewrite Ea, Ei, Eo.
Qed.
