"""C09 translator: who reads shape information?  (completeness obligation)

Regenerated on every run from the CURRENT source with Python `ast` (fail-closed):

* the partial evaluators registered in onnxscript/optimizer/_constant_folding.py (`@register("Op", ...)`), each with the
  set of shape-reading features its body uses (directly or through module-level helpers it calls);
* the rewrite rules (RewriteRuleClassBase subclasses, `RewriteRule(pattern, replacement, check)` objects) and the shape
  helpers of the files the property anchors, with the same feature sets.

Written to coq/Gen/ShapeUsers.v.  coq/Shape/Coverage.v maps every entry to the C09 theorems that model it (for every
valuation) or lists it as "differential only" with the reason; Shape/CoverageProofs.v proves `coverage_okb = true` by
vm_compute over the regenerated lists: a new, renamed or removed evaluator / rule, or one that starts (or stops) reading
shape information, breaks that proof.
"""
from __future__ import annotations

import ast
import os

from harness import c09_norm, common
from harness.common import clist, cstr

CF = "onnxscript/optimizer/_constant_folding.py"
RULE_FILES = [
    "onnxscript/rewriter/rules/common/_basic_rules.py",
    "onnxscript/rewriter/rules/common/_collapse_slices.py",
    "onnxscript/rewriter/rules/common/_materialize_reshape_shape.py",
    "onnxscript/rewriter/rules/common/_remove_expand_before_binary_op.py",
    "onnxscript/rewriter/rules/common/_redundant_scatter_nd.py",
    "onnxscript/rewriter/rules/common/_broadcast_to_matmul.py",
]
HELPERS = "onnxscript/rewriter/_ir_utils.py"

# names whose occurrence (as attribute, call or bare name) means "reads shape information / symbolic values"
VOCAB = {
    "shape", "get_shape_value", "get_sym_value", "set_sym_value", "_same_shape", "_merge_shapes",
    "same_shape", "same_dim", "get_dim", "has_rank", "is_dynamic", "is_static", "has_unknown_dim",
    "SymbolicDim", "rank", "dims", "symbolic_value_map", "_sym_value_map",
}
# bare names (functions called without a receiver); local variables called `shape` / `rank` are not features
NAME_VOCAB = {"_same_shape", "_merge_shapes", "same_shape", "same_dim", "get_dim", "has_rank", "SymbolicDim"}
RULE_BASES = {"RewriteRuleClassBase"}
RULE_CTORS = {"RewriteRule"}


class Broken(Exception):
    pass


def _names_in(node):
    """(vocabulary features, names of callees) occurring in a function / class body."""
    feats, callees = set(), set()
    for n in ast.walk(node):
        if isinstance(n, ast.Attribute):
            if n.attr in VOCAB:
                feats.add(n.attr)
            if isinstance(n.value, ast.Name) and n.value.id == "self":
                callees.add("self." + n.attr)
        elif isinstance(n, ast.Name) and n.id in NAME_VOCAB:
            feats.add(n.id)
        if isinstance(n, ast.Call) and isinstance(n.func, ast.Name):
            callees.add(n.func.id)
    return feats, callees


def _closure(name, direct, seen=None):
    """Features of `name` including those of every module-level function it mentions (transitively)."""
    seen = seen if seen is not None else set()
    if name in seen or name not in direct:
        return set()
    seen.add(name)
    feats, callees = direct[name]
    out = set(feats)
    for c in callees:
        out |= _closure(c, direct, seen)
    return out


def _parse(repo, rel):
    path = os.path.join(repo, rel)
    try:
        src = open(path).read()
    except OSError as e:
        raise Broken(f"{rel}: cannot be read ({e})")
    try:
        return ast.parse(src)
    except SyntaxError as e:
        raise Broken(f"{rel}: does not parse ({e})")


def _is_register_call(dec):
    return (isinstance(dec, ast.Call)
            and ((isinstance(dec.func, ast.Name) and dec.func.id == "register")
                 or (isinstance(dec.func, ast.Attribute) and dec.func.attr == "register")))


def evaluators(repo):
    """[(op, function, domain, version, [features])] in source order."""
    tree = _parse(repo, CF)
    direct = {}
    for st in tree.body:
        if isinstance(st, ast.FunctionDef):
            direct[st.name] = _names_in(st)
    out = []
    decorated = set()
    for st in tree.body:
        if not isinstance(st, ast.FunctionDef):
            continue
        for dec in st.decorator_list:
            if not _is_register_call(dec):
                raise Broken(f"{CF}: decorator of {st.name} is not register(...): {ast.dump(dec)[:120]}")
            decorated.add(id(dec))
            if not dec.args or not isinstance(dec.args[0], ast.Constant) or not isinstance(dec.args[0].value, str):
                raise Broken(f"{CF}: register() of {st.name} without a literal op name")
            if len(dec.args) > 1:
                raise Broken(f"{CF}: register() of {st.name} with positional arguments beyond the op name")
            domain, version = "", "any"
            for kw in dec.keywords:
                if kw.arg == "domain" and isinstance(kw.value, ast.Constant):
                    domain = str(kw.value.value)
                elif kw.arg == "version":
                    try:
                        version = repr(ast.literal_eval(kw.value))
                    except ValueError:
                        raise Broken(f"{CF}: register() of {st.name}: version is not a literal")
                else:
                    raise Broken(f"{CF}: register() of {st.name}: unexpected keyword {kw.arg}")
            out.append((dec.args[0].value, st.name, domain, version, sorted(_closure(st.name, direct))))
    # any other use of register (call outside a decorator of a module-level function, nested definitions, aliases)
    n_alias = 0
    for n in ast.walk(tree):
        if _is_register_call(n) and id(n) not in decorated:
            raise Broken(f"{CF}: register(...) used outside a decorator of a module-level function (line {n.lineno})")
        if isinstance(n, ast.Attribute) and n.attr == "op_evaluators" and isinstance(n.ctx, ast.Store):
            n_alias += 1
        if isinstance(n, ast.Subscript) and isinstance(n.value, ast.Attribute) and n.value.attr == "op_evaluators" \
                and isinstance(n.ctx, ast.Store):
            n_alias += 1
    if n_alias > 2:     # __init__ (1) + register() body (1)
        raise Broken(f"{CF}: op_evaluators is written at {n_alias} places (expected: __init__ and register)")
    if not out:
        raise Broken(f"{CF}: no registered evaluator found")
    return out


def _base_names(cls):
    out = set()
    for b in cls.bases:
        if isinstance(b, ast.Name):
            out.add(b.id)
        elif isinstance(b, ast.Attribute):
            out.add(b.attr)
    return out


def rule_units(repo, rel):
    """[(file, unit, kind, [features])]: kind = class | rule | function."""
    tree = _parse(repo, rel)
    short = os.path.basename(rel)
    direct = {}
    classes = []
    for st in tree.body:
        if isinstance(st, ast.FunctionDef):
            direct[st.name] = _names_in(st)
        elif isinstance(st, ast.ClassDef):
            classes.append(st)
    out = []
    for cls in classes:
        bases = _base_names(cls)
        if not (bases & RULE_BASES):
            raise Broken(f"{rel}: class {cls.name} has bases {sorted(bases)} (expected a RewriteRuleClassBase)")
        local = dict(direct)
        for m in cls.body:
            if isinstance(m, ast.FunctionDef):
                local["self." + m.name] = _names_in(m)
        feats = set()
        for m in cls.body:
            if isinstance(m, ast.FunctionDef):
                feats |= _closure("self." + m.name, local)
        out.append((short, cls.name, "class", sorted(feats)))
    # RewriteRule(pattern, replacement, check) objects
    assigned = {}
    for st in tree.body:
        if isinstance(st, ast.Assign) and isinstance(st.value, ast.Call):
            f = st.value.func
            fname = f.id if isinstance(f, ast.Name) else (f.attr if isinstance(f, ast.Attribute) else None)
            if fname in RULE_CTORS:
                if len(st.targets) != 1 or not isinstance(st.targets[0], ast.Name):
                    raise Broken(f"{rel}: RewriteRule(...) not assigned to a single name (line {st.lineno})")
                assigned[id(st.value)] = st.targets[0].id
                feats = set()
                for a in list(st.value.args) + [kw.value for kw in st.value.keywords]:
                    if isinstance(a, ast.Name):
                        feats |= _closure(a.id, direct)
                    elif isinstance(a, ast.Lambda):
                        fs, cs = _names_in(a)
                        feats |= fs
                        for c in cs:
                            feats |= _closure(c, direct)
                    elif not isinstance(a, ast.Constant):
                        raise Broken(f"{rel}: RewriteRule(...) argument of {st.targets[0].id} is neither a name nor a lambda")
                out.append((short, st.targets[0].id, "rule", sorted(feats)))
    for n in ast.walk(tree):
        if isinstance(n, ast.Call):
            f = n.func
            fname = f.id if isinstance(f, ast.Name) else (f.attr if isinstance(f, ast.Attribute) else None)
            if fname in RULE_CTORS and id(n) not in assigned:
                raise Broken(f"{rel}: RewriteRule(...) constructed outside a module-level assignment (line {n.lineno})")
    return out


def helper_units(repo):
    tree = _parse(repo, HELPERS)
    short = os.path.basename(HELPERS)
    out = []
    for st in tree.body:
        if isinstance(st, ast.FunctionDef):
            feats, _ = _names_in(st)
            if feats:
                out.append((short, st.name, "function", sorted(feats)))
        elif isinstance(st, ast.ClassDef):
            feats, _ = _names_in(st)
            if feats:
                out.append((short, st.name, "class", sorted(feats)))
    return out


# ----------------------------------------------------------------------------- comparison operators at the shape-reading sites
# helper calls that ARE a comparison / a guard on dims or shapes
CMP_CALLS = {"same_dim", "same_shape", "_same_shape", "_merge_shapes", "is_static", "is_dynamic", "has_unknown_dim", "has_rank",
             "broadcast_keeps_rank", "_known_equal"}
# isinstance(x, T) is a guard on a dim / shape only for these T
DIM_TYPES = {"int", "ir.SymbolicDim", "SymbolicDim", "ir.Shape"}
_OPS = {"Eq", "NotEq", "Lt", "LtE", "Gt", "GtE", "Is", "IsNot", "In", "NotIn"}


def _is_none(n):
    return isinstance(n, ast.Constant) and n.value is None


_NEG = {"Eq": "NotEq", "NotEq": "Eq", "Is": "IsNot", "IsNot": "Is", "In": "NotIn", "NotIn": "In"}
_SYM = {"Eq", "NotEq", "Is", "IsNot"}


def _isinstance_parts(n, where):
    """(subject text, [type texts]) of an isinstance call, None for another node."""
    if not (isinstance(n, ast.Call) and isinstance(n.func, ast.Name) and n.func.id == "isinstance"):
        return None
    if len(n.args) != 2 or n.keywords:
        raise Broken(f"{where}: isinstance with {len(n.args)} arguments (line {n.lineno})")
    ty = n.args[1]
    return ast.unparse(n.args[0]), ([ast.unparse(e) for e in ty.elts] if isinstance(ty, ast.Tuple) else [ast.unparse(ty)])


def comparisons_in(node, where):
    """Every comparison of a unit IN NORMAL FORM (harness/c09_norm.py: names by binding position, temporaries substituted,
    annotations / docstrings gone), in source order, as text `Op: left ; right` / `call f: args [@receiver]` /
    `isinstance: x ; T1 | T2`.  Canonical spellings (c09_norm step 5): `not a == b` is recorded as NotEq (likewise is / in;
    `not` is pushed through and / or), the two operands of == / != / is / is not are sorted, an isinstance against a tuple
    and an `or` of isinstance calls on the same subject are one record with the types sorted.
    Left out by rule (not comparisons of dims): presence tests `x is (not) None`, isinstance against types outside DIM_TYPES."""
    found = []

    def isinst(pos, subj, tys):
        tys = sorted(set(tys))
        if any(x in DIM_TYPES for x in tys):
            found.append((pos[0], pos[1], "isinstance: " + subj + " ; " + " | ".join(tys)))

    def rec(n, neg=False):
        if isinstance(n, ast.UnaryOp) and isinstance(n.op, ast.Not):
            rec(n.operand, not neg)
            return
        if isinstance(n, ast.BoolOp):
            vals = list(n.values)
            if isinstance(n.op, ast.Or):
                # isinstance(x, A) or isinstance(x, B) [or ...] on one subject == isinstance(x, (A, B))
                groups, rest = {}, []
                for v in vals:
                    p = _isinstance_parts(v, where)
                    if p is None:
                        rest.append(v)
                    elif p[0] in groups:
                        groups[p[0]][1].extend(p[1])
                        rec(v.args[0]); rec(v.args[1])
                    else:
                        groups[p[0]] = ((v.lineno, v.col_offset), list(p[1]))
                        rec(v.args[0]); rec(v.args[1])
                for subj, (pos, tys) in groups.items():
                    isinst(pos, subj, tys)
                vals = rest
            for v in vals:
                rec(v, neg)
            return
        if isinstance(n, ast.Compare):
            ops = [type(o).__name__ for o in n.ops]
            for o in ops:
                if o not in _OPS:
                    raise Broken(f"{where}: unknown comparison operator {o} (line {n.lineno})")
            operands = [n.left] + list(n.comparators)
            if not (all(o in ("Is", "IsNot") for o in ops) and any(_is_none(x) for x in operands)):
                texts = [ast.unparse(x) for x in operands]
                if len(ops) == 1:
                    if neg and ops[0] in _NEG:
                        ops = [_NEG[ops[0]]]
                    if ops[0] in _SYM:
                        texts = sorted(texts)
                found.append((n.lineno, n.col_offset, ",".join(ops) + ": " + " ; ".join(texts)))
        elif isinstance(n, ast.Call):
            f = n.func
            name = f.id if isinstance(f, ast.Name) else (f.attr if isinstance(f, ast.Attribute) else None)
            if name == "isinstance":
                p = _isinstance_parts(n, where)
                if p is None:
                    raise Broken(f"{where}: isinstance called through a receiver (line {n.lineno})")
                isinst((n.lineno, n.col_offset), p[0], p[1])
            elif name in CMP_CALLS:
                recv = " @" + ast.unparse(f.value) if isinstance(f, ast.Attribute) else ""
                args = [ast.unparse(a) for a in n.args] + [f"{kw.arg}={ast.unparse(kw.value)}" for kw in n.keywords]
                found.append((n.lineno, n.col_offset, f"call {name}: " + " ; ".join(args) + recv))
        for c in ast.iter_child_nodes(n):
            rec(c)

    rec(node)
    return [txt for _, _, txt in sorted(found)]


def comparison_units(repo):
    """[(key "file:unit", [comparison text])] for every module-level function / class of the anchored files whose body
    reads shape information (non-empty direct feature set), in source order."""
    out = []
    for rel in [CF] + RULE_FILES + [HELPERS]:
        tree = _parse(repo, rel)
        short = os.path.basename(rel)
        seen = set()
        helpers = c09_norm.expression_helpers(tree, lambda f: bool(_names_in(f)[0]))
        for st in tree.body:
            if isinstance(st, (ast.FunctionDef, ast.AsyncFunctionDef, ast.ClassDef)):
                feats, _ = _names_in(st)
                if not feats:
                    continue
                if st.name in seen:
                    raise Broken(f"{rel}: {st.name} is defined twice at module level")
                seen.add(st.name)
                try:
                    unit = c09_norm.normal_unit(st, helpers)
                except (SyntaxError, ValueError, RecursionError) as e:
                    raise Broken(f"{rel}:{st.name}: the unit cannot be brought to normal form ({type(e).__name__}: {e})")
                out.append((f"{short}:{st.name}", comparisons_in(unit, f"{rel}:{st.name}")))
    return out


def collect(repo):
    ev = evaluators(repo)
    units = []
    for rel in RULE_FILES:
        units += rule_units(repo, rel)
    units += helper_units(repo)
    return ev, units


def coq_text(ev, units, cmps=None):
    lines = ["(* GENERATED by harness/c09_users.py from the current source: do not edit. *)",
             "From Coq Require Import String List.", "Import ListNotations.", "Local Open Scope string_scope.", "",
             "(* key = \"Op/function\" of every @register'd partial evaluator of _constant_folding.py, with the shape-reading",
             "   features of its body (closure over module-level helpers) *)",
             "Definition evaluators : list (string * list string) :="]
    lines.append("  " + clist([f"({cstr(op + '/' + fn + ('' if dom == '' else '@' + dom) + ('' if ver == 'any' else ' v' + ver))}, "
                                 f"{clist([cstr(f) for f in feats])})" for op, fn, dom, ver, feats in ev]) + ".")
    lines += ["", "(* key = \"file:unit\" of every rewrite-rule class / RewriteRule object / shape helper of the anchored files *)",
              "Definition rule_units : list (string * list string) :="]
    lines.append("  " + clist([f"({cstr(f + ':' + u)}, {clist([cstr(x) for x in feats])})" for f, u, k, feats in units]) + ".")
    if cmps is not None:
        lines += ["", "(* key = \"file:unit\" of every module-level function / class of the anchored files that reads shape information, with every",
                  "   comparison of its body in source order: `Op: left ; right`, `call helper: args @receiver`, `isinstance: x ; T1 | T2`,",
                  "   read off the NORMAL FORM of the unit (harness/c09_norm.py: parameters p<i> / locals v<i> by binding position,",
                  "   single-use temporaries substituted, canonical spelling of == / != / not / isinstance); presence tests against",
                  "   None and isinstance against non-dim types are left out by rule *)",
                  "Definition comparisons : list (string * list string) :="]
        lines.append("  " + clist(["\n   (" + cstr(k) + ", " + clist([cstr(x) for x in cs]) + ")" for k, cs in cmps]) + ".")
    return "\n".join(lines) + "\n"


def regenerate(ctx):
    try:
        ev, units = collect(common.REPO)
        cmps = comparison_units(common.REPO)
    except Broken as e:
        ctx.tie_broken("translator", "ShapeUsers", str(e))
        # keep the previous file: the proof over it still runs, the tie is reported as broken
        return None
    ctx.gen("ShapeUsers", coq_text(ev, units, cmps))
    ctx.c09_comparisons = cmps
    return ev, units


if __name__ == "__main__":
    e, u = collect(common.REPO)
    for x in e:
        print(x)
    for x in u:
        print(x)
    for k, cs in comparison_units(common.REPO):
        print(k)
        for c in cs:
            print("     ", c)
