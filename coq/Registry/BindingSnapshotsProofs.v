(* C16 -- proofs about the pinned two-variant snapshots of Registry/BindingSnapshots.v:
   the as-read form of every family is refuted by a concrete conforming call, the repaired form
   binds every conforming call well (binds_ok_sound). *)
From Coq Require Import String List Bool Arith Lia.
Require Import OV.Registry.Binding OV.Registry.BindingProofs OV.Registry.BindingSnapshots.
Import ListNotations.
Local Open Scope string_scope.

(* the boolean reading of the property's clauses follows from the propositional one *)
Lemma binding_good_goodb : forall s f c b, binding_good s f c b -> binding_goodb s b = true.
Proof.
  intros s f c b G. unfold binding_goodb. rewrite !andb_true_iff. repeat split.
  - apply forallb_forall. intros [p src] Hin. unfold pair_goodb; simpl.
    destruct src as [i|k|].
    + destruct (g_resolved _ _ _ _ G p (SPos i) Hin) as [a Ha]; [discriminate|].
      simpl in Ha. rewrite Ha. unfold pair_ok. destruct (is_tensor a) eqn:T.
      * rewrite (g_tensor _ _ _ _ G p (SPos i) a Hin Ha T). reflexivity.
      * exact (g_nontensor _ _ _ _ G p (SPos i) a Hin Ha T).
    + destruct (g_resolved _ _ _ _ G p (SKw k) Hin) as [a Ha]; [discriminate|].
      simpl in Ha. rewrite Ha. unfold pair_ok. destruct (is_tensor a) eqn:T.
      * rewrite (g_tensor _ _ _ _ G p (SKw k) a Hin Ha T). reflexivity.
      * exact (g_nontensor _ _ _ _ G p (SKw k) a Hin Ha T).
    + destruct (p_required p) eqn:R; [|reflexivity].
      exfalso. exact (g_required _ _ _ _ G p SDefault Hin R eq_refl).
  - apply forallb_forall. intros i Hi.
    destruct (g_dropped_pos _ _ _ _ G i Hi) as [a [Ha Hd]]. rewrite Ha. exact Hd.
  - apply forallb_forall. intros k Hk. exact (g_dropped_kw _ _ _ _ G k Hk).
Qed.

(* a call on which call_goodb is false refutes the property's conclusion for that call *)
Lemma call_goodb_false_refutes : forall s f c, call_goodb s f c = false ->
  ~ exists b, bind f c = OK b /\ binding_good s f c b.
Proof.
  intros s f c H [b [Hb G]]. unfold call_goodb in H. rewrite Hb in H.
  rewrite (binding_good_goodb s f c b G) in H. discriminate.
Qed.

(* ... and the converse direction of the general theorem on one call: binds_ok gives call_goodb *)
Lemma binds_ok_call_goodb : forall s f, binds_ok s f = true -> forall c, conforms s c -> call_goodb s f c = true.
Proof.
  intros s f H c Hc. destruct (binds_ok_sound s f H c Hc) as [b [Hb G]].
  unfold call_goodb. rewrite Hb. exact (binding_good_goodb s f c b G).
Qed.

Definition refuted (s : schema) (f : fn_sig) : Prop :=
  exists c, conforms s c /\ ~ exists b, bind f c = OK b /\ binding_good s f c b.
Definition binds_all (s : schema) (f : fn_sig) : Prop :=
  forall c, conforms s c -> exists b, bind f c = OK b /\ binding_good s f c b.

Lemma as_read_refutedb_sound : forall fam, as_read_refutedb fam = true -> refuted (fam_schema fam) (fam_as_read fam).
Proof.
  intros fam H. unfold as_read_refutedb in H.
  destruct (refuting_calls (fam_schema fam) (fam_as_read fam)) as [|c r] eqn:E; [discriminate|].
  assert (Hin : In c (refuting_calls (fam_schema fam) (fam_as_read fam))) by (rewrite E; left; reflexivity).
  unfold refuting_calls in Hin. apply filter_In in Hin as [_ Hc]. apply andb_true_iff in Hc as [Hconf Hbad].
  apply negb_true_iff in Hbad. exists c. split; [exact Hconf | apply call_goodb_false_refutes; exact Hbad].
Qed.

(* a refuted signature cannot pass binds_ok (so the registry theorem cannot hold of it unexcepted) *)
Lemma refuted_not_binds_ok : forall s f, refuted s f -> binds_ok s f = false.
Proof.
  intros s f [c [Hc Hn]]. destruct (binds_ok s f) eqn:B; [|reflexivity].
  exfalso. apply Hn. exact (binds_ok_sound s f B c Hc).
Qed.

Lemma families_checked : forallb (fun fam => as_read_refutedb fam && repaired_bindsb fam) families = true.
Proof. vm_compute. reflexivity. Qed.

(* every family: the as-read signature is refuted, the repaired one binds every conforming call well *)
Theorem repairs_sound : forall fam, In fam families ->
  refuted (fam_schema fam) (fam_as_read fam) /\ binds_all (fam_schema fam) (fam_repaired fam).
Proof.
  intros fam Hin. pose proof families_checked as H. rewrite forallb_forall in H.
  specialize (H fam Hin). apply andb_true_iff in H as [Ha Hr]. split.
  - apply as_read_refutedb_sound; exact Ha.
  - intros c Hc. exact (binds_ok_sound _ _ Hr c Hc).
Qed.

(* the witnesses spelled out for the families whose failure mode differs *)
Lemma tensor_bool_refuted : exists c, conforms tensor_bool_schema c /\ bind tensor_bool_sig_as_read c = Err (MissingRequired "dtype").
Proof. exists (mkC 1 []). split; reflexivity. Qed.
Lemma tensor_bool_device_refuted : exists c, conforms tensor_bool_schema c /\ bind tensor_bool_sig_as_read c = Err (UnexpectedKeyword "device").
Proof. exists (mkC 1 ["dtype"; "device"]). split; reflexivity. Qed.
Lemma bernoulli_refuted : exists c, conforms bernoulli_schema c /\ bind bernoulli_sig_as_read c = Err (UnexpectedKeyword "generator").
Proof. exists (mkC 1 ["generator"]). split; reflexivity. Qed.
Lemma stft_refuted : exists c, conforms stft_schema c /\ bind stft_sig_as_read c = Err TooManyPositional.
Proof. exists (mkC 9 []). split; reflexivity. Qed.
Lemma device_put_refuted : exists c b, conforms device_put_schema c /\ bind device_put_sig_as_read c = OK b /\
  b_dropped_pos b = [2] /\ (exists a, nth_error (pos_args device_put_schema) 2 = Some a /\ droppable (a_name a) = false).
Proof. exists (mkC 3 []). eexists. split; [reflexivity|]. split; [reflexivity|]. split; [reflexivity|]. eexists. split; reflexivity. Qed.
Lemma prims_var_refuted : exists c, conforms prims_var_schema c /\ bind prims_var_sig_as_read c = Err (MissingRequired "correction").
Proof. exists (mkC 2 []). split; reflexivity. Qed.
Lemma quantize_per_tensor_tensor2_refuted : exists c b p a, conforms quantize_per_tensor_tensor2_schema c /\
  bind quantize_per_tensor_tensor2_sig_as_read c = OK b /\ In (p, SPos 1) (b_bound b) /\
  arg_of quantize_per_tensor_tensor2_schema (SPos 1) = Some a /\ is_tensor a = true /\ p_kind p = PAttr AFloat.
Proof.
  exists (mkC 6 []). eexists. eexists. eexists. split; [reflexivity|]. split; [reflexivity|].
  split; [right; left; reflexivity|]. split; [reflexivity|]. split; reflexivity.
Qed.
