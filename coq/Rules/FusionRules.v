(* C05 side of the rules exported by onnxscript/rewriter/rules/fusion (_layer_norm, _rms_normalization, _rotary_embedding,
   _gqa).  The algebra lives in coq/Fusion (C19, imported read-only); this file states, per rule, the *side conditions
   under which the rule may fire* as an executable predicate over everything the pattern, `check` and `rewrite` read from
   the host -- including the conditions the property names: unknown type/shape, non-constant operand, a value that is only
   approximately the required one, an attribute left at a non-trivial default -- and the host semantics they guard.
   Each predicate is the model of the SHIPPED check; where a commit repaired the check (cf408b5 exponent, aa8c462 GQA) the
   previous check is kept as the `legacy` variant.  The correspondence is two-directional on the generated hosts (fired <-> the
   variant's predicate); the harness decides per run which variant the implementation is, a legacy implementation being a
   violation that is replayed with its input.
   No proofs in this file. *)
From Coq Require Import List ZArith Bool Arith.
Require Import OV.Fusion.Field OV.Fusion.Norm OV.Fusion.Rotary OV.Fusion.Attn.
Import ListNotations.

(* a constant exponent of Pow as a fraction; the pattern needs exactly 2 *)
Inductive sq_form := SqMulF | SqPowF (num den : Z).
Definition sq_exact (s : sq_form) : bool :=
  match s with SqMulF => true | SqPowF n d => (0 <? d)%Z && (n =? 2 * d)%Z end.
(* the check before commit cf408b5 (`legacy`): the literal 2 was matched with math.isclose(e, 2, rel_tol=1e-5, abs_tol=1e-8):
   |e - 2| <= max(1e-5 * max(|e|, 2), 1e-8), here on the exact fraction e = n/d, d > 0 *)
Definition sq_close (s : sq_form) : bool :=
  match s with
  | SqMulF => true
  | SqPowF n d =>
      (0 <? d)%Z &&
      let diff := Z.abs (n - 2 * d) in
      ((diff * 100000 <=? Z.max (Z.abs n) (2 * d)) || (diff * 100000000 <=? d))%Z
  end.
Definition sq_ok (legacy : bool) (s : sq_form) : bool := if legacy then sq_close s else sq_exact s.
Definition olz_is (l : option (list Z)) (v : Z) : bool :=
  match l with Some [x] => Z.eqb x v | _ => false end.
Definition oz_is (a : option Z) (v : Z) : bool := match a with Some x => Z.eqb x v | None => false end.

(* the dtype / epsilon part of LayerNormFusion.check and RmsNormFusion.check with the attributes their rewrite emits
   (axis, stash_type); kept here so that C05 does not move with C19's variants of the same functions (rank guards) *)
Definition ln_check_c05 (xdt : dtype) (eps_singleton : bool) : option (Z * Z) :=
  if is_fp_type xdt && eps_singleton then Some ((-1)%Z, dtype_code xdt) else None.
Definition rms_check_c05 (xdt sdt : dtype) (compute : option dtype) (eps_float_singleton : bool) : option (Z * Z) :=
  let stash := match compute with Some c => c | None => xdt end in
  if eps_float_singleton && is_float_type xdt && is_float_type sdt && is_fp_type stash
  then Some ((-1)%Z, dtype_code stash) else None.

(* ------------------------------------------------------------------------------------------ LayerNormFusion *)
Record ln_host := {
  lh_xdt : option dtype;                 (* element type of x; None = not known to the rewriter *)
  lh_eps_singleton : bool;               (* epsilon is a constant of the model with exactly one element *)
  lh_axes1 : option (list Z); lh_axes2 : option (list Z);   (* constant `axes` operand of the two ReduceMean; None = not constant *)
  lh_keepdims1 : option Z; lh_keepdims2 : option Z;         (* keepdims attribute as written; None = absent *)
  lh_sq : sq_form; lh_norm : norm_alt }.
Definition ln_fires_v (legacy : bool) (h : ln_host) : option (Z * Z) :=
  if olz_is (lh_axes1 h) (-1) && olz_is (lh_axes2 h) (-1) && oz_is (lh_keepdims1 h) 1 && oz_is (lh_keepdims2 h) 1
     && sq_ok legacy (lh_sq h)
  then match lh_xdt h with Some d => ln_check_c05 d (lh_eps_singleton h) | None => None end
  else None.
(* the shipped rule (exact exponent) *)
Definition ln_fires (h : ln_host) : option (Z * Z) := ln_fires_v false h.

(* ------------------------------------------------------------------------------------------ RmsNormFusion *)
Record rms_host := {
  rh_xdt : option dtype; rh_sdt : option dtype;
  rh_compute : option dtype;             (* Cast(x, to=..) alternative matched *)
  rh_eps_float_singleton : bool;
  rh_axes : option (list Z); rh_keepdims : option Z; rh_noop : option Z;   (* noop_with_empty_axes as written *)
  rh_exp : sq_form;                      (* always a Pow here *)
  rh_mul_order : bool }.
Definition rms_fires_v (legacy : bool) (h : rms_host) : option (Z * Z) :=
  if olz_is (rh_axes h) (-1) && oz_is (rh_keepdims h) 1 && oz_is (rh_noop h) 0 && sq_ok legacy (rh_exp h)
  then match rh_xdt h, rh_sdt h with
       | Some x, Some s => rms_check_c05 x s (rh_compute h) (rh_eps_float_singleton h)
       | _, _ => None
       end
  else None.
Definition rms_fires (h : rms_host) : option (Z * Z) := rms_fires_v false h.

Section NormSem.
  Variable F : Type.
  Variable o : fops F.
  Variable sqrt : F -> F.
  Variable powr : F -> Z -> Z -> F.      (* ONNX Pow with the constant exponent num/den: abstract *)
  Definition sq_sem (s : sq_form) (d : list F) : list F :=
    match s with SqMulF => vmul o d d | SqPowF n m => map (fun v => powr v n m) d end.
  (* what the matched sub-graph computes on one row of the last axis (its meaning when both reductions are over
     axes = [-1] with keepdims = 1, which is what ln_fires / rms_fires demand) *)
  Definition ln_host_sem (h : ln_host) (x scale : list F) (eps : F) : list F :=
    let d := deviation F o x in
    let std := sqrt (fadd o (mean o (sq_sem (lh_sq h) d)) eps) in
    let normalized := match lh_norm h with NormRecip => smap (fmul o) d (recip o std) | NormDiv => smap (fdiv o) d std end in
    vmul o normalized scale.
  Definition rms_host_sem (h : rms_host) (x scale : list F) (eps : F) : list F :=
    let r := sqrt (fadd o (mean o (sq_sem (rh_exp h) x)) eps) in
    let normalized := smap (fmul o) x (recip o r) in
    if rh_mul_order h then vmul o normalized scale else vmul o scale normalized.
End NormSem.

(* ------------------------------------------------------------------------------------------ RotaryEmbedding23Fusion *)
Record rot_host := {
  ro_rank : option nat;                  (* rank of x; None = shape unknown *)
  ro_dim1 : option Z; ro_dim3 : option Z;         (* static num_heads / head_size, None = symbolic or unknown *)
  ro_s1 : option Z; ro_e1 : option Z; ro_s2 : option Z; ro_e2 : option Z;   (* one-element constants, None = not constant *)
  ro_one1 : option Z; ro_one2 : option Z }.                                 (* Unsqueeze axes operands *)
Definition rot_fires (h : rot_host) : option Z :=
  match ro_rank h, ro_s1 h, ro_e1 h, ro_s2 h, ro_e2 h with
  | Some r, Some s1, Some e1, Some s2, Some e2 =>
      if oz_is (ro_one1 h) 1 && oz_is (ro_one2 h) 1 then rot_check r (ro_dim1 h) (ro_dim3 h) s1 e1 s2 e2 else None
  | _, _, _, _, _ => None
  end.

(* ------------------------------------------------------------------------------------------ PartialRotaryEmbedding23Fusion *)
Record partial_host := {
  ph_end1 : option Z; ph_start2 : option Z;       (* one-element integer constants, None = not constant *)
  ph_has_dim_attr : bool; ph_interleaved : option Z }.
Definition partial_fires (h : partial_host) : option Z :=
  match ph_end1 h, ph_start2 h with
  | Some e, Some s => partial_check e s (ph_has_dim_attr h) (ph_interleaved h)
  | _, _ => None
  end.

(* ------------------------------------------------------------------------------------------ OnnxGroupQueryAttention
   shapes: None = unknown; a dim is its static size, symbolic dims are encoded by the harness as distinct negative numbers
   (one number per name), unnamed unknown dims as pairwise distinct numbers below -1000.
   names: B=0 H=1 S=2 D=3 Hkv=4 P=5 T=6 ("S+P") G=7 *)
Record gqa_host := {
  gh_query : option (list Z); gh_key : option (list Z); gh_value : option (list Z);
  gh_past_key : option (list Z); gh_past_value : option (list Z);
  gh_present_key : option (list Z); gh_present_value : option (list Z);   (* outputs of Expand => Reshape *)
  gh_expand_key : option (list Z); gh_expand_value : option (list Z);     (* outputs of Expand *)
  gh_is_causal : option Z;
  gh_unsq_scalar2 : bool;                (* both Unsqueeze axes operands are 0-d constants equal to 2 (the pattern literal) *)
  gh_concat_axis : option Z }.           (* axis attribute of the two Concat nodes as written (the pattern writes -2) *)
Definition gqa_pattern_ok (h : gqa_host) : bool := gh_unsq_scalar2 h && oz_is (gh_concat_axis h) (-2).
Fixpoint check_all (b : option bindings) (l : list (option (list Z) * list nat)) : option bindings :=
  match l with [] => b | (sh, names) :: t => check_all (check_shape b sh names) t end.
Definition gqa_operands (h : gqa_host) : list (option (list Z) * list nat) :=
  [(gh_query h, [0; 1; 2; 3]); (gh_key h, [0; 4; 2; 3]); (gh_value h, [0; 4; 2; 3]);
   (gh_past_key h, [0; 4; 5; 3]); (gh_past_value h, [0; 4; 5; 3]);
   (gh_present_key h, [0; 1; 6; 3]); (gh_present_value h, [0; 1; 6; 3])]%nat.
Definition gqa_expands (h : gqa_host) : list (option (list Z) * list nat) :=
  [(gh_expand_key h, [0; 4; 7; 6; 3]); (gh_expand_value h, [0; 4; 7; 6; 3])]%nat.
(* the check before commit aa8c462 (`legacy`): the seven check_shape calls *)
Definition gqa_bindings_impl (h : gqa_host) : option bindings := check_all (Some []) (gqa_operands h).
Definition gqa_fires_impl (h : gqa_host) : bool := gqa_pattern_ok h && match gqa_bindings_impl h with Some _ => true | None => false end.
(* the shipped check: is_causal absent or 0; in addition the Expand outputs are [B, Hkv, G, T, D]; H, Hkv, G static
   (isinstance(.., int): a non-negative code) with H = Hkv * G *)
Definition is_static_dim (v : Z) : bool := (0 <=? v)%Z.
Definition gqa_fires (h : gqa_host) : bool :=
  gqa_pattern_ok h && match gh_is_causal h with None => true | Some v => (v =? 0)%Z end &&
  match check_all (Some []) (gqa_operands h ++ gqa_expands h) with
  | Some b =>
      match lookup b 1, lookup b 4, lookup b 7 with
      | Some hq, Some hkv, Some g => is_static_dim hq && is_static_dim hkv && is_static_dim g && (hq =? hkv * g)%Z
      | _, _, _ => false
      end
  | None => false
  end.
Definition gqa_fires_v (legacy : bool) (h : gqa_host) : bool := if legacy then gqa_fires_impl h else gqa_fires h.

Section Gqa23.
  Variable A : Type.
  Variable d0 : A.
  Variable attn : list (list A) -> list (list A) -> list (list A) -> option (list (list A)) -> list (list A).
  (* ONNX Attention-23 on 4-D operands Q [B,H,S,Dh], K, V [B,Hkv,T,Dh] (operator document): query head h attends
     key/value head h / (H / Hkv); K, V are the present key/value (Concat(past, current) on the sequence axis, which the
     operator does itself when past_key / past_value are given and the host does with Concat(axis=-2)) *)
  Definition attention23 (B S T H Hkv Dh : nat) (q k v : list A) (mask : nat -> nat -> option (list (list A))) : list A :=
    stack_heads A d0 B H S Dh (fun b h =>
      attn (mat_at A d0 H S Dh q b h) (mat_at A d0 Hkv T Dh k b (h / (H / Hkv))) (mat_at A d0 Hkv T Dh v b (h / (H / Hkv))) (mask b h)).
  Definition gqa23_host (B S T Hkv G Dh : nat) (q kseq vseq : list A) mask : list A :=
    attention23 B S T (Hkv * G) (Hkv * G) Dh q (repeat_kv A d0 B Hkv G T Dh kseq) (repeat_kv A d0 B Hkv G T Dh vseq) mask.
  Definition gqa23_fused (B S T Hkv G Dh : nat) (q kseq vseq : list A) mask : list A :=
    attention23 B S T (Hkv * G) Hkv Dh q kseq vseq mask.
End Gqa23.

(* ------------------------------------------------------------------------------------------ correspondence *)
Inductive fcase :=
  | FLn (h : ln_host) (fired : bool)
  | FRms (h : rms_host) (fired : bool)
  | FRot (h : rot_host) (fired : bool)
  | FPartial (h : partial_host) (fired : bool)
  | FGqa (h : gqa_host) (fired : bool).
Definition is_some {X} (o : option X) : bool := match o with Some _ => true | None => false end.
(* two-directional on the generated hosts: the implementation fired exactly where the model of its check says so.
   pow_legacy / gqa_legacy select the model of the check before / after commits cf408b5 / aa8c462; the harness asks for
   both and reports which variant the implementation under test is *)
Definition fagrees (pow_legacy gqa_legacy : bool) (c : fcase) : bool :=
  match c with
  | FLn h f => Bool.eqb f (is_some (ln_fires_v pow_legacy h))
  | FRms h f => Bool.eqb f (is_some (rms_fires_v pow_legacy h))
  | FRot h f => Bool.eqb f (is_some (rot_fires h))
  | FPartial h f => Bool.eqb f (is_some (partial_fires h))
  | FGqa h f => Bool.eqb f (gqa_fires_v gqa_legacy h)
  end.
Fixpoint fdisagreeing (pl gl : bool) (i : nat) (l : list fcase) : list nat :=
  match l with [] => [] | c :: t => (if fagrees pl gl c then [] else [i]) ++ fdisagreeing pl gl (S i) t end.
(* attributes emitted by rewrite (axis, stash_type) *)
Definition fattrs (pl : bool) (c : fcase) (obs : option (Z * Z)) : bool :=
  match c with
  | FLn h true => oz2_eqb (ln_fires_v pl h) obs
  | FRms h true => oz2_eqb (rms_fires_v pl h) obs
  | _ => true
  end.
Fixpoint adisagreeing (pl : bool) (i : nat) (l : list (fcase * option (Z * Z))) : list nat :=
  match l with [] => [] | (c, o) :: t => (if fattrs pl c o then [] else [i]) ++ adisagreeing pl (S i) t end.
