"""C12: run one promotion case through the three front ends of onnxscript and observe the operand
actually fed to the op (element type, rank, values).

A case is a dict
    schema   : registry entry (harness/c12_registry.py)
    args     : list of ("T", dtype_code, known) | ("L", python literal) | ("N",) | ("O",)   -- O = opaque non-tensor operand
    pos      : index of the literal under observation
An observation is ("T", dtype_code, rank, [canonical elements]) or ("ERR", exception type name, message).
"""
from __future__ import annotations

import importlib
import math
import os
import sys

import numpy as np

STRING = 8

# --------------------------------------------------------------------------------------------- canonical values


def canon_elem(x):
    """Python/NumPy scalar -> hashable exact representation."""
    if isinstance(x, (bool, np.bool_)):
        return ("b", bool(x))
    if isinstance(x, (int, np.integer)):
        return ("i", int(x))
    if isinstance(x, (str, bytes, np.str_, np.bytes_)):
        return ("s", x.decode() if isinstance(x, (bytes, np.bytes_)) else str(x))
    if isinstance(x, (complex, np.complexfloating)):
        return ("c", canon_elem(float(np.real(x))), canon_elem(float(np.imag(x))))
    try:
        f = float(x)
    except (TypeError, ValueError):
        return ("o", repr(x))
    if math.isnan(f):
        return ("nan",)
    if math.isinf(f):
        return ("inf", f < 0)
    num, den = abs(f).as_integer_ratio()
    return ("f", math.copysign(1.0, f) < 0, num, den.bit_length() - 1)


def dtype_code_of_numpy(dt) -> int:
    import onnx_ir as ir
    if dt.kind in "OUS":
        return STRING
    return int(ir.DataType.from_numpy(dt))


def obs_of_array(arr, dtype_code=None):
    arr = np.asarray(arr)
    code = dtype_code if dtype_code is not None else dtype_code_of_numpy(arr.dtype)
    return ("T", code, arr.ndim, [canon_elem(v) for v in arr.reshape(-1).tolist()])


def obs_of_ir_tensor(t):
    """ir.TensorProtocol -> observation (values read through numpy; exotic dtypes via float())."""
    code = int(t.dtype)
    arr = t.numpy()
    if code == STRING:
        return ("T", code, arr.ndim, [canon_elem(v) for v in arr.reshape(-1).tolist()])
    return obs_of_array(arr, code)


def obs_of_exc(e):
    return ("ERR", type(e).__name__, str(e)[:200])


# --------------------------------------------------------------------------------------------- attributes

def dummy_attr(name, typ):
    if typ == "INT":
        return {"to": 1, "axis": 0}.get(name, 1)
    if typ == "STRING":
        return {"direction": "LEFT", "equation": "i->i", "mode": "TF"}.get(name, "x")
    if typ == "INTS":
        return [1]
    if typ == "FLOAT":
        return 1.0
    if typ == "FLOATS":
        return [1.0]
    if typ == "GRAPH":
        return "<graph>"
    raise NotImplementedError(f"required attribute {name}:{typ}")


# --------------------------------------------------------------------------------------------- ONNX Cast oracle

class CastOracle:
    """CastLike(Constant(t), like) evaluated by onnx.reference (all dtypes) and onnxruntime (where it can)."""

    def __init__(self):
        self.memo = {}
        self.runtime_disagreements = []
        self.ort_used = 0

    def cast(self, tensor, target_code):
        import onnx_ir as ir
        key = (int(tensor.dtype), tuple(canon_elem(v) for v in np.asarray(tensor.numpy()).reshape(-1).tolist())
               if int(tensor.dtype) != STRING else None, tensor.numpy().ndim, target_code)
        if key in self.memo:
            return self.memo[key]
        res = self._run(tensor, target_code)
        self.memo[key] = res
        return res

    def _run(self, tensor, target_code):
        import onnx
        import onnx.reference
        import onnx_ir as ir
        from onnx import helper
        tp = ir.serde.serialize_tensor(tensor)
        tp.name = "c_value"
        n1 = helper.make_node("Constant", [], ["c"], value=tp)
        n2 = helper.make_node("CastLike", ["c", "like"], ["y"])
        g = helper.make_graph([n1, n2], "g", [helper.make_tensor_value_info("like", target_code, [1])],
                              [helper.make_tensor_value_info("y", target_code, None)])
        m = helper.make_model(g, opset_imports=[helper.make_opsetid("", 23)], ir_version=11)
        d = ir.DataType(target_code)
        like = np.array(["a"], dtype=object) if target_code == STRING else np.zeros((1,), dtype=d.numpy())
        try:
            r = onnx.reference.ReferenceEvaluator(m).run(None, {"like": like})[0]
            ref = obs_of_array(r, target_code)
        except Exception as e:  # noqa: BLE001
            ref = obs_of_exc(e)
        out = ref
        if d in (ir.DataType.FLOAT, ir.DataType.DOUBLE, ir.DataType.FLOAT16, ir.DataType.BOOL, ir.DataType.INT8,
                 ir.DataType.INT16, ir.DataType.INT32, ir.DataType.INT64, ir.DataType.UINT8, ir.DataType.UINT16,
                 ir.DataType.UINT32, ir.DataType.UINT64):
            try:
                import onnxruntime as ort
                so = ort.SessionOptions()
                so.graph_optimization_level = ort.GraphOptimizationLevel.ORT_DISABLE_ALL
                so.log_severity_level = 4
                so.intra_op_num_threads = 1
                so.inter_op_num_threads = 1
                s = ort.InferenceSession(m.SerializeToString(), so, providers=["CPUExecutionProvider"])
                o = obs_of_array(s.run(None, {"like": like})[0], target_code)
                self.ort_used += 1
                if o != ref:
                    self.runtime_disagreements.append((key_repr(tensor), target_code, ref, o))
                out = o
            except Exception:  # noqa: BLE001
                pass
        return out


def key_repr(tensor):
    return f"{tensor.dtype.name}:{np.asarray(tensor.numpy()).tolist()!r}"


def split_kw(case, args):
    """case['kw_from'] = k: the operands from index k on are passed by keyword (the formal's name); None operands
    among them are simply omitted.  -> (positional list, {name: value})"""
    k = case.get("kw_from")
    if k is None:
        return list(args), {}
    F = case["schema"]["formals"]
    kw = {}
    for j in range(k, len(args)):
        if case["args"][j][0] != "N":
            kw[F[j]["name"]] = args[j]
    return list(args[:k]), kw


# --------------------------------------------------------------------------------------------- eager

_CAP = None


def _capturing_evaluator():
    global _CAP
    if _CAP is not None:
        return _CAP
    from onnxscript import tensor as ostensor
    from onnxscript._internal import evaluator

    class Capture(evaluator.BaseEvaluator):
        def __init__(self):
            super().__init__()
            self.seen = None
            self.calls = []

        def _eval(self, schema, inputs, attributes, closure):
            self.seen = (schema, list(inputs))
            self.calls.append(self.seen)
            return [ostensor.Tensor(np.zeros((), dtype=np.float32))]

    _CAP = Capture()
    return _CAP


import operator as _operator

_PYOPS = {"+": _operator.add, "-": _operator.sub, "*": _operator.mul, "/": _operator.truediv, "**": _operator.pow,
          "<": _operator.lt, "<=": _operator.le, ">": _operator.gt, ">=": _operator.ge, "==": _operator.eq, "!=": _operator.ne,
          "%": _operator.mod, "@": _operator.matmul, "&": _operator.and_, "|": _operator.or_, "//": _operator.floordiv,
          "^": _operator.xor, "<<": _operator.lshift, ">>": _operator.rshift}


def _np_tensor(code):
    import onnx_ir as ir
    if code == STRING:
        return np.array(["a", "b"], dtype=object)
    return np.ones((2,), dtype=ir.DataType(code).numpy())


def run_eager(case):
    import onnx
    from onnxscript import tensor as ostensor
    from onnxscript._internal import evaluator
    from onnxscript.onnx_opset import all_opsets

    r = case["schema"]
    if case.get("syntax") and case.get("eager_route") is None:
        return ("ABSENT", "no Tensor method for this spelling"), None
    opset = all_opsets[("", case.get("opset", r["use"]))]
    args = []
    for a in case["args"]:
        if a[0] == "T":
            args.append(ostensor.Tensor(_np_tensor(a[1]), opset=opset) if case.get("syntax") else ostensor.Tensor(_np_tensor(a[1])))
        elif a[0] == "L":
            args.append(a[1])
        elif a[0] == "N":
            args.append(None)
        else:
            args.append([ostensor.Tensor(np.ones((2,), dtype=np.float32))])
    # omitted optional inputs that precede nothing are passed as explicit None (the generated opset
    # methods declare e.g. Loop(self, M, cond, *v_initial, body)); trailing None is stripped by the method
    n_fixed = sum(1 for f in r["formals"] if f["opt"] != "OVariadic")
    while len(args) < n_fixed and case.get("kw_from") is None:
        args.append(None)
    args, kwargs = split_kw(case, args)
    if case.get("kw_from") is not None:
        for j in range(len(case["args"]), n_fixed):
            kwargs.setdefault(r["formals"][j]["name"], None)
    attrs = {n: (onnx.GraphProto() if t == "GRAPH" else dummy_attr(n, t)) for n, t in r["required"]}
    cap = _capturing_evaluator()
    cap.seen = None
    cap.calls = []
    try:
        with evaluator.default_as(cap):
            if case.get("syntax"):
                # Python operator on onnxscript.tensor.Tensor (its default opset is opset18)
                _PYOPS[case["syntax"]](args[0], args[1])
            else:
                getattr(opset, r["name"])(*args, **kwargs, **attrs)
    except Exception as e:  # noqa: BLE001
        return obs_of_exc(e), None
    if case.get("syntax"):
        # Python's data model picked the Tensor method (reflected / mirrored for a literal on the left); the table read from
        # tensor.py says which operator it calls and where `other` lands
        op_name, lit_pos, _method = case["eager_route"]
        calls = [c for c in cap.calls if c[0].name == op_name]
        if len(calls) != 1:
            return ("ERR", "WrongSchema", f"calls {[c[0].name for c in cap.calls]}, expected one {op_name}"), None
        schema, inputs = calls[0]
        want_since = onnx.defs.get_schema(op_name, case["opset"], "").since_version
        if schema.since_version != want_since:
            return ("ERR", "WrongSchema", f"{schema.name}-{schema.since_version}, expected since {want_since}"), None
        if len(inputs) != 2:
            return ("ERR", "MissingOperand", f"{len(inputs)} operands"), None
        t = inputs[lit_pos]
        tens = [a for a in args if isinstance(a, ostensor.Tensor)][0]
        if not isinstance(t, ostensor.Tensor) or t is tens:
            return ("ERR", "NotPromoted", type(t).__name__), None
        return obs_of_array(t.value), inputs[1 - lit_pos] is tens
    schema, inputs = cap.seen
    if (schema.name, schema.since_version) != (r["name"], r["since"]):
        return ("ERR", "WrongSchema", f"{schema.name}-{schema.since_version}"), None
    if case["pos"] >= len(inputs):
        return ("ERR", "MissingOperand", f"{len(inputs)} operands"), None
    t = inputs[case["pos"]]
    if not isinstance(t, ostensor.Tensor):
        return ("ERR", "NotPromoted", type(t).__name__), None
    # the other operands must be handed over untouched
    others_ok = all((x is None and a[0] == "N") or (a[0] != "N" and x is not None)
                    for x, a in zip(inputs, case["args"]))
    return obs_of_array(t.value), others_ok and len(inputs) == len(_strip_trailing_none(case["args"]))


def _strip_trailing_none(args):
    args = list(args)
    while args and args[-1][0] == "N":
        args.pop()
    return args


# --------------------------------------------------------------------------------------------- builder

def run_builder(case, oracle):
    import onnx_ir as ir
    from onnxscript._internal import builder as B

    r = case["schema"]
    g = ir.Graph([], [], nodes=[], opset_imports={"": case.get("opset", r["use"])}, name="g")
    gb = B.GraphBuilder(g)
    # onnx's C++ node-level shape inference runs after the node is built (call_op step 10) and can kill the
    # process on meaningless operand values (SplitToSequence(x, 0): SIGFPE); it plays no part in promotion.
    gb._infer_shapes = lambda node: None
    args, runtime = [], {}
    for i, a in enumerate(case["args"]):
        if a[0] == "T":
            v = ir.Value(name=f"a{i}", type=ir.TensorType(ir.DataType(a[1])) if a[2] else None, shape=ir.Shape([2]))
            g.inputs.append(v)
            runtime[id(v)] = a[1]
            args.append(v)
        elif a[0] == "L":
            args.append(a[1])
        elif a[0] == "N":
            args.append(None)
        else:
            v = ir.Value(name=f"a{i}")
            g.inputs.append(v)
            args.append(v)
    attrs = {}
    for n, t in r["required"]:
        attrs[n] = ir.Graph([], [], nodes=[], name=n) if t == "GRAPH" else dummy_attr(n, t)
    all_args = list(args)
    pargs, kwargs = split_kw(case, args)
    try:
        res = getattr(gb.op, r["name"])(*pargs, **kwargs, **attrs)
    except Exception as e:  # noqa: BLE001
        return obs_of_exc(e), None
    args = all_args
    out0 = res if isinstance(res, ir.Value) else res[0]
    node = out0.producer()
    if node is None or node.op_type != r["name"]:
        return ("ERR", "WrongNode", str(node)), None
    if node.version not in (None, case.get("opset", r["use"])):
        return ("ERR", "WrongVersion", str(node.version)), None
    ins = list(node.inputs)
    if case["pos"] >= len(ins):
        return ("ERR", "MissingOperand", f"{len(ins)} operands"), None
    others_ok = all((x is None and a[0] == "N") or (x is y and a[0] in "TO") or a[0] == "L"
                    for x, a, y in zip(ins, case["args"], args))
    v = ins[case["pos"]]
    return _read_operand(v, runtime, oracle, g), others_ok


def _read_operand(v, runtime, oracle, graph):
    """initializer -> its tensor; CastLike(initializer, like) -> the cast evaluated at like's run-time dtype."""
    if v is None:
        return ("ERR", "NotPromoted", "None")
    p = v.producer()
    if p is None:
        if v.const_value is None:
            return ("ERR", "NotPromoted", f"graph input {v.name}")
        return obs_of_ir_tensor(v.const_value)
    if p.op_type == "Constant":
        return obs_of_ir_tensor(p.attributes["value"].value)
    if p.op_type == "CastLike" and len(p.inputs) == 2:
        c, like = p.inputs
        src = c.const_value if (c is not None and c.producer() is None) else (
            c.producer().attributes["value"].value if c is not None and c.producer().op_type == "Constant" else None)
        if src is None or like is None or id(like) not in runtime:
            return ("ERR", "UnexpectedChain", f"CastLike({c}, {like})")
        return oracle.cast(src, runtime[id(like)])
    return ("ERR", "UnexpectedChain", p.op_type)


# --------------------------------------------------------------------------------------------- converter

_GRAPH_DEFS = {
    "Loop": ("    @graph()\n    def body(i: INT64, c: BOOL):\n        return c\n", {"body": "body"}),
    "Scan": ("    @graph()\n    def body(x: FLOAT[2]):\n        return x\n", {"body": "body"}),
    "SequenceMap": ("    @graph()\n    def body(x: FLOAT[2]):\n        return x\n", {"body": "body"}),
    "If": ("    @graph()\n    def g1():\n        return op.Constant(value_float=1.0)\n"
           "    @graph()\n    def g2():\n        return op.Constant(value_float=2.0)\n", {"then_branch": "g1", "else_branch": "g2"}),
}


def script_source(case, fname):
    import onnx_ir as ir
    r = case["schema"]
    params, call = [], []
    for i, a in enumerate(case["args"]):
        if a[0] == "T":
            params.append(f"a{i}: {ir.DataType(a[1]).name}[2]")
            call.append(f"a{i}")
        elif a[0] == "L":
            call.append(repr(a[1]))
        elif a[0] == "N":
            call.append("None")
        else:
            params.append(f"a{i}")
            call.append(f"a{i}")
    if case.get("syntax"):
        # `-3 ** a1` is -(3 ** a1) in Python: a negative literal is written in parentheses (still a unary minus on a constant)
        call = [f"({x})" if x.startswith("-") else x for x in call]
        return (f"@script(default_opset=op{case['opset']})\n"
                f"def {fname}({', '.join(params)}):\n"
                f"    return {call[0]} {case['syntax']} {call[1]}\n")
    pre = ""
    kw = []
    gdefs = _GRAPH_DEFS.get(r["name"])
    for n, t in r["required"]:
        if t == "GRAPH":
            if gdefs is None:
                raise NotImplementedError(f"graph attribute of {r['name']}")
            pre = gdefs[0]
            kw.append(f"{n}={gdefs[1][n]}")
        else:
            kw.append(f"{n}={dummy_attr(n, t)!r}")
    if case.get("kw_from") is not None:
        k = case["kw_from"]
        F = r["formals"]
        call = call[:k] + [f"{F[j]['name']}={call[j]}" for j in range(k, len(call)) if case["args"][j][0] != "N"]
    use = case.get("opset", r["use"])
    return (f"@script(default_opset=op{use})\n"
            f"def {fname}({', '.join(params)}):\n"
            + pre.replace("op.", f"op{use}.")
            + f"    return op{use}.{r['name']}({', '.join(call + kw)})\n")


_HEADER = ("from onnxscript import script, graph\n"
           "from onnxscript.onnx_types import (BFLOAT16, BOOL, COMPLEX128, COMPLEX64, DOUBLE, FLOAT, FLOAT16, FLOAT4E2M1, "
           "FLOAT8E4M3FN, FLOAT8E4M3FNUZ, FLOAT8E5M2, FLOAT8E5M2FNUZ, INT16, INT32, INT4, INT64, INT8, STRING, UINT16, UINT32, "
           "UINT4, UINT64, UINT8)\n"
           "from onnxscript.onnx_opset import all_opsets as _all\n"
           + "".join(f"op{v} = _all[('', {v})]\n" for v in range(13, 24)))


def compile_scripts(cases, workdir, tag):
    """Write one module with one script function per case, import it; -> list of OnnxFunction | exception."""
    os.makedirs(workdir, exist_ok=True)
    modname = f"c12gen_{tag}"
    parts = [_HEADER]
    broken = {}
    for i, c in enumerate(cases):
        try:
            src = script_source(c, f"f{i}")
            # a lookup history: the same call translated first at the opsets of c["history"] (results discarded)
            for k, v in enumerate(c.get("history", [])):
                pre_src = script_source(dict(c, opset=v), f"f{i}p{k}")
                parts.append("try:\n" + "".join("    " + ln + "\n" for ln in pre_src.splitlines())
                             + f"except Exception as _e:\n    f{i}p{k} = _e\n")
        except Exception as e:  # noqa: BLE001
            broken[i] = e
            continue
        # a function that fails to convert must not take the module down: wrap each in try/except
        parts.append("try:\n" + "".join("    " + ln + "\n" for ln in src.splitlines())
                     + f"except Exception as _e:\n    f{i} = _e\n")
    path = os.path.join(workdir, modname + ".py")
    with open(path, "w") as f:
        f.write("\n".join(parts))
    if workdir not in sys.path:
        sys.path.insert(0, workdir)
    importlib.invalidate_caches()
    mod = importlib.import_module(modname)
    return [broken[i] if i in broken else getattr(mod, f"f{i}") for i in range(len(cases))]


def read_converter(case, fn, oracle):
    import onnx_ir as ir
    if isinstance(fn, Exception):
        return obs_of_exc(fn), None
    try:
        g = fn.function_ir.graph
    except Exception as e:  # noqa: BLE001
        return obs_of_exc(e), None
    nodes = list(g)
    r = case["schema"]
    node = nodes[-1]
    if case.get("syntax"):
        # `a != b` is Not(Equal(a, b)): the node that receives the two operands is the one of the mapped operator
        cands = [n for n in nodes if n.op_type == r["name"]]
        if len(cands) != 1:
            return ("ERR", "WrongNode", str([n.op_type for n in nodes])), None
        node = cands[0]
        post = case.get("post")
        if (post is None and node is not nodes[-1]) or (post is not None and (nodes[-1].op_type != post or nodes[-1].inputs[0] is not node.outputs[0])):
            return ("ERR", "WrongNode", str([n.op_type for n in nodes])), None
    if node.op_type != r["name"]:
        return ("ERR", "WrongNode", node.op_type), None
    if node.version not in (None, case.get("opset", r["use"])):
        return ("ERR", "WrongVersion", str(node.version)), None
    ins = list(node.inputs)
    if case["pos"] >= len(ins):
        return ("ERR", "MissingOperand", f"{len(ins)} operands"), None
    params = {v.name: v for v in g.inputs}
    runtime = {}
    others_ok = True
    for i, (x, a) in enumerate(zip(ins, case["args"])):
        if a[0] == "T":
            v = params.get(f"a{i}")
            if v is not None:
                runtime[id(v)] = a[1]
            others_ok &= x is v and v is not None
        elif a[0] == "O":
            others_ok &= x is params.get(f"a{i}")
        elif a[0] == "N":
            others_ok &= x is None
    return _read_operand(ins[case["pos"]], runtime, oracle, g), others_ok
