reg("C04",
    "Coq proofs about the Gallina model of FoldConstantsPass (signature preservation, graph-input guard, guarded / unguarded "
    "initializer-inputs with a refutation witness) + verified structural checkers (wf_graphb, imports_ok) evaluated in Coq on the real "
    "optimizer outputs + exception / onnx.checker / signature / override-value oracle",
    "For every checker-valid, executable generated model (typed random DAGs incl. overridable initializer-inputs, lifted ONNX node tests) "
    "and every entry point (optimize, optimize_ir, fold_constants, rewrite; ModelProto and ir.Model; sampled option tuples) the harness "
    "observes: no exception (keyed by exception type and raising site), the result passes onnx.checker, the Coq checkers wf_graphb (unique "
    "definitions across nested graphs, definition before use with scoping, outputs produced) and imports_ok hold for the result whenever "
    "they hold for the original - imports_ok for the model AND for every model-local function with the function's own opset imports, recursively through If / Loop bodies -, "
    "a dedicated family applies rewrite / RewriteRuleSet.apply_to_model / RewritePass (functions not inlined) with rules whose replacement introduces a domain the container does not import "
    "(MatMul -> com.microsoft::FusedMatMul, Abs -> custom domain) on matches in the main graph, in function bodies and in their If / Loop bodies nested up to three times, checked with imports_ok in Coq, "
    "onnx.checker, the signature and onnxruntime; graph inputs / outputs keep names, order and declared types, called functions are still present, every "
    "initializer-input keeps its default and original and optimized model agree for override values. Machine-checked theorems (Coq) about "
    "the model of the constant folder shared with C03: the declared inputs and outputs survive the traversal and the output replacement; "
    "the generic folding path keeps every node that consumes a graph input; with the graph-input guard in _get_numpy_value no partial "
    "evaluator can read the default of an initializer-input and the soundness theorem of the pass holds for every binding of the graph "
    "inputs (every override value); without the guard the faithful model inlines an If on the default of an overridable condition "
    "(refutation witness, replayed on the real code); the same pair of statements for _clear_unused_initializers. The models of onnx_ir's dead-node removal and common-subexpression elimination (shared with C03) keep the graph's inputs and outputs and never drop an initializer that is a graph input or output (theorems); a lost output type is attributed to the pass of the real pipeline that drops it; theorems over the models of RemoveUnusedFunctionsPass / RemoveUnusedOpsetsPass / InlinePass (shared with C03, compared with the real passes in Coq on every run): a function still called from the graph or from a kept function is found in the table as before, imports_ok survives the pruning of imports, the inlined graph calls no function of the table. Which of the two worlds "
    "the current source is in is read by the translator on every run.",
    "Coq kernel; totality and validity are observed on generated models, not proved; wf_graphb of the result is evaluated per run "
    "(translation validation), not derived from wf_graphb of the input; hand-written model tied by translator + decision-trace correspondence; "
    "onnx.checker and onnxruntime as oracles; wf_graphb is stricter than ONNX (unique names across sibling subgraphs) and is required only "
    "when the original satisfies it.")
