"""Shared machinery for every ./check <Cxx> run (DESIGN.md sections 1.2, 4).

A property harness is a module harness/cXX.py exposing

    PROPERTY = "Cxx"
    def run(ctx): ...

and uses only the Ctx API below:

    ctx.rng                      random.Random(VERIF_SEED)  -- the single PRNG
    ctx.tier                     "quick" | "thorough"
    ctx.gen(name, text)          write coq/Gen/<name>.v (only if changed) -- translators
    ctx.build(["Props/Cxx.vo"])  make the targets (full .vo build); returns (ok, log)
    ctx.check_props()            compile Props/Cxx.v, parse Print Assumptions, count obligations
    ctx.coq_eval(requires, body) run one scratch .v file, return list of parsed `= value` outputs (raw strings)
    ctx.coq_eval_shards(...)     same, many files in parallel
    ctx.obligation(name, ok)     record a generated proof obligation
    ctx.case(nontrivial_key)     count one evaluated case (distinct non-trivial keys are counted)
    ctx.sample(obj)              keep a few written-out cases for the evidence
    ctx.violation(key, what, replay, found_input=True)
    ctx.tie_broken(kind, name, detail)   a proof / translator / correspondence no longer checks
    ctx.cover(**kw)              extra coverage keys
    ctx.assume(text)             assumption listed in evidence

The framework decides the exit status, prints VIOLATION / KNOWN-FINDING lines and
writes evidence/<id>.json.
"""
from __future__ import annotations

import fcntl
import hashlib
import json
import os
import random
import re
import shutil
import subprocess
import sys
import tempfile
import time
from concurrent.futures import ThreadPoolExecutor

VERIF = os.path.dirname(os.path.dirname(os.path.abspath(__file__)))
COQ = os.path.join(VERIF, "coq")
REPO = os.environ.get("OSVERIF_REPO", "/repo")
PY = "/venv/bin/python"
LOGICAL = "OV"

ALLOWED_AXIOMS = {
    # axioms declared by the standard library that the trusted base names (DESIGN.md section 6)
    "FunctionalExtensionality.functional_extensionality_dep",
    "functional_extensionality_dep",
    "Eqdep.Eq_rect_eq.eq_rect_eq",
    "eq_rect_eq",
    "JMeq_eq",
    "JMeq.JMeq_eq",
    "Classical_Prop.classic",
    "classic",
    "ProofIrrelevance.proof_irrelevance",
    "proof_irrelevance",
}

BASE_TRUSTED = [
    "Coq 8.16.1 kernel (coqc, full .vo build; vm_compute used for finite-domain proofs and model evaluation; no native_compute)",
    "no Axiom/Parameter/Conjecture/Admitted in coq/ (hygiene scan on every run); Print Assumptions of every property theorem parsed on every run",
    "harness (python): generators, canonicalisation, printers from implementation outputs to Coq literals",
]


def env_for_impl(hashseed="0"):
    e = dict(os.environ)
    e["PYTHONPATH"] = REPO
    e["PYTHONHASHSEED"] = str(hashseed)
    e["ONNXSCRIPT_VERIF"] = "1"
    e.setdefault("OMP_NUM_THREADS", "1")
    e["PYTHONWARNINGS"] = "ignore"
    e["PIP_NO_INDEX"] = "1"
    return e


# --------------------------------------------------------------------------- Coq literals

def cz(n):
    n = int(n)
    return f"({n})%Z" if n < 0 else f"{n}%Z"


def cnat(n):
    n = int(n)
    assert 0 <= n < 5000, n
    return f"{n}%nat"


def cbool(b):
    return "true" if b else "false"


def cstr(s):
    return '"' + s.replace('"', '""') + '"%string'


def clist(xs, f=None):
    f = f or (lambda x: x)
    return "[" + "; ".join(f(x) for x in xs) + "]"


def copt(x, f=None):
    f = f or (lambda x: x)
    return "None" if x is None else f"(Some {f(x)})"


def cpair(a, b):
    return f"({a}, {b})"


# --------------------------------------------------------------------------- parsing Eval output

_EVAL_RE = re.compile(r"^\s*=\s(.*?)\n\s*:\s", re.S | re.M)


def parse_evals(out: str):
    """Return the list of value strings printed by `Eval ... in` commands."""
    return [re.sub(r"\s+", " ", m.group(1)).strip() for m in _EVAL_RE.finditer(out)]


def parse_nat_list(s: str):
    s = s.strip()
    s = re.sub(r"%\w+", "", s)
    if s in ("[]", "nil"):
        return []
    assert s.startswith("[") and s.endswith("]"), s[:200]
    return [int(x) for x in s[1:-1].split(";") if x.strip()]


# --------------------------------------------------------------------------- hygiene

_FORBIDDEN = re.compile(
    r"\b(Admitted|admit|Axiom|Axioms|Parameter|Parameters|Conjecture|Conjectures|Admit\s+Obligations|"
    r"Unset\s+Guard\s+Checking|Unset\s+Positivity\s+Checking|Unset\s+Universe\s+Checking|bypass_check|"
    r"native_compute)\b|-type-in-type|-impredicative-set"
)


def strip_coq_comments(text: str) -> str:
    out = []
    depth = 0
    i = 0
    instr = False
    while i < len(text):
        if not instr and text.startswith("(*", i):
            depth += 1
            i += 2
            continue
        if not instr and depth and text.startswith("*)", i):
            depth -= 1
            i += 2
            continue
        c = text[i]
        if depth == 0:
            if c == '"':
                instr = not instr
            out.append(c)
        i += 1
    return "".join(out)


def _strip_strings(text):
    return re.sub(r'"(?:[^"]|"")*"', '""', text)


def hygiene_scan(paths=None):
    """Scan coq/ sources (comments and string literals removed) for forbidden vernacular.

    Variable/Hypothesis/Context outside a Section are also rejected."""
    bad = []
    files = []
    for root, _dirs, fs in os.walk(COQ):
        if os.path.basename(root) in ("Cases",):
            continue
        for f in fs:
            if f.endswith(".v"):
                files.append(os.path.join(root, f))
    if os.path.exists(os.path.join(COQ, "_CoqProject")):
        files.append(os.path.join(COQ, "_CoqProject"))
    for p in sorted(files):
        raw = open(p).read()
        txt = _strip_strings(strip_coq_comments(raw)) if p.endswith(".v") else raw
        for m in _FORBIDDEN.finditer(txt):
            bad.append(f"{os.path.relpath(p, COQ)}: {m.group(0)}")
        if p.endswith(".v"):
            depth = 0
            for sent in re.split(r"\.\s", txt):
                s = sent.strip()
                if re.match(r"^(Section|Module\s+Type)\s", s):
                    depth += 1 if s.startswith("Section") else 0
                elif re.match(r"^End\s", s) and depth:
                    depth -= 1
                elif depth == 0 and re.match(r"^(Variable|Variables|Hypothesis|Hypotheses|Context)\b", s):
                    bad.append(f"{os.path.relpath(p, COQ)}: {s.split()[0]} outside Section")
    return bad


# --------------------------------------------------------------------------- make

class _Lock:
    def __init__(self, path):
        self.path = path

    def __enter__(self):
        self.f = open(self.path, "w")
        fcntl.flock(self.f, fcntl.LOCK_EX)
        return self

    def __exit__(self, *a):
        fcntl.flock(self.f, fcntl.LOCK_UN)
        self.f.close()


def coq_files():
    """All project .v files, relative to coq/, in a stable order (Cases/ excluded)."""
    res = []
    for root, dirs, fs in os.walk(COQ):
        dirs.sort()
        rel = os.path.relpath(root, COQ)
        if rel.split(os.sep)[0] in ("Cases",):
            continue
        for f in sorted(fs):
            if f.endswith(".v"):
                res.append(os.path.normpath(os.path.join(rel, f)))
    return res


def write_if_changed(path, text):
    if os.path.exists(path) and open(path).read() == text:
        return False
    os.makedirs(os.path.dirname(path), exist_ok=True)
    tmp = path + ".tmp%d" % os.getpid()
    with open(tmp, "w") as f:
        f.write(text)
    os.replace(tmp, path)
    return True


def refresh_project():
    """(Re)write _CoqProject and Makefile when the file list changed."""
    files = coq_files()
    text = f"-Q . {LOGICAL}\n-arg -w -arg -notation-overridden,-deprecated-hint-without-locality,-deprecated-instance-without-locality,-ambiguous-paths\n" + "\n".join(files) + "\n"
    changed = write_if_changed(os.path.join(COQ, "_CoqProject"), text)
    if changed or not os.path.exists(os.path.join(COQ, "Makefile")):
        subprocess.run(["coq_makefile", "-f", "_CoqProject", "-o", "Makefile"], cwd=COQ, check=True,
                       stdout=subprocess.DEVNULL, stderr=subprocess.DEVNULL)


def coq_make(targets, timeout=3000, jobs=16):
    with _Lock(os.path.join(COQ, ".lock")):
        refresh_project()
        cmd = ["timeout", str(timeout), "make", f"-j{jobs}", "--no-print-directory"] + list(targets)
        p = subprocess.run(cmd, cwd=COQ, stdout=subprocess.PIPE, stderr=subprocess.STDOUT, text=True)
        return p.returncode == 0, p.stdout


def coqc_file(path, timeout=600, cwd=None):
    cmd = ["timeout", str(timeout), "coqc", "-Q", COQ, LOGICAL, "-w", "-notation-overridden,-deprecated-hint-without-locality", path]
    p = subprocess.run(cmd, cwd=cwd or os.path.dirname(path), stdout=subprocess.PIPE, stderr=subprocess.STDOUT, text=True)
    return p.returncode, p.stdout


# --------------------------------------------------------------------------- known findings

def load_findings():
    p = os.path.join(VERIF, "known_findings.json")
    if not os.path.exists(p):
        return []
    return json.load(open(p))["findings"]


# --------------------------------------------------------------------------- context

class Ctx:
    def __init__(self, pid, tier, seed):
        self.pid = pid
        self.tier = tier
        self.seed = seed
        self.rng = random.Random(seed)
        self.t0 = time.time()
        self.obligations = []        # (name, ok, detail)
        self.violations = []         # dicts
        self.known_hits = []         # (key, what)
        self.ties = []               # broken ties
        self.evals = 0
        self.keys = set()
        self.samples = []
        self.coverage = {}
        self.assumptions = []
        self.trusted = list(BASE_TRUSTED)
        self.axioms = set()
        self.theorems = []
        self.scratch = tempfile.mkdtemp(prefix="osverif_")
        self.cases_dir = os.path.join(self.scratch, "Cases")
        os.makedirs(self.cases_dir)
        self._ncase = 0
        self.findings = [f for f in load_findings() if f["property"] == pid]
        self.checker_cmds = []
        os.makedirs(os.path.join(VERIF, "evidence", "replays"), exist_ok=True)

    # ---- translators
    def gen(self, name, text):
        path = os.path.join(COQ, "Gen", name + ".v")
        with _Lock(os.path.join(COQ, ".lock")):
            return write_if_changed(path, text)

    # ---- proofs
    def build(self, targets, timeout=3000):
        ok, log = coq_make(targets, timeout=timeout)
        self.checker_cmds.append("make -C coq " + " ".join(targets))
        if not ok:
            m = re.findall(r'File "\./([^"]+)", line (\d+)', log)
            where = f"{m[-1][0]}:{m[-1][1]}" if m else "?"
            err = log.strip().splitlines()[-12:]
            self.tie_broken("proof", where, "\n".join(err))
        return ok, log

    def check_props(self, extra_files=()):
        """Build Props/<pid>.vo (and closure), then re-run coqc on it to read Print Assumptions."""
        bad = hygiene_scan()
        self.obligation("hygiene: no Admitted/Axiom/Parameter/guard switches in coq/", not bad, "; ".join(bad[:5]))
        if bad:
            self.tie_broken("proof", "hygiene", "; ".join(bad[:10]))
        import glob as _glob
        props = [f"Props/{self.pid}.v"] + sorted(
            os.path.relpath(q, COQ) for q in _glob.glob(os.path.join(COQ, "Props", f"{self.pid}_*.v")))
        ok, log = self.build([q + "o" for q in props] + [f + "o" for f in extra_files])
        if not ok:
            self.obligation(f"{' '.join(props)} and their closure compile", False, log[-600:])
            return False
        all_ok = True
        closed_total = 0
        for prop in props:
            out_vo = os.path.join(self.scratch, os.path.basename(prop) + "o")
            cmd = ["timeout", "900", "coqc", "-Q", COQ, LOGICAL, "-w", "-notation-overridden", os.path.join(COQ, prop), "-o", out_vo]
            p = subprocess.run(cmd, cwd=COQ, stdout=subprocess.PIPE, stderr=subprocess.STDOUT, text=True)
            self.checker_cmds.append(f"coqc -Q coq {LOGICAL} coq/{prop}  (Print Assumptions parsed)")
            if p.returncode != 0:
                self.obligation(f"{prop} compiles", False, p.stdout[-600:])
                self.tie_broken("proof", prop, p.stdout[-600:])
                all_ok = False
                continue
            src = strip_coq_comments(open(os.path.join(COQ, prop)).read())
            thms = re.findall(r"\b(?:Theorem|Lemma|Corollary)\s+([A-Za-z0-9_']+)", src)
            n_print = len(re.findall(r"\bPrint\s+Assumptions\b", src))
            closed = len(re.findall(r"Closed under the global context", p.stdout))
            closed_total += closed
            axioms = set()
            for blk in re.finditer(r"Axioms:\n((?:.+\n?)+?)(?=\n\S|\Z)", p.stdout):
                for line in blk.group(1).splitlines():
                    m = re.match(r"^([A-Za-z0-9_.']+)\s*:", line)
                    if m:
                        axioms.add(m.group(1))
            self.axioms |= axioms
            self.theorems += thms
            disallowed = sorted(a for a in axioms if a not in ALLOWED_AXIOMS)
            for t in thms:
                self.obligation(f"theorem {t} ({prop}) accepted by coqc", True, "")
            self.obligation(f"Print Assumptions under every theorem of {prop} ({n_print} printed, {closed} closed)",
                            n_print >= len(thms) and not disallowed,
                            "disallowed axioms: " + ", ".join(disallowed) if disallowed else "")
            if n_print < len(thms):
                self.tie_broken("proof", prop, "a theorem without Print Assumptions")
                all_ok = False
            if disallowed:
                self.tie_broken("proof", prop, "disallowed axioms " + ", ".join(disallowed))
                all_ok = False
        if self.axioms:
            self.trusted.append("axioms reported by Print Assumptions: " + ", ".join(sorted(self.axioms)))
        else:
            self.trusted.append(f"Print Assumptions: all {closed_total} property theorems closed under the global context (no axioms)")
        return all_ok

    def coqchk(self, modules, timeout=2400):
        """Thorough tier: independent re-check of compiled files."""
        cmd = ["timeout", str(timeout), "coqchk", "-silent", "-o", "-Q", COQ, LOGICAL] + [f"{LOGICAL}.{m}" for m in modules]
        p = subprocess.run(cmd, cwd=COQ, stdout=subprocess.PIPE, stderr=subprocess.STDOUT, text=True)
        ok = p.returncode == 0
        self.checker_cmds.append("coqchk -silent -o " + " ".join(modules))
        self.obligation("coqchk re-checks " + " ".join(modules), ok, p.stdout[-500:] if not ok else "")
        ax = re.findall(r"^\s+([A-Za-z0-9_.']+)\s*$", p.stdout.split("Axioms:")[-1], re.M) if "Axioms:" in p.stdout else []
        self.coverage["coqchk_axioms"] = ax
        if not ok:
            self.tie_broken("proof", "coqchk", p.stdout[-500:])
        return ok

    # ---- model evaluation
    def coq_eval(self, requires, body, timeout=900, name=None):
        """requires: list like ['OV.Rules.Clip']; body: Coq text with Eval commands. Returns (ok, [values], raw)."""
        self._ncase += 1
        fn = os.path.join(self.cases_dir, f"{name or 'cases'}_{self._ncase}.v")
        hdr = "From Coq Require Import List ZArith String Bool.\nImport ListNotations.\n"
        hdr += "".join(f"Require Import {r}.\n" for r in requires)
        hdr += "Set Printing Width 1000000.\nSet Printing Depth 1000000.\n"
        with open(fn, "w") as f:
            f.write(hdr + body + "\n")
        rc, out = coqc_file(fn, timeout=timeout, cwd=self.cases_dir)
        return rc == 0, parse_evals(out), out

    def coq_eval_shards(self, requires, bodies, timeout=900, par=8):
        def one(b):
            return self.coq_eval_nolock(requires, b, timeout)
        with ThreadPoolExecutor(max_workers=par) as ex:
            return list(ex.map(one, bodies))

    def coq_eval_nolock(self, requires, body, timeout=900):
        import uuid
        fn = os.path.join(self.cases_dir, "shard_" + uuid.uuid4().hex + ".v")
        hdr = "From Coq Require Import List ZArith String Bool.\nImport ListNotations.\n"
        hdr += "".join(f"Require Import {r}.\n" for r in requires)
        hdr += "Set Printing Width 1000000.\nSet Printing Depth 1000000.\n"
        with open(fn, "w") as f:
            f.write(hdr + body + "\n")
        rc, out = coqc_file(fn, timeout=timeout, cwd=self.cases_dir)
        return rc == 0, parse_evals(out), out

    # ---- bookkeeping
    def obligation(self, name, ok, detail=""):
        self.obligations.append((name, bool(ok), detail))

    def case(self, key=None, n=1):
        self.evals += n
        if key is not None:
            self.keys.add(key if isinstance(key, (str, int, tuple)) else json.dumps(key, sort_keys=True, default=str))

    def sample(self, obj, cap=6):
        if len(self.samples) < cap:
            self.samples.append(obj)

    def cover(self, **kw):
        self.coverage.update(kw)

    def assume(self, text):
        if text not in self.assumptions:
            self.assumptions.append(text)

    def trust(self, text):
        if text not in self.trusted:
            self.trusted.append(text)

    def tie_broken(self, kind, name, detail=""):
        self.ties.append({"kind": kind, "name": name, "detail": detail[-2000:]})

    def violation(self, key, what, replay, found_input=True):
        """key: canonical identity of the failing input class (matched against known_findings.json)."""
        for f in self.findings:
            if f.get("status", "known") == "known" and f["key"] == key:
                if key not in [k for k, _ in self.known_hits]:
                    self.known_hits.append((key, f.get("what", what)))
                return "known"
        if any(v["key"] == key for v in self.violations):
            return "dup"
        h = hashlib.sha1((key + json.dumps(replay, sort_keys=True, default=str)).encode()).hexdigest()[:10]
        path = os.path.join(VERIF, "evidence", "replays", f"{self.pid}_{h}.json")
        doc = {"property": self.pid, "key": key, "what": what, "seed": self.seed, "tier": self.tier,
               "found_input": found_input, "replay": replay}
        with open(path, "w") as f:
            json.dump(doc, f, indent=1, default=str)
        self.violations.append({"key": key, "what": what, "path": path, "found_input": found_input})
        return "new"

    # ---- end
    def finish(self, level="proof"):
        # a broken proof / translator / correspondence with no concrete failing input found
        real = [v for v in self.violations if v["found_input"]]
        if self.ties and not real:
            names = "; ".join(f"{t['kind']}:{t['name']}" for t in self.ties)
            self.violation("tie-broken:" + names, "proof obligation or correspondence no longer checks: " + names,
                           {"broken": self.ties}, found_input=False)
        for key, what in self.known_hits:
            print(f"KNOWN-FINDING: property={self.pid} {key}: {what}")
        for v in self.violations:
            tail = "" if v["found_input"] else " no-failing-input-found"
            print(f"VIOLATION property={self.pid} replay={v['path']}{tail}")
            print(f"  ({v['key']}: {v['what']})")
        n_ob = len(self.obligations)
        n_ok = sum(1 for _, ok, _ in self.obligations if ok)
        cov = {
            "obligations": n_ob,
            "discharged": n_ok,
            "checker_cmd": " && ".join(dict.fromkeys(self.checker_cmds)) or "none",
            "trusted_base": self.trusted,
            "evaluations": self.evals,
            "distinct_nontrivial": len(self.keys),
            "samples": self.samples or ["(no samples)"],
            "theorems": self.theorems,
            "failed_obligations": [{"name": n, "detail": d} for n, ok, d in self.obligations if not ok],
            "known_findings_seen": [k for k, _ in self.known_hits],
            "broken_ties": self.ties,
        }
        cov.update(self.coverage)
        ev = {
            "property_id": self.pid,
            "tier": self.tier,
            "seed": self.seed,
            "level": level,
            "coverage": cov,
            "assumptions": self.assumptions,
            "wall_s": round(time.time() - self.t0, 2),
            "violations": len(self.violations),
        }
        os.makedirs(os.path.join(VERIF, "evidence"), exist_ok=True)
        with open(os.path.join(VERIF, "evidence", f"{self.pid}.json"), "w") as f:
            json.dump(ev, f, indent=1, default=str)
        shutil.rmtree(self.scratch, ignore_errors=True)
        print(f"[{self.pid}] tier={self.tier} seed={self.seed} obligations={n_ok}/{n_ob} evaluations={self.evals} "
              f"distinct={len(self.keys)} violations={len(self.violations)} known={len(self.known_hits)} wall={ev['wall_s']}s")
        return 1 if self.violations else 0


# --------------------------------------------------------------------------- running the implementation

def run_impl(script_path, payload, timeout=1800, hashseed="0", cwd=None):
    """Run a helper script under /venv python against /repo, JSON in (stdin) / JSON out (last stdout line)."""
    p = subprocess.run([PY, script_path], input=json.dumps(payload), env=env_for_impl(hashseed), cwd=cwd or tempfile.gettempdir(),
                       stdout=subprocess.PIPE, stderr=subprocess.PIPE, text=True, timeout=timeout)
    if p.returncode != 0:
        raise RuntimeError(f"impl runner {script_path} failed rc={p.returncode}\nSTDERR:\n{p.stderr[-3000:]}")
    lines = [l for l in p.stdout.splitlines() if l.startswith("{") or l.startswith("[")]
    return json.loads(lines[-1])
