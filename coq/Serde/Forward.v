(* Option forwarding of the ModelProto / ir.Model wrappers (C15).
   Every wrapper has an ir.Model branch and a ModelProto branch; each branch hands the (deserialised) model to an
   underlying pass together with the options the caller gave.  The harness reads, per wrapper and per branch, the list of
   pass calls from the source (callee, constructor arguments of a pass object, positional arguments, the complete
   keyword -> expression map, *args / **kwargs forwarding) and writes it to Gen/C15Wrappers.v as a `wrapper_src`.
   `forwarding_ok` decides "both branches make the same pass calls with the same options"; `run_calls` is the
   transformation a branch performs under an arbitrary interpretation of callees and expressions.  No proofs here. *)
From Coq Require Import List Bool String.
Import ListNotations.
Local Open Scope string_scope.

(* an argument expression of a pass call, after normalisation by the translator *)
Inductive arg :=
| AModel                                        (* the ir.Model being transformed *)
| AParam (name : string)                        (* a parameter of the wrapper, passed on unchanged *)
| AExpr (text : string) (mentions : list string). (* any other expression: its source text and the wrapper parameters it reads *)

Record args := { a_pos : list arg;                 (* positional arguments *)
                 a_kw : list (string * arg);       (* keyword -> expression, sorted by keyword *)
                 a_star : option string;           (* `*name` forwarded *)
                 a_dstar : option string }.        (* `**name` forwarded *)
(* `f(args)` or, for pass objects, `Cls(ctor args)(args)` *)
Record call := { c_fun : string; c_ctor : option args; c_args : args }.
Record wrapper_src := { w_name : string;
                        w_params : list string;    (* options in the wrapper's signature (everything but the model) *)
                        w_ir : list call;          (* pass calls of the ir.Model branch, in order *)
                        w_proto : list call }.     (* pass calls of the ModelProto branch, in order *)

(* ---- decidable equality, written out *)
Fixpoint list_eqb {A : Type} (eqb : A -> A -> bool) (l m : list A) : bool :=
  match l, m with [] , [] => true | x :: r, y :: s => eqb x y && list_eqb eqb r s | _, _ => false end.
Definition opt_eqb {A : Type} (eqb : A -> A -> bool) (a b : option A) : bool :=
  match a, b with None, None => true | Some x, Some y => eqb x y | _, _ => false end.
Definition arg_eqb (a b : arg) : bool :=
  match a, b with
  | AModel, AModel => true
  | AParam x, AParam y => String.eqb x y
  | AExpr t ms, AExpr u ns => String.eqb t u && list_eqb String.eqb ms ns
  | _, _ => false
  end.
Definition kw_eqb (a b : string * arg) : bool := String.eqb (fst a) (fst b) && arg_eqb (snd a) (snd b).
Definition args_eqb (a b : args) : bool :=
  list_eqb arg_eqb (a_pos a) (a_pos b) && list_eqb kw_eqb (a_kw a) (a_kw b) &&
  opt_eqb String.eqb (a_star a) (a_star b) && opt_eqb String.eqb (a_dstar a) (a_dstar b).
Definition call_eqb (a b : call) : bool :=
  String.eqb (c_fun a) (c_fun b) && opt_eqb args_eqb (c_ctor a) (c_ctor b) && args_eqb (c_args a) (c_args b).

Definition takes_model (c : call) : bool := existsb (fun a => match a with AModel => true | _ => false end) (a_pos (c_args c)).
(* both branches: the same non-empty sequence of pass calls, each applied to the model, with the same options *)
Definition forwarding_ok (w : wrapper_src) : bool :=
  list_eqb call_eqb (w_ir w) (w_proto w) && negb (match w_proto w with [] => true | _ => false end) &&
  forallb takes_model (w_proto w).

(* which options of the signature reach a pass call of a branch at all (informational: an option ignored by both
   branches does not make the two forms differ) *)
Definition arg_mentions (p : string) (a : arg) : bool :=
  match a with AModel => false | AParam x => String.eqb x p | AExpr _ ms => existsb (String.eqb p) ms end.
Definition args_mention (p : string) (a : args) : bool :=
  existsb (arg_mentions p) (a_pos a) || existsb (fun kv => arg_mentions p (snd kv)) (a_kw a) ||
  opt_eqb String.eqb (a_star a) (Some p) || opt_eqb String.eqb (a_dstar a) (Some p).
Definition call_mentions (p : string) (c : call) : bool :=
  args_mention p (c_args c) || match c_ctor c with Some a => args_mention p a | None => false end.
Definition unforwarded (w : wrapper_src) (cs : list call) : list string :=
  filter (fun p => negb (existsb (call_mentions p) cs)) (w_params w).

(* ---- what a branch computes, for arbitrary meanings of callees and expressions *)
Section Sem.
  Variables IR V : Type.
  Variable env : string -> V.                       (* values of the wrapper's parameters (incl. "*args", "**kwargs") *)
  Variable ex : string -> list V -> V.              (* meaning of an expression text as a function of the parameters it reads *)
  Definition eval_arg (a : arg) : option V :=       (* None = the model itself *)
    match a with AModel => None | AParam p => Some (env p) | AExpr t ms => Some (ex t (map env ms)) end.
  Record eargs := { e_pos : list (option V); e_kw : list (string * option V); e_star : option V; e_dstar : option V }.
  Definition eval_args (a : args) : eargs :=
    {| e_pos := map eval_arg (a_pos a); e_kw := map (fun kv => (fst kv, eval_arg (snd kv))) (a_kw a);
       e_star := option_map env (a_star a); e_dstar := option_map env (a_dstar a) |}.
  (* meaning of a callee: from its name, the evaluated constructor arguments and call arguments to an IR transformation *)
  Variable sem : string -> option eargs -> eargs -> IR -> IR.
  Definition run_call (c : call) (m : IR) : IR := sem (c_fun c) (option_map eval_args (c_ctor c)) (eval_args (c_args c)) m.
  Definition run_calls (cs : list call) (m : IR) : IR := fold_left (fun m c => run_call c m) cs m.
End Sem.

Fixpoint disagreeing (i : nat) (cs : list bool) : list nat :=
  match cs with [] => [] | c :: t => ((if c then [] else [i]) ++ disagreeing (S i) t)%list end.
