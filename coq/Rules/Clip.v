(* Model of onnxscript/rewriter/rules/common/_fuse_relus_clips.py (C05).
   Scalars are integers (Z): the rule's content is order-theoretic; the same identities over an
   arbitrary total order are in ClipProofs.v (Section Order).  No proofs in this file. *)
From Coq Require Import ZArith List Bool.
Import ListNotations.
Open Scope Z_scope.

(* ONNX Clip-13 with optional bounds: min(max(x, lo), hi); an absent bound does not clamp.
   (operator document: "when min > max, all values are set to max") *)
Definition omax (x : Z) (lo : option Z) : Z := match lo with Some l => Z.max x l | None => x end.
Definition omin (x : Z) (hi : option Z) : Z := match hi with Some h => Z.min x h | None => x end.
Definition clip (x : Z) (lo hi : option Z) : Z := omin (omax x lo) hi.
Definition relu (x : Z) : Z := Z.max 0 x.

(* `combine(val1, val2, op)` of FuseSuccessiveClip.compute_clip_min_max *)
Definition combine (op : Z -> Z -> Z) (a b : option Z) : option Z :=
  match a, b with
  | Some x, Some y => Some (op x y)
  | Some x, None => Some x
  | None, Some y => Some y
  | None, None => None
  end.

(* --- the bounds computed by the rules, transcribed from the Python ------------------------- *)

(* FuseSuccessiveClip.compute_clip_min_max: Clip(Clip(x,l1,h1),l2,h2) -> Clip(x, lo, hi) *)
Definition clipclip_bounds (l1 h1 l2 h2 : option Z) : option Z * option Z :=
  let h1' := match h1, l2 with Some h, Some l => Some (Z.max h l) | _, _ => h1 end in
  (combine Z.max l1 l2, combine Z.min h1' h2).

(* the bounds as computed before the fix (kept for the refutation theorem and the replay) *)
Definition clipclip_bounds_old (l1 h1 l2 h2 : option Z) : option Z * option Z :=
  (combine Z.max l1 l2, combine Z.min h1 h2).

(* FuseSuccessiveClipRelu.compute_clip_min_max: Clip(Relu(x),lo,hi) -> Clip(x, max(0,lo|0), hi) *)
Definition cliprelu_bounds (lo hi : option Z) : option Z * option Z :=
  (Some (Z.max 0 (match lo with Some l => l | None => 0 end)), hi).

(* FuseSuccessiveReluClip.compute_clip_min_max: Relu(Clip(x,lo,hi)) -> Clip(x, max(0,lo|0), max(0,hi)) *)
Definition reluclip_bounds (lo hi : option Z) : option Z * option Z :=
  (Some (Z.max 0 (match lo with Some l => l | None => 0 end)),
   match hi with Some h => Some (Z.max 0 h) | None => None end).

Definition reluclip_bounds_old (lo hi : option Z) : option Z * option Z := cliprelu_bounds lo hi.

(* --- pattern side and replacement side ------------------------------------------------------ *)
Definition lhs_clipclip l1 h1 l2 h2 x := clip (clip x l1 h1) l2 h2.
Definition lhs_cliprelu lo hi x := clip (relu x) lo hi.
Definition lhs_reluclip lo hi x := relu (clip x lo hi).
Definition lhs_relurelu x := relu (relu x).
Definition rhs (b : option Z * option Z) x := clip x (fst b) (snd b).

(* correspondence helper: a case is (rule tag, l1,h1,l2,h2, bounds observed on the real rewritten model) *)
Inductive rule := ClipClip | ClipRelu | ReluClip.
Definition model_bounds (r : rule) (l1 h1 l2 h2 : option Z) : option Z * option Z :=
  match r with
  | ClipClip => clipclip_bounds l1 h1 l2 h2
  | ClipRelu => cliprelu_bounds l1 h1
  | ReluClip => reluclip_bounds l1 h1
  end.
Definition oz_eqb (a b : option Z) : bool :=
  match a, b with Some x, Some y => Z.eqb x y | None, None => true | _, _ => false end.
Definition bounds_eqb (a b : option Z * option Z) : bool := oz_eqb (fst a) (fst b) && oz_eqb (snd a) (snd b).
Definition case := (rule * (option Z * option Z * option Z * option Z) * (option Z * option Z))%type.
Definition agrees (c : case) : bool :=
  let '(r, (l1, h1, l2, h2), obs) := c in bounds_eqb (model_bounds r l1 h1 l2 h2) obs.
Fixpoint disagreeing (i : nat) (cs : list case) : list nat :=
  match cs with [] => [] | c :: t => (if agrees c then [] else [i]) ++ disagreeing (S i) t end.
