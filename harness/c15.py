"""C15 -- a ModelProto and an IR model are treated alike, and nothing untouched is lost.

Coq: Serde/Wrappers.v (each wrapper as deserialize -> pass -> serialize -> copy-back), Serde/Forward.v (pass calls and option
forwarding of the two entry forms; `forwarding_ok`), Serde/Tree.v (inclusion checker, sound and complete), Serde/Packing.v
(4-bit / 2-bit packing, 16-bit / 8-bit byte codecs, int32_data carrier); theorems in Props/C15.v.  Tie:
  * translator (regenerate): the copy-back discipline of every wrapper AND, per entry form, its pass calls with the complete
    option-forwarding map (harness/c15_forward.py) are recognised in the source by AST (fail-closed) and written to
    Gen/C15Wrappers.v; Props/C15.v is re-proved against it (forallb forwarding_ok src_fw_all = true by vm_compute);
  * the translated forwarding maps against the running code: recording pass-throughs on every callee, non-default value for
    every option, both entry forms;
  * correspondence: for generated valid models and every API in both entry forms, the real effect (argument afterwards,
    what is returned) is compared with the wrapper model evaluated in Coq on interned parts (graph / functions /
    opset_import / rest); packing codecs are diffed against onnx_ir for lengths 0..9;
  * verified checker: `includes` (Coq) is evaluated on the field trees of (M, N(M)) and of (carriers of N(M), f(M));
  * direct oracle: proto(f)(M) vs serialize(ir(f)(deserialize M)) byte-equal under deterministic serialisation,
    N(N(M)) = N(M), f(M) = N(M) byte-equal on models that give the transformation nothing to do.
"""
from __future__ import annotations

import ast
import hashlib
import os

import numpy as np

from harness import common
from harness import c15_models as gm
from harness import c15_forward as fwd
from harness.common import cbool, clist, cnat, cz

PROPERTY = "C15"
LEVEL = "proof"

REPO = common.REPO
SRC = {
    "optimizer": os.path.join(REPO, "onnxscript", "optimizer", "__init__.py"),
    "rewriter": os.path.join(REPO, "onnxscript", "rewriter", "__init__.py"),
    "version_converter": os.path.join(REPO, "onnxscript", "version_converter", "__init__.py"),
    "replace": os.path.join(REPO, "onnxscript", "utils", "replace.py"),
    "ir": os.path.join(REPO, "onnxscript", "ir", "__init__.py"),
    "ir_convenience": os.path.join(REPO, "onnxscript", "ir", "convenience.py"),
    "ir_passes": os.path.join(REPO, "onnxscript", "ir", "passes", "__init__.py"),
}
APIS = ("optimize", "fold_constants", "remove_unused_nodes", "remove_unused_functions", "rewrite", "replace_functions", "convert_version")


# ----------------------------------------------------------------------------- translator

def _u(n):
    return ast.unparse(n)


def _fn(tree, name):
    return next((n for n in tree.body if isinstance(n, ast.FunctionDef) and n.name == name), None)


SERIALIZERS = ("ir.serde.serialize_model", "ir.to_proto")
DESERIALIZERS = ("ir.serde.deserialize_model", "ir.from_proto")


def _discipline(fn, proto_names):
    """Classify the copy-back of one wrapper.  Returns (coq term, problems)."""
    problems = []
    ops = []          # mutations of the caller's proto
    returns = []
    assigned = {}
    for node in ast.walk(fn):
        if isinstance(node, ast.Assign) and len(node.targets) == 1 and isinstance(node.targets[0], ast.Name):
            assigned.setdefault(node.targets[0].id, []).append(_u(node.value))
        if isinstance(node, ast.Expr) and isinstance(node.value, ast.Call) and isinstance(node.value.func, ast.Attribute):
            recv = _u(node.value.func.value)
            root = recv.split(".")[0]
            if root in proto_names:
                ops.append((recv, node.value.func.attr, [_u(a) for a in node.value.args]))
        if isinstance(node, ast.Delete):
            for t in node.targets:
                if _u(t).split(".")[0] in proto_names:
                    ops.append((_u(t), "del", []))
        if isinstance(node, (ast.AugAssign,)) and _u(node.target).split(".")[0] in proto_names:
            ops.append((_u(node.target), "augassign", []))
        if isinstance(node, ast.Assign):
            for t in node.targets:
                if isinstance(t, (ast.Attribute, ast.Subscript)) and _u(t).split(".")[0] in proto_names:
                    ops.append((_u(t), "assign", []))
        if isinstance(node, ast.Return) and node.value is not None:
            returns.append(_u(node.value))

    def is_serialized(expr):
        if any(expr.startswith(s + "(") for s in SERIALIZERS):
            return True
        return any(any(v.startswith(s + "(") for s in SERIALIZERS) for v in assigned.get(expr, []))

    def is_serialized_part(expr, part):   # e.g. ir.to_proto(model.graph) or new_proto.graph
        if expr.startswith("ir.to_proto(") and expr.endswith("." + part + ")"):
            return True
        return expr.endswith("." + part) and is_serialized(expr[: -len(part) - 1])

    kinds = {(r.split(".", 1)[1] if "." in r else "", m) for r, m, _ in ops}
    if not ops:
        if any(is_serialized(r) for r in returns):
            return "NewProto", problems
        problems.append(f"no copy-back and no serialised return found (returns: {returns})")
        return "NewProto", problems
    if kinds == {("", "Clear"), ("", "CopyFrom")}:
        order = [m for _, m, _ in ops]
        arg = next(a for _, m, a in ops if m == "CopyFrom")
        if order != ["Clear", "CopyFrom"] or len(arg) != 1 or not is_serialized(arg[0]):
            problems.append(f"Clear/CopyFrom sequence not recognised: {ops}")
        return "ClearCopyFrom", problems
    if ("graph", "Clear") in kinds and ("graph", "CopyFrom") in kinds:
        allowed = {("graph", "Clear"), ("graph", "CopyFrom"), ("functions[:]", "del"), ("functions", "extend"),
                   ("opset_import[:]", "del"), ("opset_import", "extend")}
        if kinds - allowed:
            problems.append(f"fields-only copy-back with unknown operations: {sorted(kinds - allowed)}")
        garg = next(a for r, m, a in ops if r.endswith(".graph") and m == "CopyFrom")
        if len(garg) != 1 or not is_serialized_part(garg[0], "graph"):
            problems.append(f"graph.CopyFrom argument not recognised: {garg}")
        if ("functions[:]", "del") not in kinds:
            problems.append("functions are neither deleted nor replaced: not modelled")
        cf = ("functions", "extend") in kinds
        co = ("opset_import[:]", "del") in kinds and ("opset_import", "extend") in kinds
        if ("opset_import", "extend") in kinds and not co:
            problems.append("opset_import extended without being cleared")
        for part, flag in (("functions", cf), ("opset_import", co)):
            if flag:
                a = next(a for r, m, a in ops if r.endswith("." + part) and m == "extend")
                if len(a) != 1 or not is_serialized_part(a[0], part):
                    problems.append(f"{part}.extend argument not recognised: {a}")
        return f"FieldsOnly {cbool(cf)} {cbool(co)}", problems
    problems.append(f"copy-back not recognised: {ops}")
    return "NewProto", problems


def analyse_sources():
    out, problems = {}, []
    t_opt = ast.parse(open(SRC["optimizer"]).read())
    t_rw = ast.parse(open(SRC["rewriter"]).read())
    t_vc = ast.parse(open(SRC["version_converter"]).read())
    t_rp = ast.parse(open(SRC["replace"]).read())
    spec = [("optimize", t_opt, "optimize"), ("fold_constants", t_opt, "fold_constants"),
            ("remove_unused_nodes", t_opt, "remove_unused_nodes"), ("remove_unused_functions", t_opt, "remove_unused_functions"),
            ("rewrite", t_rw, "rewrite"), ("convert_version", t_vc, "convert_version"), ("replace_functions", t_rp, "replace_functions")]
    for api, tree, fname in spec:
        fn = _fn(tree, fname)
        if fn is None:
            problems.append(f"{api}: function {fname} not found")
            out[api] = "NewProto"
            continue
        term, pr = _discipline(fn, {"model", "model_proto"})
        out[api] = term
        problems += [f"{api}: {p}" for p in pr]
        src = _u(fn)
        if not any(d + "(" in src for d in DESERIALIZERS):
            problems.append(f"{api}: no deserialisation of the proto argument found")
    # rewrite: empty rule list returns the argument
    rw = _fn(t_rw, "rewrite")
    empty = False
    if rw is not None:
        for node in ast.walk(rw):
            if isinstance(node, ast.If):
                for branch_test, body in [(node.test, node.body)] + [(n.test, n.body) for n in node.orelse if isinstance(n, ast.If)]:
                    if _u(branch_test) == "not pattern_rewrite_rules" and len(body) == 1 and isinstance(body[0], ast.Return) and _u(body[0].value) == "model":
                        empty = True
    out["rewrite_empty_returns_arg"] = empty
    if not empty:
        problems.append("rewrite: `elif not pattern_rewrite_rules: return model` not found")
    # onnxscript.ir re-exports onnx_ir
    irsrc = open(SRC["ir"]).read()
    if "from onnx_ir import *" not in irsrc:
        problems.append("onnxscript/ir/__init__.py no longer re-exports onnx_ir")
    # onnxscript.ir / ir.convenience / ir.passes: pure re-exports of onnx_ir -- no entry point of their own that could treat the two
    # forms differently (anything but imports, __all__ and a docstring is not modelled: fail closed)
    for key, allowed_from in (("ir", ("onnx_ir",)), ("ir_convenience", ("onnx_ir.convenience",)), ("ir_passes", ("onnx_ir.passes",))):
        try:
            t = ast.parse(open(SRC[key]).read())
        except OSError as e:
            problems.append(f"{key}: {e}")
            continue
        for st in t.body:
            if isinstance(st, ast.Expr) and isinstance(st.value, ast.Constant):
                continue
            if isinstance(st, ast.ImportFrom) and st.module in allowed_from and st.level == 0:
                continue
            if isinstance(st, ast.Assign) and len(st.targets) == 1 and _u(st.targets[0]) == "__all__":
                continue
            problems.append(f"onnxscript/{key.replace('_', '/')}: statement other than a re-export of {allowed_from[0]}: {_u(st)[:80]}")
    # every other public function of the anchored modules that tests the entry form must be in the table
    listed = {"optimize", "fold_constants", "remove_unused_nodes", "remove_unused_functions", "rewrite", "convert_version", "replace_functions"}
    for key, tree in (("optimizer", t_opt), ("rewriter", t_rw), ("version_converter", t_vc), ("replace", t_rp)):
        for st in tree.body:
            if isinstance(st, ast.FunctionDef) and not st.name.startswith("_") and st.name not in listed:
                src = _u(st)
                if "onnx.ModelProto" in src and ("isinstance" in src or any(d + "(" in src for d in DESERIALIZERS)):
                    problems.append(f"{key}.{st.name} accepts a ModelProto but is not in the wrapper table")
    # pass calls and option forwarding, per wrapper and per entry form
    table, fproblems = fwd.analyse({api: (tree, fname) for api, tree, fname in spec})
    out["forwarding"] = table
    problems += fproblems
    return out, problems


def regenerate(ctx):
    d, problems = analyse_sources()
    ctx._c15_disc = d
    ctx._c15_problems = problems
    text = ("(* generated by harness/c15.py from the wrapper sources -- do not edit *)\n"
            "Require Import OV.Serde.Wrappers.\n"
            "Require Import OV.Serde.Forward.\nFrom Coq Require Import List String.\nImport ListNotations.\nLocal Open Scope string_scope.\n"
            + "".join(f"Definition src_{api} : copyback := {d[api]}.\n" for api in APIS)
            + f"Definition src_rewrite_empty_returns_arg : bool := {cbool(d['rewrite_empty_returns_arg'])}.\n"
            + "(* pass calls and option forwarding of the two entry forms *)\n"
            + "".join(fwd.coq_wrapper(api, d["forwarding"][api]) for api in APIS)
            + "Definition src_fw_all : list wrapper_src := [" + "; ".join(f"src_fw_{api}" for api in APIS) + "].\n"
            + "Definition src_fw_total : list (wrapper_src * copyback) := ["
            + "; ".join(f"(src_fw_{api}, src_{api})" for api in APIS if api != "convert_version") + "].\n")
    ctx.gen("C15Wrappers", text)


# ----------------------------------------------------------------------------- helpers

def det(p):
    return p.SerializeToString(deterministic=True)


def parts(p):
    """(graph, functions, opset_import, rest) as bytes."""
    import onnx
    g = det(p.graph)
    f = b"|".join(det(x) for x in p.functions)
    o = b"|".join(det(x) for x in p.opset_import)
    r = onnx.ModelProto()
    r.CopyFrom(p)
    r.ClearField("graph")
    del r.functions[:]
    del r.opset_import[:]
    return g, f, o, det(r)


class Interner:
    def __init__(self):
        self.ids = {b"": 0}

    def __call__(self, b):
        return self.ids.setdefault(b, len(self.ids))

    def np(self, p):
        g, f, o, r = parts(p)
        return f"(np {self(g)} {self(f)} {self(o)} {self(r)})"


def copy_proto(p):
    import onnx
    q = onnx.ModelProto()
    q.CopyFrom(p)
    return q


def apis(rules_some):
    """name -> (discipline key, other?, proto call, ir call, ir ret kind expected, kinds of model it is run on)."""
    from onnxscript import optimizer, rewriter, version_converter
    return [
        ("optimize", "optimize", False, lambda p: optimizer.optimize(p), lambda m: optimizer.optimize(m), "arg", {"inert", "active", "functions", "plain", "full"}),
        ("optimize_noinline", "optimize", False, lambda p: optimizer.optimize(p, inline=False, num_iterations=1),
         lambda m: optimizer.optimize(m, inline=False, num_iterations=1), "arg", {"inert", "functions", "full"}),
        ("fold_constants", "fold_constants", True, lambda p: optimizer.fold_constants(p), lambda m: optimizer.fold_constants(m), "other",
         {"inert", "active", "functions", "plain", "full"}),
        ("remove_unused_nodes", "remove_unused_nodes", False, lambda p: optimizer.remove_unused_nodes(p),
         lambda m: optimizer.remove_unused_nodes(m), "none", {"inert", "active", "functions", "plain", "full"}),
        ("remove_unused_functions", "remove_unused_functions", False, lambda p: optimizer.remove_unused_functions(p),
         lambda m: optimizer.remove_unused_functions(m), "none", {"inert", "active", "functions", "plain", "full"}),
        ("rewrite_default", "rewrite", False, lambda p: rewriter.rewrite(p), lambda m: rewriter.rewrite(m), "arg", {"inert", "active", "functions", "plain", "full"}),
        ("rewrite_rules", "rewrite", False, lambda p: rewriter.rewrite(p, rules_some), lambda m: rewriter.rewrite(m, rules_some), "arg",
         {"inert", "active", "plain"}),
        ("rewrite_empty", "rewrite_empty", False, lambda p: rewriter.rewrite(p, []), lambda m: rewriter.rewrite(m, []), "arg", {"inert", "active"}),
        ("convert_version_same", "convert_version", False, lambda p: version_converter.convert_version(p, 18),
         lambda m: version_converter.convert_version(m, 18), "none", {"inert", "active"}),
        ("convert_version_up", "convert_version", False, lambda p: version_converter.convert_version(p, 20),
         lambda m: version_converter.convert_version(m, 20), "none", {"inert", "active", "functions", "plain", "full"}),
    ] + [
        # fallback in {True, False}, targets below and above the source; below the native range only the ONNX C-API path can run
        (f"convert_version_{t}_fallback_{fb}", "convert_version", False,
         (lambda p, t=t, fb=fb: version_converter.convert_version(p, t, fallback=fb)),
         (lambda m, t=t, fb=fb: version_converter.convert_version(m, t, fallback=fb)), "none", {"plain"})
        for t, fb in ((17, True), (16, True), (13, True), (17, False), (21, True), (21, False), (18, True))
    ]


# TensorProto.segment: "for very large tensors ... not currently used" (onnx.proto); no producer sets it, the checker rejects nothing about it
SCHEMA_EXCLUDED = {("TensorProto", "segment"), ("Segment", "begin"), ("Segment", "end")}
INERT_INCLUDE = {"optimize_noinline", "fold_constants"}
INERT_EQUAL = {"optimize_noinline", "fold_constants", "remove_unused_nodes", "remove_unused_functions", "rewrite_default", "rewrite_rules",
               "convert_version_same"}


def _api_family(name):
    return "convert_version" if name.startswith("convert_version") else name


def initializers_survive(onnx, before, after):
    """(lost, changed): initializers of `before` that `after` still refers to (node input in any graph, graph input/output)
    but that are no longer initializers there / whose dtype, dims or payload differ."""
    used = set()

    def walk(g):
        for n in g.node:
            used.update(n.input)
            for a in n.attribute:
                if a.type == onnx.AttributeProto.GRAPH:
                    walk(a.g)
                for sg in a.graphs:
                    walk(sg)
    walk(after.graph)
    used.update(v.name for v in after.graph.input)
    used.update(v.name for v in after.graph.output)
    have = {t.name: t for t in after.graph.initializer}
    lost, changed = [], []
    for t in before.graph.initializer:
        if t.name not in used:
            continue
        if t.name not in have:
            lost.append(t.name)
            continue
        u = have[t.name]
        same = (t.data_type == u.data_type and list(t.dims) == list(u.dims) and t.data_location == u.data_location
                and list(t.string_data) == list(u.string_data)
                and sorted((e.key, e.value) for e in t.external_data) == sorted((e.key, e.value) for e in u.external_data)
                and (gm.tensor_payload(onnx, t) or b"") == (gm.tensor_payload(onnx, u) or b""))
        if not same:
            changed.append(t.name)
    return sorted(lost), sorted(changed)


def carriers(tree_n, tree_f, lifted_ok=False):
    """The part of N(M)'s tree that no listed transformation needs to change, cut down to what still exists in f(M):
    model-level fields, graph name/doc/metadata, graph inputs/outputs, initializers that still exist, metadata/doc of values
    that still exist, functions that still exist, and nodes whose name, op and connections are unchanged."""
    def fields(t):
        return dict(t[1]) if t[0] == "node" else {}
    n, f = fields(tree_n), fields(tree_f)
    out = [(k, v) for k, v in tree_n[1] if k in ("ir_version", "producer_name", "producer_version", "domain", "model_version", "doc_string",
                                                   "metadata_props", "configuration", "training_info")]
    if "functions" in n and "functions" in f and n["functions"][0] == "node" and f["functions"][0] == "node":
        keep = dict(f["functions"][1])
        out.append(("functions", ("node", [(k, v) for k, v in n["functions"][1] if k in keep])))
    gn, gf = fields(n.get("graph", ("node", []))), fields(f.get("graph", ("node", [])))
    g = [(k, v) for k, v in n.get("graph", ("node", []))[1] if k in ("name", "doc_string", "metadata_props", "input", "output", "quantization_annotation",
                                                                         "sparse_initializer")]
    # nodes by name when signature unchanged
    def sig(node_tree):
        d = dict(node_tree[1])
        return tuple(repr(d.get(k)) for k in ("name", "op_type", "domain", "input", "output"))
    stable_values = set()
    for fld in ("input", "initializer"):
        if fld in gn:
            items = gn[fld][1]
            for it in items:
                t = it[1] if gn[fld][0] == "node" else it
                nm = dict(t[1]).get("name")
                if nm:
                    stable_values.add(nm[1])
    lifted = []
    all_inits_f = set()

    def collect(t):
        if t[0] == "seq":
            for x in t[1]:
                collect(x)
        elif t[0] == "node":
            for k, v in t[1]:
                if k == "initializer" and v[0] == "node":
                    all_inits_f.update(nm for nm, _ in v[1])
                collect(v)
    collect(tree_f)

    def relax(t, inside=False):
        """Inside graph-valued attributes: value types may be refined by shape inference (keep name / doc / metadata of value_info only) and
        initializers may be lifted to the main graph (expected there instead, under their name)."""
        if t[0] == "seq":
            return ("seq", [relax(x, inside) for x in t[1]])
        if t[0] != "node":
            return t
        fs = []
        own_inits = {nm for k, v in t[1] if k == "initializer" and v[0] == "node" for nm, _ in v[1]} if lifted_ok else set()
        for k, v in t[1]:
            if inside and lifted_ok and k == "initializer" and v[0] == "node":
                lifted.extend(v[1])
                continue
            if inside and k == "value_info" and v[0] == "node":
                fs.append((k, ("node", [(nm, ("node", [(a, b) for a, b in vv[1] if a in ("name", "doc_string", "metadata_props")])) for nm, vv in v[1]
                                        if nm not in own_inits])))
                continue
            fs.append((k, relax(v, inside or k in ("g", "graphs"))))
        return ("node", fs)
    if "node" in gn and "node" in gf:
        fs = {sig(t): t for t in gf["node"][1]}
        ns = [relax(t) for t in gn["node"][1] if sig(t) in fs and dict(t[1]).get("name")]
        names = [dict(t[1])["name"][1] for t in ns]
        if len(set(names)) == len(names):
            g.append(("node_by_name", ("node", [(nm.decode(), t) for nm, t in zip(names, ns)])))
            for t in ns:
                outs = dict(t[1]).get("output")
                if outs:
                    stable_values |= {o[1] for o in outs[1]}
    for fld, strip in (("initializer", False), ("value_info", True)):
        if fld in gn and fld in gf and gn[fld][0] == "node" and gf[fld][0] == "node":
            keep = dict(gf[fld][1])
            items = []
            have = {k for k, _ in gn[fld][1]}
            for k, v in list(gn[fld][1]) + ([kv for kv in lifted if kv[0] not in have] if fld == "initializer" else []):
                if k in keep or (fld == "initializer" and (k, v) in lifted and k not in all_inits_f):
                    if strip:
                        # only values whose producer is untouched; types/shapes may be refined by shape inference
                        if k.encode() not in stable_values:
                            continue
                        v = ("node", [(a, b) for a, b in v[1] if a in ("name", "doc_string", "metadata_props")])
                    items.append((k, v))
            g.append((fld, ("node", items)))
    out.append(("graph", ("node", g)))
    return ("node", out)


def with_nodes_by_name(tree_f):
    """Mirror of `carriers` on the f(M) side: add the name-keyed view of the nodes."""
    d = dict(tree_f[1])
    g = d.get("graph")
    if not g:
        return tree_f
    gd = dict(g[1])
    extra = []
    if "node" in gd:
        named = [(dict(t[1])["name"][1].decode(), t) for t in gd["node"][1] if dict(t[1]).get("name")]
        if len({k for k, _ in named}) == len(named):
            extra.append(("node_by_name", ("node", named)))
    g2 = ("node", list(g[1]) + extra)
    return ("node", [(k, (g2 if k == "graph" else v)) for k, v in tree_f[1]])


def eval_bools(ctx, requires, prelude, exprs, label, shard=40):
    """Evaluate boolean Coq expressions in shards; returns the set of indices that are false (None on error)."""
    from concurrent.futures import ThreadPoolExecutor
    bodies, spans = [], []
    for a in range(0, len(exprs), shard):
        bodies.append(prelude + "Definition cases : list bool := " + clist(exprs[a:a + shard]) + ".\nEval vm_compute in (disagreeing 0 cases).\n")
        spans.append(a)
    with ThreadPoolExecutor(max_workers=8) as ex:
        res = list(ex.map(lambda ib: ctx.coq_eval(requires, ib[1], name=f"c15_{label}{ib[0]}"), enumerate(bodies)))
    bad = set()
    for a, (ok, vals, raw) in zip(spans, res):
        if not ok or not vals:
            ctx.tie_broken("correspondence", f"{label}-evaluation", raw[-1200:])
            return None
        bad |= {a + i for i in common.parse_nat_list(vals[0])}
    return bad


# ----------------------------------------------------------------------------- option forwarding

def _resolve(module, dotted):
    """(holder object, attribute name) of a dotted callee name as the wrapper's module sees it."""
    parts = dotted.split(".")
    holder = module
    for p in parts[:-1]:
        holder = getattr(holder, p)
    getattr(holder, parts[-1])
    return holder, parts[-1]


def _inner_callees(table_entry):
    """Callees constructed inside argument expressions (e.g. RewritePass(rules) inside the PassManager tuple)."""
    names = []
    for form in ("ir", "proto"):
        for c in table_entry[form]:
            for part in (c["ctor"], c["args"]):
                if part is None:
                    continue
                for a in part["pos"] + [v for _, v in part["kw"]]:
                    if a[0] == "expr":
                        try:
                            e = ast.parse(a[1], mode="eval")
                        except SyntaxError:
                            continue
                        for n in ast.walk(e):
                            if isinstance(n, ast.Call):
                                nm = _u(n.func)
                                if nm not in DESERIALIZERS and nm not in SERIALIZERS and nm not in names and all(x.isidentifier() for x in nm.split(".")):
                                    names.append(nm)
    return names


def forwarding_stream(ctx, disc, models, rules_some):
    """(1) per wrapper: `forwarding_ok` of the translated table, decided in Coq; (2) the translated table against the running code:
    every callee is replaced by a recording pass-through, each wrapper is called in both entry forms with a non-default value for
    every option of its signature, and what reached the callee is compared with the table's prediction and across the two forms."""
    import inspect
    import onnx
    from onnxscript import ir, optimizer, rewriter, version_converter
    from onnxscript.utils import replace as replace_mod
    table = disc["forwarding"]
    ok, vals, raw = ctx.coq_eval(["OV.Serde.Forward", "OV.Gen.C15Wrappers"],
                                 "".join(f"Eval vm_compute in (forwarding_ok src_fw_{a}).\nEval vm_compute in (unforwarded src_fw_{a} (w_proto src_fw_{a})).\n"
                                         for a in APIS), name="c15_forwarding")
    if not ok or len(vals) != 2 * len(APIS):
        ctx.tie_broken("proof", "forwarding_ok", raw[-800:])
        return
    unfw = {}
    for i, a in enumerate(APIS):
        good = vals[2 * i].strip().startswith("true")
        unfw[a] = vals[2 * i + 1].split(":")[0].strip()
        detail = "" if good else fwd.describe_difference(table[a])
        ctx.obligation(f"forwarding: {a}: ir.Model branch and ModelProto branch hand the model to the same pass with the same options "
                       f"({len(table[a]['proto'])} call(s), options {table[a]['params']})", good, detail)
        if not good:
            ctx.tie_broken("translator", f"forwarding:{a}", detail or "the two branches differ")
    # ---- runtime cross-check
    fns = gm.replacement_functions(onnx)
    mods = {"optimize": optimizer, "fold_constants": optimizer, "remove_unused_nodes": optimizer, "remove_unused_functions": optimizer,
            "rewrite": rewriter, "convert_version": version_converter, "replace_functions": replace_mod}
    extra = {"fold_constants": {"kwargs": {"onnx_shape_inference": True, "input_size_limit": 11, "output_size_limit": 13}, "args": ()},
             "convert_version": {"target_version": 19, "fallback": True},
             "rewrite": {"pattern_rewrite_rules": rules_some},
             "replace_functions": {"functions": fns}}
    m_fn = next(m for m, info in models if info["kind"] == "functions")
    m_rp = next(m for m, info in models if info["kind"] == "replace")
    n_calls = n_opts = 0
    mismatches = []
    for api in APIS:
        module = mods[api]
        wrapper = getattr(module, api)
        sig = inspect.signature(wrapper)
        pos_opts, kw_opts, env = [], {}, {}
        try:
            for name, prm in list(sig.parameters.items())[1:]:
                if prm.kind == prm.VAR_POSITIONAL:
                    env[name] = tuple(extra.get(api, {}).get(name, ()))
                    pos_opts = list(env[name])
                elif prm.kind == prm.VAR_KEYWORD:
                    env[name] = dict(extra.get(api, {}).get(name, {}))
                else:
                    env[name] = fwd.nondefault(name, prm.default, extra.get(api, {}))
                    kw_opts[name] = env[name]
        except KeyError as e:
            ctx.tie_broken("harness", f"forwarding:{api}", f"no non-default value known for option {e}")
            continue
        if sorted(env) != sorted(table[api]["params"]):
            ctx.tie_broken("translator", f"forwarding:{api}", f"signature at run time {sorted(env)} differs from the translated one {sorted(table[api]['params'])}")
            continue
        n_opts += len(env)
        callees = [c["fun"] for c in table[api]["proto"]] + _inner_callees(table[api])
        logs = {}
        results = {}
        src = m_rp if api == "replace_functions" else m_fn
        for form in ("proto", "ir"):
            log = []
            spies = []
            try:
                seen = set()
                for nm in callees:
                    if nm in seen:
                        continue
                    seen.add(nm)
                    holder, attr = _resolve(module, nm)
                    spies.append(fwd.Spy(holder, attr, log, nm))
            except AttributeError as e:
                ctx.tie_broken("translator", f"forwarding:{api}", f"callee does not resolve in the wrapper's module: {e}")
                break
            for sp in spies:
                sp.__enter__()
            try:
                allkw = dict(kw_opts)
                for name, prm in sig.parameters.items():
                    if prm.kind == prm.VAR_KEYWORD:
                        allkw.update(env[name])
                if form == "proto":
                    arg = copy_proto(src)
                    r = wrapper(arg, *pos_opts, **allkw)
                    results[form] = r if isinstance(r, onnx.ModelProto) else arg
                else:
                    mi = ir.serde.deserialize_model(copy_proto(src))
                    if api == "replace_functions":
                        replace_mod.replace_functions_inplace(mi, [ir.from_proto(f) for f in fns])
                    else:
                        wrapper(mi, *pos_opts, **allkw)
                    results[form] = ir.serde.serialize_model(mi)
            except Exception as e:  # noqa: BLE001
                results[form] = e
            finally:
                for sp in reversed(spies):
                    sp.__exit__()
            logs[form] = log
        else:
            n_calls += 2

            def canon(v, depth=0):
                if isinstance(v, ir.Model):
                    return "<model>"
                for name, val in env.items():
                    if v is val and not isinstance(v, (bool, int, tuple)):
                        return f"<option {name}>"
                if isinstance(v, (bool, int, float, str, type(None))):
                    return repr(v)
                if isinstance(v, (list, tuple)) and depth < 3:
                    return "[" + ",".join(canon(x, depth + 1) for x in v) + "]"
                if isinstance(v, dict) and depth < 3:
                    return "{" + ",".join(f"{k}:{canon(x, depth + 1)}" for k, x in sorted(v.items())) + "}"
                if isinstance(v, ir.Function):
                    return f"<function {v.identifier()}>"
                return f"<{type(v).__name__}>"
            cl = {f: [(t, k, [canon(x) for x in a], sorted((kk, canon(x)) for kk, x in kw.items())) for t, k, a, kw in logs[f]] for f in logs}
            # prediction of the translated table, per form
            for form in ("proto", "ir"):
                if api == "replace_functions" and form == "ir":
                    continue
                want = []
                for c in table[api][form]:
                    for part, kind in ((c["ctor"], "ctor"), (c["args"], "call")):
                        if part is None:
                            continue
                        want.append((c["fun"], kind, part))
                got = [e for e in logs[form] if e[0] in {c["fun"] for c in table[api][form]}]
                if len(got) != len(want):
                    mismatches.append((api, form, f"{len(got)} recorded calls of {[c['fun'] for c in table[api][form]]}, the table predicts {len(want)}"))
                    continue
                for (t, k, a, kw), (wt, wk, part) in zip(got, want):
                    if (t, k) != (wt, wk):
                        mismatches.append((api, form, f"recorded {t}/{k}, predicted {wt}/{wk}"))
                        continue
                    exp_pos = len(part["pos"]) + (len(env[part["star"]]) if part["star"] else 0)
                    if len(a) != exp_pos:
                        mismatches.append((api, form, f"{t}: {len(a)} positional arguments, predicted {exp_pos}"))
                        continue
                    for x, cls in zip(a, part["pos"]):
                        if cls[0] == "model" and not isinstance(x, ir.Model):
                            mismatches.append((api, form, f"{t}: positional argument predicted to be the model is a {type(x).__name__}"))
                        if cls[0] == "param" and not (x is env[cls[1]] or x == env[cls[1]]):
                            mismatches.append((api, form, f"{t}: positional argument predicted to be option {cls[1]} is {x!r}"))
                    if part["star"] and tuple(a[len(part["pos"]):]) != tuple(env[part["star"]]):
                        mismatches.append((api, form, f"{t}: *{part['star']} not forwarded as given"))
                    exp_keys = {kk for kk, _ in part["kw"]} | (set(env[part["dstar"]]) if part["dstar"] else set())
                    if set(kw) != exp_keys:
                        mismatches.append((api, form, f"{t}: keyword arguments {sorted(kw)}, predicted {sorted(exp_keys)}"))
                        continue
                    for kk, cls in part["kw"]:
                        if cls[0] == "param" and not (kw[kk] is env[cls[1]] or kw[kk] == env[cls[1]]):
                            mismatches.append((api, form, f"{t}: keyword {kk} predicted to carry option {cls[1]}={env[cls[1]]!r}, carries {kw[kk]!r}"))
                    if part["dstar"]:
                        for kk, vv in env[part["dstar"]].items():
                            if kw.get(kk) != vv:
                                mismatches.append((api, form, f"{t}: **{part['dstar']}[{kk}] not forwarded as given"))
            ctx.case(("forwarding-runtime", api, len(env), len(logs["proto"])))
            # across the two forms: the same calls with the same option values reach the passes
            if api != "replace_functions" and cl["proto"] != cl["ir"]:
                rp, ri = results.get("proto"), results.get("ir")
                rep = {"api": api, "options": {k: canon(v) for k, v in env.items()}, "reached_pass_proto_form": [str(x) for x in cl["proto"]],
                       "reached_pass_ir_form": [str(x) for x in cl["ir"]], "seed": ctx.seed}
                if isinstance(rp, onnx.ModelProto) and isinstance(ri, onnx.ModelProto) and det(rp) != det(ri):
                    ctx.violation(f"C15:{api}:options-not-forwarded-alike",
                                  f"{api}: with non-default options the ModelProto form and the ir.Model form hand different options to the pass "
                                  f"and the results differ", dict(rep, model=det(src).hex() if len(det(src)) < 40000 else None))
                else:
                    ctx.tie_broken("correspondence", f"forwarding:{api}", f"the two entry forms hand different options to the pass: proto {cl['proto']} vs ir {cl['ir']}")
    for api, form, why in mismatches[:6]:
        ctx.tie_broken("translator", f"forwarding:{api}", f"{form} form: {why}")
    ctx.obligation("correspondence: the translated pass calls / option-forwarding maps predict what reaches the callees at run time "
                   "(recording pass-throughs, non-default value for every option, both entry forms)", not mismatches and n_calls > 0,
                   f"{len(mismatches)} mismatches; {n_calls} wrapper calls")
    ctx.cover(forwarding={a: {"options": table[a]["params"], "calls": [c["fun"] for c in table[a]["proto"]], "options_not_reaching_a_pass": unfw[a]}
                          for a in APIS}, forwarding_runtime_calls=n_calls, forwarding_options_exercised=n_opts)


# ----------------------------------------------------------------------------- the check

def run(ctx):
    import onnx
    from onnxscript import ir
    from onnxscript.rewriter.rules.common import _no_op, _fuse_relus_clips
    from onnxscript.utils import replace as replace_mod

    ctx.assume("ser/deser/pass are arbitrary functions in the wrapper theorems; the laws used are hypotheses of the theorems that need them "
               "(C15_convert_version_*: N M = M for the input, the pass leaves the non-graph fields alone); measured here: N(N(M)) = N(M) "
               "byte-wise, inclusion of M in N(M), determinism of proto-path vs IR-path on every generated model")
    ctx.assume("ir.to_proto(model.graph) = graph of ir.to_proto(model) (used to model convert_version's graph-only copy-back)")
    ctx.assume("option forwarding: an argument expression that is not a bare wrapper parameter is compared across the two branches as normalised "
               "source text over the same parameter values (equal text => equal value); keyword order is irrelevant (sorted by the translator)")
    ctx.assume("deterministic protobuf serialisation (SerializeToString(deterministic=True)) is the equality on ModelProtos")
    ctx.assume("tensor payload canonicalisation of the walker (typed fields -> little-endian bytes) follows onnx.proto; cross-checked "
               "against onnx.numpy_helper on the basic element types")
    ctx.trust("onnx_ir.serde (outside /repo, 2400 lines): measured against the inclusion checker and byte equality, not verified")
    if not hasattr(ctx, "_c15_problems"):
        regenerate(ctx)
    for p in ctx._c15_problems:
        ctx.tie_broken("translator", "wrappers", p)
    ctx.obligation("translator: copy-back discipline, pass calls and option forwarding of all seven wrappers recognised in the source; onnxscript.ir / ir.convenience / ir.passes are pure re-exports", not ctx._c15_problems,
                   "; ".join(ctx._c15_problems))
    disc = ctx._c15_disc
    ctx.check_props()
    ctx.build(["Serde/Wrappers.vo", "Serde/Forward.vo", "Serde/Tree.vo", "Serde/Packing.vo", "Gen/C15Wrappers.vo"])

    import logging
    logging.getLogger("onnxscript.version_converter").setLevel(logging.ERROR)   # the C-API fallback logs a traceback per refusal
    rng = ctx.rng
    N = lambda p: ir.serde.serialize_model(ir.serde.deserialize_model(p))  # noqa: E731
    rules_some = list(_no_op.rules) + list(_fuse_relus_clips.rules)
    n_models = 24 if ctx.tier == "quick" else 96
    kinds = ["inert", "inert", "active", "active", "functions", "replace"]
    models = []
    for i in range(n_models):
        kind = kinds[i % len(kinds)]
        m, info = gm.gen_model(rng, onnx, kind, i)
        models.append((m, info))
    # plain standard-domain models with initializers around the 1000-element limit of the C-API helper, some of them graph inputs
    for i in range(6 if ctx.tier == "quick" else 40):
        models.append(gm.gen_plain(rng, onnx, n_models + i))
    # every field of the schema populated with a value that names its place; the variants add, one at a time, what onnx_ir is known to drop / refuse
    full_variants = [dict(), dict(devices=False), dict(checksum=True), dict(sparse=True), dict(training=True), dict(sparse_attr=True), dict(map_type=True),
                     dict(opaque=True)]
    for j in range(len(full_variants) if ctx.tier == "quick" else 3 * len(full_variants)):
        models.append(gm.gen_full(rng, onnx, len(models), **full_variants[j % len(full_variants)]))
    schema = gm.schema_fields(onnx)
    populated = set()
    for m, _ in models:
        gm.populated_fields(m, populated)
    unset = [f for f in schema if f not in populated and f not in SCHEMA_EXCLUDED]
    ctx.obligation(f"generator: every field of the ONNX schema reachable from ModelProto ({len(schema)} message fields) is populated in some generated model "
                   f"(not populated on purpose: {sorted('.'.join(f) for f in SCHEMA_EXCLUDED)})", not unset, f"never populated: {unset}")
    ctx.cover(schema_fields=len(schema), schema_fields_populated=len([f for f in schema if f in populated]))
    # validity of what we generate (the property quantifies over valid models)
    invalid = 0
    import tempfile
    import shutil
    cwd = os.getcwd()
    tmpd = tempfile.mkdtemp(prefix="osverif-c15-")
    try:
        with open(os.path.join(tmpd, "weights.bin"), "wb") as fh:
            fh.write(bytes(8192))
        os.chdir(tmpd)   # the checker resolves external-data locations against the working directory
        for m, info in models:
            try:
                onnx.checker.check_model(m)
            except Exception as e:  # noqa: BLE001
                invalid += 1
                info["invalid"] = str(e)[:200]
    finally:
        os.chdir(cwd)
        shutil.rmtree(tmpd, ignore_errors=True)
    ctx.obligation("generator: every generated model passes onnx.checker", invalid == 0,
                   f"{invalid} invalid, e.g. {[i['invalid'] for _, i in models if 'invalid' in i][:1]}")

    import time
    t_api0 = time.time()
    # external-data references of the generated models resolve against the working directory (deduplication reads initializers)
    workdir = tempfile.mkdtemp(prefix="osverif-c15-")
    with open(os.path.join(workdir, "weights.bin"), "wb") as fh:
        fh.write(bytes(range(256)) * 32)
    os.chdir(workdir)
    try:
        intern = Interner()
        eff_cases, eff_meta = [], []
        incl_cases, incl_meta = [], []
        twin = {"n": 0, "bad": 0}

        def report_lost(what, d, rep):
            by_key = {}
            for x in d or [()]:
                by_key.setdefault(lost_key(what, [x] if x else []), []).append(x)
            for key, ds in by_key.items():
                x = ds[0]
                path = "/".join(str(y) for y in (x[:-2] if x and x[-1] != "missing" else x[:-1])) if x else "?"
                ctx.violation(key, f"{what}: a populated field does not reappear with the same value at {path}",
                              dict(rep, relation=what, differences=[list(map(str, y)) for y in ds[:8]]))

        def check_inclusion(what, info, ta, tb, rep, to_coq):
            """Python twin on every pair (search engine); the verified checker (Coq) on the pairs selected for this tier."""
            twin["n"] += 1
            d = gm.py_includes(ta, tb)
            if d:
                twin["bad"] += 1
                report_lost(what, d, rep)
            if to_coq:
                if not gm.py_wk(ta):
                    ctx.tie_broken("harness", "field-tree", f"{what} on model {info['idx']}: the tree built for the left side lists a key twice")
                incl_cases.append(f"(let a := {gm.coq_tree(ta)} in wkb a && includes a ({gm.coq_tree(tb)}))")
                incl_meta.append((what, info, ta, tb, rep, bool(d)))
        elem_seen = set()
        n_alike = n_inert_equal = n_norm_only = 0
        api_counts = {}
        for m, info in models:
            elem_seen |= set(info["elem_types"])
            m_bytes = det(m)
            rep0 = {"model_kind": info["kind"], "model_index": info["idx"], "model_sha1": hashlib.sha1(m_bytes).hexdigest(), "seed": ctx.seed}
            # ---- N: idempotence and inclusion
            try:
                n1 = N(m)
                n2 = N(n1)
            except Exception as e:  # noqa: BLE001
                root = e
                while root.__cause__ is not None:
                    root = root.__cause__
                cls = ("sparse-tensor-attribute-not-supported" if "Sparse tensors are not supported" in str(root) else
                       "map-type-not-supported" if "Map types are not supported" in str(root) else type(root).__name__)
                ctx.violation(f"C15:serde:raises:{cls}", f"deserialize/serialize of a valid model raised {type(root).__name__}: {str(root)[:200]}", rep0)
                ctx.case(("N-raises", info["kind"], cls))
                continue
            ctx.case(("N", info["kind"], info["metadata"], info["external"]))
            if det(n1) != det(n2):
                d = gm.py_includes(gm.tree_of(onnx, n2), gm.tree_of(onnx, n1)) or gm.py_includes(gm.tree_of(onnx, n1), gm.tree_of(onnx, n2))
                cls = _diff_class(d)
                key = "C15:serde:tensor-metadata_props-duplicated" if cls == "tensor-metadata_props" else f"C15:serde:not-idempotent:{cls}"
                ctx.violation(key, f"N(N(M)) differs from N(M) ({cls}: {[list(map(str, x)) for x in d[:2]]})",
                              dict(rep0, model=m_bytes.hex() if len(m_bytes) < 20000 else None))
            if det(m) != m_bytes:
                ctx.violation("C15:serde:deserialize-mutates-argument", "ir.serde.deserialize_model changed the ModelProto it was given", rep0)
            tm, tn = gm.tree_of(onnx, m), gm.tree_of(onnx, n1)
            check_inclusion("M<=N(M)", info, tm, tn, rep0, True)
            api_no = 0
            # ---- APIs
            table = apis(rules_some)
            if info["kind"] == "replace":
                fns = gm.replacement_functions(onnx)
                table = [("replace_functions", "replace_functions", False, lambda p: replace_mod.replace_functions(p, fns),
                          lambda mi: replace_mod.replace_functions_inplace(mi, [ir.from_proto(f) for f in fns]), "none", {"replace"})]
            for name, dkey, other, pcall, icall, iret, on_kinds in table:
                if info["kind"] not in on_kinds:
                    continue
                rep = dict(rep0, api=name)
                arg = copy_proto(m)
                try:
                    r = pcall(arg)
                    perr = None
                except Exception as e:  # noqa: BLE001
                    perr = e
                mi = ir.serde.deserialize_model(copy_proto(m))
                try:
                    ri = icall(mi)
                    ierr = None
                except Exception as e:  # noqa: BLE001
                    ierr = e
                api_counts[name] = api_counts.get(name, 0) + 1
                if perr is not None or ierr is not None:
                    ctx.case(("api-raises", name, type(perr).__name__, type(ierr).__name__))
                    if type(perr) is not type(ierr):
                        ctx.violation(f"C15:{name}:forms-disagree-on-error", f"proto form: {perr!r}; IR form: {ierr!r}", rep)
                    continue
                S = ir.serde.serialize_model(mi)
                # what was returned / mutated
                if r is None:
                    kind_p, ret_p = 0, arg
                elif r is arg:
                    kind_p, ret_p = 1, arg
                elif isinstance(r, onnx.ModelProto):
                    kind_p, ret_p = 2, r
                else:
                    kind_p, ret_p = 3, arg
                result_p = r if kind_p == 2 else arg
                kind_i = "none" if ri is None else ("arg" if ri is mi else ("other" if not isinstance(ri, ir.Model) else "new"))
                ctx.case(("api", name, info["kind"], kind_p, kind_i, det(arg) != m_bytes))
                # correspondence with the wrapper model (Coq)
                if dkey == "rewrite_empty":
                    expr = f"obs_matches (run_empty_rules nat nat nat nat {intern.np(m)}) {intern.np(arg)} {kind_p} {intern.np(ret_p)}" \
                        if disc["rewrite_empty_returns_arg"] else "false"
                else:
                    expr = (f"obs_matches (run_core nat nat nat nat 0 src_{dkey} {cbool(other)} {intern.np(m)} {intern.np(S)}) "
                            f"{intern.np(arg)} {kind_p} {intern.np(ret_p)}")
                eff_cases.append(expr)
                eff_meta.append((name, info, rep, kind_p, det(arg) != m_bytes))
                if kind_i != iret:
                    ctx.violation(f"C15:{name}:ir-form-return", f"IR form returned {kind_i}, the argument object was expected to be {iret}", rep)
                # direct oracle: alike
                if dkey == "rewrite_empty":
                    alike = det(N(result_p)) == det(S)
                else:
                    alike = det(result_p) == det(S)
                if alike:
                    n_alike += 1
                else:
                    norm_only = False
                    if dkey == "convert_version":
                        try:
                            norm_only = det(N(result_p)) == det(S)
                        except Exception:  # noqa: BLE001
                            norm_only = False
                    if norm_only:
                        n_norm_only += 1
                    else:
                        key = f"C15:{name}:proto-vs-ir-differ"
                        what = f"{name}: proto result differs from serialize(ir result)"
                        ta_, tb_ = dict(gm.tree_of(onnx, result_p)[1]), dict(gm.tree_of(onnx, S)[1])
                        diff_parts = sorted(k for k in set(ta_) | set(tb_) if ta_.get(k) != tb_.get(k))
                        if dkey == "convert_version" and diff_parts == ["opset_import"]:
                            key = "C15:convert_version:proto-opset_import-not-copied"
                            what = ("convert_version(ModelProto, v) rewrites the graph for opset v but leaves opset_import at the old version; "
                                    "the IR form updates it")
                        ctx.violation(key, what, dict(rep, differing_parts=diff_parts, model=m_bytes.hex() if len(m_bytes) < 20000 else None))
                # direct oracle: every initializer that is still referenced survives with identical dtype, dims and bytes,
                # in both entry forms; the graph signature is what it was
                for form, fres in (("proto", result_p), ("ir", S)):
                    lost, changed = initializers_survive(onnx, n1, fres)
                    if lost:
                        ctx.violation(f"C15:{_api_family(name)}:initializer-lost",
                                      f"{name} ({form} form): initializers {lost} are still referenced but no longer carry a value",
                                      dict(rep, form=form, lost=lost, model_info=info, model=m_bytes.hex() if len(m_bytes) < 40000 else None))
                    if changed:
                        ctx.violation(f"C15:{_api_family(name)}:initializer-payload-changed",
                                      f"{name} ({form} form): initializers {changed} changed dtype, dims or bytes",
                                      dict(rep, form=form, changed=changed, model_info=info, model=m_bytes.hex() if len(m_bytes) < 40000 else None))
                    sig = lambda p: ([det(v) for v in p.graph.input], [det(v) for v in p.graph.output])  # noqa: E731
                    if sig(fres) != sig(n1):
                        ctx.violation(f"C15:{_api_family(name)}:graph-signature-changed",
                                      f"{name} ({form} form): graph inputs/outputs differ from those of the model it was given",
                                      dict(rep, form=form, inputs_before=[v.name for v in n1.graph.input], inputs_after=[v.name for v in fres.graph.input],
                                           outputs_after=[v.name for v in fres.graph.output], model_info=info))
                # direct oracle: nothing to do => nothing lost, bit for bit
                if info["kind"] == "inert" and name in INERT_INCLUDE and not info["vi_complete"]:
                    # shape inference may add value_info for the intermediates: nothing may be lost, additions are fine
                    check_inclusion(f"N(M)<=f(M):{name}", info, tn, gm.tree_of(onnx, result_p), rep, True)
                elif info["kind"] == "inert" and name in INERT_EQUAL:
                    same = det(result_p) == det(n1)
                    if not same and disc.get(dkey, "").startswith("FieldsOnly"):
                        # the caller's proto keeps its own top-level fields, incl. ones explicitly set to their default
                        same = gm.tree_of(onnx, result_p) == tn
                    if same:
                        n_inert_equal += 1
                    else:
                        d = gm.py_includes(tn, gm.tree_of(onnx, result_p))
                        ctx.violation(f"C15:{name}:inert-model-changed", f"{name} on a model that gives it nothing to do differs from N(M): {d[:3]}",
                                      dict(rep, first_differences=[list(map(str, x)) for x in d[:6]], model=m_bytes.hex() if len(m_bytes) < 20000 else None))
                # verified checker: carriers of N(M) survive in f(M)
                if dkey != "rewrite_empty":
                    tf = with_nodes_by_name(gm.tree_of(onnx, result_p))
                    tc = carriers(tn, tf, lifted_ok=name.startswith("optimize"))
                    api_no += 1
                    in_coq = (api_no + info["idx"]) % (2 if ctx.tier == "thorough" else 4) == 0
                    check_inclusion(f"carriers<=f(M):{name}", info, tc, tf, rep, in_coq)
        ctx.sample({"model": models[0][1], "apis": sorted(api_counts)})

    finally:
        os.chdir(cwd)
        shutil.rmtree(workdir, ignore_errors=True)
    t_api = time.time() - t_api0
    t_coq0 = time.time()
    # ---- Coq: wrapper effects
    bad = eval_bools(ctx, ["OV.Serde.Wrappers", "OV.Gen.C15Wrappers"], "", eff_cases, "effects", shard=400)
    if bad is not None:
        for i in sorted(bad)[:8]:
            name, info, rep, kind_p, mutated = eff_meta[i]
            exp = disc.get("convert_version" if name.startswith("convert_version") else
                           name.split("_noinline")[0].replace("rewrite_default", "rewrite").replace("rewrite_rules", "rewrite"), "?")
            # the property itself: in-place variants mutate, the others leave the argument unchanged
            pure_expected = name.startswith(("optimize", "rewrite", "replace_functions"))
            if pure_expected and mutated:
                ctx.violation(f"C15:{name}:argument-mutated", f"{name} changed the ModelProto it was given (documented as returning a new model)", rep)
            elif not pure_expected and kind_p == 2:
                ctx.violation(f"C15:{name}:returns-new-proto", f"{name} is an in-place API but returned a new ModelProto", rep)
            else:
                ctx.tie_broken("correspondence", f"wrapper-effect:{name}", f"model {info['idx']} ({info['kind']}): real effect (returned kind {kind_p}, "
                               f"argument mutated {mutated}) differs from the wrapper model with discipline {exp}")
        ctx.obligation("correspondence: argument-after / returned object of every API call = wrapper model (Coq) with the regenerated disciplines",
                       not bad and bool(eff_cases), f"{len(bad)} disagreeing of {len(eff_cases)}")
    # ---- Coq: inclusion checker
    bad = eval_bools(ctx, ["OV.Serde.Tree"], "", incl_cases, "includes", shard=12)
    if bad is not None:
        twin_disagrees = 0
        for i in range(len(incl_meta)):
            what, info, ta, tb, rep, twin_bad = incl_meta[i]
            if (i in bad) != twin_bad:
                twin_disagrees += 1
                ctx.tie_broken("checker", "includes", f"{what} on model {info['idx']}: Coq `includes` says {i not in bad}, its Python twin says {not twin_bad}")
            elif i in bad:
                report_lost(what, gm.py_includes(ta, tb), rep)
        ctx.obligation("Python twin of `includes` agrees with the verified checker on every pair evaluated in Coq", twin_disagrees == 0)
        unexplained = [i for i in bad if not _is_known(ctx, incl_meta[i])]
        ctx.obligation("verified checker `includes` accepts (M, N(M)) and (carriers of N(M), f(M)) (known findings apart)",
                       not unexplained and bool(incl_cases), f"{len(bad)} rejected of {len(incl_cases)}, {len(unexplained)} outside the known findings")
    ctx.cover(seconds_real_code=round(t_api, 1), seconds_coq_eval=round(time.time() - t_coq0, 1))
    ctx.cover(models=len(models), api_calls=sum(api_counts.values()), api_calls_by_name=dict(sorted(api_counts.items())), alike=n_alike,
              alike_after_normalisation_only=n_norm_only, inert_bit_equal=n_inert_equal, inclusion_checks_coq=len(incl_cases), inclusion_checks_python_twin=twin["n"],
              effect_cases=len(eff_cases), element_types=len(elem_seen), disciplines={k: v for k, v in disc.items() if k != "forwarding"},
              generator="kinds inert/active/functions/replace; initializers of every ONNX element type (26 incl. STRING) built field by field with "
                        "NaN payloads, -0.0, subnormals, raw and typed encodings, zero-size and scalar shapes, external-data references; "
                        "doc_string and metadata_props on model, graph, nodes, inputs/outputs, value_info, tensors, functions")
    ctx.obligation("generator: all 26 element types occurred", len(elem_seen) >= 26, f"{len(elem_seen)}")
    os.chdir(tempfile.mkdtemp(prefix="osverif-c15-"))
    try:
        with open("weights.bin", "wb") as fh:
            fh.write(bytes(range(256)) * 32)
        forwarding_stream(ctx, disc, models, rules_some)
    finally:
        shutil.rmtree(os.getcwd(), ignore_errors=True)
        os.chdir(cwd)
    packing_stream(ctx)
    if ctx.tier == "thorough":
        ctx.coqchk(["Props.C15"])


def lost_key(what, d):
    cls = _diff_class(d)
    who = what.split(":")[-1] if ":" in what else "serde"
    if cls == "tensor-metadata_props" and who == "serde":
        return "C15:serde:tensor-metadata_props-duplicated"
    if who.startswith("convert_version") and who.endswith("fallback_True") and cls in ("graph/metadata_props", "node/metadata_props",
                                                                                         "node_by_name/metadata_props"):
        return "C15:convert_version:c-api-fallback-drops-metadata_props"
    return f"C15:{_api_family(who)}:field-lost:{cls}"


def _is_known(ctx, meta):
    what, info, ta, tb, rep, _ = meta
    keys = {lost_key(what, [x]) for x in gm.py_includes(ta, tb)}
    return all(any(f["key"] == key and f.get("status") == "known" for f in ctx.findings) for key in keys)


def _diff_class(d):
    """Class of the first difference: the innermost carrier on its path + the field."""
    if not d:
        return "unknown"
    p = [str(x) for x in d[0]]
    if "metadata_props" in p and ("initializer" in p or "t" in p or "tensors" in p):
        return "tensor-metadata_props"
    if "external_data" in p and "checksum" in p:
        return "external_data/checksum"
    if "training_info" in p:
        return "model/training_info"
    carrier = next((c for c in ("initializer", "value_info", "functions", "node", "node_by_name", "input", "output", "opset_import", "graph")
                    if c in p), "model")
    field = next((f for f in ("sparse_initializer", "quantization_annotation", "configuration", "device_configurations", "opaque_type", "map_type",
                              "sparse_tensor_type", "sequence_type", "optional_type", "denotation", "metadata_props", "doc_string", "payload", "string_data", "external_data", "data_location", "dims", "data_type",
                              "attribute", "type", "ir_version", "producer_name", "producer_version", "domain", "model_version", "name")
                  if f in p), p[-3] if len(p) >= 3 else p[0])
    return f"{carrier}/{field}"


def packing_stream(ctx):
    """pack4/unpack4/pack2/unpack2 (Coq) against onnx_ir for every length 0..9 (all nibble / crumb values occur)."""
    import ml_dtypes
    import onnx
    from onnxscript import ir
    rng = ctx.rng
    cases = []
    reps = 3 if ctx.tier == "quick" else 12
    for n in range(0, 10):
        for rep in range(reps):
            for bits, udt, sdt, uname, sname, edt_u, edt_s in (
                    (4, ml_dtypes.uint4, ml_dtypes.int4, "pack4", "unpack4", onnx.TensorProto.UINT4, onnx.TensorProto.INT4),
                    (2, ml_dtypes.uint2, ml_dtypes.int2, "pack2", "unpack2", onnx.TensorProto.UINT2, onnx.TensorProto.INT2)):
                hi = 1 << bits
                if rep == 0:
                    vals = [(i * 7 + n) % hi for i in range(n)]
                else:
                    vals = [rng.randrange(hi) for _ in range(n)]
                svals = [v - hi if v >= hi // 2 else v for v in vals]
                # pack: unsigned and signed arrays
                pu = ir.tensor(np.array(vals, dtype=np.uint8).astype(udt)).tobytes()
                ps = ir.tensor(np.array(svals, dtype=np.int8).astype(sdt)).tobytes()
                zl = lambda l: "[" + ";".join(f"({x})" if x < 0 else str(x) for x in l) + "]"  # noqa: E731
                cases.append(f"zs_eqb ({uname} {zl(vals)}) {zl(list(pu))}")
                cases.append(f"zs_eqb ({uname} {zl(svals)}) {zl(list(ps))}")
                # unpack: through a TensorProto with raw_data
                for edt, want, sext in ((edt_u, vals, None), (edt_s, svals, "sext4" if bits == 4 else "sext2")):
                    tp = onnx.TensorProto()
                    tp.data_type = edt
                    tp.dims.append(n)
                    tp.raw_data = pu
                    got = [int(x) for x in ir.serde.TensorProtoTensor(tp).numpy().astype(np.int8).ravel()]
                    lhs = f"{sname} {n} {zl(list(pu))}"
                    if sext:
                        lhs = f"map {sext} ({lhs})"
                    cases.append(f"zs_eqb ({lhs}) {zl(got)}")
                    if got != want:
                        ctx.violation(f"C15:packing:{bits}bit-roundtrip", f"{n} elements {want}: onnx_ir reads back {got}", {"values": want, "bits": bits})
                ctx.case(("packing", bits, n % 4, n == 0))
    # ---- FLOAT4E2M1 (4-bit codec on bit patterns), 16-bit and 8-bit element types: tobytes of an ir.Tensor, raw_data and int32_data
    # of a TensorProto read back by onnx_ir, for every length 0..9
    wide = [("FLOAT4E2M1", 4, ml_dtypes.float4_e2m1fn), ("BFLOAT16", 16, ml_dtypes.bfloat16), ("FLOAT16", 16, np.float16),
            ("UINT16", 16, np.uint16), ("INT16", 16, np.int16),
            ("FLOAT8E4M3FN", 8, ml_dtypes.float8_e4m3fn), ("FLOAT8E4M3FNUZ", 8, ml_dtypes.float8_e4m3fnuz), ("FLOAT8E5M2", 8, ml_dtypes.float8_e5m2),
            ("FLOAT8E5M2FNUZ", 8, ml_dtypes.float8_e5m2fnuz), ("FLOAT8E8M0", 8, ml_dtypes.float8_e8m0fnu), ("UINT8", 8, np.uint8), ("INT8", 8, np.int8)]
    zl = lambda l: "[" + ";".join(f"({x})" if x < 0 else str(x) for x in l) + "]"  # noqa: E731
    n_wide = 0
    for name, bits, npdt in wide:
        edt = getattr(onnx.TensorProto, name)
        store = {4: np.uint8, 8: np.uint8, 16: np.uint16}[bits]
        odd = gm.ODD.get(name, [])
        for n in range(0, 10):
            for rep in range(2 if ctx.tier == "quick" else 6):
                pats = [(rng.choice(odd) if odd and rng.random() < 0.6 else rng.getrandbits(bits)) for _ in range(n)]
                arr = np.array(pats, dtype=store).view(npdt) if n else np.zeros((0,), dtype=store).view(npdt)
                try:
                    tb = ir.Tensor(arr, dtype=ir.DataType(edt)).tobytes()
                except Exception as e:  # noqa: BLE001
                    ctx.violation(f"C15:packing:{name}:tobytes-raises", f"ir.Tensor({name}, {n} elements).tobytes raised {e!r}", {"patterns": pats})
                    continue
                enc = {4: "pack4", 8: "enc8", 16: "enc16"}[bits]
                cases.append(f"zs_eqb ({enc} {zl(pats)}) {zl(list(tb))}")
                # raw_data read back
                tp = onnx.TensorProto()
                tp.data_type = edt
                tp.dims.append(n)
                tp.raw_data = tb
                t_raw = ir.serde.TensorProtoTensor(tp)
                got = [int(x) for x in t_raw.numpy().view(store).ravel()]
                dec = {4: f"unpack4 {n}", 8: "dec8", 16: "dec16"}[bits]
                cases.append(f"zs_eqb ({dec} {zl(list(tb))}) {zl(got)}")
                if got != pats or t_raw.tobytes() != tb:
                    ctx.violation(f"C15:packing:{name}:roundtrip", f"{n} elements of {name} with bit patterns {pats}: onnx_ir reads back {got}",
                                  {"patterns": pats, "element_type": name})
                # the int32_data carrier: one int32 per element (16/8 bit; sign-extended for INT16/INT8), one per packed byte (4 bit)
                tq = onnx.TensorProto()
                tq.data_type = edt
                tq.dims.append(n)
                if bits == 4:
                    ints = list(tb)
                elif name in ("INT16", "INT8"):
                    ints = [p - (1 << bits) if p >> (bits - 1) else p for p in pats]
                else:
                    ints = list(pats)
                tq.int32_data.extend(ints)
                t_i32 = ir.serde.TensorProtoTensor(tq)
                got_b = list(t_i32.tobytes())
                got_e = [int(x) for x in t_i32.numpy().view(store).ravel()] if n else []
                cases.append(f"zs_eqb ({'int32_to_bytes16' if bits == 16 else 'int32_to_bytes8'} {zl(ints)}) {zl(got_b)}")
                if bits == 4:
                    cases.append(f"zs_eqb (unpack4 {n} (int32_to_bytes8 {zl(ints)})) {zl(got_e)}")
                else:
                    cases.append(f"zs_eqb ({'int32_to_elems16' if bits == 16 else 'int32_to_elems8'} {zl(ints)}) {zl(got_e)}")
                if n and (got_b != list(tb) or got_e != pats):
                    ctx.violation(f"C15:packing:{name}:int32_data-roundtrip", f"{n} elements of {name} carried in int32_data {ints}: onnx_ir gives bytes "
                                  f"{got_b} / elements {got_e}, expected {list(tb)} / {pats}", {"patterns": pats, "element_type": name})
                n_wide += 1
                ctx.case(("packing", name, n % 2, n == 0))
    ctx.cover(packing_wide_cases=n_wide)
    bad = eval_bools(ctx, ["OV.Serde.Packing"], "Open Scope Z_scope.\n", cases, "packing", shard=600)
    if bad is not None:
        for i in sorted(bad)[:5]:
            ctx.tie_broken("correspondence", "packing", f"case {cases[i][:200]}: onnx_ir bytes differ from the Coq codec")
        ctx.obligation("correspondence: pack/unpack of 4-bit (INT4, UINT4, FLOAT4E2M1) and 2-bit tensors, byte codecs of the 16-bit (BFLOAT16, FLOAT16, "
                       "INT16, UINT16) and 8-bit (five float8 variants, INT8, UINT8) element types incl. the int32_data carrier, lengths 0..9 = Serde/Packing.v",
                       not bad, f"{len(bad)} of {len(cases)}")
    ctx.cover(packing_cases=len(cases))
