(* C13: the reserved-placeholder variant of the emission (repair C13_15; Export/Placeholders.v).  Statements only.

   As read the exporter prints an omitted node output at index i as the fixed text `_<i>`; a value literally called `_<i>`
   is then overwritten (Props/C13_findings.v, the C13_placeholder_collision theorems).  Repaired, the text comes from the pool of the
   unique-name mapper.  The model of the repaired variant is a transformation in front of the unchanged emission functions
   (`ph_graph`: the omitted output becomes a pseudo value whose proposed Python name is `_<i>`), so every emission theorem
   applies to it unchanged, and:
     C13_reserved_placeholders_free   the hypothesis placeholders_freeb of C13_export_straightline_sound_partial holds by
                                      construction for every straight-line graph and every renamer
     C13_reserved_placeholder_example the two orders of the finding's witness: a value `_1` named first (the placeholder is
                                      printed `_1_0`) and the placeholder first (the value is printed `_1_0`); in both every
                                      hypothesis of the soundness theorem (emit_okb) holds, while the as-read hypothesis fails
   The harness decides by probe which variant the implementation is and compares the printed programs with that variant. *)
From Coq Require Import List String ZArith Bool.
Import ListNotations.
Require Import OV.Gen.ExportTables OV.Export.Cleanup OV.Graph.Syntax OV.Script.Syntax OV.Export.Emit OV.Export.Unique
               OV.Export.Placeholders OV.Export.PlaceholdersProofs.
Local Open Scope string_scope.

Theorem C13_reserved_placeholders_free : forall rename g,
  forallb plain_node (g_nodes g) = true -> placeholders_freeb rename (ph_graph g) = true.
Proof. exact reserved_placeholders_free. Qed.
Print Assumptions C13_reserved_placeholders_free.

Theorem C13_reserved_placeholder_example :
  option_map f_body (export_graph kwlist ren_value_first ren_value_first "g" [] (ph_graph g_ph_value_first)) =
    Some [SAssign "_1" (ECall (COp "Neg") [Some (EVar "x")] []); STuple ["d"; "_1_0"] (ECall (COp "Dropout") [Some (EVar "x")] []);
          SAssign "y" (ECall (COp "Add") [Some (EVar "_1"); Some (EVar "d")] []); SReturn [EVar "y"]] /\
  emit_okb kwlist ren_value_first ren_value_first [] (ph_graph g_ph_value_first) = true /\
  option_map f_body (export_graph kwlist ren_placeholder_first ren_placeholder_first "g" [] (ph_graph g_ph_placeholder_first)) =
    Some [STuple ["d"; "_1"] (ECall (COp "Dropout") [Some (EVar "x")] []); SAssign "_1_0" (ECall (COp "Neg") [Some (EVar "x")] []);
          SAssign "y" (ECall (COp "Add") [Some (EVar "_1_0"); Some (EVar "d")] []); SReturn [EVar "y"]] /\
  emit_okb kwlist ren_placeholder_first ren_placeholder_first [] (ph_graph g_ph_placeholder_first) = true /\
  placeholders_freeb (cleanup kwlist) g_ph_value_first = false.
Proof. exact reserved_placeholder_example. Qed.
Print Assumptions C13_reserved_placeholder_example.
